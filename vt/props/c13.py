"""C13 -- beam search returns feasible, correctly scored, distinct beams.

Proof obligations: coq/theories/Properties/C13.v (unbounded theorems about the model Decoding/Beam.v of
rl4co.utils.decoding.BeamSearch as driven by ConstructivePolicy.forward: invariant "the code's bookkeeping
(actions / beam_path / parent_beam_logprobs) describes the ghost history of the state sitting in each row",
top-w selection, distinctness, feasibility / no assert under no-dead-end, best-beam selection, score = sum).

Correspondence (every run): the real `policy(td, env, decode_type="beam_search", beam_width=w, select_best=..)`
is executed (a) with a stub decoder whose logits are hash-derived integers * ln 2 -- a function of the row's own
instance data and state -- plugged into the real AttentionModelPolicy / BeamSearch / env machinery, and (b) with
the real AttentionModelPolicy (random weights).  A ghost key rides inside the TensorDict (it is moved by
td[batch_beam_idx] and env.step exactly like the state it belongs to) and records, for every row and step, the
TRUE history of the state in that row; masks / done flags / decoder outputs seen during the run are tabulated by
(instance, history).  The Gallina model is run inside Coq on that table (Harness/HC13.v: instance Q = exact
probabilities in Qc for the stub, instance Z = exact scaled float32 log-probabilities for the real policy) and
must reproduce, step by step, the (instance, history) of every row, and the returned actions, scores and rewards.
Cases with a tie / near tie between candidate scores are not compared in Coq (codes 8/9: torch.topk may keep another of the
equal candidates than the model's tie rule, after which the runs legitimately differ); for them only the spec-on-impl applies.

Spec-on-impl (every run, directly on what the implementation did and returned): every returned beam is replayed
through the real environment (every action inside the mask, episode finished, check_solution_validity accepts),
its score is recomputed along that very sequence (stub: exact; real policy: evaluate mode), beams of an instance
are pairwise distinct when their forced first moves are, the rows kept at every step are the w best expansions of
the instance's own previous rows (recomputed from the recorded log-probabilities), the history of the final state
in row r is the returned sequence of row r, select_best returns the maximum over the instance's own beams.
A failing input is reported through ctx.failure(signature, replay)."""
import hashlib
import math
import time
import traceback
from fractions import Fraction

from vt.common import Ctx, cq, cz, cnat, cnatlist, cboollist, clist, coq_eval_shards

HEADER = ("From Coq Require Import List ZArith QArith.\nFrom RL4CO Require Import Harness.HC13.\n"
          "Import ListNotations.\nOpen Scope Q_scope.\n")
LN2 = math.log(2.0)
GL = 96                      # capacity of the ghost history
FUEL = 200
RSCALE = 60                  # rewards travel as value * 2^60
LSCALE = 80                  # log-probabilities of the real policy travel as value * 2^80
RTOL = (1 << RSCALE) // 10 ** 6

SIG_OP_START = "beam_search/op: forced-first-move-outside-reset-mask (select_start_nodes)"


def sig(mech):
    return "beam_search: %s" % mech


# ----------------------------------------------------------------------------------------------- stub decoder
def row_digest(td, r, keys):
    h = hashlib.sha256()
    for k in keys:
        v = td[k][r]
        h.update(k.encode())
        h.update(v.contiguous().numpy().tobytes())
    return h.digest()


def digest_keys(td):
    """instance identity (locs) + every non-float key of the row's dynamic state"""
    skip = {"ghost", "ghost_n", "action", "done", "terminated", "reward"}
    ks = []
    for k in sorted(td.keys()):
        if k in skip or not isinstance(k, str):
            continue
        v = td[k]
        if not hasattr(v, "dtype"):
            continue
        if k == "locs" or not v.dtype.is_floating_point:
            ks.append(k)
    return ks


def stub_ints(salt, dig, N, lmax):
    """lmax > 0: N pairwise distinct integers from [-lmax, lmax] (no ties inside a row; needs 2*lmax+1 >= N);
    lmax < 0: independent integers from [lmax, -lmax] (ties inside a row are frequent)"""
    def word(tag):
        return int.from_bytes(hashlib.sha256(salt + dig + tag).digest()[:6], "big")
    if lmax < 0 or 2 * lmax + 1 < N:
        m = abs(lmax)
        return [word(bytes([n])) % (2 * m + 1) - m for n in range(N)]
    pool = list(range(-lmax, lmax + 1))
    out = []
    for n in range(N):
        out.append(pool.pop(word(bytes([n])) % len(pool)))
    return out


def make_stub(torch, salt, lmax, rec):
    class StubDecoder(torch.nn.Module):
        def forward(self, td, hidden=None, num_starts=0):
            mask = td["action_mask"]
            R, N = mask.shape
            keys = digest_keys(td)
            z = [stub_ints(salt, row_digest(td, r, keys), N, lmax) for r in range(R)]
            if rec is not None:
                rec.on_decoder_call(td, z)
            return torch.tensor(z, dtype=torch.float32) * LN2, mask

        def pre_decoder_hook(self, td, env, hidden, num_starts=0):
            return td, env, hidden
    return StubDecoder()


def stub_logp(z, mask, top_k):
    """exact description of the distribution the stub induces (float64 log-probabilities; None = -inf)"""
    N = len(z)
    feas = [n for n in range(N) if mask[n]]
    kept = list(feas)
    if top_k > 0:
        k = min(top_k, N)
        vals = sorted([z[n] for n in feas], reverse=True)
        if len(vals) >= k:
            kth = vals[k - 1]
            kept = [n for n in feas if z[n] >= kth]
    zmax = max(z[n] for n in kept)
    tot = sum(Fraction(2) ** (z[n] - zmax) for n in kept)
    lt = math.log(float(tot))
    return [((z[n] - zmax) * LN2 - lt) if n in kept else None for n in range(N)]


# ----------------------------------------------------------------------------------------------- recording
class Rec:
    def __init__(self, torch, ids):
        self.torch = torch
        self.ids = ids                 # locs bytes -> instance index
        self.calls = []                # per decoder call: dict(inst, ghost, mask, done, z)
        self.lp = []                   # process_logits outputs
        self.final = None
        self.ghost_lost = False

    def rows_of(self, td):
        R = td.batch_size[0]
        if "ghost" not in td.keys():
            self.ghost_lost = True
            return None
        g, n = td["ghost"], td["ghost_n"]
        inst = [self.ids.get(td["locs"][r].contiguous().numpy().tobytes(), 4999) for r in range(R)]
        ghost = [g[r, : int(n[r])].tolist() for r in range(R)]
        mask = [[bool(v) for v in row] for row in td["action_mask"].tolist()]
        done = [bool(v) for v in td["done"].reshape(R, -1)[:, 0].tolist()]
        return dict(inst=inst, ghost=ghost, mask=mask, done=done)

    def on_decoder_call(self, td, z=None):
        d = self.rows_of(td)
        if d is None:
            return
        d["z"] = z
        self.calls.append(d)


class Instrument:
    """wraps env.step (ghost + final td), process_logits (recorded log-probabilities), the decoder (ghost snapshot)"""

    def __init__(self, torch, env, policy, rec, stub):
        import rl4co.utils.decoding as D
        self.D, self.env, self.policy, self.rec, self.torch = D, env, policy, rec, torch
        self.stub = stub

    def __enter__(self):
        torch, rec, env = self.torch, self.rec, self.env
        self.orig_pl = self.D.process_logits
        orig_pl = self.orig_pl

        def pl_wrap(logits, mask=None, *a, **kw):
            out = orig_pl(logits, mask, *a, **kw)
            rec.lp.append(out.detach().clone())
            return out
        self.D.process_logits = pl_wrap
        orig_step = env.step

        def step_wrap(td):
            act = td["action"].clone()
            out = orig_step(td)
            nxt = out["next"]
            if "ghost" in nxt.keys():
                g, n = nxt["ghost"].clone(), nxt["ghost_n"].clone()
                g[torch.arange(g.shape[0]), n] = act
                nxt.set("ghost", g)
                nxt.set("ghost_n", n + 1)
            else:
                rec.ghost_lost = True
            rec.final = nxt
            return out
        env.step = step_wrap
        self.hook = None
        if not self.stub:
            self.hook = self.policy.decoder.register_forward_pre_hook(lambda mod, args: rec.on_decoder_call(args[0]))
        return self

    def __exit__(self, *exc):
        self.D.process_logits = self.orig_pl
        del self.env.step
        if self.hook is not None:
            self.hook.remove()
        return False


# ----------------------------------------------------------------------------------------------- Coq literals
def cnl(xs):
    return cnatlist(xs)


def cnll(xss):
    return clist(cnl(x) for x in xss)


def coptz(v):
    return "None" if v is None else "Some %s" % cz(v)


def scaled(x, bits):
    f = Fraction(float(x)) * (1 << bits)
    return int(f) if f.denominator == 1 else None


def float_list(t):
    return [float(v) for v in t.reshape(-1).tolist()]


# ----------------------------------------------------------------------------------------------- one case
ENVS = {}


def get_env(name, num_loc):
    key = (name, num_loc)
    if key not in ENVS:
        import logging
        from rl4co.envs import CVRPEnv, OPEnv, PCTSPEnv, PDPEnv, SDVRPEnv, TSPEnv
        cls = {"tsp": TSPEnv, "pdp": PDPEnv, "cvrp": CVRPEnv, "op": OPEnv, "pctsp": PCTSPEnv, "sdvrp": SDVRPEnv}[name]
        logging.getLogger("rl4co").setLevel(logging.ERROR)
        ENVS[key] = cls(generator_params=dict(num_loc=num_loc), check_solution=False)
    return ENVS[key]


POLICIES = {}


def get_policy(torch, name, seed):
    from rl4co.models.zoo.am import AttentionModelPolicy
    key = (name, seed)
    if key not in POLICIES:
        st = torch.get_rng_state()
        torch.manual_seed(seed)
        pol = AttentionModelPolicy(env_name=name, embed_dim=16, num_encoder_layers=1, num_heads=2, feedforward_hidden=16)
        pol.eval()
        torch.set_rng_state(st)
        POLICIES[key] = pol
    return POLICIES[key]


def data_to_json(data):
    return {k: {"shape": list(v.shape), "dtype": str(v.dtype), "values": v.reshape(-1).tolist()}
            for k, v in data.items() if isinstance(k, str)}


def data_from_json(torch, TensorDict, obj, B):
    d = {}
    for k, e in obj.items():
        dt = getattr(torch, e["dtype"].split(".")[-1])
        d[k] = torch.tensor(e["values"], dtype=dt).reshape(e["shape"])
    return TensorDict(d, batch_size=[B])


def run_impl(torch, cfg, data):
    """execute the real policy on the case; returns (rec, out | None, exception text | None, td0)"""
    env = get_env(cfg["env"], cfg["num_loc"])
    td0 = env.reset(data.clone())
    B = td0.batch_size[0]
    ids = {td0["locs"][b].contiguous().numpy().tobytes(): b for b in range(B)}
    rec = Rec(torch, ids)
    stub = cfg["decoder"] == "stub"
    pol = get_policy(torch, cfg["env"], cfg.get("policy_seed", 1))
    real_dec = pol.decoder
    if stub:
        pol.decoder = make_stub(torch, cfg["salt"].encode(), cfg["lmax"], rec)
    td = td0.clone()
    td.set("ghost", torch.zeros(B, GL, dtype=torch.int64))
    td.set("ghost_n", torch.zeros(B, dtype=torch.int64))
    kw = dict(decode_type="beam_search", beam_width=cfg["W"], select_best=cfg["select_best"])
    if stub:
        kw.update(tanh_clipping=0, temperature=1.0, top_k=cfg.get("top_k", 0))
    out, err = None, None
    try:
        with torch.no_grad(), Instrument(torch, env, pol, rec, stub):
            out = pol(td, env, phase="test", **kw)
    except Exception as e:      # noqa: BLE001
        err = "%s: %s" % (type(e).__name__, str(e)[:200])
    finally:
        pol.decoder = real_dec
    return rec, out, err, td0, env, pol


def build_table(torch, cfg, rec, env, N):
    """(instance, history) -> (mask, done, decoder data); None if the recorded rows contradict each other"""
    stub = cfg["decoder"] == "stub"
    tab = {}
    bad = None
    unrep = 0

    def put(b, h, m, d, x):
        nonlocal bad
        key = (b, tuple(h))
        if key in tab:
            if tab[key][0] != m or tab[key][1] != d or (x is not None and tab[key][2] is not None and tab[key][2] != x):
                bad = {"instance": b, "history": list(h), "first": [tab[key][0], tab[key][1]], "second": [m, d]}
            if tab[key][2] is None and x is not None:
                tab[key] = (m, d, x)
        else:
            tab[key] = (m, d, x)

    for t, c in enumerate(rec.calls):
        R = len(c["inst"])
        for r in range(R):
            if stub:
                x = tuple(c["z"][r])
            else:
                if t >= len(rec.lp):
                    x = None
                else:
                    vals = []
                    for v in rec.lp[t][r].tolist():
                        if v == -math.inf:
                            vals.append(None)
                        else:
                            s = scaled(v, LSCALE)
                            if s is None or math.isnan(v):
                                unrep += 1
                                s = 0
                            vals.append(s)
                    x = tuple(vals)
            put(c["inst"][r], c["ghost"][r], tuple(c["mask"][r]), c["done"][r], x)
    fin = rec.rows_of(rec.final) if rec.final is not None else None
    if fin is not None:
        for r in range(len(fin["inst"])):
            put(fin["inst"][r], fin["ghost"][r], tuple(fin["mask"][r]), fin["done"][r], None)
    return tab, fin, bad, unrep


def coq_case(cfg, B, N, tab, rewards, starts, raised, ghosts, actions, ll, reward):
    stub = cfg["decoder"] == "stub"
    insts = []
    for b in range(B):
        ents = []
        for (bb, h), (m, d, x) in tab.items():
            if bb != b:
                continue
            if x is None:
                x = tuple([0] * N) if stub else tuple([None] * N)
            data = clist(cz(v) for v in x) if stub else clist(coptz(v) for v in x)
            ents.append("(%s, (%s, %s, %s))" % (cnl(h), cboollist(m), "true" if d else "false", data))
        rw = clist("(%s, %s)" % (cnl(h), cz(v)) for (bb, h), v in rewards.items() if bb == b)
        insts.append("mkT %s %s %s" % (cnat(b), clist(ents), rw))
    X = "(list Z)" if stub else "(list (option Z))"
    return "mkC %s %s %s %s %s %s %s %s %s %s %s %s" % (
        X, cnat(cfg["W"]), "true" if cfg["select_best"] else "false", cnat(FUEL), clist(insts), cnl(starts),
        "true" if raised else "false", clist(cnll(g) for g in ghosts), cnll(actions), clist(cq(q) for q in ll),
        clist(cz(v) for v in reward), cz(RTOL))


def replay_beams(torch, env, data, inst_ids, beams):
    """the beams replayed through the real environment, one row each (no beam-search machinery involved)"""
    idx = torch.tensor(inst_ids, dtype=torch.int64)
    td = env.reset(data[idx].clone())
    acts = torch.tensor(beams, dtype=torch.int64)
    R, T = acts.shape
    admitted, states = [], []
    for t in range(T):
        m = td["action_mask"]
        a = acts[:, t]
        inr = (a >= 0) & (a < m.shape[1])
        admitted.append((m.gather(1, a.clamp(0, m.shape[1] - 1).unsqueeze(1)).squeeze(1) & inr).tolist())
        states.append(td.clone())
        td.set("action", a)
        td = env.step(td)["next"]
    done = [bool(v) for v in td["done"].reshape(R, -1)[:, 0].tolist()]
    valid = []
    for r in range(R):
        try:
            env.check_solution_validity(td[r:r + 1], acts[r:r + 1])
            valid.append(None)
        except Exception as e:      # noqa: BLE001
            valid.append("%s: %s" % (type(e).__name__, str(e)[:120]))
    try:
        reward = [float(v) for v in env.get_reward(td, acts).reshape(-1).tolist()]
    except Exception as e:      # noqa: BLE001
        reward = None
    adm = [[bool(admitted[t][r]) for t in range(T)] for r in range(R)]
    return dict(admitted=adm, done=done, valid=valid, reward=reward, states=states, final=td)


def close(a, b, tol):
    return abs(a - b) <= tol * (1.0 + abs(a) + abs(b))


def spec_on_impl(torch, cfg, data, td0, env, pol, rec, out, fin):
    """the property itself, evaluated on what the implementation did; returns [(signature, detail dict)]"""
    fails = []
    B = td0.batch_size[0]
    W, sb = cfg["W"], cfg["select_best"]
    stub = cfg["decoder"] == "stub"
    acts = out["actions"]
    beams = [[int(v) for v in row] for row in acts.tolist()]
    ll = float_list(out["log_likelihood"])
    rew = float_list(out["reward"])
    nrows = len(beams)
    if nrows != (B if sb else B * W):
        fails.append((sig("wrong-number-of-returned-rows"), {"rows": nrows}))
        return fails
    inst_of = [r % B for r in range(nrows)]
    starts = [c for c in rec.calls[0]["ghost"]] if rec.calls else []
    # ---- (a) feasibility of every returned beam, (g) its reward
    rp = replay_beams(torch, env, data, inst_of, beams)
    for r in range(nrows):
        bad_t = [t for t, ok in enumerate(rp["admitted"][r]) if not ok]
        if bad_t:
            first = bad_t[0]
            if first == 0 and cfg["env"] == "op":
                fails.append((SIG_OP_START, {"row": r, "instance": inst_of[r], "beam": beams[r], "step": 0}))
            elif first == 0:
                fails.append((sig("forced-first-move-outside-reset-mask"), {"row": r, "instance": inst_of[r], "beam": beams[r]}))
            else:
                fails.append((sig("returned-beam-takes-a-masked-action"), {"row": r, "instance": inst_of[r], "beam": beams[r], "step": first}))
        elif not rp["done"][r]:
            fails.append((sig("returned-beam-is-not-a-finished-episode"), {"row": r, "instance": inst_of[r], "beam": beams[r]}))
        elif rp["valid"][r] is not None:
            fails.append((sig("returned-beam-rejected-by-check_solution_validity"), {"row": r, "instance": inst_of[r], "beam": beams[r], "checker": rp["valid"][r]}))
        if rp["reward"] is not None and not close(rew[r], rp["reward"][r], 1e-5):
            fails.append((sig("returned-reward-is-not-the-reward-of-the-returned-actions-on-the-instance"),
                          {"row": r, "instance": inst_of[r], "beam": beams[r], "returned": rew[r], "recomputed": rp["reward"][r]}))
    # ---- (b) score = sum of the step log-probabilities along that very sequence
    T = len(beams[0])
    if stub:
        keys = None
        for r in range(nrows):
            tot, ok = 0.0, True
            for t in range(1, T):
                st = rp["states"][t]
                if keys is None:
                    keys = digest_keys(st)
                m = [bool(v) for v in st["action_mask"][r].tolist()]
                if not any(m):
                    ok = False
                    break
                z = stub_ints(cfg["salt"].encode(), row_digest(st, r, keys), len(m), cfg["lmax"])
                lp = stub_logp(z, m, cfg.get("top_k", 0))[beams[r][t]]
                if lp is None:
                    ok = False
                    break
                tot += lp
            if ok and not close(ll[r], tot, 2e-5):
                fails.append((sig("returned-log-likelihood-is-not-the-sum-of-step-log-probabilities-of-the-returned-sequence"),
                              {"row": r, "instance": inst_of[r], "beam": beams[r], "returned": ll[r], "recomputed": tot}))
            if not ok and all(rp["admitted"][r]):
                fails.append((sig("returned-beam-has-a-step-of-probability-zero"), {"row": r, "beam": beams[r]}))
    else:
        good = [r for r in range(nrows) if all(rp["admitted"][r])]
        if good:
            try:
                idx = torch.tensor([inst_of[r] for r in good], dtype=torch.int64)
                with torch.no_grad():
                    ev = pol(env.reset(data[idx].clone()), env, phase="test", actions=acts[good].clone(),
                             return_sum_log_likelihood=False, calc_reward=False)
                per = ev["log_likelihood"]
                for k, r in enumerate(good):
                    tot = float(per[k, 1:].sum())
                    if not close(ll[r], tot, 2e-4):
                        fails.append((sig("returned-log-likelihood-is-not-the-sum-of-step-log-probabilities-of-the-returned-sequence"),
                                      {"row": r, "instance": inst_of[r], "beam": beams[r], "returned": ll[r], "recomputed": tot}))
            except Exception as e:      # noqa: BLE001
                fails.append((sig("returned-beam-cannot-be-evaluated-by-the-policy"), {"error": repr(e)[:300]}))
    # ---- (c) distinct beams per instance when the forced first moves are distinct
    if not sb:
        for b in range(B):
            own = [tuple(beams[j * B + b]) for j in range(W)]
            firsts = [s[0] for s in own]
            if len(set(firsts)) == W and len(set(own)) < W:
                fails.append((sig("beams-of-one-instance-not-pairwise-distinct"), {"instance": b, "beams": [list(s) for s in own]}))
    if rec.ghost_lost or not rec.calls:
        return fails
    # ---- (f) the history of the state in final row r is the returned sequence of row r (and the row's instance)
    if fin is not None and not sb:
        for r in range(nrows):
            if fin["inst"][r] != r % B:
                fails.append((sig("final-row-holds-the-state-of-another-instance"), {"row": r, "expected_instance": r % B, "observed_instance": fin["inst"][r]}))
            elif fin["ghost"][r] != beams[r]:
                fails.append((sig("returned-sequence-is-not-the-history-of-the-state-in-its-row"),
                              {"row": r, "instance": r % B, "returned": beams[r], "history_of_state": fin["ghost"][r]}))
    # ---- (d) at every step the kept rows are the W best expansions of the instance's own rows
    score = {}
    for r, (b, h) in enumerate(zip(rec.calls[0]["inst"], rec.calls[0]["ghost"])):
        score[(b, tuple(h))] = 0.0
    nxt_rows = [rec.calls[t + 1] for t in range(len(rec.calls) - 1)] + ([fin] if fin is not None else [])
    for t, c in enumerate(rec.calls):
        if t >= len(rec.lp) or t >= len(nxt_rows):
            break
        R = len(c["inst"])
        lp = rec.lp[t].tolist()
        for r in range(R):
            if c["inst"][r] != r % B:
                fails.append((sig("row-holds-the-state-of-another-instance"), {"step": t, "row": r, "expected_instance": r % B, "observed_instance": c["inst"][r]}))
        nx = nxt_rows[t]
        for b in range(B):
            rows_b = [r for r in range(R) if r % B == b]
            cands = []
            for r in rows_b:
                key = (c["inst"][r], tuple(c["ghost"][r]))
                if key not in score:
                    continue
                for n, v in enumerate(lp[r]):
                    if v != -math.inf and not math.isnan(v):
                        cands.append((score[key] + v, tuple(c["ghost"][r]) + (n,), c["mask"][r][n]))
            cand_by_h = {}
            for s, h, m in cands:
                cand_by_h.setdefault(h, (s, m))
            kept = [tuple(nx["ghost"][r]) for r in range(len(nx["ghost"])) if r % B == b]
            ks = []
            for h in kept:
                if h not in cand_by_h:
                    fails.append((sig("kept-row-is-not-a-finite-expansion-of-a-previous-row-of-its-instance"),
                                  {"step": t, "instance": b, "kept_history": list(h),
                                   "previous_rows": [c["ghost"][r] for r in rows_b]}))
                    continue
                s, m = cand_by_h[h]
                if not m:
                    fails.append((sig("kept-expansion-takes-a-masked-action"), {"step": t, "instance": b, "kept_history": list(h)}))
                ks.append(s)
                score[(b, h)] = s
            if len(ks) == W and len(cands) >= W:
                best = sorted((s for s, _, _ in cands), reverse=True)[:W]
                if any(not close(x, y, 1e-5) for x, y in zip(sorted(ks, reverse=True), best)):
                    fails.append((sig("kept-rows-are-not-the-w-highest-scoring-expansions"),
                                  {"step": t, "instance": b, "kept_scores": sorted(ks, reverse=True), "best_scores": best,
                                   "kept": [list(h) for h in kept]}))
    # ---- (e) select_best: the maximum over the instance's own beams, with that beam's actions and score
    if sb and fin is not None:
        Rf = len(fin["ghost"])
        allb = fin["ghost"]
        rp2 = replay_beams(torch, env, data, [r % B for r in range(Rf)], allb) if len({len(h) for h in allb}) == 1 else None
        if rp2 is not None and rp2["reward"] is not None:
            for b in range(B):
                own = [r for r in range(Rf) if r % B == b]
                best = max(rp2["reward"][r] for r in own)
                if not close(rew[b], best, 1e-5):
                    fails.append((sig("select_best-does-not-return-the-maximum-over-the-instance's-beams"),
                                  {"instance": b, "returned_reward": rew[b], "rewards_of_its_beams": [rp2["reward"][r] for r in own]}))
                elif not any(allb[r] == beams[b] and close(rp2["reward"][r], best, 1e-5) for r in own):
                    fails.append((sig("select_best-returns-actions-that-are-not-the-best-beam's"),
                                  {"instance": b, "returned": beams[b], "beams": [allb[r] for r in own]}))
                else:
                    ok = False
                    for r in own:
                        if allb[r] == beams[b] and (b, tuple(allb[r])) in score and close(ll[b], score[(b, tuple(allb[r]))], 2e-4):
                            ok = True
                    if not ok and all((b, tuple(allb[r])) in score for r in own):
                        fails.append((sig("select_best-returns-a-log-likelihood-that-is-not-the-best-beam's"),
                                      {"instance": b, "returned": ll[b]}))
    return fails


def one_case(torch, cfg, data):
    """runs the implementation, evaluates the spec on it, builds the Coq case. Returns dict."""
    rec, out, err, td0, env, pol = run_impl(torch, cfg, data)
    B = td0.batch_size[0]
    N = td0["action_mask"].shape[1]
    res = {"cfg": cfg, "err": err, "fails": [], "coq": None, "skip": None, "B": B, "N": N}
    tab, fin, bad, unrep = build_table(torch, cfg, rec, env, N)
    res["steps"] = len(rec.calls)
    if out is not None:
        try:
            res["fails"] = spec_on_impl(torch, cfg, data, td0, env, pol, rec, out, fin)
        except Exception:      # noqa: BLE001
            res["fails"] = [(sig("spec-evaluation-crashed"), {"trace": traceback.format_exc()[-600:]})]
        res["T"] = int(out["actions"].shape[1])
        res["beams"] = out["actions"].tolist()
    elif cfg["W"] >= 2 and not rec.ghost_lost:
        # C13_no_assertion_without_dead_ends: with a feasible action in every row the run must not raise
        if all(any(m) for c in rec.calls for m in c["mask"]):
            res["fails"].append((sig("raises-although-no-row-is-in-a-dead-end"),
                                 {"exception": err, "decoder_calls_before_the_exception": len(rec.calls)}))
    if rec.ghost_lost:
        res["skip"] = "ghost key dropped by the environment"
        return res
    if bad is not None:
        res["fails"].append((sig("state-is-not-a-function-of-instance-and-history"), bad))
        return res
    if unrep:
        res["skip"] = "log-probability below 2^-57 (not representable on the 2^-80 grid)"
        return res
    if not rec.calls:
        # raised before the first decoder call (beam width 1): the model must refuse too
        starts = [0] * (cfg["W"] * B)
        tab = {(b, (0,)): (tuple([True] * N), False, None) for b in range(B)}
        res["coq"] = coq_case(cfg, B, N, tab, {}, starts, True, [], [], [], [])
        return res
    starts = [g[0] for g in rec.calls[0]["ghost"]]
    ghosts = [[[i] + g for i, g in zip(c["inst"], c["ghost"])] for c in rec.calls]
    rewards = {}
    if fin is not None:
        ghosts.append([[i] + g for i, g in zip(fin["inst"], fin["ghost"])])
        hs = fin["ghost"]
        if len({len(h) for h in hs}) == 1 and out is not None:
            try:
                rw = env.get_reward(rec.final, torch.tensor(hs, dtype=torch.int64)).reshape(-1).tolist()
                for (b, h, v) in zip(fin["inst"], hs, rw):
                    s = scaled(v, RSCALE)
                    rewards[(b, tuple(h))] = s if s is not None else int(Fraction(float(v)) * (1 << RSCALE))
            except Exception:      # noqa: BLE001
                pass
    if out is None:
        res["coq"] = coq_case(cfg, B, N, tab, rewards, starts, True, ghosts, [], [], [])
        return res
    stub = cfg["decoder"] == "stub"
    ll = float_list(out["log_likelihood"])
    if stub:
        llq = [Fraction(math.exp(v)) if v > -700 else Fraction(0) for v in ll]
    else:
        llq = [Fraction(v) for v in ll]
    rw = [int(Fraction(v) * (1 << RSCALE)) for v in float_list(out["reward"])]
    res["coq"] = coq_case(cfg, B, N, tab, rewards, starts, False, ghosts, out["actions"].tolist(), llq, rw)
    return res


# ----------------------------------------------------------------------------------------------- the check
def gen_configs(rng, tier):
    thorough = tier == "thorough"
    cfgs = []
    sizes = {"tsp": [4, 6], "pdp": [4, 6], "cvrp": [4, 6], "op": [5], "pctsp": [5], "sdvrp": [4]}
    if thorough:
        sizes = {"tsp": [4, 6, 9], "pdp": [4, 6, 8], "cvrp": [4, 6, 8], "op": [5, 7], "pctsp": [5, 7], "sdvrp": [4, 6]}
    k = 0
    for name, ns in sizes.items():
        for num_loc in ns:
            N = num_loc if name == "tsp" else num_loc + 1
            nstart = num_loc // 2 if name == "pdp" else num_loc          # number of distinct forced starts available
            widths = list(range(1, nstart + 2))
            for W in widths:
                reps = 3 if thorough else 1
                for rep in range(reps):
                    for sb in (False, True):
                        B = rng.choice([1, 2, 3, 4]) if W > 1 else 1
                        if not thorough and W * B > 18:
                            B = max(1, 18 // W)
                        lmax = rng.choice([6, 6, 8, 8, 10, 10, 6, -2])
                        top_k = rng.choice([0, 0, 0, 3, 4]) if W > 1 else 0
                        k += 1
                        cfgs.append(dict(env=name, num_loc=num_loc, B=B, W=W, select_best=sb, decoder="stub",
                                         salt="s%d-%d" % (rng.randrange(10 ** 6), k), lmax=lmax, top_k=top_k))
            # the real policy: fewer widths
            for W in sorted({2, 3, max(2, nstart // 2), nstart} | ({4, nstart + 1} if thorough else set())):
                for sb in (False, True):
                    B = rng.choice([1, 2, 3]) if not thorough else rng.choice([1, 2, 3, 4])
                    cfgs.append(dict(env=name, num_loc=num_loc, B=B, W=W, select_best=sb, decoder="am", policy_seed=rng.randrange(1, 4)))
    return cfgs


def corpus_cases(torch, TensorDict):
    """hand-made instances that run first: the OP instance behind the recorded finding (nodes 1 and 2 are out of reach at
    reset -- round trip 2.4 > max_length 2.0 -- while 3, 4, 5 are reachable, so no resampling happens and beam width 2
    forces the starts 1 and 2)"""
    data = TensorDict({"locs": torch.tensor([[[0.95, 0.95], [0.9, 0.98], [0.15, 0.1], [0.1, 0.2], [0.2, 0.2]]]),
                       "depot": torch.tensor([[0.1, 0.1]]), "prize": torch.ones(1, 5), "max_length": torch.tensor([2.0])},
                      batch_size=[1])
    out = []
    for sb in (False, True):
        out.append((dict(env="op", num_loc=5, B=1, W=2, select_best=sb, decoder="stub", salt="corpus-op", lmax=8, top_k=0), data))
    return out


def run(ctx: Ctx, proofs_ok: bool):
    import logging
    import torch
    torch.set_num_threads(2)
    logging.getLogger("rl4co").setLevel(logging.ERROR)
    rng = ctx.rng
    torch.manual_seed(rng.randrange(2 ** 31))
    t_start = time.time()
    budget = 100 if ctx.tier == "quick" else 900
    ctx.rule = ("cases = env in {tsp, pdp (fixed length), cvrp, op, pctsp, sdvrp (variable length)} x num_loc x beam width 1..N+1 "
                "(1 must be refused; more than the number of available forced starts gives duplicate starts) x select_best x batch size 1..4 "
                "x decoder {stub: hash-derived integer logits * ln2, a function of the row's own (instance data, state): pairwise distinct "
                "inside a row with range +-6/8/10, or independent in +-2 (exact ties on purpose), top_k in {0,3,4}; am: real "
                "AttentionModelPolicy, random weights, tanh clipping 10}; instances from the env generator plus the hand-made OP instance "
                "of the recorded finding; non-trivial = beam width >= 2 and at least 2 decoding steps; distinct by hash of (config, "
                "instance data)")
    ctx.assumptions += [
        "env.step / get_action_mask / get_reward and the decoder are per-row functions of (instance data, state) (C04, C14); "
        "checked on every run: rows with equal (instance, history) must show equal mask / done / decoder output",
        "the forced first moves (env.select_start_nodes) are an input of the model (their layout and feasibility are C12's subject); "
        "the check replays them against the real reset mask",
        "torch.topk's order among exactly equal scores is unspecified: cases with a tie / near tie among the w+1 best candidates of some "
        "instance at some step are excluded from the model comparison (counted as tie_cases); the step-local top-w property is still "
        "evaluated on them (kept scores = w best candidate scores as multisets)",
        "float32 accumulation of log-probabilities is compared with exact arithmetic up to 1e-4; candidate scores closer than "
        "1e-5 (relative, stub) / 5e-5 (absolute, real policy) count as ties",
        "mask_logits=True (default); the -1000 threshold of get_log_likelihood's assertion is modelled as -inf",
        "TensorDict semantics: an extra key is carried through td[idx], batchify and env.step like every other key (the ghost history)",
    ]
    from tensordict import TensorDict
    cfgs = gen_configs(rng, ctx.tier)
    rng.shuffle(cfgs)
    cfgs = [(c, None) for c in cfgs]
    cfgs = corpus_cases(torch, TensorDict) + cfgs
    coq_cases, coq_metas = [], []
    all_fails = []
    n_skip = 0
    for cfg, fixed in cfgs:
        if time.time() - t_start > budget:
            ctx.count("configs_not_run_time_budget")
            continue
        env = get_env(cfg["env"], cfg["num_loc"])
        data = fixed if fixed is not None else env.generator(batch_size=[cfg["B"]])
        if fixed is not None:
            ctx.count("corpus_cases")
        try:
            res = one_case(torch, cfg, data)
        except Exception:      # noqa: BLE001
            ctx.broken.append("C13 harness crashed on %s: %s" % (cfg, traceback.format_exc()[-800:]))
            continue
        meta = dict(cfg)
        meta["N"] = res["N"]
        meta["steps"] = res.get("steps")
        meta["raised"] = res["err"]
        nontriv = cfg["W"] >= 2 and (res.get("steps") or 0) >= 2
        ctx.seen({"cfg": cfg, "data": hashlib.sha1(repr(data_to_json(data)).encode()).hexdigest()}, nontrivial=nontriv)
        ctx.count("env_%s" % cfg["env"])
        ctx.count("decoder_%s" % cfg["decoder"])
        ctx.count("width_%d" % cfg["W"])
        ctx.count("batch_%d" % cfg["B"])
        ctx.count("select_best_%s" % cfg["select_best"])
        if res["err"]:
            ctx.count("impl_raised")
            ctx.count("impl_raised: " + res["err"].split(":")[0] + (": beam width must be larger than 1" if "larger than 1" in res["err"] else ""))
        if cfg["W"] > (cfg["num_loc"] // 2 if cfg["env"] == "pdp" else cfg["num_loc"]):
            ctx.count("duplicate_forced_starts")
        for s, d in res["fails"]:
            all_fails.append((s, d, cfg, data))
        if res["skip"]:
            n_skip += 1
            ctx.count("skipped: " + res["skip"])
            continue
        if res["coq"] is None:
            continue
        wrapped = ("CQ %s (%s)" % (cnat(cfg.get("top_k", 0)), res["coq"])) if cfg["decoder"] == "stub" else "CZ (%s)" % res["coq"]
        coq_cases.append(wrapped)
        coq_metas.append((meta, data))
        if len(ctx.samples) < 3 and nontriv and "beams" in res:
            ctx.sample({"config": cfg, "instance_locs": data["locs"].tolist(), "returned_beams": res["beams"]})
    timing = ctx.extra.setdefault("timing_s", {})
    timing["python"] = round(time.time() - t_start, 1)
    # ---- the model, inside Coq
    t1 = time.time()
    codes_hist = {}
    try:
        codes = coq_eval_shards("cases_C13", HEADER, "anycase", "check_any", coq_cases, shard=max(4, (len(coq_cases) + 3) // 4))
    except RuntimeError as e:
        ctx.broken.append("correspondence C13/beam_search could not be evaluated: %s" % str(e)[-700:])
        codes = None
    if codes is not None:
        for dec in ("stub", "am"):
            sel = [(i, c) for i, c in enumerate(codes) if coq_metas[i][0]["decoder"] == dec]
            bad = [(i, c) for i, c in sel if c not in (0, 8, 9)]
            unit = "beam_search/%s" % ("stub_decoder(Qc)" if dec == "stub" else "attention_model(Z)")
            ctx.units[unit] = {"cases": len(sel), "agree_strict": sum(1 for _, c in sel if c == 0),
                               "tie_cases_not_compared": sum(1 for _, c in sel if c in (8, 9)), "disagreements": len(bad)}
            if bad:
                i, c = bad[0]
                ctx.broken.append("correspondence C13/%s: model and implementation differ on %d case(s); first: code %d on %s" % (
                    unit, len(bad), c, str(coq_metas[i][0])[:400]))
                ctx.extra.setdefault("disagreeing_cases", []).extend({"unit": unit, "code": c, "case": coq_metas[i][0]} for i, c in bad[:5])
        for c in codes:
            codes_hist[c] = codes_hist.get(c, 0) + 1
        ctx.extra["tie_case_configs"] = [{k: v for k, v in coq_metas[i][0].items() if k in ("env", "num_loc", "B", "W", "select_best", "decoder", "lmax", "top_k", "N")}
                                         for i, c in enumerate(codes) if c in (8, 9)][:12]
    timing["coq"] = round(time.time() - t1, 1)
    ctx.extra["result_codes"] = {str(k): v for k, v in sorted(codes_hist.items())}
    ctx.count("tie_cases", codes_hist.get(9, 0) + codes_hist.get(8, 0))
    # ---- decision: every spec failure found on the implementation is a concrete failing input
    by_sig = {}
    for s, d, cfg, data in all_fails:
        size = (cfg["B"] * cfg["W"], cfg["num_loc"])
        if s not in by_sig or size < by_sig[s][0]:
            by_sig[s] = (size, d, cfg, data)
    ctx.extra["spec_on_impl_failures"] = len(all_fails)
    ctx.extra["failure_signatures"] = {s: sum(1 for f in all_fails if f[0] == s) for s in by_sig}
    for s, (_, d, cfg, data) in sorted(by_sig.items()):
        ctx.failure(s, {"config": cfg, "data": data_to_json(data), "failure": d,
                        "how_to_replay": "policy(env.reset(data), env, decode_type='beam_search', beam_width=W, select_best=..) with the "
                                         "recorded decoder (stub salt / policy seed); ./check --replay <this file>"},
                    tag=s.split(":")[0].replace("/", "_"))


# ----------------------------------------------------------------------------------------------- replay
def replay(obj):
    """./check --replay <file>: re-run the recorded case on the current tree, print the spec evaluation"""
    import logging
    import torch
    from tensordict import TensorDict
    torch.set_num_threads(2)
    logging.getLogger("rl4co").setLevel(logging.ERROR)
    print("signature:", obj.get("signature"))
    if "config" not in obj:
        import json
        print(json.dumps(obj, indent=1)[:3000])
        return 0
    cfg = obj["config"]
    print("config   :", cfg)
    print("recorded :", obj.get("failure"))
    data = data_from_json(torch, TensorDict, obj["data"], cfg["B"])
    res = one_case(torch, cfg, data)
    print("implementation raised:" if res["err"] else "implementation returned", res["err"] or res.get("beams"))
    for s, d in res["fails"]:
        print("FAILS  %s  %s" % (s, d))
    same = [s for s, _ in res["fails"] if s == obj.get("signature")]
    print("property %s on the current tree (%d spec failures, %d with the recorded signature)" % (
        "FAILS" if res["fails"] else "holds", len(res["fails"]), len(same)))
    return 1 if res["fails"] else 0
