"""Dispatcher for properties split into units: runs every vt/props/<pid>_<unit>.py run_unit(ctx, proofs_ok)."""
import importlib
import pkgutil
import time
import traceback

import vt.props


def run_units(ctx, proofs_ok, only=None):
    pid = ctx.pid.lower()
    names = sorted(m.name for m in pkgutil.iter_modules(vt.props.__path__) if m.name.startswith(pid + "_"))
    from vt.common import only_units
    only = only or only_units()
    if only:
        names = [n for n in names if n.split("_", 1)[1] in only]
    else:
        from vt.common import disabled_units
        names = [n for n in names if n.split("_", 1)[1] not in disabled_units(ctx.pid)]
    for n in names:
        unit = n.split("_", 1)[1]
        t0 = time.time()
        try:
            mod = importlib.import_module("vt.props." + n)
            unit_ok = proofs_ok or ctx.proof_units.get("%s_%s" % (ctx.pid, unit), proofs_ok)
            mod.run_unit(ctx, unit_ok)
        except Exception:
            tb = traceback.format_exc()
            ctx.broken.append("unit %s crashed: %s" % (n, tb[-1200:]))
        ctx.units.setdefault(unit, {})
        if isinstance(ctx.units[unit], dict):
            ctx.units[unit]["wall_s"] = round(time.time() - t0, 1)
    return names
