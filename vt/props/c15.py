"""C15 -- augmentation preserves costs; evaluation reports true best-of-k results.

Proof obligations: Properties/C15.v (geometry over every ordered field incl. the code as translated from /repo
on this run; eval regrouping over lists for every batch size / k / candidate list).
Correspondence (this file), always on the current working tree of /repo:
  A  StateAugmentation / dihedral_8_augmentation / symmetric_augmentation on dyadic coordinates vs the model
     `state_aug` run at Qc inside Coq (dihedral: exact; rotation: (cos, sin) captured from / injected into
     torch.cos / torch.sin in this process, exact for dyadic (c, s), 1e-6 for real angles), both feature
     layouts, num_augment 1..16, flags first_aug_identity / normalize; spec-on-impl: first copy = original,
     all pairwise squared distances, tour costs by the real env.
  B  the _inner regrouping of every eval class (and DecodingStrategy._select_best) on tagged rewards with ties
     vs the Coq model `ev_select / ev_inner_msa / ev_inner_sampling`.
  C  EvalBase.__call__ padding + concatenation vs `ev_pad_concat`; the aggregates of the returned dictionary: rewards =
     concatenation, avg_reward = their mean (`ev_avg_reward`, Train/EvalAggregate.v), inference_time = elapsed time.
  D  evaluate_policy end to end with a deterministic stub decoder inside the real ConstructivePolicy
     (real decoding strategies, real env): reported reward = objective of the returned (padded) actions on the
     original instance = max over the instance's candidates (recomputed independently; candidates captured at
     DecodingStrategy.post_decoder_hook and assigned to instances by an isometry-invariant fingerprint).
  E  POMO / SymNCO shared_step(test) with the same stub: max_aug_reward / best_aug_actions.
  F  POMO / SymNCO constructor + shared_step over the grid num_augment {1,2,8} x num_starts {None,0,1,2,4} x phase
     {train,val,test} with a stub policy returning tagged rewards: raises / returns and max_reward / max_aug_reward vs
     the model `pomo_shared_step / symnco_shared_step` (Train/SharedStepGrid.v).
Search = the spec-on-impl evaluations above (they run on every invocation)."""
import contextlib
import io
import itertools
import math
from fractions import Fraction

from vt.common import Ctx, cq, clist, cz, cnat, cbool, cnatlist, coq_eval_shards

HEADER = ("From Coq Require Import List ZArith QArith.\nFrom RL4CO Require Import Harness.HC15.\n"
          "Import ListNotations.\nOpen Scope Q_scope.\n")

SIG_FAI = "StateAugmentation/first_aug_identity=False: node-0-of-row-B-overwritten-breaks-isometry"
SIG_NORM = "StateAugmentation/normalize=True: global-min-max-rescales-distances"
SIG_FEATS = "StateAugmentation/symmetric+several-feats: independent-rotation-per-feature"
SIG_SYMNCO = "symnco/shared_step: best_aug_actions-is-[B,A,L]-not-one-sequence-per-instance"
SIG_POMO_SINGLE = "pomo/shared_step: raises-in-val-test-with-augmentation-and-a-single-start"
SIG_SYMNCO_SINGLE = "symnco/shared_step: max_aug_reward-not-maximised-over-the-augmentations-when-num_starts=1"
SIG_SYMNCO_NONE = "symnco/__init__: documented-num_starts=None-raises-TypeError"
# Observations that are NOT failures of C15 as stated and are therefore only recorded in the evidence:
#  * normalize=True is a documented option that min-max rescales the coordinates on purpose;
#  * SymNCO's `best_aug_actions` never leaves shared_step (only `loss` and logged metrics are returned), so its
#    shape is not observable through the API the property talks about;
#  * SymNCO(num_starts=None) -- the value the class docstring describes -- is rejected by the constructor
#    (`self.num_starts > 1` on None): a constructor crash, no evaluation result is reported at all (integrator's triage).
OUT_OF_SCOPE = {SIG_NORM, SIG_SYMNCO, SIG_SYMNCO_NONE}


def F(x):
    return Fraction(float(x))


def quiet():
    buf = io.StringIO()
    return contextlib.ExitStack(), buf


@contextlib.contextmanager
def silence():
    buf = io.StringIO()
    with contextlib.redirect_stdout(buf), contextlib.redirect_stderr(buf):
        yield buf


# ------------------------------------------------------------------------------------------------ torch patching
class TorchPatch:
    """Replaces torch.rand / torch.cos / torch.sin in the harness process (nothing under /repo is touched):
    rand returns the pre-drawn tensors `us` in order; cos / sin record, per distinct argument tensor (= one
    symmetric_transform call), the angle and the values handed to the code, and optionally substitute
    injected values on the entries whose angle is non-zero."""

    def __init__(self, torch, us=(), inject=None):
        self.torch = torch
        self.us = list(us)
        self.inject = inject          # list (per transform call) of (c values, s values) flat python lists, or None
        self.calls = []               # [{"phi": tensor, "cos": tensor, "sin": tensor}]
        self.rand_calls = 0

    def _slot(self, x):
        for k, c in enumerate(self.calls):
            if c["phi"] is x:
                return k, c
        self.calls.append({"phi": x, "cos": None, "sin": None})
        return len(self.calls) - 1, self.calls[-1]

    def __enter__(self):
        t = self.torch
        self.o_rand, self.o_cos, self.o_sin = t.rand, t.cos, t.sin

        def rand(*size, **kw):
            if self.rand_calls < len(self.us):
                u = self.us[self.rand_calls]
                self.rand_calls += 1
                n = size[0] if len(size) == 1 and isinstance(size[0], int) else None
                if n is not None and u.numel() >= n:
                    return u[:n].clone()
            self.rand_calls += 1
            return self.o_rand(*size, **kw)

        def mk(name, orig, col):
            def fn(x, *a, **kw):
                out = orig(x, *a, **kw)
                if not isinstance(x, t.Tensor):
                    return out
                k, slot = self._slot(x)
                if self.inject is not None and k < len(self.inject):
                    vals = t.tensor(self.inject[k][col], dtype=out.dtype)
                    if vals.numel() == out.numel():
                        out = t.where(x != 0, vals.view_as(out), out)
                slot[name] = out
                return out
            return fn

        t.rand = rand
        t.cos = mk("cos", self.o_cos, 0)
        t.sin = mk("sin", self.o_sin, 1)
        return self

    def __exit__(self, *exc):
        t = self.torch
        t.rand, t.cos, t.sin = self.o_rand, self.o_cos, self.o_sin
        return False


# ------------------------------------------------------------------------------------------------ helpers
def pts(row):
    return [(float(p[0]), float(p[1])) for p in row]


def sq(p, q):
    return (F(p[0]) - F(q[0])) ** 2 + (F(p[1]) - F(q[1])) ** 2


def coq_rows(rows):
    return clist(clist("(%s, %s)" % (cq(F(x)), cq(F(y))) for x, y in row) for row in rows)


def dyadic_locs(rng, torch, B, N):
    """distinct points on the k/64 grid of the unit square"""
    out = []
    for _ in range(B):
        seen = set()
        while len(seen) < N:
            seen.add((rng.randint(0, 64), rng.randint(0, 64)))
        row = list(seen)
        rng.shuffle(row)
        out.append([[a / 64.0, b / 64.0] for a, b in row])
    return torch.tensor(out, dtype=torch.float32)


def fingerprint(locs_row, extra=()):
    """invariant under every isometry applied to the row: the pairwise squared distances in node order"""
    n = len(locs_row)
    fp = []
    for i in range(n):
        for j in range(i + 1, n):
            dx = float(locs_row[i][0]) - float(locs_row[j][0])
            dy = float(locs_row[i][1]) - float(locs_row[j][1])
            fp.append(int(round((dx * dx + dy * dy) * 4096)))
    return tuple(fp) + tuple(extra)


# ------------------------------------------------------------------------------------------------ part A
def run_state_aug(torch, StateAugmentation, td, fam, A, fai, nrm, feats, us, inject):
    """returns dict(raised, out: {feat: tensor}, calls)"""
    with TorchPatch(torch, us=us, inject=inject) as tp:
        try:
            with silence():
                aug = StateAugmentation(num_augment=A, augment_fn=fam, first_aug_identity=fai, normalize=nrm, feats=feats)
                out = aug(td.clone())
            res = {"raised": None, "out": {f: out[f].clone() for f in (feats or ["locs"])}}
        except Exception as e:  # noqa: BLE001 -- the model says None exactly when the code raises
            res = {"raised": "%s: %s" % (type(e).__name__, str(e)[:120]), "out": None}
        res["calls"] = [{k: (v.flatten().tolist() if v is not None else None) for k, v in c.items()} for c in tp.calls]
    return res


def infer_flips(rows_in, rows_out, cs):
    """which rows were transposed (decided on the default-flag run; the Coq check verifies the choice)"""
    flips = []
    for r, (rin, rout) in enumerate(zip(rows_in, rows_out)):
        c, s = cs[r]
        e0 = e1 = 0.0
        for (x, y), (a, b) in zip(rin, rout):
            xp = c * (x - 0.5) - s * (y - 0.5) + 0.5
            yp = s * (x - 0.5) + c * (y - 0.5) + 0.5
            e0 = max(e0, abs(xp - a), abs(yp - b))
            e1 = max(e1, abs(yp - a), abs(xp - b))
        flips.append(e1 < e0)
    return flips


def spec_rows(rows_in, rows_out, B, scale=None, tol=Fraction(0)):
    """property on the implementation's output: first copy identical, every pair of nodes of every row keeps its
    squared distance (times `scale[r]` when given).  Returns (first_copy_ok, list of bad (row, i, j, got, want))."""
    first_ok = all(pts(rows_out[b]) == pts(rows_in[b]) for b in range(min(B, len(rows_out))))
    bad = []
    for r, rout in enumerate(rows_out):
        rin = rows_in[r % B]
        k = Fraction(1) if scale is None else scale[r]
        for i in range(len(rin)):
            for j in range(i + 1, len(rin)):
                got, want = sq(rout[i], rout[j]), k * sq(rin[i], rin[j])
                if abs(got - want) > tol:
                    bad.append((r, i, j, float(got), float(want)))
    return first_ok, bad


def part_a(ctx, torch, rng, fails):
    from tensordict import TensorDict
    from rl4co.data.transforms import StateAugmentation, dihedral_8_augmentation, symmetric_augmentation
    from rl4co.envs import CVRPEnv, TSPEnv

    tier = ctx.tier
    tsp = TSPEnv(generator_params=dict(num_loc=5))
    with silence():
        cvrp = CVRPEnv(generator_params=dict(num_loc=5))
    cases, meta = [], []
    gen = torch.Generator().manual_seed(rng.randint(0, 2 ** 31))
    n_sqfail = 0

    def add_case(tol, dihedral, A, fai, nrm, rows_in, par, raised, rows_out, m):
        par_s = clist("(%s, %s, %s)" % (cq(F(c)), cq(F(s)), cbool(fl)) for c, s, fl in par)
        cases.append("(%s, (%s, %s, %s, %s), %s, %s, (%s, %s))" % (
            cq(tol), cbool(dihedral), cnat(A), cbool(fai), cbool(nrm), coq_rows(rows_in), par_s,
            cbool(raised), coq_rows(rows_out if rows_out is not None else [])))
        meta.append(m)

    def make_td(layout, B, N):
        locs = dyadic_locs(rng, torch, B, N + (1 if layout == "depot+locs" else 0))
        if layout == "locs":
            return TensorDict({"locs": locs}, batch_size=[B])
        # the reset TensorDict of the real CVRP env: depot is node 0 of "locs"
        td0 = TensorDict({"locs": locs[:, 1:], "depot": locs[:, 0], "demand": torch.full((B, N), 0.125),
                          "capacity": torch.ones(B, 1)}, batch_size=[B])
        with silence():
            return cvrp.reset(td0)

    def cost_check(env, td_rows_in, rows_out_t, B, tol=2e-5):
        """any action sequence has the same cost on every augmented copy (real env objective)"""
        n = td_rows_in.shape[1]
        nbad = None
        for _ in range(2):
            perm = list(range(n))
            rng.shuffle(perm)
            acts = torch.tensor([perm] * rows_out_t.shape[0])
            tdo = TensorDict({"locs": td_rows_in.repeat(rows_out_t.shape[0] // B, 1, 1)}, batch_size=[rows_out_t.shape[0]])
            tda = TensorDict({"locs": rows_out_t}, batch_size=[rows_out_t.shape[0]])
            r0, r1 = env._get_reward(tdo, acts), env._get_reward(tda, acts)
            d = (r0 - r1).abs()
            if float(d.max()) > tol and nbad is None:
                r = int(d.argmax())
                nbad = {"row": r, "actions": perm, "cost_on_original": float(r0[r]), "cost_on_augmented_copy": float(r1[r])}
        return nbad

    shapes = [(1, 2), (2, 3), (3, 3), (3, 5)] if tier == "quick" else [(1, 2), (1, 4), (2, 3), (2, 5), (3, 3), (3, 5), (4, 4), (5, 6)]
    # ---------------------------------------------------------------- dihedral family
    for layout in ("locs", "depot+locs"):
        for B, N in shapes:
            td = make_td(layout, B, N)
            rows_in = [pts(r) for r in td["locs"].tolist()]
            for fai, nrm in ((True, False), (False, False), (True, True), (False, True)):
                res = run_state_aug(torch, StateAugmentation, td, "dihedral8", 8, fai, nrm, None, (), None)
                rows_out = None if res["raised"] else [pts(r) for r in res["out"]["locs"].tolist()]
                add_case(Fraction(0) if not nrm else Fraction(1, 10 ** 6), True, 8, fai, nrm, rows_in, [], bool(res["raised"]), rows_out,
                         {"unit": "StateAugmentation", "family": "dihedral8", "layout": layout, "B": B, "N": N, "fai": fai, "normalize": nrm})
                ctx.seen({"a": "dih", "rows": rows_in, "f": [fai, nrm]}, nontrivial=True)
                ctx.count("aug_dihedral_cases")
                if rows_out is not None:
                    first_ok, bad = spec_rows(rows_in, rows_out, B, tol=Fraction(0) if not nrm else Fraction(1, 10 ** 5))
                    cbad = cost_check(tsp, td["locs"], res["out"]["locs"], B) if not bad else None
                    if (not first_ok) or bad or cbad:
                        n_sqfail += 1
                        sig = SIG_FAI if not fai else (SIG_NORM if nrm else "StateAugmentation/dihedral8: augmented-copy-not-an-isometric-image-of-its-instance")
                        if not (nrm and not fai):      # both flags non-default: compared in Coq, not used as a witness
                          fails.append((sig, {"unit": "StateAugmentation", "augment_fn": "dihedral8", "num_augment": 8,
                                            "first_aug_identity": fai, "normalize": nrm, "feats": ["locs"], "layout": layout,
                                            "locs": td["locs"].tolist(), "first_copy_equals_original": first_ok,
                                            "pairs_with_changed_squared_distance(row,i,j,observed,expected)": bad[:4],
                                            "tour_cost": cbad,
                                            "expected": "row r of the output is an isometric image of instance r mod B and rows 0..B-1 are the instances"}))
            # the bare function (what the wrapper calls)
            with silence():
                direct = dihedral_8_augmentation(td["locs"].clone())
            add_case(Fraction(0), True, 8, True, False, rows_in, [], False, [pts(r) for r in direct.tolist()],
                     {"unit": "dihedral_8_augmentation", "layout": layout, "B": B, "N": N})
            ctx.count("aug_dihedral_direct")
            if layout == "locs" and (B, N) == shapes[1]:
                ctx.sample({"unit": "dihedral_8_augmentation", "locs": td["locs"].tolist(), "impl_rows_8_to_15 (z1)": direct[B:2 * B].tolist()})

    # ---------------------------------------------------------------- rotation family
    DY = [(1.0, 0.0), (0.0, 1.0), (-1.0, 0.0), (0.0, -1.0), (0.5, 0.25), (-0.75, 0.5), (0.25, -0.25)]
    A_all = list(range(1, 17))
    sym_shapes = [(1, 3), (2, 3), (3, 2)] if tier == "quick" else [(1, 3), (2, 3), (3, 2), (3, 5), (4, 4)]
    csdev = 0.0
    flips_seen = [0, 0]
    for layout in ("locs", "depot+locs"):
        for B, N in sym_shapes:
            for A in A_all:
                if tier == "quick" and layout == "depot+locs" and A not in (1, 2, 3, 5, 8, 16):
                    continue
                td = make_td(layout, B, N)
                rows_in = [pts(r) for r in td["locs"].tolist()]
                for stream in ("exact", "real"):
                    u = torch.rand(A * B, generator=gen)
                    inject = None
                    if stream == "exact":
                        cs_inj = [DY[rng.randrange(len(DY))] for _ in range(A * B)]
                        inject = [([c for c, _ in cs_inj], [s for _, s in cs_inj])]
                    base = run_state_aug(torch, StateAugmentation, td, "symmetric", A, True, False, None, [u], inject)
                    if base["raised"] or not base["calls"] or base["calls"][0]["cos"] is None:
                        ctx.broken.append("correspondence C15/state_aug: symmetric default-flag run raised or did not call torch.cos/sin: %s" % (base["raised"],))
                        continue
                    call = base["calls"][0]
                    cs = list(zip(call["cos"], call["sin"]))
                    if len(cs) != A * B:
                        ctx.broken.append("correspondence C15/state_aug: %d angles for %d rows" % (len(cs), A * B))
                        continue
                    rows_base = [pts(r) for r in base["out"]["locs"].tolist()]
                    flips = infer_flips([rows_in[r % B] for r in range(A * B)], rows_base, cs)
                    par = [(c, s, fl) for (c, s), fl in zip(cs, flips)]
                    for r in range(B, A * B):
                        flips_seen[int(flips[r])] += 1
                    unit = [abs(c * c + s * s - 1.0) for c, s in cs]
                    if stream == "real":
                        csdev = max(csdev, max(unit))
                    scale = [F(c) ** 2 + F(s) ** 2 for c, s in cs]
                    variants = ((True, False), (False, False), (True, True), (False, True))
                    if tier == "quick" and A not in (1, 2, 3, 8):
                        variants = ((True, False), (False, False))
                    for fai, nrm in variants:
                        res = base if (fai, nrm) == (True, False) else run_state_aug(
                            torch, StateAugmentation, td, "symmetric", A, fai, nrm, None, [u], inject)
                        rows_out = None if res["raised"] else [pts(r) for r in res["out"]["locs"].tolist()]
                        tol = Fraction(0) if (stream == "exact" and not nrm) else Fraction(1, 10 ** 6)
                        add_case(tol, False, A, fai, nrm, rows_in, par, bool(res["raised"]), rows_out,
                                 {"unit": "StateAugmentation", "family": "symmetric", "stream": stream, "layout": layout,
                                  "B": B, "N": N, "A": A, "fai": fai, "normalize": nrm})
                        ctx.seen({"a": "sym", "rows": rows_in, "A": A, "u": u.tolist(), "s": stream, "f": [fai, nrm]}, nontrivial=A > 1)
                        ctx.count("aug_symmetric_cases_" + stream)
                        if rows_out is None:
                            if not (A == 1 and not fai):
                                fails.append(("StateAugmentation/symmetric: raises", {"unit": "StateAugmentation", "num_augment": A,
                                              "first_aug_identity": fai, "normalize": nrm, "locs": td["locs"].tolist(), "raised": res["raised"]}))
                            else:
                                ctx.count("aug_first_aug_false_single_copy_raises")
                            continue
                        stol = Fraction(0) if stream == "exact" and not nrm else Fraction(1, 10 ** 5)
                        first_ok, bad = spec_rows(rows_in, rows_out, B, scale=scale if stream == "exact" else None, tol=stol)
                        cbad = cost_check(tsp, td["locs"], res["out"]["locs"], B) if (stream == "real" and not bad) else None
                        if (not first_ok) or bad or cbad:
                            n_sqfail += 1
                            sig = SIG_FAI if not fai else (SIG_NORM if nrm else "StateAugmentation/symmetric: augmented-copy-not-an-isometric-image-of-its-instance")
                            if not (nrm and not fai):
                              fails.append((sig, {"unit": "StateAugmentation", "augment_fn": "symmetric", "num_augment": A,
                                                "first_aug_identity": fai, "normalize": nrm, "feats": ["locs"], "layout": layout,
                                                "locs": td["locs"].tolist(), "torch_rand": u.tolist(),
                                                "injected_cos_sin": inject, "first_copy_equals_original": first_ok,
                                                "pairs_with_changed_squared_distance(row,i,j,observed,expected)": bad[:4],
                                                "tour_cost": cbad,
                                                "expected": "row r of the output is an isometric image of instance r mod B and rows 0..B-1 are the instances"}))
                    # the bare function on the batchified tensor
                    if stream == "real" and A in (2, 5):
                        from rl4co.utils.ops import batchify
                        with TorchPatch(torch, us=[u]) as tp:
                            direct = symmetric_augmentation(batchify(td["locs"], A).clone(), A)
                        c2 = tp.calls[0]
                        cs2 = list(zip(c2["cos"].flatten().tolist(), c2["sin"].flatten().tolist()))
                        add_case(Fraction(1, 10 ** 6), False, A, True, False, rows_in, [(c, s, fl) for (c, s), fl in zip(cs2, flips)],
                                 False, [pts(r) for r in direct.tolist()],
                                 {"unit": "symmetric_augmentation", "B": B, "N": N, "A": A})
                        ctx.count("aug_symmetric_direct")
                if layout == "locs" and (B, N, A) == (2, 3, 2):
                    ctx.sample({"unit": "StateAugmentation(symmetric)", "locs": td["locs"].tolist(), "torch_rand": u.tolist(),
                                "cos_sin_flip_per_row": par, "impl_out": base["out"]["locs"].tolist()})
    ctx.extra["float_cos2_plus_sin2_max_deviation"] = csdev
    ctx.extra["rotation_rows_not_flipped/flipped"] = flips_seen
    if csdev > 1e-6:
        ctx.broken.append("assumption C15: torch.cos^2 + torch.sin^2 deviates from 1 by %g" % csdev)

    # ---------------------------------------------------------------- several features
    B, N = 2, 3
    locs, depot = dyadic_locs(rng, torch, B, N), dyadic_locs(rng, torch, B, 1)
    td2 = TensorDict({"locs": locs, "depot": depot}, batch_size=[B])
    full_in = [pts(d + l) for d, l in zip(depot.tolist(), locs.tolist())]
    for fam, A in (("dihedral8", 8), ("symmetric", 4)):
        us = [torch.rand(A * B, generator=gen), torch.rand(A * B, generator=gen)]
        res = run_state_aug(torch, StateAugmentation, td2, fam, A, True, False, ["locs", "depot"], us, None)
        ctx.count("aug_two_feature_cases")
        ctx.seen({"a": "feats", "fam": fam}, nontrivial=True)
        if res["raised"]:
            fails.append(("StateAugmentation/several-feats: raises", {"augment_fn": fam, "raised": res["raised"]}))
            continue
        full_out = [pts(d + l) for d, l in zip(res["out"]["depot"].tolist(), res["out"]["locs"].tolist())]
        first_ok, bad = spec_rows(full_in, full_out, B, tol=Fraction(1, 10 ** 5))
        ctx.units["StateAugmentation feats=[locs, depot] (%s)" % fam] = {
            "first_copy_identical": first_ok, "pairs_with_changed_distance": len(bad),
            "distinct_angle_vectors": len({tuple(c["phi"]) for c in res["calls"]}) if res["calls"] else 0}
        if bad or not first_ok:
            fails.append((SIG_FEATS if fam == "symmetric" else "StateAugmentation/dihedral8+several-feats: cross-feature-distance-changed",
                          {"unit": "StateAugmentation", "augment_fn": fam, "num_augment": A, "feats": ["locs", "depot"],
                           "locs": locs.tolist(), "depot": depot.tolist(), "torch_rand_per_feature": [u.tolist() for u in us],
                           "pairs_with_changed_squared_distance(row,i,j,observed,expected) [node 0 = depot]": bad[:4],
                           "expected": "depot and locs of one row are moved by the same isometry"}))
    # depot of shape [B, 2] (what the bundled CVRP reset carries next to locs): not a supported feature shape
    tdc = make_td("depot+locs", 2, 3)
    shp = {}
    for fam, A in (("dihedral8", 8), ("symmetric", 4)):
        res = run_state_aug(torch, StateAugmentation, tdc, fam, A, True, False, ["locs", "depot"], (), None)
        shp[fam] = res["raised"] or list(res["out"]["depot"].shape)
    ctx.extra["feats_with_2d_depot_[B,2]"] = shp

    # ---------------------------------------------------------------- evaluate in Coq
    try:
        codes = coq_eval_shards("cases_C15_aug", HEADER, "sa_case", "check_state_aug", cases, shard=40)
    except RuntimeError as e:
        codes = None
        ctx.broken.append("correspondence C15/state_aug could not be evaluated: %s" % str(e)[-600:])
    if codes is not None:
        nz = [(i, c) for i, c in enumerate(codes) if c != 0]
        ctx.units["StateAugmentation / dihedral_8_augmentation / symmetric_augmentation"] = {
            "cases": len(codes), "disagreements": len(nz), "spec_on_impl_failures": n_sqfail}
        if nz:
            i, c = nz[0]
            ctx.broken.append("correspondence C15/state_aug: model and implementation differ in %d of %d cases "
                              "(first: case %d, code %d = row %d / tag %d; 1 raise-vs-return, 2 row count, 4 coordinates) %s"
                              % (len(nz), len(codes), i, c, c // 1000, c % 1000, meta[i]))


# ------------------------------------------------------------------------------------------------ part B
def part_b(ctx, torch, rng, fails):
    from tensordict import TensorDict
    from rl4co.tasks.eval import AugmentationEval, GreedyMultiStartEval, GreedyMultiStartAugmentEval
    from rl4co.utils.decoding import Greedy
    from rl4co.utils.ops import batchify

    class TagEnv:
        name = "tag"

        def __init__(self, W):
            self.W = torch.tensor(W, dtype=torch.float32)

        def get_reward(self, td, actions):
            return self.W[td["id"].long(), actions[:, 0].long()]

    class TagPolicy:
        def __call__(self, td, *a, **kw):
            s = kw.get("num_starts", 0) or 0
            rows = td.batch_size[0] * max(int(s), 1)
            return {"actions": torch.arange(rows)[:, None].repeat(1, 2)}

    cases, meta = [], []
    Bs = range(1, 7)
    ks = range(1, 5)
    reps = 1 if ctx.tier == "quick" else 3

    def mk(B, rows):
        W = [[rng.randint(0, 3) for _ in range(rows)] for _ in range(B)]
        td = TensorDict({"id": torch.arange(B), "locs": torch.rand(B, 3, 2)}, batch_size=[B])
        return W, td

    def emit(kind, p1, p2, B, W, acts, rew, m):
        impl = clist("(%s, %s)" % (cnat(int(a[0])), cz(int(r))) for a, r in zip(acts.tolist(), rew.tolist()))
        cases.append("(%s, (%s, %s), %s, %s, %s)" % (cnat(kind), cnat(p1), cnat(p2), cnat(B),
                                                     clist(clist(cz(x) for x in row) for row in W), impl))
        meta.append(m)
        # the property on the implementation's own output, independently of the model: the reported reward of instance b is
        # what its returned actions are worth on instance b (W[b][tag]) and is the best of b's own candidates (the rows
        # r = b mod B of the batchified layout)
        bad = []
        for b, (a, r) in enumerate(zip(acts.tolist(), rew.tolist())):
            tag = int(a[0])
            own = [W[b][x] for x in range(len(W[b])) if x % B == b]
            if not (0 <= tag < len(W[b])) or W[b][tag] != int(r):
                bad.append({"instance": b, "returned_action_tag": tag, "reported_reward": r,
                            "reward_of_returned_actions_on_this_instance": W[b][tag] if 0 <= tag < len(W[b]) else None})
            elif int(r) != max(own):
                bad.append({"instance": b, "reported_reward": r, "best_of_own_candidates": max(own)})
        if bad:
            key = "reward-of-returned-actions-differs-from-reported" if "returned_action_tag" in bad[0] else "reported-reward-is-not-the-best-own-candidate"
            fails.append(("%s: %s" % (m["unit"], key), dict(m, W=W, returned_action_tags=[int(a[0]) for a in acts.tolist()],
                                                            reported_rewards=[int(x) for x in rew.tolist()], failing_instances=bad[:4])))
        ctx.seen({"b": m, "W": W}, nontrivial=B > 1 and p1 * max(p2, 1) > 1)
        ctx.count("regroup_cases_" + m["unit"])

    for _ in range(reps):
        for B in Bs:
            for k in ks:
                W, td = mk(B, k * B)
                with silence():
                    ev = AugmentationEval(TagEnv(W), num_augment=k, progress=False)
                    acts, rew = ev._inner(TagPolicy(), td.clone())
                emit(0, k, 0, B, W, acts, rew, {"unit": "AugmentationEval._inner", "B": B, "k": k})
                W, td = mk(B, k * B)
                with silence():
                    ev = GreedyMultiStartEval(TagEnv(W), num_starts=k, progress=False)
                    acts, rew = ev._inner(TagPolicy(), td.clone())
                emit(0, k, 0, B, W, acts, rew, {"unit": "GreedyMultiStartEval._inner", "B": B, "k": k})
                # DecodingStrategy._select_best followed by the policy's own reward (SamplingEval's path)
                W, td = mk(B, k * B)
                env = TagEnv(W)
                st = Greedy(multistart=True, num_starts=max(k, 2), select_best=True)
                st.num_starts = k
                tdb = batchify(td, k)
                a_all = torch.arange(k * B)[:, None].repeat(1, 2)
                _, acts, tdg, _ = st._select_best(torch.zeros(k * B, 2), a_all, tdb, env)
                rew = env.get_reward(tdg, acts)
                emit(2, k, 0, B, W, acts, rew, {"unit": "DecodingStrategy._select_best", "B": B, "k": k})
                for S in ks:
                    W, td = mk(B, k * S * B)
                    with silence():
                        ev = GreedyMultiStartAugmentEval(TagEnv(W), num_starts=S, num_augment=k, progress=False)
                        acts, rew = ev._inner(TagPolicy(), td.clone())
                    emit(1, k, S, B, W, acts, rew, {"unit": "GreedyMultiStartAugmentEval._inner", "B": B, "A": k, "S": S})
    try:
        codes = coq_eval_shards("cases_C15_regroup", HEADER, "rg_case", "check_regroup", cases, shard=80)
    except RuntimeError as e:
        codes = None
        ctx.broken.append("correspondence C15/regroup could not be evaluated: %s" % str(e)[-600:])
    if codes is not None:
        nz = [(i, c) for i, c in enumerate(codes) if c != 0]
        ctx.units["eval _inner regrouping (tagged rewards, ties)"] = {"cases": len(codes), "disagreements": len(nz)}
        if nz:
            i, c = nz[0]
            ctx.broken.append("correspondence C15/regroup: model and implementation differ in %d of %d cases (first: case %d, "
                              "code %d = instance %d, kind %d: 1 returned action row / 2 reward) %s" % (len(nz), len(codes), i, c, c // 1000 - 1, c % 1000, meta[i]))


# ------------------------------------------------------------------------------------------------ part C
def part_c(ctx, torch, rng, fails):
    from rl4co.tasks.eval import EvalBase

    class IdEnv:
        def reset(self, td):
            return td

    class Pol:
        def parameters(self):
            return iter([torch.zeros(1)])

    class Batch(dict):
        def to(self, device):
            return self

    class PreMade(EvalBase):
        name = "premade"

        def _inner(self, policy, td):
            return td["actions"], td["rewards"]

    cases = []
    av_cases, av_meta = [], []
    import random as _random
    import time as _time
    arng = _random.Random("C15-avg-reward-%s" % ctx.seed)      # own stream: the draws of the other parts stay as they were
    n = 40 if ctx.tier == "quick" else 150
    for i in range(n):
        nb = rng.randint(1, 4)
        equal_width = i % 4 == 0
        w0 = rng.randint(1, 6)
        batches = []
        for _ in range(nb):
            rows, w = rng.randint(1, 3), (w0 if equal_width else rng.randint(1, 6))
            batches.append([[rng.randint(0, 9) for _ in range(w)] for _ in range(rows)])
        # per-instance rewards: negative dyadic costs (k/64, float32), constant in every 5th case
        rews = [[(-arng.randint(1, 512) / 64.0) for _ in b] for b in batches]
        if i % 5 == 4:
            rews = [[rews[0][0]] * len(b) for b in batches]
        loader = [Batch(actions=torch.tensor(b), rewards=torch.tensor(r, dtype=torch.float32)) for b, r in zip(batches, rews)]
        t0 = _time.time()
        with silence():
            out = PreMade(IdEnv(), progress=False)(Pol(), loader)
        wall = _time.time() - t0
        impl = out["actions"].tolist()
        # the aggregates of the returned dictionary: rewards = concatenation, avg_reward = their mean, inference_time = elapsed time
        flat = [x for r in rews for x in r]
        got_r = [float(x) for x in out["rewards"].reshape(-1)]
        got_avg = float(out["avg_reward"])
        want_avg = sum(Fraction(x) for x in got_r) / len(got_r) if got_r else Fraction(0)
        av_cases.append("(%s, %s, %s, %s)" % (cq(Fraction(1, 10 ** 6)), clist(clist(cq(F(x)) for x in r) for r in rews),
                                              clist(cq(F(x)) for x in got_r), cq(F(got_avg))))
        av_meta.append({"unit": "EvalBase.__call__ aggregates", "batch_sizes": [len(r) for r in rews]})
        ctx.count("avg_reward_cases")
        if got_r != flat:
            fails.append(("EvalBase.__call__: rewards-are-not-the-concatenation-of-the-per-batch-rewards",
                          {"unit": "EvalBase.__call__", "per_batch_rewards": rews, "observed": got_r, "expected": flat}))
        elif abs(Fraction(got_avg) - want_avg) > Fraction(1, 10 ** 6) * (1 + abs(want_avg)):
            fails.append(("EvalBase.__call__: avg_reward-is-not-the-mean-of-the-returned-rewards",
                          {"unit": "EvalBase.__call__", "per_batch_rewards": rews, "returned_rewards": got_r,
                           "observed_avg_reward": got_avg, "expected_avg_reward": float(want_avg)}))
        it = out.get("inference_time")
        if not (isinstance(it, float) and -1e-3 <= it <= wall + 1e-3):
            fails.append(("EvalBase.__call__: inference_time-is-not-the-elapsed-time-of-the-call",
                          {"unit": "EvalBase.__call__", "observed_inference_time": it, "wall_time_of_the_call": wall}))
        cases.append("(%s, %s)" % (clist(clist(cnatlist(r) for r in b) for b in batches), clist(cnatlist(r) for r in impl)))
        ctx.seen({"c": batches}, nontrivial=nb > 1 and not equal_width)
        ctx.count("pad_concat_cases")
        want = [r + [0] * (max(len(b[0]) for b in batches) - len(r)) for b in batches for r in b]
        if impl != want:
            fails.append(("EvalBase.__call__: padding-changes-or-reorders-action-rows",
                          {"unit": "EvalBase.__call__", "batches": batches, "observed": impl, "expected": want}))
    try:
        codes = coq_eval_shards("cases_C15_pad", HEADER, "pc_case", "check_pad_concat", cases, shard=60)
    except RuntimeError as e:
        codes = None
        ctx.broken.append("correspondence C15/pad_concat could not be evaluated: %s" % str(e)[-600:])
    if codes is not None:
        nz = [i for i, c in enumerate(codes) if c != 0]
        ctx.units["EvalBase.__call__ pad + concat"] = {"cases": len(codes), "disagreements": len(nz)}
        if nz:
            ctx.broken.append("correspondence C15/pad_concat: model and implementation differ (case %d)" % nz[0])
    try:
        codes = coq_eval_shards("cases_C15_avg", HEADER, "av_case", "check_avg_reward", av_cases, shard=60)
    except RuntimeError as e:
        codes = None
        ctx.broken.append("correspondence C15/avg_reward could not be evaluated: %s" % str(e)[-600:])
    if codes is not None:
        nz = [(i, c) for i, c in enumerate(codes) if c != 0]
        ctx.units["EvalBase.__call__ rewards + avg_reward"] = {"cases": len(codes), "disagreements": len(nz)}
        if nz:
            ctx.broken.append("correspondence C15/avg_reward: model and implementation differ in %d of %d cases (first: case %d, code %d; "
                              "1 = rewards not the concatenation, 2 = avg_reward not their mean) %s"
                              % (len(nz), len(codes), nz[0][0], nz[0][1], av_meta[nz[0][0]]))


# ------------------------------------------------------------------------------------------------ parts D, E
def make_stub(torch, nn, ConstructivePolicy, env_name):
    class StubDecoder(nn.Module):
        """deterministic rule: prefer the node with the smallest w . loc (sensitive to the augmentation, so the
        copies yield different tours); the depot only when nothing else is admitted"""

        def __init__(self):
            super().__init__()
            self.p = nn.Parameter(torch.zeros(1))
            self.w = torch.tensor([1.0, 2.0])

        def pre_decoder_hook(self, td, env, hidden=None, num_starts=0):
            return td, env, hidden

        def forward(self, td, hidden=None, num_starts=0):
            score = -(td["locs"] * self.w).sum(-1) * 4.0
            if env_name == "cvrp":
                score = score.clone()
                score[:, 0] = -100.0
            return score, td["action_mask"]

    def enc(td):
        return None, None

    with silence():
        return ConstructivePolicy(encoder=enc, decoder=StubDecoder(), env_name=env_name)


class Capture:
    """records, at every DecodingStrategy.post_decoder_hook, the rows the decoding ran on and ALL their actions"""

    def __init__(self, torch):
        self.torch = torch
        self.rec = []

    def __enter__(self):
        from rl4co.utils.decoding import DecodingStrategy
        self.cls = DecodingStrategy
        self.orig = DecodingStrategy.post_decoder_hook
        cap = self

        def hook(strategy, td, env):
            cap.rec.append({"locs": td["locs"].detach().clone(),
                            "demand": td["demand"].detach().clone() if "demand" in td.keys() else None,
                            "actions": cap.torch.stack(strategy.actions, 1).detach().clone()})
            return cap.orig(strategy, td, env)

        DecodingStrategy.post_decoder_hook = hook
        return self

    def __exit__(self, *exc):
        self.cls.post_decoder_hook = self.orig
        return False

    def candidates(self, fps):
        """fingerprint -> list of action rows (python lists)"""
        out = {fp: [] for fp in fps}
        unknown = 0
        for rec in self.rec:
            locs = rec["locs"].tolist()
            dem = rec["demand"].tolist() if rec["demand"] is not None else None
            for r, row in enumerate(locs):
                fp = fingerprint(row, tuple(int(round(d * 64)) for d in dem[r]) if dem is not None else ())
                if fp in out:
                    out[fp].append(rec["actions"][r].tolist())
                else:
                    unknown += 1
        return out, unknown


def make_instances(rng, torch, env_name, n, N):
    from tensordict import TensorDict
    while True:
        if env_name == "tsp":
            td = TensorDict({"locs": dyadic_locs(rng, torch, n, N)}, batch_size=[n])
            fps = [fingerprint(r) for r in td["locs"].tolist()]
        else:
            allp = dyadic_locs(rng, torch, n, N + 1)
            kinds = [rng.choice(["light", "heavy", "mixed"]) for _ in range(n)]
            dem = [[{"light": 8, "heavy": 40, "mixed": rng.choice([8, 24, 40])}[k] / 64.0 for _ in range(N)] for k in kinds]
            td = TensorDict({"locs": allp[:, 1:], "depot": allp[:, 0], "demand": torch.tensor(dem),
                             "capacity": torch.ones(n, 1)}, batch_size=[n])
            fps = [fingerprint(r, tuple(int(round(d * 64)) for d in dm)) for r, dm in zip(allp.tolist(), dem)]
        if len(set(fps)) == n:
            return td, fps


def true_rewards(torch, env, td_reset_i, action_rows):
    """objective of each action row on the ORIGINAL instance, by the real env (validity check included)"""
    from rl4co.utils.ops import batchify
    acts = torch.tensor(action_rows)
    return env.get_reward(batchify(td_reset_i, acts.shape[0]), acts)


def part_d(ctx, torch, rng, fails):
    import torch.nn as nn
    from rl4co.data.dataset import TensorDictDataset
    from rl4co.envs import CVRPEnv, TSPEnv
    from rl4co.models.common.constructive.base import ConstructivePolicy
    from rl4co.tasks.eval import evaluate_policy

    tier = ctx.tier
    TOL = 2e-5
    stats = {"evaluations": 0, "instances_checked": 0, "padded_rows": 0, "candidates": 0,
             "not_better_than_greedy": {}, "strictly_better_than_greedy": {}}
    n_list = globals().get("_ONLY_N") or ([1, 2, 3, 4, 6] if tier == "quick" else [1, 2, 3, 4, 5, 6])
    for env_name in ("tsp", "cvrp"):
        with silence():
            env = TSPEnv(generator_params=dict(num_loc=5)) if env_name == "tsp" else CVRPEnv(generator_params=dict(num_loc=5))
        pol = make_stub(torch, nn, ConstructivePolicy, env_name)
        for n in n_list:
            N = rng.choice([4, 5])
            td, fps = make_instances(rng, torch, env_name, n, N)
            ds = TensorDictDataset(td)
            with silence():
                td_reset = env.reset(td.clone())
                g = pol(td_reset.clone(), env, decode_type="greedy", num_starts=0)
            greedy_r = g["reward"].tolist()
            configs = [("greedy", {}, 1)]
            for s in ((1, 2, 4) if tier == "quick" else (1, 2, 3, 4)):
                configs.append(("sampling", {"samples": s}, s if s > 1 else None))
            for s in (1, 2, 3):
                configs.append(("multistart_greedy", {"num_starts": s}, s))
            configs.append(("augment_dihedral_8", {"num_augment": 8}, 8))
            for a in (1, 2, 3, 4):
                configs.append(("augment", {"num_augment": a}, a))
            for s in (1, 2):
                configs.append(("multistart_greedy_augment_dihedral_8", {"num_augment": 8, "num_starts": s}, 8 * s))
            for a, s in ((1, 1), (2, 3), (3, 2), (4, 4)):
                configs.append(("multistart_greedy_augment", {"num_augment": a, "num_starts": s}, a * s))
            for bs in sorted({1, 2, 3, n} & set(range(1, n + 1))):
                for method, kw, kexp in configs:
                    torch.manual_seed(rng.randint(0, 2 ** 31))
                    with Capture(torch) as cap, silence():
                        try:
                            out = evaluate_policy(env, pol, ds, method=method, batch_size=bs, auto_batch_size=False,
                                                  progress=False, **kw)
                        except Exception as e:  # noqa: BLE001
                            fails.append(("eval/%s: raises" % method, {"unit": "evaluate_policy", "env": env_name, "method": method,
                                                                        "kwargs": kw, "batch_size": bs, "raised": repr(e)[:300]}))
                            continue
                    stats["evaluations"] += 1
                    ctx.count("eval_runs_" + method)
                    ctx.seen({"d": [env_name, n, bs, method, kw], "locs": td["locs"].tolist()}, nontrivial=n > 1 and (kexp or 2) > 1)
                    rew, acts = out["rewards"], out["actions"]
                    base_info = {"unit": "evaluate_policy", "env": env_name, "method": method, "kwargs": kw, "loader_batch_size": bs,
                                 "instances": {k: v.tolist() for k, v in td.items()}, "stub_policy": "prefer smallest x+2y, depot last",
                                 "reported_rewards": rew.tolist(), "returned_actions": acts.tolist()}
                    if rew.shape != (n,) or acts.shape[0] != n:
                        fails.append(("eval/%s: wrong-output-shape" % method, dict(base_info, shapes=[list(rew.shape), list(acts.shape)])))
                        continue
                    # the headline number: avg_reward = mean of the returned per-instance rewards (float32: 1e-6 relative)
                    avg_got = float(out["avg_reward"])
                    avg_want = sum(Fraction(float(x)) for x in rew) / n
                    stats["avg_reward_checked"] = stats.get("avg_reward_checked", 0) + 1
                    if abs(Fraction(avg_got) - avg_want) > Fraction(1, 10 ** 6) * (1 + abs(avg_want)):
                        fails.append(("eval/%s: avg_reward-is-not-the-mean-of-the-returned-rewards" % method,
                                      dict(base_info, observed_avg_reward=avg_got, expected_avg_reward=float(avg_want))))
                    cands, unknown = cap.candidates(fps)
                    if unknown:
                        ctx.broken.append("correspondence C15/evaluate_policy: %d decoded rows are not an isometric copy of any instance (%s, %s)" % (unknown, method, kw))
                    width = acts.shape[1]
                    for i in range(n):
                        stats["instances_checked"] += 1
                        tdi = td_reset[i:i + 1]
                        ret = acts[i].tolist()
                        with silence():
                            try:
                                r_ret = float(true_rewards(torch, env, tdi, [ret])[0])
                            except Exception as e:  # noqa: BLE001
                                r_ret = None
                                fails.append(("eval/%s: returned-actions-infeasible-on-original-instance" % method,
                                              dict(base_info, instance=i, error=repr(e)[:200])))
                        c = cands[fps[i]]
                        stats["candidates"] += len(c)
                        if kexp is not None and len(c) != kexp:
                            fails.append(("eval/%s: wrong-number-of-candidates" % method, dict(base_info, instance=i, candidates=len(c), expected=kexp)))
                        if not c:
                            continue
                        cpad = [row + [0] * (width - len(row)) for row in c]
                        if any(len(row) != len(c[0]) for row in c):
                            continue
                        if len(c[0]) < width:
                            stats["padded_rows"] += 1
                        with silence():
                            r_c = true_rewards(torch, env, tdi, c).tolist()
                        best = max(r_c)
                        rep = float(rew[i])
                        if r_ret is not None and abs(rep - r_ret) > TOL:
                            fails.append(("eval/%s: reported-reward-is-not-the-objective-of-the-returned-actions" % method,
                                          dict(base_info, instance=i, reported=rep, objective_of_returned_actions=r_ret)))
                        if abs(rep - best) > TOL:
                            fails.append(("eval/%s: reported-reward-is-not-the-maximum-over-the-instance-candidates" % method,
                                          dict(base_info, instance=i, reported=rep, candidate_rewards=r_c)))
                        elif ret not in [row for row, rc in zip(cpad, r_c) if abs(rc - best) <= TOL]:
                            fails.append(("eval/%s: returned-actions-are-not-a-best-candidate" % method,
                                          dict(base_info, instance=i, returned=ret, candidates=cpad, candidate_rewards=r_c)))
                        key = method
                        if rep < greedy_r[i] - TOL:
                            stats["not_better_than_greedy"][key] = stats["not_better_than_greedy"].get(key, 0) + 1
                            if method in ("greedy", "augment", "augment_dihedral_8"):
                                fails.append(("eval/%s: worse-than-plain-greedy-although-the-unmodified-instance-is-a-candidate" % method,
                                              dict(base_info, instance=i, reported=rep, plain_greedy=greedy_r[i])))
                        elif rep > greedy_r[i] + TOL:
                            stats["strictly_better_than_greedy"][key] = stats["strictly_better_than_greedy"].get(key, 0) + 1
                    if n == 3 and bs == 2 and method == "multistart_greedy_augment" and kw.get("num_augment") == 2 and env_name == "cvrp":
                        ctx.sample({k: base_info[k] for k in ("unit", "env", "method", "kwargs", "loader_batch_size", "reported_rewards", "returned_actions")})
    ctx.units["evaluate_policy end to end (stub decoder, real decoding strategies and envs)"] = stats


def part_e(ctx, torch, rng, fails):
    import torch.nn as nn
    from rl4co.envs import CVRPEnv, TSPEnv
    from rl4co.models.common.constructive.base import ConstructivePolicy
    from rl4co.models.zoo.pomo import POMO
    from rl4co.models.zoo.symnco import SymNCO

    TOL = 2e-5
    stats = {"pomo_steps": 0, "symnco_steps": 0, "instances_checked": 0, "first_aug_identity_false_wrong_reward": 0}
    reps = 2 if ctx.tier == "quick" else 6
    for env_name in ("tsp", "cvrp"):
        with silence():
            env = TSPEnv(generator_params=dict(num_loc=5)) if env_name == "tsp" else CVRPEnv(generator_params=dict(num_loc=5))
        pol = make_stub(torch, nn, ConstructivePolicy, env_name)
        for rep in range(reps):
            n = rng.choice([2, 3, 4])
            td, fps = make_instances(rng, torch, env_name, n, 5)
            with silence():
                td_reset = env.reset(td.clone())
            confs = [("pomo", dict(num_augment=8, augment_fn="dihedral8", num_starts=3), True),
                     ("pomo", dict(num_augment=rng.choice([2, 3, 4]), augment_fn="symmetric", num_starts=2), True),
                     ("pomo", dict(num_augment=8, augment_fn="dihedral8", num_starts=2, first_aug_identity=False), False),
                     ("pomo", dict(num_augment=3, augment_fn="symmetric", num_starts=2, first_aug_identity=False), False),
                     ("symnco", dict(num_augment=rng.choice([2, 4]), num_starts=3), True)]
            for model, kw, default_flags in confs:
                captured = {}
                torch.manual_seed(rng.randint(0, 2 ** 31))
                with Capture(torch) as cap, silence():
                    cls = POMO if model == "pomo" else SymNCO
                    m = cls(env, policy=pol, batch_size=n, train_data_size=n, val_data_size=n, test_data_size=n, **kw)
                    m.log_metrics = lambda out, phase, dataloader_idx=None: captured.update(out=out) or {}
                    with torch.no_grad():
                        m.shared_step(td.clone(), 0, "test")
                out = captured.get("out", {})
                stats[model + "_steps"] += 1
                ctx.count("shared_step_" + model)
                ctx.seen({"e": [env_name, model, kw], "locs": td["locs"].tolist()}, nontrivial=True)
                info = {"unit": "%s.shared_step(phase=test)" % model.upper(), "env": env_name, "model_kwargs": kw,
                        "instances": {k: v.tolist() for k, v in td.items()}, "stub_policy": "prefer smallest x+2y, depot last"}
                if "max_aug_reward" not in out:
                    fails.append(("%s/shared_step: no-max_aug_reward" % model, info))
                    continue
                mar = out["max_aug_reward"].tolist()
                baa = out.get("best_aug_actions")
                cands, unknown = cap.candidates(fps)
                if model == "symnco":
                    if baa is not None and baa.dim() != 2:
                        fails.append((SIG_SYMNCO, dict(info, best_aug_actions_shape=list(baa.shape), max_aug_reward=mar,
                                                       expected_shape=[n, int(baa.shape[-1])])))
                        baa = None
                for i in range(n):
                    stats["instances_checked"] += 1
                    c = cands[fps[i]]
                    if not c and default_flags:
                        ctx.broken.append("correspondence C15/%s: no candidate rows recognised for instance %d" % (model, i))
                        continue
                    with silence():
                        r_c = true_rewards(torch, env, td_reset[i:i + 1], c).tolist() if c else []
                        r_ret = float(true_rewards(torch, env, td_reset[i:i + 1], [baa[i].tolist()])[0]) if baa is not None else None
                    bad_ret = r_ret is not None and abs(mar[i] - r_ret) > TOL
                    bad_max = bool(r_c) and default_flags and abs(mar[i] - max(r_c)) > TOL
                    if bad_ret or bad_max:
                        if not default_flags:
                            stats["first_aug_identity_false_wrong_reward"] += 1
                            sig = SIG_FAI
                        else:
                            sig = "%s/shared_step: max_aug_reward-is-not-the-objective-of-best_aug_actions-on-the-original-instance" % model
                        fails.append((sig, dict(info, instance=i, max_aug_reward=mar[i], objective_of_best_aug_actions_on_original=r_ret,
                                                best_aug_actions=baa[i].tolist() if baa is not None else None,
                                                true_candidate_rewards=r_c if default_flags else None)))
    ctx.units["POMO / SymNCO shared_step(test) with the stub policy"] = stats


# ------------------------------------------------------------------------------------------------ part F
def part_f(ctx, torch, fails):
    """POMO / SymNCO over the configuration grid num_augment {1,2,8} x num_starts {None,0,1,2,4} x phase {train,val,test}
    (x policy returns actions or not): the REAL constructor and shared_step with a stub policy that returns tagged integer
    rewards; raise-vs-return and the max_reward / max_aug_reward handed to log_metrics are compared with the Coq model
    (Train/SharedStepGrid.v) and, independently, with the statement of C15 (every configuration the classes document
    returns; max_aug_reward[b] = max over all rows holding a copy of instance b; training with one start is refused)."""
    import random as _random
    import torch.nn as nn
    from rl4co.envs import TSPEnv
    from rl4co.models.zoo.pomo import POMO
    from rl4co.models.zoo.symnco import SymNCO

    grng = _random.Random("C15-shared-step-grid-%s" % ctx.seed)    # own stream (see part C)
    NLOC = 5
    with silence():
        env = TSPEnv(generator_params=dict(num_loc=NLOC))

    class GridPolicy(nn.Module):
        def __init__(self):
            super().__init__()
            self.w = nn.Parameter(torch.zeros(1))
            self.train_decode_type, self.val_decode_type, self.test_decode_type = "sampling", "greedy", "greedy"
            self.rewards, self.with_actions, self.calls = None, True, []

        def forward(self, td, env=None, phase="train", num_starts=0, **kw):
            rows = td.batch_size[0] * max(int(num_starts or 0), 1)
            self.calls.append((rows, num_starts))
            r = torch.tensor([float(self.rewards(k)) for k in range(rows)], dtype=torch.float32)
            out = {"reward": r, "log_likelihood": torch.zeros(rows, requires_grad=True) - 1.0,
                   "proj_embeddings": torch.ones(td.batch_size[0], 2, 3, requires_grad=True)}
            if self.with_actions:
                out["actions"] = torch.arange(rows)[:, None].repeat(1, NLOC)
            return out

    PH = {"train": 0, "val": 1, "test": 2}
    cases, meta = [], []
    stats = {"steps": 0, "raised": 0, "returned": 0}
    for model in ("pomo", "symnco"):
        for A in (1, 2, 8):
            for S in (None, 0, 1, 2, 4):
                for phase in ("train", "val", "test"):
                    for with_actions in ((True, False) if phase != "train" else (True,)):
                        B = grng.choice([1, 2, 3])
                        table = [grng.randint(0, 5) for _ in range(B * 8 * 5 + 1)]
                        pol = GridPolicy()
                        pol.rewards, pol.with_actions = (lambda k: -table[k % len(table)]), with_actions
                        kw = dict(num_augment=A, num_starts=S)
                        if model == "pomo" and A != 8:
                            kw["augment_fn"] = "symmetric"
                        info = {"unit": "%s.shared_step" % model.upper(), "env": "TSPEnv(num_loc=5)", "model_kwargs": dict(kw), "phase": phase,
                                "batch_size": B, "policy_returns_actions": with_actions,
                                "stub_policy": "row k of the replicated batch gets reward -table[k]", "table": table}
                        captured, stage, err, m = {}, 0, None, None
                        torch.manual_seed(grng.randint(0, 2 ** 31))
                        with silence():
                            try:
                                m = (POMO if model == "pomo" else SymNCO)(env, policy=pol, batch_size=B, train_data_size=B, val_data_size=B,
                                                                         test_data_size=B, **kw)
                            except Exception as e:  # noqa: BLE001
                                stage, err = 1, "%s: %s" % (type(e).__name__, str(e)[:160])
                            if m is not None:
                                m.log_metrics = lambda out, phase, dataloader_idx=None: captured.update(out=out) or {}
                                batch = env.generator(batch_size=[B])
                                try:
                                    m.shared_step(batch, 0, phase)
                                except Exception as e:  # noqa: BLE001
                                    stage, err = 2, "%s: %s" % (type(e).__name__, str(e)[:160])
                        out = captured.get("out", {}) if stage == 0 else {}
                        rows = pol.calls[-1][0] if pol.calls else 0
                        reward_rows = [-table[k % len(table)] for k in range(rows)]
                        mr = out.get("max_reward") if stage == 0 else None
                        mar = out.get("max_aug_reward") if stage == 0 else None
                        f_mr = None if mr is None else [int(round(float(x))) for x in mr.reshape(-1)]
                        f_mar = None if mar is None else [int(round(float(x))) for x in mar.reshape(-1)]
                        stats["steps"] += 1
                        stats["raised" if stage else "returned"] += 1
                        ctx.count("grid_%s_%s" % (model, "raises" if stage else "returns"))
                        ctx.seen({"f": [model, A, S, phase, with_actions, B, table]}, nontrivial=B > 1)
                        # when the constructor / step raised before the policy ran, the model still needs the rows it WOULD have seen
                        if not pol.calls:
                            n_start = S if S is not None else NLOC
                            a_rows = A if (A > 1 and (model == "symnco" or phase != "train")) else 1
                            rows = B * a_rows * max(n_start, 1)
                            reward_rows = [-table[k % len(table)] for k in range(rows)]
                        opt = lambda v: "None" if v is None else "(Some %s)" % clist(cz(x) for x in v)
                        cases.append("(%s, %s, %s, %s, %s, %s, %s, (%s, %s, %s))" % (
                            cnat(0 if model == "pomo" else 1), cnat(A), "None" if S is None else "(Some %s)" % cnat(S), cnat(NLOC),
                            cnat(PH[phase]), cbool(with_actions), clist(cz(x) for x in reward_rows), cnat(stage), opt(f_mr), opt(f_mar)))
                        meta.append({"model": model, "num_augment": A, "num_starts": S, "phase": phase, "actions": with_actions, "B": B,
                                     "observed": "raised (%s)" % err if stage else "returned"})
                        info["observed"] = {"raised": err, "max_reward": None if mr is None else mr.tolist(),
                                            "max_aug_reward": None if mar is None else mar.tolist()}
                        # ---------------- the statement of C15 / the documented behaviour on this configuration
                        n_start = S if S is not None else NLOC
                        if stage == 1:
                            sig = SIG_SYMNCO_NONE if (model == "symnco" and S is None) else "%s/__init__: raises-on-a-documented-configuration" % model
                            fails.append((sig, dict(info, expected="the constructor accepts the configuration (class docstring)")))
                            continue
                        if phase == "train":
                            if model == "pomo" and n_start <= 1:
                                if stage == 0:
                                    fails.append(("pomo/shared_step: training-with-a-single-start-is-not-refused",
                                                  dict(info, expected="AssertionError 'num_starts must be > 1 during training' (the shared "
                                                                      "baseline's advantage is identically zero with one start)")))
                            elif stage:
                                fails.append(("%s/shared_step: raises-on-a-supported-configuration" % model, dict(info, expected="returns a loss")))
                            continue
                        if stage:
                            sig = (SIG_POMO_SINGLE if (model == "pomo" and A > 1 and n_start <= 1 and with_actions)
                                   else "%s/shared_step: raises-on-a-supported-configuration" % model)
                            fails.append((sig, dict(info, expected="the validation / test step returns (the code has explicit branches for n_start <= 1)")))
                            continue
                        # candidates of instance b: every row r with r mod B == b
                        best = [max(reward_rows[r] for r in range(rows) if r % B == b) for b in range(B)]
                        if A > 1:
                            if f_mar is None:
                                fails.append(("%s/shared_step: no-max_aug_reward" % model, dict(info, expected=best)))
                            elif f_mar != best:
                                sig = (SIG_SYMNCO_SINGLE if (model == "symnco" and n_start == 1 and len(f_mar) == B * A)
                                       else "%s/shared_step: max_aug_reward-is-not-the-maximum-over-the-instance's-rollouts" % model)
                                fails.append((sig, dict(info, expected_max_aug_reward=best,
                                                        what="max_aug_reward[b] must be the best reward among all rows that hold a copy of instance b")))
                        if n_start > 1:
                            a_eff = max(A, 1)
                            want = [max(reward_rows[r] for r in range(rows) if r % B == b and (r // B) % a_eff == a)
                                    for b in range(B) for a in range(a_eff)] if model == "pomo" else None
                            if model == "symnco":      # rows are laid out a-major for SymNCO: row = a*(S*B) + s*B + b
                                want = [max(reward_rows[a * (n_start * B) + s * B + b] for s in range(n_start)) for b in range(B) for a in range(a_eff)]
                            if f_mr is None:
                                fails.append(("%s/shared_step: no-max_reward" % model, dict(info, expected=want)))
                            elif f_mr != want:
                                fails.append(("%s/shared_step: max_reward-is-not-the-maximum-over-the-starts" % model, dict(info, expected_max_reward=want)))
    try:
        codes = coq_eval_shards("cases_C15_grid", HEADER, "gr_case", "check_grid", cases, shard=80)
    except RuntimeError as e:
        codes = None
        ctx.broken.append("correspondence C15/shared_step_grid could not be evaluated: %s" % str(e)[-600:])
    if codes is not None:
        nz = [(i, c) for i, c in enumerate(codes) if c != 0]
        stats.update(cases=len(codes), disagreements=len(nz))
        if nz:
            i, c = nz[0]
            ctx.broken.append("correspondence C15/shared_step_grid: model and implementation differ in %d of %d cases (first: case %d, code %d; "
                              "1 = raises-vs-returns, 2 = max_reward, 3 = max_aug_reward) %s" % (len(nz), len(codes), i, c, meta[i]))
    ctx.units["POMO / SymNCO shared_step configuration grid (stub policy, tagged rewards)"] = stats


# ------------------------------------------------------------------------------------------------ driver
def run(ctx: Ctx, proofs_ok: bool):
    import torch
    from translator import units_c15

    rng = ctx.rng
    torch.manual_seed(rng.randint(0, 2 ** 31))
    ctx.notes.extend(units_c15.LAST_MSGS)
    ctx.rule = ("A: coordinates on the k/64 grid of the unit square, B in 1..3 (thorough ..5) instances of 2..6 nodes, layouts 'locs' (TSP-like) and "
                "'depot+locs' (reset TensorDict of the real CVRP env); dihedral8 and symmetric with num_augment 1..16; flags first_aug_identity x normalize; "
                "rotation angles from a seeded torch.rand with the code's own torch.cos/sin values captured (real stream, 1e-6) or dyadic (c,s) incl. the four "
                "axis rotations injected (exact stream, zero tolerance). B: tagged integer rewards in 0..3 (ties), B 1..6, k, A, S 1..4. C: 1..4 loader batches "
                "of 1..3 rows and widths 1..6. D: 1..6 instances of 4-5 nodes (CVRP: light/heavy/mixed demands so that loader batches differ in length), "
                "all 7 methods of evaluate_policy, loader batch sizes {1,2,3,n} (avg_reward = mean of the returned rewards for every method). E: POMO/SymNCO test step. F: num_augment {1,2,8} x num_starts {None,0,1,2,4} x phase x policy-returns-actions, B in 1..3, integer rewards 0..-5 (ties). non-trivial = more than one copy/candidate/batch; "
                "distinct by hash of inputs")
    ctx.trusted.append("translator/ext_c15.py (per-point meaning given to split/cat/flip/where; torch.cos(phi), torch.sin(phi), phi > 2*pi opaque)")
    ctx.assumptions += [
        "cos/sin are not modelled: (c, s) are the values the code obtained from torch.cos/torch.sin; theorems assume c*c + s*s = 1 (validated: float deviation recorded in the evidence); at R the statement is proved for the real cos/sin",
        "sqrt / vector norm is an arbitrary function f of the squared distance (f 0 = 0 for the padding lemma); float rounding not modelled",
        "the policy is arbitrary (the candidate list is universally quantified); env.get_reward is an arbitrary row-wise function in the eval theorems (C03/C04)",
        "'never worse than greedy' is a theorem only where the code puts the unmodified instance with a free greedy rollout among the candidates: greedy, augment, augment_dihedral_8 (first copy is the identity and the policy is assumed row-wise, C14). The multistart, multistart+augment and sampling methods force or sample the first action of every candidate, so plain greedy is not among them (counts in units.evaluate_policy.not_better_than_greedy)",
        "torch.max(dim) returns the first maximal index (checked on tagged rewards with ties); batch dimension is one-dimensional",
    ]
    fails = []
    nthreads = torch.get_num_threads()
    torch.set_num_threads(1)          # tiny tensors: intra-op threading only costs time (and reduction order)
    try:
        part_a(ctx, torch, rng, fails)
        part_b(ctx, torch, rng, fails)
        part_c(ctx, torch, rng, fails)
        part_d(ctx, torch, rng, fails)
        part_e(ctx, torch, rng, fails)
        part_f(ctx, torch, fails)
    finally:
        torch.set_num_threads(nthreads)

    # ---------------------------------------------------------------- decision
    ctx.extra["spec_on_impl_failures"] = len(fails)
    by_sig = {}
    for sig, obj in fails:
        size = len(str(obj))
        if sig not in by_sig or size < by_sig[sig][0]:
            by_sig[sig] = (size, obj)
    ctx.extra["failure_signatures"] = {s: sum(1 for x, _ in fails if x == s) for s in by_sig}
    for sig in sorted(by_sig):
        if sig in OUT_OF_SCOPE:
            ctx.extra.setdefault("out_of_scope_observations", []).append(sig)
            continue
        obj = dict(by_sig[sig][1])
        obj["what"] = "C15 fails on the implementation for this input (smallest recorded case of this signature)"
        ctx.failure(sig, obj, tag=sig.split(":")[0].replace("/", "_").replace("=", "").replace("+", "_")[:40])


# ------------------------------------------------------------------------------------------------ replay
def replay(obj):
    import json
    import torch
    from tensordict import TensorDict
    print("signature:", obj.get("signature"))
    if obj.get("unit") == "StateAugmentation" and "locs" in obj:
        from rl4co.data.transforms import StateAugmentation
        locs = torch.tensor(obj["locs"], dtype=torch.float32)
        B = locs.shape[0]
        data = {"locs": locs}
        if "depot" in obj:
            data["depot"] = torch.tensor(obj["depot"], dtype=torch.float32)
        td = TensorDict(data, batch_size=[B])
        us = [torch.tensor(u) for u in obj.get("torch_rand_per_feature", [obj["torch_rand"]] if "torch_rand" in obj else [])]
        res = run_state_aug(torch, StateAugmentation, td, obj["augment_fn"], obj["num_augment"], obj.get("first_aug_identity", True),
                            obj.get("normalize", False), obj.get("feats"), us, obj.get("injected_cos_sin"))
        if res["raised"]:
            print("raised:", res["raised"])
            return 0
        feats = obj.get("feats") or ["locs"]
        rin = [pts(sum((td[f][b].tolist() for f in reversed(feats)), [])) for b in range(B)]
        rout = [pts(sum((res["out"][f][r].tolist() for f in reversed(feats)), [])) for r in range(res["out"][feats[0]].shape[0])]
        first_ok, bad = spec_rows(rin, rout, B, tol=Fraction(1, 10 ** 5))
        print("first copy equals original:", first_ok)
        print("pairs whose squared distance changed (row, i, j, observed, expected):", bad[:8])
        print("expected: none" if bad or not first_ok else "property holds on this input now")
        return 1 if (bad or not first_ok) else 0
    if str(obj.get("unit", "")).endswith("shared_step(phase=test)") and "instances" in obj:
        import torch.nn as nn
        from rl4co.envs import CVRPEnv, TSPEnv
        from rl4co.models.common.constructive.base import ConstructivePolicy
        from rl4co.models.zoo.pomo import POMO
        from rl4co.models.zoo.symnco import SymNCO
        env_name = obj["env"]
        with silence():
            env = TSPEnv(generator_params=dict(num_loc=5)) if env_name == "tsp" else CVRPEnv(generator_params=dict(num_loc=5))
        pol = make_stub(torch, nn, ConstructivePolicy, env_name)
        inst = {k: torch.tensor(v, dtype=torch.float32) for k, v in obj["instances"].items()}
        n = inst["locs"].shape[0]
        td = TensorDict(inst, batch_size=[n])
        captured = {}
        torch.manual_seed(0)
        with silence():
            cls = POMO if obj["unit"].startswith("POMO") else SymNCO
            m = cls(env, policy=pol, batch_size=n, train_data_size=n, val_data_size=n, test_data_size=n, **obj["model_kwargs"])
            m.log_metrics = lambda out, phase, dataloader_idx=None: captured.update(out=out) or {}
            with torch.no_grad():
                m.shared_step(td.clone(), 0, "test")
            td_reset = env.reset(td.clone())
        out = captured.get("out", {})
        baa = out.get("best_aug_actions")
        print("max_aug_reward:", out.get("max_aug_reward"))
        print("best_aug_actions shape:", None if baa is None else list(baa.shape), " expected:", [n, "L"])
        if baa is not None and baa.dim() == 2:
            with silence():
                tr = env.get_reward(td_reset, baa)
            print("objective of best_aug_actions on the original instances:", tr.tolist())
            bad = bool(((tr - out["max_aug_reward"]).abs() > 2e-5).any())
            print("max_aug_reward equals it:" , not bad)
            return 1 if bad else 0
        return 1 if baa is not None else 0
    print(json.dumps(obj, indent=1)[:6000])
    print("(re-run ./check C15 to re-evaluate this configuration; the record above contains instances, method, kwargs and observed vs expected)")
    return 0
