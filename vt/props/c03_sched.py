"""C03 / unit sched -- the reward FJSPEnv, JSSPEnv, FFSPEnv, SMTWTPEnv report equals the objective recomputed from the
original instance data and the executed actions alone.

Proof obligations: coq/theories/Properties/C03_sched.v.
Correspondence: the implementation's reward of every row of mixed batches (unequal sizes, rows finishing at different
steps, post-finish padding) is sent to Coq together with the instance and the row's action list ONLY; Coq runs the row
model on the actions, reads the induced schedule off the final state, evaluates the independent specification on it
(Spec/Schedule.v valid_scheduleb + latest completion time; Spec/FlowShop.v validb + is_makespanb; SMTWTP weighted
tardiness) and compares  reward = - objective  exactly (all data are integers / dyadic k/64).
stepwise_reward=True (FJSPEnv / JSSPEnv): the dense reward of _step is minus the change of the maximal lower bound; C03's
statement there is the telescoping identity  max lower bound after reset - sum of the step rewards = makespan
(Properties/C03_sched.v C03_fjsp_stepwise_rewards_telescope_to_makespan, for any potential); the stream records td['lbs'].max()
and td['reward'] after every step and the identity is evaluated in python on the implementation's own numbers and in Coq
against the makespan of the schedule the row model induces (Harness/HC07_fjsp.v check_stepwise).
Guards: env.get_reward on a batch with an unfinished row must raise (model SchedBatch.b_reward), env.pre_step on a running
FFSP batch must raise (model Env/SchedGuards.v b_pre_step): probed on clones of the running batches of the streams."""
import random
import time

from vt import sched_graph_common as C
from vt.common import cbool, clist, cnat, cz
from vt.props import c07_ffsp as G


def _evaluate(ctx, res, coll, tag, count=True):
    n = {"fjsp_rows": 0, "ffsp_rows": 0, "smtwtp_rows": 0}
    insts, cases, metas = [], [], []
    for kind, mno, out in res["fjsp"]:
        if out["rewards"] is None:
            raw = out.get("rewards_raw") or []
            for b, x in enumerate(raw):      # integer instances have integer makespans: an infinite / nan reward is no objective value
                if x != x or x in (float("inf"), float("-inf")):
                    coll.fail("%s: reward-differs-from-objective" % kind, C.fjsp_replay_obj(kind, mno, out, b, {
                        "observed_reward": repr(x), "what": "the reported reward is not a finite number"}))
            continue
        for b, row in enumerate(out["rows"]):
            insts.append(out["insts"][b])
            acts = [s[0] for s in row["steps"]]
            cases.append("(%s, %s, I%d, %s, %s)" % (cbool(kind == "jssp"), cbool(mno), len(insts) - 1,
                                                    clist(cnat(a) for a in acts), cz(out["rewards"][b])))
            metas.append((kind, C.fjsp_replay_obj(kind, mno, out, b, {"observed_reward": out["rewards"][b]})))
            if count:
                ctx.seen({"i": out["insts"][b], "a": acts, "k": kind, "m": mno}, nontrivial=len(acts) >= 2 and row["choice"])
    codes = C.coq_codes(ctx, "cases_C03_sched_fjsp" + tag, C.fjsp_header(insts), "c03_case", "check_C03_fjsp", cases, shard=40)
    if codes is not None:
        n["fjsp_rows"] = len(codes)
        for kind in ("fjsp", "jssp"):
            sel = [(c, m[1]) for c, m in zip(codes, metas) if m[0] == kind]
            coll.codes(kind, [c for c, _ in sel], [m for _, m in sel], "c03")
    recs = [r for r in res["ffsp"] if float(r["reward"]) == int(r["reward"])]
    codes = C.coq_codes(ctx, "cases_C03_sched_ffsp" + tag, C.HDR_FFSP, "FFSP.inst * list nat * Z", "check_C03_ffsp",
                        [C.ffsp_c03_term(r) for r in recs], shard=30)
    if codes is not None:
        n["ffsp_rows"] = len(codes)
        coll.codes("ffsp", codes, [G.ffsp_replay_obj(r, "C03", 0) for r in recs], "c03")
        if count:
            for r in recs:
                ctx.seen({"f": [r["rt"], [a for a, _ in r["steps"]]]}, nontrivial=len(r["steps"]) >= 2)
    srecs = res["smtwtp"]
    codes = C.coq_codes(ctx, "cases_C03_sched_smtwtp" + tag, C.HDR_FFSP, "SMTWTP.inst * list nat * Z", "check_C03_smtwtp",
                        [C.smtwtp_c03_term(r) for r in srecs], shard=60)
    if codes is not None:
        n["smtwtp_rows"] = len(codes)
        coll.codes("smtwtp", codes, [G.smtwtp_replay_obj(r, "C03", 0) for r in srecs], "c03")
        if count:
            for r in srecs:
                ctx.seen({"s": [r["due"], r["wgt"], r["ptime"], [a for a, _, _ in r["steps"]]]}, nontrivial=r["n"] >= 2)
    # guards: a reward asked before every row is finished / pre_step on a running batch must be refused
    n["fjsp_get_reward_guard_probes"] = C.fjsp_reward_guard_evaluate(ctx, res.get("fjsp_all", []), coll, "cases_C03_sched_rewardguard" + tag, count=count)
    n["ffsp_pre_step_probes"], _ = G.ffsp_probe_evaluate(ctx, res.get("ffsp_batches", []), "cases_C03_sched_ffsp_prestep" + tag, C.HDR_FFSP,
                                                          coll.fail, count=count)
    # stepwise_reward=True
    n["fjsp_stepwise_rows"] = C.fjsp_stepwise_evaluate(ctx, res.get("stepwise", []), coll, "cases_C03_sched_stepwise" + tag, count=count)
    return n


def _timeouts(pyc, coll):
    """a call that did not return is reported by every sched unit (the C02-type collector is otherwise only counted here)"""
    for sig, (_, rep) in sorted(pyc.best.items()):
        if sig.endswith("does not terminate"):
            coll.fail(sig, rep)


def run_unit(ctx, proofs_ok):
    import torch
    t0 = time.time()
    rng = random.Random(ctx.rng.randrange(2 ** 62))
    torch.manual_seed(rng.randrange(2 ** 31))
    ctx.rule += (" [sched] the mixed batches of the C02 unit (FJSPEnv/JSSPEnv mask_no_ops on/off, FFSPEnv, SMTWTPEnv; rows of unequal "
                 "size, one slowed-down batch-mate, per-row walk policies, post-finish padding); integer processing times / k/64 data, so "
                 "reward = -objective is compared exactly.")
    ctx.assumptions += [
        "sched unit: 'the schedule the actions induce' is the row model's final state (a function of instance and actions only); that "
        "it is a valid schedule of the instance and that the reward is minus its latest completion time are theorems "
        "(C03_fjsp_reward_is_minus_makespan, C03_ffsp_reward_is_minus_makespan); the check re-evaluates both on every case",
        "sched unit: FFSP durations below 999999 (C03_ffsp_reward_needs_duration_bound)",
    ]
    with C.Threads():
        coll = C.Collector(ctx, "C03", "sched")
        pyc = C.Collector(ctx, "C03", "sched-c02side")     # C02-type failures met on the way belong to C02; counted, not reported here
        scale = C.budget(ctx, 4, 40)
        res = C.sched_streams(ctx, rng, torch, scale, pyc, "c03")
        res["stepwise"] = C.stepwise_streams(ctx, random.Random(ctx.seed * 131 + 7), torch, scale, "c03")
        n = _evaluate(ctx, res, coll, "")
        _timeouts(pyc, coll)
        unit = dict(n, models="Env/FJSP.v, Env/FFSP.v, Env/SMTWTP.v, Env/SchedStepwise.v, Env/SchedGuards.v; specs Spec/Schedule.v, Spec/FlowShop.v",
                    observables="env.get_reward / td['reward'] per row vs the objective recomputed in Coq from (instance, actions); "
                                "stepwise_reward=True: td['lbs'].max() and td['reward'] after every step (L0 - sum r = makespan); whether "
                                "env.get_reward / env.pre_step raise on unfinished / running batches",
                    env_call_guard=C.guard.evidence(),
                    c02_type_failures_seen=sorted(pyc.best))
        if (coll.n_disagree or not proofs_ok or any("C03_sched" in b for b in ctx.broken)) and not coll.best and not C.guard.timed_out():
            res2 = C.sched_streams(ctx, rng, torch, 4 * scale, pyc, "c03_search")
            res2["stepwise"] = C.stepwise_streams(ctx, random.Random(ctx.seed * 137 + 11), torch, 3 * scale, "c03_search")
            n2 = _evaluate(ctx, res2, coll, "_search", count=False)
            _timeouts(pyc, coll)
            unit["search_rows"] = sum(n2.values())
        unit["concrete_failures"] = coll.flush()
        unit["disagreements"] = coll.n_disagree
        unit["wall_s_unit"] = round(time.time() - t0, 1)
        ctx.units["sched"] = unit
        for r in res["ffsp"][:1]:
            ctx.sample({"unit": "sched", "env": "ffsp", "run_time": r["rt"], "actions": [a for a, _ in r["steps"]], "impl_reward": r["reward"]})


def replay(obj):
    return C.replay(obj)
