"""C07, unit ffsp -- FFSPEnv and SMTWTPEnv yield valid schedules with the reported objective.

Proof obligations: coq/theories/Properties/C07_ffsp.v (row models Env/FFSP.v, Env/SMTWTP.v; spec Spec/FlowShop.v).
Correspondence (soundness direction, DESIGN.md 1.1): the real environments are driven through mask-confined
episodes (uniform walks, biased walks, exhaustive expansion of tiny instances; solo, batched with rows finishing
at different times, and the batchify/POMO layout that makes rows read other rows of the machine table); after
every step  impl mask inside model mask, done equal, stage_idx / stage_machine_idx equal ; at the end equality of
`schedule`, `job_location` and reward with the model evaluated inside Coq (HC07F.check_ffsp / check_smtwtp).
Spec-on-impl on every run: FlowShop.validb + makespan = -reward on every implementation schedule; permutation +
exact weighted tardiness on every SMTWTP episode.  All data are small integers / dyadic k/64, so everything is exact.
"""
import itertools
from fractions import Fraction

from vt import sched_guard as guard
from vt.common import cz, cnat, cbool, cboollist, clist, coq_eval_shards

HEADER = ("From Coq Require Import List ZArith Bool.\n"
          "From RL4CO Require Import Env.FFSP Env.SMTWTP Harness.HC07_ffsp.\n"
          "Import ListNotations.\n")

HEADER_GUARD = ("From Coq Require Import List ZArith Bool.\n"
                "From RL4CO Require Import Env.FFSP Env.SMTWTP Harness.HC07_ffsp Harness.HC0234_ffsp.\n"
                "Import ListNotations.\n")

CORR_TAGS = {1: "impl mask not inside model mask", 2: "action outside the model mask", 3: "done differs",
             4: "reward differs", 7: "model step = None", 8: "stage_idx differs", 9: "stage_machine_idx differs",
             10: "schedule differs", 11: "job_location differs", 12: "instance not well-formed (wfb false)",
             13: "episode not finished", 14: "time_idx (FFSP) / current_time (SMTWTP) differs", 15: "sub_time_idx (FFSP) / current_job (SMTWTP) differs",
             16: "machine_idx differs (FFSP) / bookkeeping list has another length than the steps (SMTWTP)", 17: "machine_wait_step differs",
             18: "job_wait_step differs", 19: "job_location differs (per step)"}
# the keys of the step output the row models have a counterpart for, compared after reset and after EVERY step
FFSP_KEYS_COMPARED = ["time_idx", "sub_time_idx", "machine_idx", "machine_wait_step", "job_wait_step", "job_location",
                      "stage_idx", "stage_machine_idx", "done", "action_mask (impl inside model)"]
SMTWTP_KEYS_COMPARED = ["current_time", "current_job", "done", "action_mask (impl inside model)"]


# ------------------------------------------------------------------------------------------------ FFSP
def _ffsp_env(J, S, M, lo, hi, flat=True):
    from rl4co.envs import FFSPEnv
    return FFSPEnv(generator_params=dict(num_stage=S, num_machine=M, num_job=J, min_time=lo, max_time=hi,
                                         flatten_stages=flat))


def _obs(td, r):
    return {"mask": [bool(x) for x in td["action_mask"][r].tolist()],
            "done": bool(td["done"].reshape(-1)[r]),
            "stage": int(td["stage_idx"][r]), "sm": int(td["stage_machine_idx"][r]),
            "keys": {"time": int(td["time_idx"][r]), "sub": int(td["sub_time_idx"][r]), "mach": int(td["machine_idx"][r]),
                     "mws": [int(x) for x in td["machine_wait_step"][r].tolist()],
                     "jws": [int(x) for x in td["job_wait_step"][r].tolist()],
                     "jloc": [int(x) for x in td["job_location"][r].tolist()]}}


def _pick(policy, rng, mask, J):
    adm = [j for j, b in enumerate(mask) if b]
    if not adm:
        return None
    jobs = [j for j in adm if j < J]
    if policy == "wait" and J in adm:
        return J
    if policy == "nowait" and jobs:
        return rng.choice(jobs)
    if policy == "first":
        return adm[0]
    if policy == "lastjob" and jobs:
        return jobs[-1]
    return rng.choice(adm)


def _stage_pattern(stages):
    z = sum(1 for x in stages if x == 0)
    return "all0" if z == len(stages) else ("none0" if z == 0 else "mixed")


def ffsp_episode(env, run_time, policies, rng, pomo=1, pre_step=False, forced=None, max_steps=4000, probe_pre_step=False):
    """Run one batch to the end.  run_time: list (rows) of J x T integer tables.  Returns per-row records.
    probe_pre_step: additionally call env.pre_step on a CLONE of the running batch the first time each stage pattern (every row
    at stage 0 / some / none) is met, and record whether it raised (records[0]["pre_step_probes"])."""
    import torch
    from tensordict import TensorDict
    from rl4co.utils.ops import batchify
    B = len(run_time)
    J, T = env.num_job, env.num_machine_total
    R = B * pomo
    crashed = None
    timeout = None
    td = None
    try:
        td = guard.call("ffsp", "reset", env.reset, TensorDict({"run_time": torch.tensor(run_time, dtype=torch.long)}, batch_size=[B]))
        if pomo > 1:
            td = batchify(td, pomo)
        if pre_step:
            td = guard.call("ffsp", "pre_step", env.pre_step, td)
    except guard.EnvTimeout as e:
        timeout = e
        crashed = "%s (env.%s did not return)" % (guard.signature("ffsp", e.what), e.what)
    if td is None or timeout is not None:
        return [{"obs0": {"mask": [], "done": False, "stage": 0, "sm": 0}, "steps": [], "first_done": None, "J": J, "S": env.num_stage,
                 "M": env.num_machine, "flat": bool(env.flatten_stages), "rt": [list(map(int, row)) for row in run_time[r % B]],
                 "mtab": [], "pomo": r // B, "sched": [], "jloc": [], "reward": 0.0, "crashed": crashed, "row": r, "B": R,
                 "timeout": timeout.what, "batch_rt": run_time, "batch_actions": []} for r in range(R)]
    mtabs = [env.tables.machine_table[r // env.tables.bs].tolist() for r in range(R)]
    rows = [{"obs0": _obs(td, r), "steps": [], "first_done": None} for r in range(R)]
    probes, seen_patterns = [], set()

    def probe(k):
        stages = [int(x) for x in td["stage_idx"].tolist()]
        pat = _stage_pattern(stages)
        if not probe_pre_step or pat in seen_patterns or bool(td["done"].all()):
            return
        seen_patterns.add(pat)
        try:
            guard.call("ffsp", "pre_step", env.pre_step, td.clone())
            probes.append({"k": k, "stages": stages, "pattern": pat, "raised": False, "error": None})
        except guard.EnvTimeout:
            raise
        except Exception as e:  # noqa: BLE001
            probes.append({"k": k, "stages": stages, "pattern": pat, "raised": True, "error": "%s: %s" % (type(e).__name__, str(e)[:120])})

    batch_actions = []
    k = 0
    try:
        probe(0)
        while not bool(td["done"].all()):
            acts = []
            for r in range(R):
                m = rows[r]["steps"][-1][1]["mask"] if rows[r]["steps"] else rows[r]["obs0"]["mask"]
                a = forced[r][k] if forced is not None and k < len(forced[r]) else _pick(policies[r % len(policies)], rng, m, J)
                if a is None:
                    crashed = "empty mask row %d at step %d" % (r, k)
                    a = J
                acts.append(a)
            if crashed:
                break
            batch_actions.append(list(acts))
            td.set("action", torch.tensor(acts, dtype=torch.long))
            try:
                td = guard.call("ffsp", "step", env.step, td)["next"]
            except guard.EnvTimeout:
                raise
            except Exception as e:  # an admitted action must never crash the env
                crashed = "env.step raised %s: %s" % (type(e).__name__, str(e)[:200])
                break
            alld = bool(td["done"].all())
            for r in range(R):
                o = _obs(td, r)
                o["cmp"] = not alld
                rows[r]["steps"].append((acts[r], o))
                if o["done"] and rows[r]["first_done"] is None:
                    rows[r]["first_done"] = k + 1
            k += 1
            if k > max_steps:
                crashed = "episode longer than %d steps" % max_steps
                break
            probe(k)
    except guard.EnvTimeout as e:      # the state is abandoned (interrupted in the middle of a call)
        timeout = e
        crashed = "%s (after %d complete steps of the batch)" % (guard.signature("ffsp", e.what), k)
    out = []
    for r in range(R):
        rec = rows[r]
        rec.update({"J": J, "S": env.num_stage, "M": env.num_machine, "flat": bool(env.flatten_stages),
                    "rt": [list(map(int, row)) for row in run_time[r % B]], "mtab": mtabs[r], "pomo": r // B,
                    "sched": td["schedule"][r].tolist(), "jloc": td["job_location"][r].tolist(),
                    "reward": float(td["reward"][r]), "crashed": crashed, "row": r, "B": R})
        if timeout is not None:
            rec.update({"timeout": timeout.what, "batch_rt": run_time, "batch_actions": batch_actions})
        out.append(rec)
    if out:
        out[0]["pre_step_probes"] = probes
    return out


def ffsp_probe_cases(recs):
    """the pre_step probes of one batch as (coq term, replay obj, python-level verdict) triples: the batch rows with the
    actions each had taken when the probe was made, and whether the real env.pre_step raised"""
    res = []
    if not recs or not recs[0].get("pre_step_probes") or recs[0].get("crashed"):
        return res
    for p in recs[0]["pre_step_probes"]:
        rows = []
        for rec in recs:
            inst = "(FFSP.Build_inst %s %s %s %s %s %s)" % (
                cnat(rec["J"]), cnat(rec["S"]), cnat(rec["M"]), clist("[" + "; ".join(cz(x) for x in row) + "]" for row in rec["rt"]),
                clist(cnat(x) for x in rec["mtab"]), cbool(rec["flat"]))
            rows.append("(%s, %s)" % (inst, clist(cnat(a) for a, _ in rec["steps"][:p["k"]])))
        obj = {"unit": "ffsp", "env": "FFSPEnv", "kind": "ffsp_pre_step_probe",
               "generator_params": {"num_job": recs[0]["J"], "num_stage": recs[0]["S"], "num_machine": recs[0]["M"],
                                    "flatten_stages": recs[0]["flat"]},
               "batch_run_times": [rec["rt"] for rec in recs], "batch_actions_per_row": [[a for a, _ in rec["steps"][:p["k"]]] for rec in recs],
               "steps_taken": p["k"], "stage_idx": p["stages"], "pre_step_raised": p["raised"], "error": p["error"],
               "expected": "env.pre_step raises ('call pre_step only at beginning of env') iff some row is past stage 0"}
        # the property on the implementation alone: its own stage_idx says a row is past stage 0, yet pre_step returned
        bad = (not p["raised"]) and any(x != 0 for x in p["stages"])
        res.append(("(%s, %s)" % (clist(rows), cbool(p["raised"])), obj, bad))
    return res


PRESTEP_SIG = "ffsp: pre_step-accepts-running-batch"


def ffsp_mixed_stage_batches(seed, n=2, tries=12):
    """batches (2 stages, rows of very different pace) driven until env.pre_step has been probed on a MIXED batch (some rows at
    stage 0, some past it) -- the case in which the batch-global guard matters; own generator (other streams do not depend
    on it).  Returns per-batch record lists with pre_step_probes."""
    import random
    rng = random.Random(seed * 977 + 3)
    out = []
    for _ in range(tries):
        if len(out) >= n or guard.timed_out("ffsp"):
            break
        J, M = rng.randint(2, 3), rng.randint(1, 2)
        env = _ffsp_env(J, 2, M, 1, 5, True)
        B = rng.randint(2, 3)
        run_time = [_rand_rt(rng, J, 2 * M, 1, 2)] + [[[x * 4 + 3 for x in r] for r in _rand_rt(rng, J, 2 * M, 1, 3)] for _ in range(B - 1)]
        rng.shuffle(run_time)
        recs = ffsp_episode(env, run_time, [rng.choice(["uniform", "nowait", "first"]) for _ in range(B)], rng, probe_pre_step=True)
        for rec in recs:
            rec["kind"] = "batch"
        if recs[0].get("timeout") or any(p["pattern"] == "mixed" for p in recs[0].get("pre_step_probes") or []):
            out.append(recs)
    return out


def ffsp_probe_evaluate(ctx, recs_batches, prefix, header, fail, count=True):
    """recs_batches: list of per-batch record lists.  Python-level verdict + Coq (HC0234_ffsp.check_prestep_guard, model
    Env/SchedGuards.v b_pre_step).  fail(sig, replay) reports a concrete failure.  Returns (n_probes, n_disagree)."""
    triples = [t for recs in recs_batches for t in ffsp_probe_cases(recs)]
    for term, obj, bad in triples:
        if bad:
            fail(PRESTEP_SIG, dict(obj, what="env.pre_step returned on a running batch (stage_idx %s)" % obj["stage_idx"]))
        if count:
            ctx.count("ffsp_pre_step_probes_%s_%s" % (_stage_pattern(obj["stage_idx"]), "raised" if obj["pre_step_raised"] else "returned"))
    if not triples:
        return 0, 0
    try:
        codes = coq_eval_shards(prefix, header, "list (FFSP.inst * list nat) * bool", "check_prestep_guard", [t[0] for t in triples], shard=80)
    except RuntimeError as e:
        ctx.broken.append("correspondence %s could not be evaluated: %s" % (prefix, str(e)[-800:]))
        return len(triples), 1
    ndis = 0
    for (term, obj, bad), c in zip(triples, codes):
        if c == 0:
            continue
        if c == 16:
            fail(PRESTEP_SIG, dict(obj, code=c, what="evaluated in Coq: env.pre_step returned although the model's batch guard (b_pre_step) refuses"))
        else:
            ndis += 1
            if ndis == 1:
                path = ctx.write_replay(dict(obj, code=c, what="model/implementation disagreement on the pre_step guard (32 = the real call "
                                                                "raised although the model lets the batch through; else a row-model code)"),
                                        tag="corr-ffsp-prestep")
                ctx.broken.append("correspondence %s: pre_step guard differs from the model: code %d, case file %s" % (prefix, c, path))
    return len(triples), ndis


def ffsp_dfs(env, run_time, rng, cap):
    """All impl-mask-confined episodes of one tiny instance (B = 1), depth first, at most `cap` leaves."""
    import torch
    from tensordict import TensorDict
    J = env.num_job
    if guard.timed_out("ffsp"):
        return [], False
    try:
        td0 = guard.call("ffsp", "reset", env.reset, TensorDict({"run_time": torch.tensor([run_time], dtype=torch.long)}, batch_size=[1]))
    except guard.EnvTimeout as e:
        return [{"crashed": guard.signature("ffsp", e.what), "timeout": e.what, "steps": [], "obs0": {"mask": [], "done": False, "stage": 0, "sm": 0},
                 "J": J, "S": env.num_stage, "M": env.num_machine, "flat": bool(env.flatten_stages), "rt": [list(r) for r in run_time],
                 "mtab": [], "pomo": 0, "sched": [], "jloc": [], "reward": 0.0, "row": 0, "B": 1, "first_done": None,
                 "batch_rt": [run_time], "batch_actions": []}], False
    mtab = env.tables.machine_table[0].tolist()
    obs0 = _obs(td0, 0)
    leaves, hit = [], [False]

    def rec(td, steps, mask):
        if len(leaves) >= cap:
            hit[0] = True
            return
        if bool(td["done"].all()):
            leaves.append({"obs0": obs0, "steps": list(steps), "first_done": len(steps), "J": J, "S": env.num_stage,
                           "M": env.num_machine, "flat": bool(env.flatten_stages), "rt": [list(r) for r in run_time],
                           "mtab": mtab, "pomo": 0, "sched": td["schedule"][0].tolist(),
                           "jloc": td["job_location"][0].tolist(), "reward": float(td["reward"][0]),
                           "crashed": None, "row": 0, "B": 1})
            return
        adm = [j for j, b in enumerate(mask) if b]
        rng.shuffle(adm)
        if not adm or len(steps) > 400:
            leaves.append({"crashed": "empty mask / runaway at depth %d" % len(steps), "steps": list(steps), "obs0": obs0,
                           "J": J, "S": env.num_stage, "M": env.num_machine, "flat": bool(env.flatten_stages),
                           "rt": [list(r) for r in run_time], "mtab": mtab, "pomo": 0, "sched": [], "jloc": [],
                           "reward": 0.0, "row": 0, "B": 1, "first_done": None})
            return
        for a in adm:
            t2 = td.clone()
            t2.set("action", torch.tensor([a], dtype=torch.long))
            try:
                t2 = guard.call("ffsp", "step", env.step, t2)["next"]
            except guard.EnvTimeout as e:      # reported as a leaf; the expansion of this instance is abandoned
                leaves.append({"crashed": "%s (after the actions %s)" % (guard.signature("ffsp", e.what), [x for x, _ in steps] + [a]),
                               "timeout": e.what, "steps": list(steps), "obs0": obs0, "J": J, "S": env.num_stage, "M": env.num_machine,
                               "flat": bool(env.flatten_stages), "rt": [list(r) for r in run_time], "mtab": mtab, "pomo": 0, "sched": [],
                               "jloc": [], "reward": 0.0, "row": 0, "B": 1, "first_done": None, "batch_rt": [run_time],
                               "batch_actions": [[x] for x, _ in steps] + [[a]]})
                hit[0] = True
                raise
            o = _obs(t2, 0)
            o["cmp"] = not bool(t2["done"].all())
            steps.append((a, o))
            rec(t2, steps, o["mask"])
            steps.pop()

    try:
        rec(td0, [], obs0["mask"])
    except guard.EnvTimeout:
        pass
    return leaves, hit[0]


def _cobs(o, cmp=True, keys=True):
    q = o.get("keys") if keys else None
    if q is None or min([q["sub"], q["mach"]] + q["jloc"]) < 0:
        keys = "false 0%Z 0%nat 0%nat [] [] []"
    else:
        nat = lambda x: cnat(min(int(x), 4999))      # (a value that large is a disagreement anyway)
        keys = "true %s %s %s %s %s %s" % (cz(q["time"]), nat(q["sub"]), nat(q["mach"]), clist(cz(x) for x in q["mws"]),
                                           clist(cz(x) for x in q["jws"]), clist(nat(x) for x in q["jloc"]))
    return "(HC07F.Build_obs %s %s %s %s %s %s)" % (cboollist(o["mask"]), cbool(o["done"]), cnat(o["stage"]), cnat(o["sm"]),
                                                   cbool(o.get("cmp", cmp)), keys)


def ffsp_case_term(rec, keys=True):
    """keys=False: without the bookkeeping keys (C02 / C04 units: their properties do not speak about them; C07 compares them)"""
    inst = "(FFSP.Build_inst %s %s %s %s %s %s)" % (
        cnat(rec["J"]), cnat(rec["S"]), cnat(rec["M"]),
        clist("[" + "; ".join(cz(x) for x in row) + "]" for row in rec["rt"]),
        clist(cnat(x) for x in rec["mtab"]), cbool(rec["flat"]))
    steps = clist("(%s, %s)" % (cnat(a), _cobs(o, keys=keys)) for a, o in rec["steps"])
    sched = clist("[" + "; ".join(cz(x) for x in row) + "]" for row in rec["sched"])
    jloc = clist(cnat(x) for x in rec["jloc"])
    return "(HC07F.Build_ffsp_case %s %s %s %s %s %s)" % (inst, _cobs(rec["obs0"], keys=keys), steps, sched, jloc, cz(int(rec["reward"])))


def ffsp_replay_obj(rec, what, code):
    return {"unit": "ffsp", "env": "FFSPEnv",
            "generator_params": {"num_job": rec["J"], "num_stage": rec["S"], "num_machine": rec["M"],
                                 "flatten_stages": rec["flat"]},
            "run_time": rec["rt"], "machine_table_row": rec["mtab"], "pomo_index": rec["pomo"],
            "batch_rows": rec["B"], "row": rec["row"],
            "actions": [a for a, _ in rec["steps"]],
            "observed": {"schedule": rec["sched"], "job_location": rec["jloc"], "reward": rec["reward"]},
            "what": what, "code": code, "crashed": rec.get("crashed"),
            **({"hangs_in": "env.%s" % rec["timeout"], "batch_run_times": rec.get("batch_rt"),
                "batch_actions_per_step": rec.get("batch_actions")} if rec.get("timeout") else {})}


def ffsp_crash_signature(rec):
    """signature of a crashed FFSP record (C02 mechanisms); a call that did not return is reported as such"""
    if rec.get("timeout"):
        return guard.signature("ffsp", rec["timeout"])
    return "ffsp: admitted-step-crashes-or-dead-end"


def _rand_rt(rng, J, T, lo, hi):
    return [[rng.randint(lo, hi) for _ in range(T)] for _ in range(J)]


def ffsp_campaign(ctx, rng, n_batches, n_dfs, dfs_cap, big=False, count=True):
    """Returns (records, c04_notes)."""
    import torch

    def cnt(key, n=1):
        if count:
            ctx.count(key, n)
    recs, c04 = [], []
    ffsp_campaign.batches = []       # per-batch record lists (for the pre_step probes)
    pols_all = ["uniform", "wait", "nowait", "first", "lastjob"]
    envs = {}

    def env_for(J, S, M, flat):
        key = (J, S, M, flat)
        if key not in envs:
            envs[key] = _ffsp_env(J, S, M, 1, 5, flat)
        return envs[key]

    for b in range(n_batches):
        if guard.timed_out("ffsp"):       # an env call did not return: reported through the crashed records, the env is abandoned
            break
        J = rng.randint(2, 7 if big else 5)
        S = rng.randint(2, 3) if rng.random() < 0.9 else 1
        M = rng.randint(1, 3)
        flat = rng.random() < 0.7
        lo = rng.choice([0, 1, 1, 2])
        hi = rng.choice([1, 2, 4, 9]) + lo
        env = env_for(J, S, M, flat)
        T = S * M
        kind = rng.choice(["solo", "batch", "batch", "pomo"])
        if kind == "solo":
            B, pomo = 1, 1
        elif kind == "batch":
            B, pomo = rng.randint(2, 5), 1
        else:
            import math
            B, pomo = rng.randint(1, 2), rng.randint(2, min(3, math.factorial(M))) if M > 1 else 1
        if rng.random() < 0.25:   # generator path (torch.randint on [min_time, max_time))
            torch.manual_seed(rng.randrange(2 ** 31))
            g = _ffsp_env(J, S, M, max(lo, 0), max(lo, 0) + hi + 1, flat).generator(batch_size=[B])
            run_time = g["run_time"].tolist()
            cnt("ffsp_instances_from_generator", B)
        else:
            run_time = [_rand_rt(rng, J, T, lo, hi) for _ in range(B)]
            if B > 1 and rng.random() < 0.3:
                run_time[1] = [list(r) for r in run_time[0]]          # next to a copy of itself
            if B > 1 and rng.random() < 0.3:
                run_time[-1] = [[x * 3 + 2 for x in r] for r in run_time[-1]]  # a batch-mate that finishes much later
        if rng.random() < 0.5:
            pols = [rng.choice(pols_all)]
        else:
            pols = [rng.choice(pols_all) for _ in range(B * pomo)]
        # after batchify the td still carries machine_idx / stage_machine_idx of table row 0 for every copy; the real
        # multi-start flow (MatNetPolicy) calls env.pre_step right after, and so does the harness
        pre = pomo > 1 or rng.random() < 0.3
        rows = ffsp_episode(env, run_time, pols, rng, pomo=pomo, pre_step=pre, probe_pre_step=True)
        for rec in rows:
            rec["kind"] = kind
            rec["policy"] = pols[rec["row"] % len(pols)]
            rec["pre_step"] = pre
        recs += rows
        ffsp_campaign.batches.append(rows)
        cnt("ffsp_batches_" + kind)
        # C04 side check: the same row solo, actions cut at its own finishing step
        if kind == "batch" and rows[0]["crashed"] is None and rng.random() < 0.6:
            fin = [r["first_done"] for r in rows]
            if len(set(fin)) > 1:
                cnt("ffsp_batches_rows_finish_at_different_steps")
            for rec in rows:
                acts = [a for a, _ in rec["steps"]][: rec["first_done"]]
                solo = ffsp_episode(env, [rec["rt"]], ["first"], rng, forced=[acts])[0]
                Jn = rec["J"]
                same = (solo["crashed"] is None
                        and [r[:Jn] for r in solo["sched"]] == [r[:Jn] for r in rec["sched"]]
                        and solo["jloc"][:Jn] == rec["jloc"][:Jn] and solo["reward"] == rec["reward"])
                cnt("ffsp_solo_vs_batched_rows")
                if not same:
                    c04.append({"batched": ffsp_replay_obj(rec, "row differs from its solo run", 0),
                                "solo": {"schedule": solo["sched"], "reward": solo["reward"], "crashed": solo["crashed"]}})
    # exhaustive expansion of tiny instances
    for d in range(n_dfs):
        if guard.timed_out("ffsp"):
            break
        J, S, M = rng.choice([(2, 1, 1), (2, 2, 1), (2, 2, 2), (3, 2, 1), (2, 3, 1), (3, 1, 2), (3, 2, 2)])
        env = env_for(J, S, M, True)
        rt = _rand_rt(rng, J, S * M, rng.choice([0, 1]), rng.choice([1, 2, 3]))
        leaves, hit = ffsp_dfs(env, rt, rng, dfs_cap)
        for rec in leaves:
            rec["kind"] = "dfs"
            rec["policy"] = "exhaustive"
            rec["pre_step"] = False
        recs += leaves
        cnt("ffsp_dfs_instances")
        cnt("ffsp_dfs_leaves", len(leaves))
        if hit:
            cnt("ffsp_dfs_cap_hit")
    return recs, c04


def ffsp_evaluate(ctx, recs, prefix, count=True):
    """Coq evaluation of all records; returns (n_corr_disagree, failures_reported)."""
    ok_recs = []
    for rec in recs:
        if rec.get("crashed"):
            ctx.failure(ffsp_crash_signature(rec), ffsp_replay_obj(rec, rec["crashed"], -1), tag="ffsp")
            continue
        ok_recs.append(rec)
    cases = [ffsp_case_term(r) for r in ok_recs]
    try:
        codes = coq_eval_shards(prefix, HEADER, "HC07F.ffsp_case", "HC07F.check_ffsp", cases, shard=60)
    except RuntimeError as e:
        ctx.broken.append("correspondence C07/ffsp could not be evaluated: %s" % str(e)[-800:])
        return None
    ndis = 0
    for rec, code in zip(ok_recs, codes):
        corr, spec = code // 10, code % 10
        nsteps = len(rec["steps"])
        waits = sum(1 for a, _ in rec["steps"][: rec["first_done"] or nsteps] if a == rec["J"])
        choice = any(sum(o["mask"]) > 1 for _, o in rec["steps"]) or sum(rec["obs0"]["mask"]) > 1
        if count:
            ctx.seen({"f": [rec["rt"], rec["mtab"], [a for a, _ in rec["steps"]]]}, nontrivial=nsteps >= 2 and choice)
            ctx.count("ffsp_rows_" + rec["kind"])
            ctx.count("ffsp_steps", nsteps)
            ctx.count("ffsp_wait_actions_before_done", waits)
            ctx.count("ffsp_padding_steps_after_done", nsteps - (rec["first_done"] or nsteps))
            if rec["pomo"] > 0:
                ctx.count("ffsp_rows_with_permuted_machine_table")
            if any(0 in row for row in rec["rt"]):
                ctx.count("ffsp_rows_with_zero_durations")
            if rec["pre_step"]:
                ctx.count("ffsp_rows_with_pre_step")
        if spec != 0:
            sig = "ffsp: schedule-invalid" if spec == 6 else "ffsp: reward-not-minus-makespan"
            ctx.failure(sig, ffsp_replay_obj(rec, "specification evaluated in Coq on the implementation's schedule: code %d" % spec, code),
                        tag="ffsp")
        if corr != 0:
            ndis += 1
            if ndis == 1:
                ctx.broken.append("correspondence C07/ffsp: model and implementation differ (%s at step %d; J=%d S=%d M=%d kind=%s B=%d row=%d actions=%s)" % (
                    CORR_TAGS.get(corr % 1000, "?"), corr // 1000, rec["J"], rec["S"], rec["M"], rec["kind"], rec["B"], rec["row"],
                    [a for a, _ in rec["steps"]][:40]))
                ctx.extra["c07_ffsp_first_disagreement"] = ffsp_replay_obj(rec, CORR_TAGS.get(corr % 1000, "?"), code)
    return ndis, len(ok_recs)


# ------------------------------------------------------------------------------------------------ SMTWTP
GRID = 64


def _smtwtp_keys(td, r):
    """(current_time * 64 as an exact integer or None, current_job)"""
    try:
        t = Fraction(float(td["current_time"].reshape(td.batch_size[0], -1)[r, 0])) * GRID
        j = int(td["current_job"].reshape(td.batch_size[0], -1)[r, 0])
    except (OverflowError, ValueError):
        return None
    return (int(t), j) if t.denominator == 1 and 0 <= j < 5000 else None


def smtwtp_batch(env, rows, orders, rng):
    """rows: list of (due, wgt, ptime) integer lists in 1/64 units (index 0 = dummy); orders[r] = forced job order
    or None (uniform walk on the impl mask).  An env call that does not return (vt/sched_guard.py) yields records with
    crashed / timeout set."""
    partial = []
    try:
        return _smtwtp_batch(env, rows, orders, rng, partial)
    except guard.EnvTimeout as e:
        n = len(rows[0][0]) - 1
        acts = partial[0] if partial else []
        return [{"mask0": [], "steps": [(a[r], [], False) for a in acts], "keys": [], "keys0": None, "n": n, "due": rows[r][0],
                 "wgt": rows[r][1], "ptime": rows[r][2], "reward_f": None, "reward_scaled": None, "row": r, "B": len(rows),
                 "crashed": "%s (after %d steps)" % (guard.signature("smtwtp", e.what), len(acts)), "timeout": e.what} for r in range(len(rows))]


def _smtwtp_batch(env, rows, orders, rng, partial):
    import torch
    from tensordict import TensorDict
    B = len(rows)
    n = len(rows[0][0]) - 1
    f = lambda k: torch.tensor([[x / GRID for x in rows[r][k]] for r in range(B)], dtype=torch.float32)
    td = guard.call("smtwtp", "reset", env.reset, TensorDict({"job_due_time": f(0), "job_weight": f(1), "job_process_time": f(2)}, batch_size=[B]))
    recs = [{"mask0": [bool(x) for x in td["action_mask"][r].tolist()], "steps": [], "crashed": None, "keys": [],
             "keys0": _smtwtp_keys(td, r)} for r in range(B)]
    actions = []
    partial.append(actions)
    k = 0
    while True:
        d = td["done"].reshape(-1) if "done" in td.keys() else torch.zeros(B, dtype=torch.bool)
        if bool(d.all()) or k > n + 3:
            break
        acts = []
        for r in range(B):
            m = recs[r]["steps"][-1][1] if recs[r]["steps"] else recs[r]["mask0"]
            adm = [j for j, b in enumerate(m) if b]
            if orders[r] is not None and k < len(orders[r]) and orders[r][k] in adm:
                acts.append(orders[r][k])
            elif adm:
                acts.append(rng.choice(adm))
            else:
                recs[r]["crashed"] = "empty mask before done at step %d" % k
                acts.append(0)
        td.set("action", torch.tensor(acts, dtype=torch.long))
        actions.append(acts)
        td = guard.call("smtwtp", "step", env.step, td)["next"]
        dd = td["done"].reshape(-1)
        for r in range(B):
            recs[r]["steps"].append((acts[r], [bool(x) for x in td["action_mask"][r].tolist()], bool(dd[r])))
            recs[r]["keys"].append(_smtwtp_keys(td, r))
        k += 1
    at = torch.tensor(actions, dtype=torch.long).T.contiguous()
    rew = guard.call("smtwtp", "get_reward", env.get_reward, td, at)
    for r in range(B):
        fr = Fraction(float(rew[r])) * GRID * GRID
        recs[r].update({"n": n, "due": rows[r][0], "wgt": rows[r][1], "ptime": rows[r][2], "reward_f": float(rew[r]),
                        "reward_scaled": int(fr) if fr.denominator == 1 else None, "row": r, "B": B})
    return recs


def smtwtp_case_term(rec, keys=True):
    inst = "(SMTWTP.Build_inst %s %s %s %s)" % (cnat(rec["n"]), clist(cz(x) for x in rec["due"]),
                                               clist(cz(x) for x in rec["wgt"]), clist(cz(x) for x in rec["ptime"]))
    steps = clist("(%s, (%s, %s))" % (cnat(a), cboollist(m), cbool(d)) for a, m, d in rec["steps"])
    ks = (rec.get("keys") or []) if keys else []
    keys = clist("(%s, %s)" % (cz(t), cnat(j)) for t, j in ks) if ks and all(q is not None for q in ks) else "[]"
    return "(HC07F.Build_smtwtp_case %s %s %s %s %s)" % (inst, cboollist(rec["mask0"]), steps, cz(rec["reward_scaled"]), keys)


CLOCK_SIG = "smtwtp: current_time-is-not-the-completion-time-of-the-scheduled-prefix"


def smtwtp_clock_check(rec):
    """spec-on-impl: the clock the policy context reads is the completion time of the scheduled prefix (instance data + actions
    only); None = holds"""
    c = 0
    for k, ((a, _, _), q) in enumerate(zip(rec["steps"], rec.get("keys") or []), 1):
        c += rec["ptime"][a]
        if q is None:
            return "current_time / current_job after step %d are not finite numbers on the 1/64 grid" % k
        if q[0] != c:
            return "current_time after step %d is %s/64, the completion time of the scheduled prefix is %s/64" % (k, q[0], c)
        if q[1] != a:
            return "current_job after step %d is %s, the action taken is %s" % (k, q[1], a)
    return None


def smtwtp_replay_obj(rec, what, code):
    return {"unit": "smtwtp", "env": "SMTWTPEnv", "generator_params": {"num_job": rec["n"]}, "grid": "values are k/64",
            "job_due_time_x64": rec["due"], "job_weight_x64": rec["wgt"], "job_process_time_x64": rec["ptime"],
            "actions": [a for a, _, _ in rec["steps"]], "observed_reward": rec["reward_f"], "batch_rows": rec["B"],
            "row": rec["row"], "what": what, "code": code, "crashed": rec.get("crashed")}


def smtwtp_campaign(ctx, rng, n_batches, n_perm, count=True):
    import torch
    from rl4co.envs import SMTWTPEnv
    recs = []
    envs = {}

    def env_for(n):
        if n not in envs:
            envs[n] = SMTWTPEnv(generator_params=dict(num_job=n), check_solution=False)
        return envs[n]

    def rand_row(n, tight):
        p = [0] + [rng.randint(0, 64) for _ in range(n)]
        w = [0] + [rng.randint(0, 64) for _ in range(n)]
        if tight:   # due dates equal to completion times of some order: tardiness exactly 0 on the boundary
            order = list(range(1, n + 1))
            rng.shuffle(order)
            c, d = 0, [0] * (n + 1)
            for j in order:
                c += p[j]
                d[j] = max(0, c + rng.choice([-1, 0, 0, 1]))
            return (d, w, p), order
        d = [0] + [rng.randint(0, 32 * n) for _ in range(n)]
        return (d, w, p), None

    for b in range(n_batches):
        n = rng.randint(3, 8)
        B = rng.randint(1, 5)
        env = env_for(n)
        rows, orders = [], []
        if rng.random() < 0.3:   # generator path, snapped to the 1/64 grid
            torch.manual_seed(rng.randrange(2 ** 31))
            g = env.generator(batch_size=[B])
            for r in range(B):
                rows.append(tuple([int(round(float(x) * GRID)) for x in g[k][r].tolist()]
                                  for k in ("job_due_time", "job_weight", "job_process_time")))
                orders.append(None)
            if count:
                ctx.count("smtwtp_instances_from_generator", B)
        else:
            for r in range(B):
                row, order = rand_row(n, rng.random() < 0.5)
                rows.append(row)
                orders.append(order if order is not None and rng.random() < 0.5 else None)
        out = smtwtp_batch(env, rows, orders, rng)
        for rec in out:
            rec["kind"] = "walk"
        recs += out
    for b in range(n_perm):    # every permutation of a tiny instance, as one batch
        n = rng.choice([3, 3, 4])
        env = env_for(n)
        row, _ = rand_row(n, rng.random() < 0.5)
        perms = [list(p) for p in itertools.permutations(range(1, n + 1))]
        out = smtwtp_batch(env, [row] * len(perms), perms, rng)
        for rec in out:
            rec["kind"] = "all_permutations"
        recs += out
    return recs


def smtwtp_evaluate(ctx, recs, prefix, count=True):
    ok = []
    for rec in recs:
        if rec["crashed"] or rec["reward_scaled"] is None:
            if rec["crashed"]:
                ctx.failure(guard.signature("smtwtp", rec["timeout"]) if rec.get("timeout") else "smtwtp: dead-end-before-done",
                            smtwtp_replay_obj(rec, rec["crashed"], -1), tag="smtwtp")
            else:
                ctx.count("smtwtp_not_exact_skipped")
            continue
        if rec.get("keys0") != (0, 0):
            ctx.broken.append("correspondence C07/smtwtp: current_time / current_job after reset are %r, the model has (0, 0)" % (rec.get("keys0"),))
        if count and rec.get("keys") and all(q is not None for q in rec["keys"]):
            ctx.count("smtwtp_states_with_bookkeeping_keys_compared", len(rec["keys"]))
        why = smtwtp_clock_check(rec)
        if why is not None:
            ctx.failure(CLOCK_SIG, dict(smtwtp_replay_obj(rec, why, -1),
                                        observed_current_time_x64_and_current_job_per_step=rec.get("keys"),
                                        expected="td['current_time'] after step k = sum of job_process_time of the first k actions "
                                                 "(C07_SMTWTP_clock_is_completion_time); td['current_job'] = the k-th action"), tag="smtwtp")
        ok.append(rec)
    cases = [smtwtp_case_term(r) for r in ok]
    try:
        codes = coq_eval_shards(prefix, HEADER, "HC07F.smtwtp_case", "HC07F.check_smtwtp", cases, shard=150)
    except RuntimeError as e:
        ctx.broken.append("correspondence C07/smtwtp could not be evaluated: %s" % str(e)[-800:])
        return None
    ndis = 0
    for rec, code in zip(ok, codes):
        corr, spec = code // 10, code % 10
        if count:
            ctx.seen({"s": [rec["due"], rec["wgt"], rec["ptime"], [a for a, _, _ in rec["steps"]]]}, nontrivial=rec["n"] >= 2)
            ctx.count("smtwtp_rows_" + rec["kind"])
            ctx.count("smtwtp_jobs_%d" % rec["n"])
            c, tight = 0, 0
            for a, _, _ in rec["steps"]:
                c += rec["ptime"][a]
                tight += int(c == rec["due"][a])
            ctx.count("smtwtp_steps_completing_exactly_at_due_date", tight)
        if spec != 0:
            sig = "smtwtp: episode-not-a-permutation" if spec == 6 else "smtwtp: reward-not-minus-weighted-tardiness"
            ctx.failure(sig, smtwtp_replay_obj(rec, "specification evaluated in Coq on the implementation's episode: code %d" % spec, code),
                        tag="smtwtp")
        if corr != 0:
            ndis += 1
            if ndis == 1:
                ctx.broken.append("correspondence C07/smtwtp: model and implementation differ (%s at step %d; n=%d actions=%s)" % (
                    CORR_TAGS.get(corr % 1000, "?"), corr // 1000, rec["n"], [a for a, _, _ in rec["steps"]]))
                ctx.extra["c07_smtwtp_first_disagreement"] = smtwtp_replay_obj(rec, CORR_TAGS.get(corr % 1000, "?"), code)
    return ndis, len(ok)


# ------------------------------------------------------------------------------------------------ entry point
def run_unit(ctx, proofs_ok):
    import random
    import torch
    rng = random.Random(ctx.rng.randrange(2 ** 62))
    torch.manual_seed(rng.randrange(2 ** 31))
    thorough = ctx.tier == "thorough"

    ctx.rule += (" | ffsp unit: FFSP instances 2..5 jobs, 1..3 stages, 1..3 machines per stage, integer durations 0..11 "
                 "(25% from FFSPGenerator); episodes from the implementation's mask: uniform / always-wait / never-wait / "
                 "first / last-job walks, solo, batched (rows finishing at different steps, copies, slow batch-mates) and in the "
                 "batchify (POMO) layout; exhaustive depth-first expansion of tiny instances (capped). SMTWTP 3..8 jobs, values k/64 "
                 "(30% from SMTWTPGenerator snapped to the grid), due dates placed on completion times (tight), all permutations of "
                 "3-4 job instances. non-trivial = at least 2 steps and one state with more than one admitted action")
    ctx.assumptions += [
        "FFSP: per-row model; the batch-global `done.all()` leaves action_mask/stage_idx/stage_machine_idx stale on the step that "
        "finishes the whole batch -- not compared there (no step is ever taken from that state)",
        "FFSP: durations 0 <= d < 999999 (wfb); above that the code's -999999 marker corrupts the reward (theorem "
        "C07_FFSP_reward_needs_duration_bound)",
        "FFSP: each row reads row (batch position // bs) of IndexTables.machine_table; the model takes that table row as instance data",
        "SMTWTP: exact arithmetic on dyadic data; float32 rounding of generator data is outside the theorem",
    ]

    # ---------------- FFSP
    nb, nd, cap = (700, 120, 600) if thorough else (110, 20, 150)
    recs, c04 = ffsp_campaign(ctx, rng, nb, nd, cap)
    res_f = ffsp_evaluate(ctx, recs, "cases_C07_ffsp")
    # misuse guard of env.pre_step, probed on clones of the running batches (model: Env/SchedGuards.v b_pre_step)
    n_probe, probe_dis = ffsp_probe_evaluate(ctx, ffsp_campaign.batches + ffsp_mixed_stage_batches(ctx.seed), "cases_C07_ffsp_prestep", HEADER_GUARD,
                                             lambda sig, rep: ctx.failure(sig, rep, tag="ffsp"))
    for k, rec in enumerate(r for r in recs if not r.get("crashed")):
        if k < 2:
            ctx.sample({"unit": "ffsp", "J": rec["J"], "S": rec["S"], "M": rec["M"], "run_time": rec["rt"],
                        "actions": [a for a, _ in rec["steps"]], "impl_schedule": rec["sched"], "impl_reward": rec["reward"]})
    if c04:
        ctx.notes.append("C04-relevant (not a C07 failure): %d FFSP rows differ between batched and solo execution; first: %s" % (
            len(c04), str(c04[0])[:1500]))
        ctx.extra["c07_ffsp_solo_vs_batched_differences"] = c04[:3]

    # ---------------- SMTWTP
    nb, npm = (800, 80) if thorough else (110, 16)
    srecs = smtwtp_campaign(ctx, rng, nb, npm)
    res_s = smtwtp_evaluate(ctx, srecs, "cases_C07_smtwtp")
    for rec in srecs[:1]:
        ctx.sample({"unit": "smtwtp", "n": rec["n"], "due_x64": rec["due"], "weight_x64": rec["wgt"], "ptime_x64": rec["ptime"],
                    "actions": [a for a, _, _ in rec["steps"]], "impl_reward": rec["reward_f"]})

    ctx.units["ffsp"] = {
        "models": "Env/FFSP.v (FFSPEnv), Env/SMTWTP.v (SMTWTPEnv); spec Spec/FlowShop.v",
        "ffsp_cases": res_f[1] if res_f else 0, "ffsp_disagreements": res_f[0] if res_f else None,
        "smtwtp_cases": res_s[1] if res_s else 0, "smtwtp_disagreements": res_s[0] if res_s else None,
        "ffsp_solo_vs_batched_differences": len(c04),
        "observables": "action_mask (impl inside model), done, stage_idx, stage_machine_idx per step; schedule, job_location, "
                       "reward at the end; spec-on-impl: FlowShop.validb, makespan = -reward, permutation, weighted tardiness",
        "bookkeeping_keys_compared_per_state": {"FFSPEnv": FFSP_KEYS_COMPARED, "SMTWTPEnv": SMTWTP_KEYS_COMPARED,
                                                "FFSPEnv at the end": ["schedule", "job_location", "reward"],
                                                "not compared (constant instance data / no model counterpart)": [
                                                    "job_duration", "run_time", "SMTWTP job_due_time / job_weight / job_process_time"]},
        "pre_step_guard_probes": n_probe, "pre_step_guard_disagreements": probe_dis,
        "env_call_guard": guard.evidence(),
    }

    # ---------------- search: the property itself on a larger sample, when something no longer checks
    broken_here = (not proofs_ok) or any("C07/ffsp" in b or "C07/smtwtp" in b for b in ctx.broken)
    if broken_here and not ctx.violations and not guard.timed_out():
        r2, _ = ffsp_campaign(ctx, rng, 150, 20, 300, big=True, count=False)
        ffsp_evaluate(ctx, r2, "cases_C07_ffsp_search", count=False)
        s2 = smtwtp_campaign(ctx, rng, 150, 20, count=False)
        smtwtp_evaluate(ctx, s2, "cases_C07_smtwtp_search", count=False)
        ctx.notes.append("ffsp unit: search ran on %d further FFSP rows and %d SMTWTP rows" % (len(r2), len(s2)))


def replay(obj):
    """Re-run a recorded case on the current tree and print observed vs recorded."""
    import random
    rng = random.Random(0)
    if obj.get("unit") == "smtwtp":
        from rl4co.envs import SMTWTPEnv
        env = SMTWTPEnv(generator_params=obj["generator_params"], check_solution=False)
        row = (obj["job_due_time_x64"], obj["job_weight_x64"], obj["job_process_time_x64"])
        rec = smtwtp_batch(env, [row], [obj["actions"]], rng)[0]
        print("signature:", obj.get("signature"))
        print("actions taken:", [a for a, _, _ in rec["steps"]], "recorded:", obj["actions"])
        print("reward now:", rec["reward_f"], "recorded:", obj["observed_reward"])
        why = smtwtp_clock_check(rec)
        print("(current_time x64, current_job) after each step now:", rec.get("keys"))
        print("clock = completion time of the scheduled prefix:", why or "holds")
        return 1 if why else 0
    gp = obj["generator_params"]
    env = _ffsp_env(gp["num_job"], gp["num_stage"], gp["num_machine"], 1, 5, gp.get("flatten_stages", True))
    print("signature:", obj.get("signature"))
    if obj.get("kind") == "ffsp_pre_step_probe":
        import torch
        from tensordict import TensorDict
        td = env.reset(TensorDict({"run_time": torch.tensor(obj["batch_run_times"], dtype=torch.long)}, batch_size=[len(obj["batch_run_times"])]))
        for k in range(obj["steps_taken"]):
            td.set("action", torch.tensor([row[k] for row in obj["batch_actions_per_row"]], dtype=torch.long))
            td = guard.call("ffsp", "step", env.step, td)["next"]
        print("stage_idx now:", td["stage_idx"].tolist(), "recorded:", obj["stage_idx"])
        try:
            env.pre_step(td.clone())
            raised = False
        except Exception as e:  # noqa: BLE001
            raised = True
            print("env.pre_step raised:", type(e).__name__, str(e)[:120])
        print("env.pre_step raised now: %s, recorded: %s; a row past stage 0: %s" % (raised, obj["pre_step_raised"], any(x != 0 for x in td["stage_idx"].tolist())))
        return 0 if raised == any(x != 0 for x in td["stage_idx"].tolist()) else 1
    if obj.get("batch_run_times") is not None and obj.get("hangs_in"):
        acts = obj.get("batch_actions_per_step") or []
        forced = [[a[r] for a in acts] for r in range(len(obj["batch_run_times"]))]
        recs = ffsp_episode(env, obj["batch_run_times"], ["first"], rng, forced=forced, max_steps=max(1, len(acts)))
        print("recorded: %s did not return after the batch actions %s" % (obj["hangs_in"], acts))
        print("now:", recs[0]["crashed"] if recs[0].get("timeout") else "every recorded step returns")
        return 1 if recs[0].get("timeout") else 0
    rec = ffsp_episode(env, [obj["run_time"]], ["first"], rng, forced=[obj["actions"]])[0]
    print("what:", obj.get("what"))
    print("schedule now:     ", rec["sched"])
    print("schedule recorded:", obj["observed"]["schedule"])
    print("reward now:", rec["reward"], "recorded:", obj["observed"]["reward"], "crashed:", rec["crashed"])
    print("(solo replay with the identity machine table; the recorded case had pomo_index=%s in a batch of %s rows)" % (
        obj.get("pomo_index"), obj.get("batch_rows")))
    return 0
