"""C08 -- selection environments (FLP, MCP, DPP, MDPP) pick exactly the quota of distinct, allowed items and
show the policy bookkeeping (nearest-facility distances, uncovered weights) that follows from the selection.

Proof obligations : coq/theories/Properties/C08.v (models Env/FLP.v, Env/MCP.v, Env/DPP.v; shared induction
                    Env/Selection.v).
Correspondence    : the real env.reset / env.step / env.get_reward are driven through random mask-admitted
                    orders and through *all* admitted orders of tiny instances, solo and in mixed batches;
                    mask, done, chosen, distances / weights / membership / keepout after EVERY step and the final
                    reward are compared with the model evaluated inside Coq (Harness/HC08.v).  Distances and
                    weights are instance data: the float32 tensors the env was given, converted exactly to
                    scaled integers -- nothing numeric is recomputed in Coq except min / 0-1 products / sums.
Spec-on-impl      : on every run the property's specification is evaluated on the implementation's own
                    observables, inside Coq (tag 6) and independently here with exact rationals.
Repeated episodes : two episodes one after the other / stepped alternately on the SAME instance tensors (and on the
                    same TensorDict object) must each behave like a fresh run and leave the caller's tensors
                    bit-identical (Coq: Env/SelectionStore.v, store model with reset-allocates / step-clones refines
                    the row model for every schedule; the aliasing variants are refuted).  Hand-built instances carry
                    every key the env's generator emits (looked up at run time, fail-closed).
Search            : when the correspondence or a proof breaks, further instances around the disagreeing case,
                    all admitted orders of more tiny instances and a larger random sample go through the
                    python specification; a failing case is reported with a replay.
The EDA envs need data files that cannot be downloaded here; tiny synthetic .npy files are written to
build/c08_eda/ so that the real classes can be constructed (the decap simulator is not part of C08)."""
import itertools
import json
import os
from fractions import Fraction

from vt.common import BUILD, Ctx, cbool, cboollist, clist, cnat, coq_eval_shards, czraw

HEADER = ("From Coq Require Import List ZArith Bool.\n"
          "From RL4CO Require Import Env.Selection Env.FLP Env.MCP Env.DPP Harness.HC08.\n"
          "Import ListNotations.\nOpen Scope Z_scope.\n")

DBITS = 64          # distances / rewards travel as integers x * 2^64 (exact for every float32 >= 2^-41)
WBITS = 20          # MCP weights (integers or small dyadics)
EDA_ROOT = BUILD / "c08_eda"

SIG_MIXED = "%s: row-selects-past-its-quota-in-mixed-quota-batch"
SIG_MDPP_QUOTA = "mdpp: env-quota-ignores-generator-max_decaps"

TAGS = {1: "impl mask admits what the model forbids", 2: "model mask admits what impl forbids", 3: "done differs",
        4: "reward differs", 6: "specification false on the implementation's observables",
        7: "model step = None (real code did not raise)", 8: "chosen differs", 9: "distances/weights differ",
        10: "membership differs", 11: "keepout differs", 12: "instance outside the documented format (wfb)",
        13: "constructor model differs"}


# ------------------------------------------------------------------------------------------------ literals
def zs(x, bits):
    f = Fraction(float(x)) * (1 << bits)
    if f.denominator != 1:
        raise ValueError("value %r not on the 2^-%d grid" % (x, bits))
    return int(f)


def zl(xs):
    return "[" + "; ".join(czraw(x) for x in xs) + "]"


def zll(xss):
    return "[" + "; ".join(zl(xs) for xs in xss) + "]"


def bl(xs):
    return cboollist(xs)


def canon_done(done, r):
    """td["done"] may be [B], [B,1] or (FLP/MCP broadcast) [B,B]: the value(s) the row r carries."""
    v = done[r].reshape(-1).tolist()
    if len(set(v)) != 1:
        return None
    return bool(v[0])


# ------------------------------------------------------------------------------------------------ instance format
# Hand-built instances must be legal inputs for any code that accepts generator output: same keys, same dtypes,
# same ranks as `env.generator(batch_size=...)` emits on this tree (looked up at run time).  Fail-closed: a key
# the generator emits and the harness does not build, or builds with another dtype, breaks the correspondence.
HARNESS_KEYS = {"flp": ("locs", "orig_distances", "distances", "chosen", "to_choose"),
                "mcp": ("membership", "weights", "n_sets_to_choose"),
                "dpp": ("locs", "probe", "action_mask"),
                "mdpp": ("locs", "probe", "action_mask")}
RANK_FREE = {("flp", "to_choose")}     # documented [B,1] and the generator's [B] are both driven on purpose
FORMAT_PROBLEMS = {}                   # env name -> message (reported once through ctx.broken)
_SCHEMA = {}


def generator_schema(envname, env):
    key = (envname, id(type(env.generator)))
    if key not in _SCHEMA:
        g = env.generator(batch_size=[2])
        _SCHEMA[key] = {k: (str(v.dtype), v.dim()) for k, v in g.items()}
    return _SCHEMA[key]


def check_instance_format(envname, env, td):
    """compare a hand-built instance TensorDict with what the env's own generator emits"""
    try:
        sch = generator_schema(envname, env)
    except Exception as e:
        FORMAT_PROBLEMS.setdefault(envname, "generator could not be called for the format check: %s: %s" % (type(e).__name__, str(e)[:200]))
        return False
    mine = {k: (str(v.dtype), v.dim()) for k, v in td.items()}
    unknown = sorted(set(sch) - set(HARNESS_KEYS[envname]))
    missing = sorted(set(sch) - set(mine))
    extra = sorted(set(mine) - set(sch))
    wrong = sorted("%s: harness %s rank %d, generator %s rank %d" % (k, mine[k][0], mine[k][1], sch[k][0], sch[k][1])
                   for k in set(sch) & set(mine)
                   if mine[k][0] != sch[k][0] or (mine[k][1] != sch[k][1] and (envname, k) not in RANK_FREE))
    if unknown or missing or extra or wrong:
        FORMAT_PROBLEMS.setdefault(envname, "generator emits keys the harness does not know %s; missing in hand-built instances %s; "
                                   "not emitted by the generator %s; dtype/rank differs %s" % (unknown, missing, extra, wrong))
        return False
    return True


# ------------------------------------------------------------------------------------------------ python specification
class SpecFail(Exception):
    def __init__(self, mech, detail):
        super().__init__(mech)
        self.mech, self.detail = mech, detail


def spec_common(allowed0, q, ending, acts, obs):
    """obs: list of (mask, done) after each step.  allowed0: list of bool."""
    n = len(allowed0)
    if len(set(acts)) != len(acts):
        raise SpecFail("item-selected-twice", {"actions": acts})
    for a in acts:
        if not (0 <= a < n and allowed0[a]):
            raise SpecFail("forbidden-item-selected", {"action": a})
    for k, (m, d) in enumerate(obs, 1):
        pre = set(acts[:k])
        if d is None or d != (k >= q):
            raise SpecFail("done-not-exactly-from-quota-on", {"step": k, "done": d, "quota": q})
        for c in range(n):
            if m[c] and (c in pre or not allowed0[c]):
                raise SpecFail("mask-offers-chosen-or-forbidden-item", {"step": k, "item": c})
        if k < q and q <= sum(allowed0) and not any(m):
            raise SpecFail("dead-end-before-quota", {"step": k})
    if ending == 0 and len(acts) != q:
        raise SpecFail("episode-length-is-not-the-quota", {"selected": len(acts), "quota": q})
    if ending == 2 and not (sum(allowed0) < q and len(acts) < q):
        raise SpecFail("dead-end-before-quota", {"selected": len(acts), "quota": q, "allowed": sum(allowed0)})


def spec_flp(row, ending, acts, obs, reward):
    n, D = row["n"], row["D"]
    spec_common([True] * n, row["q"], ending, acts, [(o["mask"], o["done"]) for o in obs])
    for k, o in enumerate(obs, 1):
        pre = acts[:k]
        if o["chosen"] != [c in pre for c in range(n)]:
            raise SpecFail("chosen-is-not-the-selection", {"step": k})
        exp = [min(Fraction(D[a][p]) for a in pre) for p in range(n)]
        if [Fraction(x) for x in o["dist"]] != exp:
            raise SpecFail("distances-not-min-over-chosen", {"step": k, "observed": o["dist"], "expected": [float(x) for x in exp]})
    if acts:
        tot = -sum(min(Fraction(D[a][p]) for a in acts) for p in range(n))
        if abs(Fraction(reward) - tot) > row["tol"]:
            raise SpecFail("reward-not-minus-sum-of-nearest-distances", {"observed": reward, "expected": float(tot)})


def spec_mcp(row, ending, acts, obs, reward):
    mem, w = row["mem"], row["w"]
    ns, ni = len(mem), len(w)
    spec_common([True] * ns, row["q"], ending, acts, [(o["mask"], o["done"]) for o in obs])

    def covered(pre):
        ids = {int(x) for a in pre for x in mem[a] if x != 0}
        return [(j + 1) in ids for j in range(ni)]
    for k, o in enumerate(obs, 1):
        pre = acts[:k]
        if o["chosen"] != [c in pre for c in range(ns)]:
            raise SpecFail("chosen-is-not-the-selection", {"step": k})
        cov = covered(pre)
        exp = [0.0 if cov[j] else w[j] for j in range(ni)]
        if o["weights"] != exp:
            raise SpecFail("weights-not-uncovered-weights", {"step": k, "observed": o["weights"], "expected": exp})
        expm = [[0.0] * len(mem[c]) if c in pre else list(mem[c]) for c in range(ns)]
        if o["membership"] != expm:
            raise SpecFail("membership-not-unchosen-rows", {"step": k})
    cov = covered(acts)
    tot = sum(Fraction(w[j]) for j in range(ni) if cov[j])
    if Fraction(reward) != tot:
        raise SpecFail("reward-not-covered-weight", {"observed": reward, "expected": float(tot)})


def spec_eda(row, ending, acts, obs0, obs):
    avail = row["avail"]
    n = len(avail)
    if row["env"] == "dpp":
        allowed0 = list(avail)
        if avail[row["probe"]]:
            raise SpecFail("instance-not-wf", {})
        probes = {row["probe"]}
    else:
        allowed0 = [avail[c] and not row["probe"][c] for c in range(n)]
        probes = {c for c in range(n) if row["probe"][c]}
    spec_common(allowed0, row["q"], ending, acts, [(o["mask"], o["done"]) for o in obs])
    keep = [not x for x in avail]
    for k, o in enumerate([obs0] + obs):
        if o["keepout"] != keep:
            raise SpecFail("keepout-map-changed", {"step": k})
    for a in acts:
        if keep[a]:
            raise SpecFail("keepout-cell-selected", {"action": a})
        if a in probes:
            raise SpecFail("probing-port-selected", {"action": a})


# ------------------------------------------------------------------------------------------------ running the real envs
def pick_actions(rng, masks, plans, k):
    """one action per row: the planned one if it is offered, else a random admitted one (row marked deviated)."""
    acts, dev = [], []
    for r, m in enumerate(masks):
        adm = [c for c, b in enumerate(m) if b]
        plan = plans[r]
        if plan is not None and k < len(plan):
            if plan[k] in adm:
                acts.append(plan[k]); dev.append(False)
            else:
                acts.append(rng.choice(adm)); dev.append(True)
        else:
            acts.append(rng.choice(adm)); dev.append(False)
    return acts, dev


class Roll:
    """rl4co's rollout loop on a batch, one iteration per call of step(): step while not td["done"].all() (plus
    `extra_steps` afterwards while every row still has something to choose).  Several Rolls can be stepped
    alternately (interleaved rollouts on the same instance)."""

    def __init__(self, torch, env, td, rng, plans, obs_fn, extra_steps, max_steps):
        self.torch, self.env, self.td, self.rng, self.plans, self.obs_fn = torch, env, td, rng, plans, obs_fn
        self.extra_steps, self.max_steps = extra_steps, max_steps
        self.B = td.batch_size[0]
        self.rows = [{"acts": [], "obs": [], "deviated": False, "forced": 0} for _ in range(self.B)]
        self.obs0 = [obs_fn(td, r) for r in range(self.B)]
        self.shapes = set()
        self.extra = 0
        self.raw_done = []
        self.crash = None
        self.k = 0
        self.live = True

    def step(self):
        """one loop iteration; False when the loop has ended"""
        torch, td, B, rows = self.torch, self.td, self.B, self.rows
        if not self.live or self.k >= self.max_steps:
            self.live = False
            return False
        k = self.k
        all_done = bool(td["done"].all())
        if all_done:
            if self.extra >= self.extra_steps:
                self.live = False
                return False
            self.extra += 1
        masks = td["action_mask"].tolist()
        if not all(any(m) for m in masks):
            self.live = False
            return False
        acts, dev = pick_actions(self.rng, masks, self.plans, k)
        i_before = td["i"].reshape(B, -1)[:, 0].tolist()
        td.set("action", torch.tensor(acts, dtype=torch.int64))
        try:
            td = self.env.step(td)["next"]
        except Exception as e:      # every action was inside the mask: the property says this never raises
            self.crash = {"step": k + 1, "actions": acts, "error": "%s: %s" % (type(e).__name__, str(e)[:300]),
                          "actions_so_far": [list(r["acts"]) for r in rows]}
            for r in range(B):
                rows[r]["deviated"] = True      # cut
            self.live = False
            return False
        self.td = td
        self.shapes.add(tuple(td["done"].shape))
        self.raw_done.append((i_before, td["done"].reshape(B, -1).tolist()))
        for r in range(B):
            rows[r]["acts"].append(acts[r])
            rows[r]["deviated"] |= dev[r]
            rows[r]["forced"] += 1 if sum(masks[r]) == 1 else 0
            rows[r]["obs"].append(self.obs_fn(td, r))
        self.k += 1
        return True

    def finish(self):
        td, rows, B, extra = self.td, self.rows, self.B, self.extra
        for r in range(B):
            last_done = rows[r]["obs"][-1]["done"] if rows[r]["obs"] else False
            first_done = next((k for k, o in enumerate(rows[r]["obs"], 1) if o["done"]), None)
            if rows[r]["deviated"]:
                ending = 3
            elif last_done and first_done == len(rows[r]["acts"]):
                ending = 0
            elif last_done and len(rows[r]["acts"]) - first_done <= extra:
                ending = 1          # continued on purpose by the harness
            elif last_done:
                ending = 4          # continued because rl4co's loop (`while not done.all()`) waits for batch-mates
            elif not any(td["action_mask"][r].tolist()):
                ending = 2
            else:
                ending = 3
            rows[r]["ending"] = ending
            rows[r]["obs0"] = self.obs0[r]
            rows[r]["crash"] = self.crash
        return td, rows, self.shapes, self.raw_done


def drive(torch, env, td, rng, plans, obs_fn, extra_steps, max_steps):
    """a whole rollout (see Roll).  Returns per-row records."""
    roll = Roll(torch, env, td, rng, plans, obs_fn, extra_steps, max_steps)
    while roll.step():
        pass
    return roll.finish()


# ------------------------------------------------------------------------------------------------ FLP
PTS = [(5, 0), (-5, 0), (9, 0), (-9, 0), (16, 0), (-16, 0), (35, 0), (-35, 0), (0, 12)]


def flp_make_row(torch, rng, kind, n, q, gen_td=None, k=0):
    from rl4co.utils.ops import get_distance_matrix
    if kind == "points":      # integral point set / 128 (all pairwise distances are integers / 128), duplicates allowed
        pts = [rng.choice(PTS) for _ in range(n)]
        locs = torch.tensor([[(x + 35) / 128.0, (y + 0) / 128.0] for x, y in pts], dtype=torch.float32)
        D = get_distance_matrix(locs[None])[0]
    elif kind == "dyadic":    # symmetric k/64 matrix with ties and zeros
        locs = torch.zeros(n, 2)
        D = torch.zeros(n, n)
        for i in range(n):
            for j in range(i + 1, n):
                D[i, j] = D[j, i] = rng.choice([0, 1, 2, 3, 5, 8, 13, 21, 64, 100, 255]) / 64.0
    elif kind == "asym":      # asymmetric k/64 (ties the orientation D[chosen][point] of the gather)
        locs = torch.zeros(n, 2)
        D = torch.tensor([[0.0 if i == j else rng.randint(1, 255) / 64.0 for j in range(n)] for i in range(n)])
    else:                     # generator output
        locs = gen_td["locs"][k]
        D = gen_td["orig_distances"][k]
    if kind == "gen":
        dist0 = gen_td["distances"][k].tolist()
    else:
        dist0 = [rng.choice([99.0, 1.5, 0.25]) for _ in range(n)] if rng.random() < 0.5 else [2.0 ** 0.5] * n
        dist0 = torch.tensor(dist0, dtype=torch.float32).tolist()
    Dl = D.tolist()
    grid = all((Fraction(x) * 128).denominator == 1 and abs(x) < 1024 for rowv in Dl for x in rowv)
    tot_bound = sum(max(abs(x) for x in rowv) for rowv in Dl)
    tol = Fraction(0) if grid else Fraction(1, 10 ** 5) * (1 + Fraction(tot_bound))
    return {"env": "flp", "kind": kind, "n": n, "q": q, "locs": locs.tolist(), "D": Dl, "dist0": dist0, "tol": tol,
            "exact": grid}


def flp_td(torch, rows, qshape):
    from tensordict import TensorDict
    B = len(rows)
    tc = torch.tensor([r["q"] for r in rows], dtype=torch.int64)
    if qshape == "B1":
        tc = tc[:, None]
    return TensorDict({"locs": torch.tensor([r["locs"] for r in rows], dtype=torch.float32),
                       "orig_distances": torch.tensor([r["D"] for r in rows], dtype=torch.float32),
                       "distances": torch.tensor([r["dist0"] for r in rows], dtype=torch.float32),
                       "chosen": torch.zeros(B, rows[0]["n"], dtype=torch.bool),      # as FLPGenerator emits it
                       "to_choose": tc}, batch_size=[B])


def flp_obs(td, r):
    return {"mask": td["action_mask"][r].tolist(), "done": canon_done(td["done"], r),
            "chosen": td["chosen"][r].tolist(), "dist": td["distances"][r].tolist()}


def flp_case(row, rec, reward):
    def ob(o):
        return "(%s, %s, %s, %s)" % (bl(o["mask"]), cbool(o["done"]), bl(o["chosen"]), zl(zs(x, DBITS) for x in o["dist"]))
    inst = "{| f_n := %s; f_D := %s; f_dist0 := %s; f_q := %s |}" % (
        cnat(row["n"]), zll([[zs(x, DBITS) for x in rv] for rv in row["D"]]), zl(zs(x, DBITS) for x in row["dist0"]),
        czraw(row["q"]))
    steps = clist("(%s, %s)" % (cnat(a), ob(o)) for a, o in zip(rec["acts"], rec["obs"]))
    tol = row["tol"] * (1 << DBITS)
    tolz = -(-tol.numerator // tol.denominator)
    return "(%s, %s, %s, %s, (%s, %s))" % (inst, czraw(rec["ending"]), ob(rec["obs0"]), steps,
                                            czraw(zs(reward, DBITS)), czraw(tolz))


# ------------------------------------------------------------------------------------------------ MCP
def mcp_make_row(torch, rng, kind, ns, ni, q, gen_td=None, k=0):
    if kind == "gen":
        mem = gen_td["membership"][k].tolist()
        w = gen_td["weights"][k].tolist()
    else:
        ms = rng.randint(1, 5)
        mem = []
        for _ in range(ns):
            size = rng.randint(0, ms)
            items = rng.sample(range(1, ni + 1), min(size, ni))
            if kind == "dups" and items and len(items) < ms:
                items = items + [rng.choice(items)]                 # a repeated id inside one set
            rowv = items + [0] * (ms - len(items))
            if kind in ("holes", "dups"):
                rng.shuffle(rowv)                                  # zero padding anywhere, not only at the end
            mem.append([float(x) for x in rowv])
        if rng.random() < 0.5:
            w = [float(rng.randint(1, 10)) for _ in range(ni)]
        else:
            w = [rng.randint(0, 640) / 64.0 for _ in range(ni)]     # dyadic, zeros allowed
    return {"env": "mcp", "kind": kind, "ns": ns, "ni": ni, "q": q, "mem": mem, "w": w}


def mcp_td(torch, rows):
    from tensordict import TensorDict
    B = len(rows)
    return TensorDict({"membership": torch.tensor([r["mem"] for r in rows], dtype=torch.float32),
                       "weights": torch.tensor([r["w"] for r in rows], dtype=torch.float32),
                       "n_sets_to_choose": torch.tensor([[float(r["q"])] for r in rows], dtype=torch.float32)},
                      batch_size=[B])


def mcp_obs(td, r):
    return {"mask": td["action_mask"][r].tolist(), "done": canon_done(td["done"], r),
            "chosen": td["chosen"][r].tolist(), "weights": td["weights"][r].tolist(),
            "membership": td["membership"][r].tolist()}


def zint(x):
    f = Fraction(float(x))
    if f.denominator != 1:
        raise ValueError("membership entry %r is not an integer" % x)
    return int(f)


def mcp_case(row, rec, reward):
    def ob(o):
        return "(%s, %s, %s, %s, %s)" % (bl(o["mask"]), cbool(o["done"]), bl(o["chosen"]),
                                          zl(zs(x, WBITS) for x in o["weights"]),
                                          zll([[zint(x) for x in rv] for rv in o["membership"]]))
    inst = "{| m_mem := %s; m_w := %s; m_q := %s |}" % (
        zll([[zint(x) for x in rv] for rv in row["mem"]]), zl(zs(x, WBITS) for x in row["w"]), czraw(row["q"]))
    steps = clist("(%s, %s)" % (cnat(a), ob(o)) for a, o in zip(rec["acts"], rec["obs"]))
    return "(%s, %s, %s, %s, %s)" % (inst, czraw(rec["ending"]), ob(rec["obs0"]), steps, czraw(zs(reward, WBITS)))


# ------------------------------------------------------------------------------------------------ DPP / MDPP
def eda_write_data(np):
    """tiny synthetic chip / decap / frequency files; the default file names in ./data/dpp (relative to the
    scratch cwd used while constructing MDPPEnv, whose base-class constructor builds a default DPPGenerator)."""
    def write(dirp, size, prefix):
        os.makedirs(dirp, exist_ok=True)
        n, nf = size * size, 2
        rs = np.random.RandomState(size)
        pdn = (np.eye(n)[None] * 2 + 0.01 * rs.rand(nf, n, n)).astype(np.complex64)
        for name, arr in ((prefix[0], pdn), (prefix[1], (np.ones((nf, 1, 1)) * 0.5).astype(np.complex64)),
                          (prefix[2], (np.arange(1, nf + 1) * 1e9).astype(np.float32))):
            p = os.path.join(dirp, name)
            if not os.path.isfile(p):
                np.save(p, arr)
    default = ("10x10_pkg_chip.npy", "01nF_decap.npy", "freq_201.npy")
    write(str(EDA_ROOT / "data" / "dpp"), 10, default)
    for size in (2, 3, 4, 10):
        write(str(EDA_ROOT / ("s%d" % size)), size, default)


def eda_env(kind, size, max_decaps, kmin=1, kmax=3, pmin=1, pmax=3):
    """construct the real env class on the synthetic data (cwd temporarily = scratch dir: see eda_write_data)."""
    from rl4co.envs.eda.dpp.env import DPPEnv
    from rl4co.envs.eda.mdpp.env import MDPPEnv
    cwd = os.getcwd()
    os.chdir(str(EDA_ROOT))
    try:
        gp = dict(data_dir=str(EDA_ROOT / ("s%d" % size)), max_decaps=max_decaps, num_keepout_min=kmin, num_keepout_max=kmax)
        if kind == "dpp":
            return DPPEnv(generator_params=gp, check_solution=False)
        gp.update(num_probes_min=pmin, num_probes_max=pmax)
        return MDPPEnv(generator_params=gp, check_solution=False)
    finally:
        os.chdir(cwd)


def eda_obs(td, r):
    return {"mask": td["action_mask"][r].tolist(), "done": canon_done(td["done"], r), "keepout": td["keepout"][r].tolist()}


def eda_make_row(torch, rng, kind, envname, size, q, gen_td=None, k=0):
    n = size * size
    if kind == "gen":
        avail = gen_td["action_mask"][k].tolist()
        probe = gen_td["probe"][k].tolist()
        probe = probe[0] if envname == "dpp" else probe
    else:
        dens = {"sparse": 0.15, "dense": 0.7, "none": 0.0, "rows": None}[kind]
        if dens is None:
            bad_rows = set(rng.sample(range(size), rng.randint(0, size - 1)))
            avail = [(c // size) not in bad_rows for c in range(n)]
        else:
            avail = [rng.random() >= dens for c in range(n)]
        if envname == "dpp":
            probe = rng.randrange(n)
            avail[probe] = False
        else:
            probe = [False] * n
            for c in rng.sample(range(n), rng.randint(1, min(4, n - 1))):
                probe[c] = True
                if rng.random() < 0.7:       # generator marks probes unavailable too; the env must not rely on it
                    avail[c] = False
    return {"env": envname, "kind": kind, "size": size, "q": q, "avail": avail, "probe": probe}


def eda_td(torch, rows):
    from tensordict import TensorDict
    B = len(rows)
    size = rows[0]["size"]
    locs = torch.stack(torch.meshgrid(torch.arange(size), torch.arange(size), indexing="ij"), -1).reshape(-1, 2) / float(size)
    if rows[0]["env"] == "dpp":
        probe = torch.tensor([[r["probe"]] for r in rows], dtype=torch.int64)
    else:
        probe = torch.tensor([r["probe"] for r in rows], dtype=torch.bool)
    return TensorDict({"locs": locs[None].expand(B, -1, -1).clone(), "probe": probe,
                       "action_mask": torch.tensor([r["avail"] for r in rows], dtype=torch.bool)}, batch_size=[B])


def eda_case(row, rec):
    def ob(o):
        return "(%s, %s, %s)" % (bl(o["mask"]), cbool(o["done"]), bl(o["keepout"]))
    if row["env"] == "dpp":
        inst = "{| d_probe := %s; d_avail := %s; d_q := %s |}" % (cnat(row["probe"]), bl(row["avail"]), czraw(row["q"]))
    else:
        inst = "{| md_probe := %s; md_avail := %s; md_q := %s |}" % (bl(row["probe"]), bl(row["avail"]), czraw(row["q"]))
    steps = clist("(%s, %s)" % (cnat(a), ob(o)) for a, o in zip(rec["acts"], rec["obs"]))
    return "(%s, %s, %s, %s)" % (inst, czraw(rec["ending"]), ob(rec["obs0"]), steps)


# ------------------------------------------------------------------------------------------------ batches of one env
class Unit:
    """collects cases of one env, runs batches on the real env, evaluates the python spec on every episode."""

    def __init__(self, ctx, torch, name):
        self.ctx, self.torch, self.name = ctx, torch, name
        self.cases, self.meta, self.spec_fail = [], [], []
        self.dropped = 0
        self.forced_past_quota = []

    def add(self, row, rec, reward, batch_info, spec=True):
        ctx = self.ctx
        done_vals = [o["done"] for o in rec["obs"]] + [rec["obs0"]["done"]]
        meta = {"env": self.name, "row": row, "actions": rec["acts"], "ending": rec["ending"], "batch": batch_info,
                "reward": reward}
        if any(d is None for d in done_vals):
            self.spec_fail.append(("done-row-not-uniform", {"what": "td['done'][row] carries different values"}, meta))
            return
        forced = rec["ending"] == 4
        if forced:               # the model must still agree step by step: sent to Coq as "continued past done"
            rec = dict(rec, ending=1)
            self.forced_past_quota.append(meta)
            ctx.count("%s_rows_forced_past_their_quota" % self.name)
        try:
            if self.name == "flp":
                case = flp_case(row, rec, reward)
            elif self.name == "mcp":
                case = mcp_case(row, rec, reward)
            else:
                case = eda_case(row, rec)
        except ValueError:
            self.dropped += 1
            ctx.count(self.name + "_dropped_unrepresentable")
            return
        self.cases.append(case)
        self.meta.append(meta)
        try:
            if rec["ending"] != 3 and spec:
                if self.name == "flp":
                    spec_flp(row, rec["ending"], rec["acts"], rec["obs"], reward)
                elif self.name == "mcp":
                    spec_mcp(row, rec["ending"], rec["acts"], rec["obs"], reward)
                else:
                    spec_eda(row, rec["ending"], rec["acts"], rec["obs0"], rec["obs"])
        except SpecFail as e:
            self.spec_fail.append((e.mech, e.detail, meta))
        nontrivial = len(rec["acts"]) >= 2 and rec["forced"] < len(rec["acts"])
        key = {"e": self.name, "i": {k: v for k, v in row.items() if k not in ("tol", "locs")}, "a": rec["acts"],
               "b": batch_info.get("B")}
        ctx.seen(key, nontrivial=nontrivial)
        ctx.count("%s_cases" % self.name)
        ctx.count("%s_kind_%s" % (self.name, row["kind"]))
        ctx.count("%s_ending_%s" % (self.name, "forced_past_quota" if forced else
                                    {0: "first_done", 1: "past_done", 2: "dead_end", 3: "cut"}[rec["ending"]]))
        ctx.count("%s_steps" % self.name, len(rec["acts"]))
        ctx.count("%s_batch_%s" % (self.name, "solo" if batch_info.get("B") == 1 else "batched"))

    def crashed(self, rows, recs, batch_info, where):
        crash = recs[0].get("crash") or {}
        clean = []
        for r in rows:
            r = dict(r)
            r.pop("tol", None)
            clean.append(r)
        meta = {"env": self.name, "row": clean[0], "actions": recs[0]["acts"], "ending": 3, "batch": batch_info, "reward": None,
                "batch_rows": clean, "crash": dict(crash, where=where)}
        mech = {"step": "mask-admitted-step-raises", "reset": "reset-raises-on-instance-in-generator-format"}.get(
            where, "get_reward-raises-after-mask-admitted-episode")
        self.spec_fail.append((mech, dict(crash, where=where), meta))
        self.ctx.count("%s_raised_in_%s" % (self.name, where))

    def evaluate(self, case_type, check_fn, shard):
        ctx = self.ctx
        if not self.cases:
            ctx.broken.append("correspondence C08/%s: no case could be generated" % self.name)
            return
        try:
            codes = coq_eval_shards("cases_C08_%s" % self.name, HEADER, case_type, check_fn, self.cases, shard=shard)
        except RuntimeError as e:
            ctx.broken.append("correspondence C08/%s could not be evaluated: %s" % (self.name, str(e)[-800:]))
            ctx.units[self.name] = {"cases": len(self.cases), "evaluated": False}
            return
        nz = [(i, c) for i, c in enumerate(codes) if c != 0]
        corr = [(i, c) for i, c in nz if c % 1000 != 6]
        spec = [(i, c) for i, c in nz if c % 1000 == 6]
        ctx.units[self.name] = {"cases": len(codes), "disagreements": len(corr), "coq_spec_on_impl_failures": len(spec),
                                "python_spec_on_impl_failures": len(self.spec_fail), "dropped_unrepresentable": self.dropped}
        if corr:
            i, c = corr[0]
            m = self.meta[i]
            ctx.broken.append("correspondence C08/%s: model and implementation differ on %d of %d cases; first: case %d code %d "
                              "(step %d: %s) kind=%s actions=%s batch=%s" % (
                                  self.name, len(corr), len(codes), i, c, c // 1000, TAGS.get(c % 1000, "?"),
                                  m["row"]["kind"], m["actions"], m["batch"]))
            ctx.extra.setdefault("first_disagreements", []).append(
                {"unit": self.name, "code": c, "tag": TAGS.get(c % 1000, "?"), "case": replay_obj_of(m)})
        for i, c in spec:
            m = self.meta[i]
            if not any(mm is m for _, _, mm in self.spec_fail):
                self.spec_fail.append(("coq-specification-false-at-step-%d" % (c // 1000), {"code": c}, m))


def replay_obj_of(meta):
    row = dict(meta["row"])
    row.pop("tol", None)
    obj = {"kind": "episode", "env": meta["env"], "instance": row, "actions": meta["actions"], "ending": meta["ending"],
           "batch": meta["batch"], "observed_reward": meta["reward"]}
    if "crash" in meta:
        obj.update({"kind": "batch_crash", "batch_rows": meta["batch_rows"], "crash": meta["crash"]})
    return obj


# ------------------------------------------------------------------------------------------------ the four units
def run_flp(ctx, torch, rng, unit, n_batches, sizes, search_only=False, around=None):
    from rl4co.envs.graph.flp.env import FLPEnv
    from rl4co.envs.graph.flp.generator import FLPGenerator
    env = FLPEnv(check_solution=False)
    for b in range(n_batches):
        n = around["n"] if around and b % 2 == 0 else rng.choice(sizes)
        mode = rng.random()
        q = n + 1 if mode < 0.04 else (rng.choice([1, n]) if mode < 0.3 else rng.randint(1, n))
        B = 1 if b % 5 == 4 else rng.randint(2, 6)
        gen_td = None
        rows = []
        for k in range(B):
            kind = rng.choice(["points", "points", "dyadic", "asym", "gen", "gen"])
            if kind == "gen" and gen_td is None:
                gen_td = FLPGenerator(num_loc=n, to_choose=q)(batch_size=[B])
            rows.append(flp_make_row(torch, rng, kind, n, q, gen_td, k))
        qshape = "B1" if b % 3 == 0 else "B"          # documented [B,1] vs what the generator emits [B]
        extra = 2 if (b % 7 == 3 and q < n - 1) else 0
        mixed = b % 9 == 5 and B > 1                   # heterogeneous per-row quotas (DESIGN section 3, degenerate)
        if mixed:
            extra = 0
            for r in rows:
                r["q"] = rng.randint(1, n)
            ctx.count("flp_mixed_quota_batches")
        flp_run_batch(ctx, torch, rng, env, unit, rows, [None] * B, qshape, extra)
        if b % 4 == 0 and B > 1 and not mixed:                     # the same first row solo, same actions (plan = what it did)
            last = unit.meta[-B] if len(unit.meta) >= B else None
            if last is not None and last["row"] is rows[0]:
                flp_run_batch(ctx, torch, rng, env, unit, [rows[0]], [last["actions"]], qshape, 0)


def reset_or_crash(envname, env, unit, inst_td, rows, info):
    """env.reset on a hand-built instance in generator format; an exception is a failing input of its own"""
    check_instance_format(envname, env, inst_td)
    try:
        return env.reset(inst_td)
    except Exception as e:
        recs = [{"acts": [], "crash": {"error": "%s: %s" % (type(e).__name__, str(e)[:300]), "actions_so_far": [[] for _ in rows],
                                      "actions": []}} for _ in rows]
        unit.crashed(rows, recs, info, "reset")
        return None


def flp_run_batch(ctx, torch, rng, env, unit, rows, plans, qshape, extra):
    td = reset_or_crash("flp", env, unit, flp_td(torch, rows, qshape), rows, {"B": len(rows), "to_choose_shape": qshape, "extra_steps": extra})
    if td is None:
        return
    td, recs, shapes, raw = drive(torch, env, td, rng, plans, flp_obs, extra, rows[0]["n"] + 3)
    info = {"B": len(rows), "to_choose_shape": qshape, "extra_steps": extra}
    if recs[0]["crash"]:
        unit.crashed(rows, recs, info, "step")
    if not recs[0]["acts"]:
        return
    try:
        rew = env.get_reward(td, torch.tensor([r["acts"] for r in recs], dtype=torch.int64)).tolist()
    except Exception as e:
        if not recs[0]["crash"]:
            recs[0]["crash"] = {"error": "%s: %s" % (type(e).__name__, str(e)[:300]), "actions_so_far": [r["acts"] for r in recs]}
            unit.crashed(rows, recs, info, "get_reward")
        return
    for s in shapes:
        ctx.count("flp_done_shape_%s" % ("BxB" if len(s) == 2 and s[1] == len(rows) and qshape == "B1" else "x".join(map(str, s[1:])) or "B"))
    for row, rec, rw in zip(rows, recs, rew):
        unit.add(row, rec, rw, {"B": len(rows), "to_choose_shape": qshape, "extra_steps": extra})
    return raw


def flp_bfs(ctx, torch, rng, unit, sizes):
    from rl4co.envs.graph.flp.env import FLPEnv
    env = FLPEnv(check_solution=False)
    for n in sizes:
        for q in range(1, n + 1):
            row = flp_make_row(torch, rng, rng.choice(["points", "asym"]), n, q)
            seqs = [list(p) for p in itertools.permutations(range(n), q)]
            ctx.count("flp_bfs_sequences", len(seqs))
            flp_run_batch(ctx, torch, rng, env, unit, [row] * len(seqs), seqs, "B", 0)


def run_mcp(ctx, torch, rng, unit, n_batches, sizes, around=None):
    from rl4co.envs.graph.mcp.env import MCPEnv
    from rl4co.envs.graph.mcp.generator import MCPGenerator
    env = MCPEnv(check_solution=False)
    for b in range(n_batches):
        ns = around["ns"] if around and b % 2 == 0 else rng.choice(sizes)
        ni = rng.choice(sizes)
        mode = rng.random()
        q = ns + 1 if mode < 0.04 else (rng.choice([1, ns]) if mode < 0.3 else rng.randint(1, ns))
        B = 1 if b % 5 == 4 else rng.randint(2, 6)
        rows = []
        if b % 3 == 1:                # a whole generator batch (its membership width is per batch)
            try:
                g = MCPGenerator(num_items=ni, num_sets=ns, min_size=1, max_size=rng.randint(1, min(4, ni)), n_sets_to_choose=q)
                gen_td = g(batch_size=[B])
                rows = [mcp_make_row(torch, rng, "gen", ns, ni, q, gen_td, k) for k in range(B)]
            except Exception as e:    # generator bug outside C08 (shape mismatch when no set reaches max_size)
                ctx.count("mcp_generator_raised")
                ctx.extra.setdefault("mcp_generator_errors", set()).add(str(e)[:120])
                rows = []
        if not rows:
            width = None
            for k in range(B):
                r = mcp_make_row(torch, rng, rng.choice(["pad_end", "holes", "dups"]), ns, ni, q)
                rows.append(r)
            width = max(len(x) for r in rows for x in r["mem"])
            for r in rows:            # one tensor: pad every row of every instance to the batch width with zeros
                r["mem"] = [x + [0.0] * (width - len(x)) for x in r["mem"]]
        extra = 2 if (b % 7 == 3 and q < ns - 1) else 0
        mixed = b % 9 == 5 and B > 1
        if mixed:
            extra = 0
            for r in rows:
                r["q"] = rng.randint(1, ns)
            ctx.count("mcp_mixed_quota_batches")
        mcp_run_batch(ctx, torch, rng, env, unit, rows, [None] * B, extra)
        if b % 4 == 0 and B > 1 and not mixed:
            last = unit.meta[-B] if len(unit.meta) >= B else None
            if last is not None and last["row"] is rows[0]:
                mcp_run_batch(ctx, torch, rng, env, unit, [rows[0]], [last["actions"]], 0)


def mcp_run_batch(ctx, torch, rng, env, unit, rows, plans, extra):
    td = reset_or_crash("mcp", env, unit, mcp_td(torch, rows), rows, {"B": len(rows), "extra_steps": extra})
    if td is None:
        return
    td, recs, shapes, raw = drive(torch, env, td, rng, plans, mcp_obs, extra, rows[0]["ns"] + 3)
    info = {"B": len(rows), "extra_steps": extra}
    if recs[0]["crash"]:
        unit.crashed(rows, recs, info, "step")
    if not recs[0]["acts"]:
        return
    try:
        rew = env.get_reward(td, torch.tensor([r["acts"] for r in recs], dtype=torch.int64)).tolist()
    except Exception as e:
        if not recs[0]["crash"]:
            recs[0]["crash"] = {"error": "%s: %s" % (type(e).__name__, str(e)[:300]), "actions_so_far": [r["acts"] for r in recs]}
            unit.crashed(rows, recs, info, "get_reward")
        return
    for s in shapes:
        ctx.count("mcp_done_shape_%s" % ("BxB" if len(s) == 2 and s[1] == len(rows) else "x".join(map(str, s[1:])) or "B"))
    for row, rec, rw in zip(rows, recs, rew):
        unit.add(row, rec, rw, {"B": len(rows), "extra_steps": extra})
    return raw


def mcp_bfs(ctx, torch, rng, unit, sizes):
    from rl4co.envs.graph.mcp.env import MCPEnv
    env = MCPEnv(check_solution=False)
    for ns in sizes:
        for q in range(1, ns + 1):
            row = mcp_make_row(torch, rng, rng.choice(["pad_end", "holes", "dups"]), ns, rng.randint(3, 6), q)
            seqs = [list(p) for p in itertools.permutations(range(ns), q)]
            ctx.count("mcp_bfs_sequences", len(seqs))
            mcp_run_batch(ctx, torch, rng, env, unit, [row] * len(seqs), seqs, 0)


def run_eda(ctx, torch, rng, unit, envname, n_batches, sizes):
    envs = {}
    for b in range(n_batches):
        size = rng.choice(sizes)
        n = size * size
        q = rng.randint(1, max(1, min(n - 2, 8))) if size < 10 else rng.choice([3, 8, 20])
        key = (size, q)
        if key not in envs:
            env = eda_env(envname, size, q, kmin=1, kmax=max(2, n // 2))
            if env.max_decaps != q:
                # MDPP keeps the default DPPGenerator's 20 (reported separately); to exercise the step logic at
                # other quotas the public attribute is set by hand -- flagged in the evidence.
                env.max_decaps = q
                ctx.count("%s_max_decaps_set_by_harness" % envname)
            envs[key] = env
        env = envs[key]
        B = 1 if b % 5 == 4 else rng.randint(2, 5)
        rows = []
        gen_td = None
        for k in range(B):
            kind = rng.choice(["gen", "gen", "sparse", "dense", "none", "rows"])
            if kind == "gen" and gen_td is None:
                gen_td = env.generator(batch_size=[B])
            row = eda_make_row(torch, rng, kind, envname, size, q, gen_td, k)
            for _ in range(6):        # mostly instances whose quota fits (dead ends by construction stay ~10%)
                nall = sum(1 for c in range(n) if row["avail"][c] and (envname == "dpp" or not row["probe"][c]))
                if nall >= q or kind == "gen" or rng.random() < 0.1:
                    break
                row = eda_make_row(torch, rng, rng.choice(["sparse", "none", "rows"]), envname, size, q)
            rows.append(row)
        extra = 2 if b % 6 == 2 else 0
        eda_run_batch(ctx, torch, rng, env, unit, rows, [None] * B, extra)
        if b % 4 == 0 and B > 1:
            last = unit.meta[-B] if len(unit.meta) >= B else None
            if last is not None and last["row"] is rows[0]:
                eda_run_batch(ctx, torch, rng, env, unit, [rows[0]], [last["actions"]], 0)
    return envs


def eda_run_batch(ctx, torch, rng, env, unit, rows, plans, extra):
    td = reset_or_crash(rows[0]["env"], env, unit, eda_td(torch, rows), rows, {"B": len(rows), "extra_steps": extra})
    if td is None:
        return
    td, recs, shapes, raw = drive(torch, env, td, rng, plans, eda_obs, extra, rows[0]["q"] + 3)
    if recs[0]["crash"]:
        unit.crashed(rows, recs, {"B": len(rows), "extra_steps": extra}, "step")
    for row, rec in zip(rows, recs):
        unit.add(row, rec, None, {"B": len(rows), "extra_steps": extra})


def eda_bfs(ctx, torch, rng, unit, envname):
    for size, q in ((2, 1), (2, 2), (2, 3), (3, 2), (3, 3)):
        env = eda_env(envname, size, q)
        env.max_decaps = q
        n = size * size
        row = eda_make_row(torch, rng, "sparse", envname, size, q)
        allowed = [c for c in range(n) if row["avail"][c] and (envname == "dpp" or not row["probe"][c])]
        seqs = [list(p) for p in itertools.permutations(allowed, min(q, len(allowed)))]
        seqs = seqs[:400]
        if not seqs or not seqs[0]:
            continue
        ctx.count("%s_bfs_sequences" % envname, len(seqs))
        eda_run_batch(ctx, torch, rng, env, unit, [row] * len(seqs), seqs, 0)


# ------------------------------------------------------------------------------------------------ repeated episodes
# Episodes on one instance must not see each other (Coq: Env/SelectionStore.v, *_store_refines).  "The instance" =
# the tensors the caller built.  Scenarios (B = 1..3 rows, equal quotas):
#   seq_views          reset(view1) -> full episode -> reset(view2) -> second episode, other order; view_i are fresh
#                      shallow TensorDicts over the very same tensor objects (no clone anywhere)
#   seq_same_object    td = one TensorDict; env.reset(td) -> episode -> env.reset(td) AGAIN on the same object ->
#                      second episode.  torchrl's reset returns `td` itself updated in place and rl4co's step keeps
#                      updating it, so what the second _reset is handed is the container's *current* content: it is
#                      re-read just before the second reset and is the instance the model is run on
#   interleaved_views  two env objects, two views, steps taken alternately
#   interleaved_copies one reset, two shallow td.copy() of the reset state stepped alternately
# Every episode goes to the Coq row model like any first episode; besides, on the implementation alone, (a) every
# observable is compared with the row model's prediction computed here and (b) the caller's tensors must be
# bit-identical afterwards.  A difference that disappears when the same actions are replayed solo on cloned
# tensors is a leak between episodes.
SIG_LEAK = "%s: episode-state-leaks-into-instance-or-next-episode"
SCENARIOS = ("seq_views", "seq_same_object", "interleaved_views", "interleaved_copies")


def tensor_bits(torch, t):
    """the raw bytes of a tensor (bit-identity, not numeric equality: -0.0 / NaN payloads count)"""
    flat = t.detach().contiguous().view(-1)
    return flat.to(torch.uint8) if t.dtype == torch.bool else flat.view(torch.uint8)


def inst_td_of(torch, envname, rows, qshape):
    if envname == "flp":
        return flp_td(torch, rows, qshape)
    if envname == "mcp":
        return mcp_td(torch, rows)
    return eda_td(torch, rows)


def obs_fn_of(envname):
    return {"flp": flp_obs, "mcp": mcp_obs}.get(envname, eda_obs)


def max_steps_of(envname, row):
    return {"flp": lambda: row["n"] + 3, "mcp": lambda: row["ns"] + 3}.get(envname, lambda: row["q"] + 3)()


def reread_rows(envname, td, rows):
    """the instance a _reset handed `td` now would read (same row format as the *_make_row functions)"""
    out = []
    for r, row in enumerate(rows):
        if envname == "flp":
            new = dict(row, kind="reread", locs=td["locs"][r].tolist(), D=td["orig_distances"][r].tolist(),
                       dist0=td["distances"][r].tolist(), q=int(td["to_choose"].reshape(len(rows), -1)[r, 0]))
        elif envname == "mcp":
            new = dict(row, kind="reread", mem=td["membership"][r].tolist(), w=td["weights"][r].tolist(),
                       q=int(td["n_sets_to_choose"].reshape(len(rows), -1)[r, 0]))
        else:
            probe = td["probe"][r].tolist()
            new = dict(row, kind="reread", avail=td["action_mask"][r].tolist(), probe=probe[0] if envname == "dpp" else probe)
        out.append(new)
    return out


def py_expected(row, acts):
    """what the row model (Env/FLP.v, MCP.v, DPP.v) predicts for these actions: [obs after reset, obs after each
    step], reward (None: not part of C08).  Exact: only min / 0-1 products of the instance's own float values."""
    env = row["env"]
    out = []
    if env == "flp":
        n, D, q = row["n"], row["D"], row["q"]
        for k in range(len(acts) + 1):
            pre = acts[:k]
            ch = [c in pre for c in range(n)]
            out.append({"mask": [not x for x in ch], "done": k >= q if k else False, "chosen": ch,
                        "dist": [min(D[a][p] for a in pre) for p in range(n)] if pre else list(row["dist0"])})
        rew = -sum(min(Fraction(D[a][p]) for a in acts) for p in range(n)) if acts else None
        return out, rew
    if env == "mcp":
        mem, w, q = row["mem"], row["w"], row["q"]
        ns, ni = len(mem), len(w)
        for k in range(len(acts) + 1):
            pre = acts[:k]
            ch = [c in pre for c in range(ns)]
            ids = {int(x) for a in pre for x in mem[a] if x != 0}
            out.append({"mask": [not x for x in ch], "done": k >= q if k else False, "chosen": ch,
                        "weights": [0.0 if (j + 1) in ids else w[j] for j in range(ni)],
                        "membership": [[0.0] * len(mem[c]) if c in pre else list(mem[c]) for c in range(ns)]})
        ids = {int(x) for a in acts for x in mem[a] if x != 0}
        return out, sum(Fraction(w[j]) for j in range(ni) if (j + 1) in ids)
    avail, q = row["avail"], row["q"]
    n = len(avail)
    allowed0 = list(avail) if env == "dpp" else [avail[c] and not row["probe"][c] for c in range(n)]
    for k in range(len(acts) + 1):
        pre = acts[:k]
        out.append({"mask": [allowed0[c] and c not in pre for c in range(n)], "done": k >= q if k else False,
                    "keepout": [not x for x in avail]})
    return out, None


def first_difference(row, rec, reward):
    """first observable of one recorded episode that is not what the row model predicts (None: all agree)"""
    if rec.get("crash"):
        return {"step": rec["crash"].get("step"), "observable": "exception", "observed": rec["crash"].get("error"), "expected": "no exception"}
    exp, exp_rew = py_expected(row, rec["acts"])
    for k, (e, o) in enumerate(zip(exp, [rec["obs0"]] + rec["obs"])):
        for key in ("mask", "done", "chosen", "dist", "weights", "membership", "keepout"):
            if key in e and e[key] != o[key]:
                return {"step": k, "observable": key, "expected": e[key], "observed": o[key], "actions_so_far": rec["acts"][:k]}
    if exp_rew is not None and reward is not None and abs(Fraction(reward) - exp_rew) > row.get("tol", 0):
        return {"step": len(rec["acts"]), "observable": "reward", "expected": float(exp_rew), "observed": reward}
    return None


def episode_rewards(torch, envname, env, td, recs):
    if envname not in ("flp", "mcp") or not recs[0]["acts"] or len({len(r["acts"]) for r in recs}) != 1:
        return [None] * len(recs)
    try:
        return env.get_reward(td, torch.tensor([r["acts"] for r in recs], dtype=torch.int64)).tolist()
    except Exception as e:
        for r in recs:
            r["crash"] = r.get("crash") or {"step": len(r["acts"]), "error": "get_reward: %s: %s" % (type(e).__name__, str(e)[:200])}
        return [None] * len(recs)


class ResetRaised(Exception):
    pass


def run_scenario(torch, rng, envname, envs, rows, qshape, scenario, plans1, plans2, inst=None):
    """runs one scenario on the real env(s); `inst` = the instance TensorDict to use as it is (generator output)
    instead of one built from `rows`.  Returns {"episodes": [(label, expected_rows, recs, rewards)], "mutated": [keys],
    "container": [per-row dict of instance keys whose container entry changed], "error": str|None}."""
    from tensordict import TensorDict
    env, env2 = envs
    B = len(rows)
    if inst is None:
        inst = inst_td_of(torch, envname, rows, qshape)
        check_instance_format(envname, env, inst)
    T = dict(inst.items())                                   # the caller's tensors (objects kept, never cloned)
    snap = {k: v.clone() for k, v in T.items()}
    view = lambda: TensorDict(dict(T), batch_size=[B])       # fresh container, same tensor objects
    obs_fn, ms = obs_fn_of(envname), max_steps_of(envname, rows[0])
    res = {"episodes": [], "mutated": [], "container": [], "error": None}
    plans1 = plans1 or [None] * B

    def reset(env_, td0, label):
        try:
            return env_.reset(td0)
        except Exception as e:          # only the implementation's own exception; harness errors propagate
            raise ResetRaised("reset of episode %s: %s: %s" % (label, type(e).__name__, str(e)[:300]))

    def whole(env_, td0, plans, label, exp_rows):
        td = reset(env_, td0, label)
        td, recs, _, _ = drive(torch, env_, td, rng, plans, obs_fn, 0, ms)
        res["episodes"].append((label, exp_rows, recs, episode_rewards(torch, envname, env_, td, recs)))
        return recs
    try:
        if scenario == "seq_views":
            recs = whole(env, view(), plans1, "first", rows)
            whole(env, view(), plans2 or [list(reversed(r["acts"])) for r in recs], "second", rows)
        elif scenario == "seq_same_object":
            td_obj = view()
            recs = whole(env, td_obj, plans1, "first", rows)
            now = reread_rows(envname, td_obj, rows)
            for r, (a, b) in enumerate(zip(rows, now)):
                ch = sorted(k for k in b if k not in ("kind",) and a.get(k) != b[k])
                res["container"].append(ch)
            whole(env, td_obj, plans2 or [None] * B, "second (same TensorDict object)", now)   # a fresh random walk
        else:
            plans2 = plans2 or [None] * B
            if scenario == "interleaved_views":
                ta, tb = reset(env, view(), "A"), reset(env2, view(), "B")
                ea, eb = env, env2
            else:
                t0 = reset(env, view(), "A/B")
                ta, tb = t0.copy(), t0.copy()                # shallow: the two rollouts share every tensor of the reset state
                ea = eb = env
            ra = Roll(torch, ea, ta, rng, plans1, obs_fn, 0, ms)
            rb = Roll(torch, eb, tb, rng, plans2, obs_fn, 0, ms)
            go = True
            while go:
                x = ra.step()
                y = rb.step()
                go = x or y
            for label, env_, roll in (("A", ea, ra), ("B", eb, rb)):
                td, recs, _, _ = roll.finish()
                res["episodes"].append((label, rows, recs, episode_rewards(torch, envname, env_, td, recs)))
    except ResetRaised as e:
        res["error"] = str(e)
    for k in T:
        if T[k].shape != snap[k].shape or not torch.equal(tensor_bits(torch, T[k]), tensor_bits(torch, snap[k])):
            res["mutated"].append(k)
    return res


def scenario_verdict(torch, rng, envname, envs, rows, qshape, scenario, res):
    """None, or the replay object of a leak: caller tensors mutated, or an episode differs from the row model while
    the same actions replayed solo on cloned tensors (control) agree with it."""
    clean = [{k: v for k, v in r.items() if k != "tol"} for r in rows]
    acts = {label: [list(r["acts"]) for r in recs] for label, _, recs, _ in res["episodes"]}
    obj = {"kind": "repeat", "env": envname, "scenario": scenario, "rows": clean, "to_choose_shape": qshape,
           "actions": acts, "mutated_instance_tensors": res["mutated"], "error": res["error"]}
    diffs = []
    for label, exp_rows, recs, rews in res["episodes"]:
        for r, (row, rec, rw) in enumerate(zip(exp_rows, recs, rews)):
            d = first_difference(row, rec, rw)
            if d is not None:
                diffs.append((label, r, row, rec, d))
    leak = None
    for label, r, row, rec, d in diffs:
        try:                # control: the same row and actions, solo, on freshly built tensors
            td = envs[0].reset(inst_td_of(torch, envname, [dict(row)], qshape))
            td, crecs, _, _ = drive(torch, envs[0], td, rng, [rec["acts"]], obs_fn_of(envname), 0, len(rec["acts"]))
            crew = episode_rewards(torch, envname, envs[0], td, crecs)
            cd = first_difference(row, crecs[0], crew[0]) if crecs[0]["acts"] == rec["acts"] else {"observable": "actions", "observed": crecs[0]["acts"], "expected": rec["acts"]}
        except Exception as e:
            cd = {"observable": "exception", "observed": "%s: %s" % (type(e).__name__, str(e)[:200])}
        if cd is None:
            leak = dict(d, episode=label, row=r)
            break
    if leak is None and res["error"]:
        # the reset of a later episode raised: a leak iff a first reset of the same data, freshly built, does not
        try:
            envs[0].reset(inst_td_of(torch, envname, [dict(r) for r in rows], qshape))
            leak = {"episode": "?", "observable": "exception", "observed": res["error"],
                    "expected": "no exception (a fresh reset of the same data does not raise)"}
        except Exception:
            pass
    if leak is None and not res["mutated"]:
        return None, diffs
    obj["first_difference"] = leak
    obj["what"] = ("episodes on one instance see each other: " +
                   ("the caller's tensors %s were written in place; " % res["mutated"] if res["mutated"] else "") +
                   ("episode %s differs from the row model at step %s in %s although the same actions on cloned tensors agree" % (
                       leak.get("episode"), leak.get("step"), leak.get("observable")) if leak else ""))
    return obj, diffs


def repeat_stream(ctx, torch, rng, units, n_per_env, sizes):
    from rl4co.envs.graph.flp.env import FLPEnv
    from rl4co.envs.graph.mcp.env import MCPEnv
    from rl4co.envs.graph.flp.generator import FLPGenerator
    from rl4co.envs.graph.mcp.generator import MCPGenerator
    flp_envs = (FLPEnv(check_solution=False), FLPEnv(check_solution=False))
    mcp_envs = (MCPEnv(check_solution=False), MCPEnv(check_solution=False))
    stats = {"scenarios": 0, "episodes": 0, "leaks": 0, "tensor_mutations": 0}
    oos = {}
    found = {}
    for envname in ("flp", "mcp", "dpp", "mdpp"):
        unit = units[envname]
        eda_envs = {}
        for b in range(n_per_env):
            scenario = SCENARIOS[b % len(SCENARIOS)]
            B = 1 + (b // len(SCENARIOS)) % 3
            qshape = "B1" if b % 3 == 0 else "B"
            use_gen = (b // len(SCENARIOS)) % 3 == 1          # the generator's own TensorDict, tensors as it made them
            gen_td = None
            if envname == "flp":
                n = rng.choice(sizes)
                q = rng.randint(1, n)
                envs = flp_envs
                if use_gen:
                    gen_td = FLPGenerator(num_loc=n, to_choose=q)(batch_size=[B])
                    qshape = "B"
                    rows = [flp_make_row(torch, rng, "gen", n, q, gen_td, k) for k in range(B)]
                else:
                    rows = [flp_make_row(torch, rng, rng.choice(["points", "dyadic", "asym"]), n, q) for _ in range(B)]
            elif envname == "mcp":
                ns, ni = rng.choice(sizes), rng.choice(sizes)
                q = rng.randint(1, ns)
                envs = mcp_envs
                if use_gen:
                    try:
                        gen_td = MCPGenerator(num_items=ni, num_sets=ns, min_size=1, max_size=rng.randint(1, min(4, ni)),
                                              n_sets_to_choose=q)(batch_size=[B])
                        rows = [mcp_make_row(torch, rng, "gen", ns, ni, q, gen_td, k) for k in range(B)]
                    except Exception:          # MCPGenerator's own shape bug on small sizes (outside C08, see notes)
                        ctx.count("mcp_generator_raised")
                        gen_td = None
                if gen_td is None:
                    rows = [mcp_make_row(torch, rng, rng.choice(["pad_end", "holes", "dups"]), ns, ni, q) for _ in range(B)]
                    width = max(len(x) for r in rows for x in r["mem"])
                    for r in rows:
                        r["mem"] = [x + [0.0] * (width - len(x)) for x in r["mem"]]
            else:
                size = rng.choice([3, 3, 4])
                q = rng.randint(1, 3)
                if (size, q) not in eda_envs:
                    pair = (eda_env(envname, size, q, kmin=1, kmax=max(2, size * size // 2)), eda_env(envname, size, q))
                    for e in pair:
                        e.max_decaps = q
                    eda_envs[(size, q)] = pair
                envs = eda_envs[(size, q)]
                if use_gen:
                    gen_td = envs[0].generator(batch_size=[B])
                    rows = [eda_make_row(torch, rng, "gen", envname, size, q, gen_td, k) for k in range(B)]
                else:
                    rows = [eda_make_row(torch, rng, rng.choice(["sparse", "none", "rows"]), envname, size, q) for _ in range(B)]
            if gen_td is not None:
                ctx.count("repeat_%s_on_generator_tensordict" % envname)
            res = run_scenario(torch, rng, envname, envs, rows, qshape, scenario, [None] * B, None if b % 2 == 0 else [None] * B,
                               inst=gen_td)
            obj, diffs = scenario_verdict(torch, rng, envname, envs, rows, qshape, scenario, res)
            stats["scenarios"] += 1
            ctx.count("repeat_%s_%s" % (envname, scenario))
            if res["mutated"]:
                stats["tensor_mutations"] += 1
            differing = {(label, r) for label, r, _, _, _ in diffs}
            info = {"B": B, "extra_steps": 0, "repeat": scenario}
            if envname == "flp":
                info["to_choose_shape"] = qshape
            for label, exp_rows, recs, rews in res["episodes"]:
                for r, (row, rec, rw) in enumerate(zip(exp_rows, recs, rews)):
                    stats["episodes"] += 1
                    if not rec["acts"] and not rec.get("crash"):
                        continue
                    if (envname in ("flp", "mcp")) and rw is None:
                        continue
                    # leaks are reported below under their own signature, not as a solo-episode failure
                    unit.add(row, rec, rw, dict(info, episode=label), spec=not (obj is not None and (label, r) in differing))
            if scenario == "seq_same_object" and any(res["container"]):
                o = oos.setdefault(envname, {"env": envname, "scenarios": 0, "instance_entries_replaced_by_episode_state": set(), "example": None})
                o["scenarios"] += 1
                for ch in res["container"]:
                    o["instance_entries_replaced_by_episode_state"].update(ch)
                if o["example"] is None:
                    label, exp_rows, recs, _ = res["episodes"][-1]
                    o["example"] = {"original_row": {k: v for k, v in rows[0].items() if k not in ("tol", "locs", "D")},
                                    "first_episode_actions": res["episodes"][0][2][0]["acts"],
                                    "row_read_by_second_reset": {k: v for k, v in exp_rows[0].items() if k not in ("tol", "locs", "D")}}
            if obj is not None:
                stats["leaks"] += 1
                size_ = sum(len(a) for v in obj["actions"].values() for a in v) * 100 + len(json.dumps(obj["rows"], default=str))
                if envname not in found or size_ < found[envname][0]:
                    found[envname] = (size_, obj)
    for o in oos.values():
        o["instance_entries_replaced_by_episode_state"] = sorted(o["instance_entries_replaced_by_episode_state"])
    return stats, found, list(oos.values())


# ------------------------------------------------------------------------------------------------ known mechanisms
def mixed_quota_experiment(torch, envname, qshape="B1"):
    """Two copies of one instance in one batch, quotas 1 and 3, rl4co's loop `while not td["done"].all()` with the
    first offered item as policy.  Returns a JSON-able record (per-step raw done tensors included)."""
    if envname == "mcp":
        from rl4co.envs.graph.mcp.env import MCPEnv
        env = MCPEnv(check_solution=False)
        base = {"env": "mcp", "kind": "hand", "ns": 4, "ni": 6, "mem": [[1.0, 5.0, 0.0], [2.0, 0.0, 3.0], [0.0, 0.0, 0.0], [5.0, 6.0, 0.0]],
                "w": [10.0, 20.0, 30.0, 40.0, 50.0, 60.0]}
        mk = lambda rows: mcp_td(torch, rows)
        sel = lambda td: td["chosen"].sum(-1).tolist()
    else:
        from rl4co.envs.graph.flp.env import FLPEnv
        env = FLPEnv(check_solution=False)
        D = [[0.0, 5.0, 9.0, 13.0], [5.0, 0.0, 4.0, 8.0], [9.0, 4.0, 0.0, 4.0], [13.0, 8.0, 4.0, 0.0]]
        base = {"env": "flp", "kind": "hand", "n": 4, "locs": [[0.0, 0.0]] * 4, "D": [[x / 64.0 for x in r] for r in D], "dist0": [9.0] * 4}
        mk = lambda rows: flp_td(torch, rows, qshape)
        sel = lambda td: td["chosen"].sum(-1).tolist()
    quotas = [1, 3]
    rows = [dict(base, q=q) for q in quotas]

    def roll(rws):
        td = env.reset(mk(rws))
        acts, dones, counters = [], [], []
        for _ in range(10):
            if bool(td["done"].all()):
                break
            a = [next(c for c, b in enumerate(m) if b) for m in td["action_mask"].tolist()]
            counters.append(td["i"].reshape(len(rws), -1)[:, 0].tolist())
            td.set("action", torch.tensor(a, dtype=torch.int64))
            td = env.step(td)["next"]
            acts.append(a)
            dones.append(td["done"].reshape(len(rws), -1).tolist())
        rew = env.get_reward(td, torch.tensor(acts, dtype=torch.int64).T.contiguous()).tolist()
        return {"actions_per_step": acts, "done_per_step": dones, "counters_before_step": counters,
                "selected_per_row": [int(x) for x in sel(td)], "reward_per_row": rew, "done_shape": list(td["done"].shape)}
    batched = roll(rows)
    solo = [roll([r]) for r in rows]
    return {"kind": "mixed_quota", "env": envname, "to_choose_shape": qshape if envname == "flp" else "B1 (generator format)",
            "instance": {k: v for k, v in base.items()}, "quotas": quotas, "batched": batched,
            "solo": [{"selected": s["selected_per_row"][0], "reward": s["reward_per_row"][0], "steps": len(s["actions_per_step"])} for s in solo],
            "expected": "every row ends with exactly its own quota of items and its solo reward",
            "observed": "row 0 (quota %d) ends with %d items, reward %r (solo: %d items, reward %r)" % (
                quotas[0], batched["selected_per_row"][0], batched["reward_per_row"][0],
                solo[0]["selected_per_row"][0], solo[0]["reward_per_row"][0])}


def mixed_quota_fails(rec):
    return any(s != q for s, q in zip(rec["batched"]["selected_per_row"], rec["quotas"])) or \
        any(abs(a - b["reward"]) > 1e-6 for a, b in zip(rec["batched"]["reward_per_row"], rec["solo"]))


def mdpp_quota_experiment(gen_max_decaps=2, size=3):
    import torch
    env = eda_env("mdpp", size, gen_max_decaps, kmin=1, kmax=2, pmin=1, pmax=2)
    n = size * size
    row = {"env": "mdpp", "kind": "hand", "size": size, "q": gen_max_decaps, "avail": [True] * n,
           "probe": [c == n - 1 for c in range(n)]}
    td = env.reset(eda_td(torch, [row]))
    dones = []
    for _ in range(gen_max_decaps + 2):
        m = td["action_mask"][0].tolist()
        if not any(m):
            break
        td.set("action", torch.tensor([m.index(True)], dtype=torch.int64))
        td = env.step(td)["next"]
        dones.append(bool(td["done"].all()))
    return {"kind": "mdpp_quota", "env": "mdpp", "generator_params": {"max_decaps": gen_max_decaps, "grid": "%dx%d (synthetic data)" % (size, size)},
            "generator_max_decaps": int(env.generator.max_decaps), "env_max_decaps": int(env.max_decaps),
            "done_after_each_step_on_an_all_free_grid": dones,
            "expected": "MDPPEnv(generator_params=dict(max_decaps=k)) finishes an episode after k decaps",
            "observed": "env.max_decaps = %d (taken from a default DPPGenerator built by DPPEnv.__init__), generator.max_decaps = %d" % (
                int(env.max_decaps), int(env.generator.max_decaps))}


# ------------------------------------------------------------------------------------------------ entry points
def run(ctx: Ctx, proofs_ok: bool):
    import numpy as np
    import torch

    rng = ctx.rng
    torch.manual_seed(rng.randrange(2 ** 31))
    thorough = ctx.tier == "thorough"
    sizes = list(range(3, 21)) if thorough else list(range(3, 13))
    nb = 260 if thorough else 70
    ctx.rule = ("instances: FLP n=3..12 (thorough ..20) from integral point sets/128 with duplicates (exact), symmetric and "
                "asymmetric dyadic matrices, FLPGenerator output (float32 matrix passed exactly as scaled integers); MCP "
                "n_sets,n_items=3..12 hand-built (zero padding at the end / anywhere, repeated ids, empty sets, integer and dyadic "
                "weights incl. 0) and MCPGenerator output; DPP/MDPP grids 2x2,3x3,4x4,10x10 on synthetic chip data, generator "
                "output and hand-built keep-out layouts (none, sparse, dense, whole rows), probes inside/outside the generator mask; "
                "quota uniform in 1..n with 26% at the ends (1 or n) and 4% n+1 (dead end by construction); to_choose both in the "
                "generator's [B] and the documented [B,1] shape.  Orders: uniform random walks in the implementation's mask, "
                "run in mixed batches of 2..6 rows and solo (B=1, replaying a batched row's actions), every 7th batch continued "
                "2 steps past done; all admitted orders (every q-permutation) of instances with 3..4 items (EDA: up to 400) as one batch.  "
                "Repeated episodes on ONE instance (12 scenarios per env, thorough 32; B=1..3): two full episodes one after the other on "
                "fresh shallow TensorDicts over the very same tensors and on the very same TensorDict object (env.reset(td) twice), two "
                "rollouts stepped alternately (two env objects / two shallow copies of one reset state), second order = reverse of the "
                "first or an independent random walk; caller tensors compared bit for bit afterwards.  "
                "non-trivial = at least 2 steps and at least one step with more than one admitted item; distinct by hash of "
                "(instance, actions, batch size)")
    ctx.assumptions += [
        "per-row models: rows of a batch are independent except for the done broadcast, which is modelled on whole batches (done_bxb)",
        "quota >= 1 (quota 0 selects one item: refuted theorem); quota <= allowed items for the no-dead-end statements",
        "MCP item ids are integers in 0..n_items (ids above n_items raise in the code = model None; negative ids wrap in torch and are outside the format)",
        "DPP: the generator's action_mask excludes the probing port (DPPEnv itself never looks at td['probe']); hand-built instances respect this",
        "FLP reward is a float32 sum: compared exactly on the exact stream, with relative tolerance 1e-5 on generator data",
        "the instance of an episode is what _reset is handed: tensors built by the caller; torchrl's reset(td)/rl4co's step update the "
        "caller's TensorDict CONTAINER in place (library contract), so for a second env.reset(td) on the same object the instance is the "
        "container's content at that time (re-read by the harness); the caller's TENSORS must never change (checked bit for bit)",
        "store model (Env/SelectionStore.v): one selection tensor per env (chosen / action_mask); MCP membership / weights follow the "
        "same pattern (reset keeps the caller's tensor, step multiplies out of place) and are covered by the bit-identity check only",
        "the decap simulator (DPP/MDPP reward) is not part of C08 and not modelled; synthetic .npy chip data only serve to construct the classes",
    ]
    ctx.trusted.append("torch broadcasting / indexing semantics used by the four envs (scatter, nonzero, index_put, gather, min)")

    EDA_ROOT.mkdir(parents=True, exist_ok=True)
    eda_write_data(np)

    units = {name: Unit(ctx, torch, name) for name in ("flp", "mcp", "dpp", "mdpp")}
    # ---- generation + real runs
    run_flp(ctx, torch, rng, units["flp"], nb, sizes)
    flp_bfs(ctx, torch, rng, units["flp"], [3, 4] + ([5] if thorough else []))
    run_mcp(ctx, torch, rng, units["mcp"], nb, sizes)
    mcp_bfs(ctx, torch, rng, units["mcp"], [3, 4] + ([5] if thorough else []))
    eda_sizes = [2, 3, 3, 4, 4, 10]
    run_eda(ctx, torch, rng, units["dpp"], "dpp", nb // 2, eda_sizes)
    eda_bfs(ctx, torch, rng, units["dpp"], "dpp")
    run_eda(ctx, torch, rng, units["mdpp"], "mdpp", nb // 2, eda_sizes)
    eda_bfs(ctx, torch, rng, units["mdpp"], "mdpp")
    # ---- repeated / interleaved episodes on one instance (their episodes join the four units' cases)
    rep_stats, rep_found, rep_oos = repeat_stream(ctx, torch, rng, units, 32 if thorough else 12, [3, 4, 5, 6, 8])
    ctx.units["repeated_episodes_on_one_instance"] = dict(rep_stats, scenario_kinds=list(SCENARIOS),
                                                          caller_tensors_checked_bit_identical=True)
    if rep_oos:
        ctx.extra["out_of_scope_observations"] = [{
            "observation": "second env.reset(td) on the same TensorDict object starts from the first episode's end state",
            "mechanism": (
                "torchrl's EnvBase.reset(td) returns the caller's TensorDict object updated in place and rl4co's step keeps updating "
                "that same object, so after an episode the caller's CONTAINER holds the end-of-episode state under the instance's own "
                "keys (no tensor is written in place: checked bit for bit).  _reset reads the instance from these keys, hence a second "
                "env.reset(td) on the same object runs on the leftovers of the first episode (MCP: zeroed membership rows / weights, "
                "also as orig_membership / orig_weights of the reward; DPP/MDPP: the first episode's cells masked out and shown as "
                "keep-out; FLP: the first episode's distances as the reset observation)."),
            "why_out_of_scope": ("library contract of torchrl's reset; C08 is about one mask-confined episode on the instance _reset is "
                                 "handed.  The second episode is compared with the model on the container's content at the time of the "
                                 "second reset, and agrees.  Callers must keep their own copy (td.clone())."),
            "model_side": "Properties/C08.v C08_dpp_second_reset_of_the_same_tensordict_object_refuted (why no_same is a hypothesis)",
            "proposed_signature_if_ever_raised": "<env>: second-reset-of-same-tensordict-runs-on-previous-episode-leftovers",
            "per_env": rep_oos}]
        ctx.notes.append("out of scope, observed: env.reset(td) twice on the same TensorDict object starts the second episode from the "
                         "first one's end state for %s (torchrl updates the caller's container in place; rl4co's _reset reads the "
                         "instance from keys its _step overwrites).  Callers must keep their own copy (td.clone()) -- see "
                         "out_of_scope_observations in the evidence" % ", ".join(sorted(o["env"] for o in rep_oos)))
    if "mcp_generator_errors" in ctx.extra:
        ctx.extra["mcp_generator_errors"] = sorted(ctx.extra["mcp_generator_errors"])
        ctx.notes.append("MCPGenerator raised on some small shapes (cutoffs_masks uses self.max_size, membership the sampled "
                         "maximum): outside C08, belongs to C18; those batches fell back to hand-built instances")

    # ---- model evaluated in Coq
    units["flp"].evaluate("flp_case", "check_flp", 40)
    units["mcp"].evaluate("mcp_case", "check_mcp", 40)
    units["dpp"].evaluate("dpp_case", "check_dpp", 40)
    units["mdpp"].evaluate("mdpp_case", "check_mdpp", 40)
    for name in ("flp", "mcp", "dpp", "mdpp"):
        for m in units[name].meta[:1]:
            ctx.sample(replay_obj_of(m))

    # ---- constructor quota (DPP: generator's max_decaps; MDPP: as coded) + batched done model
    qcases, qmeta = [], []
    for kind in ("dpp", "mdpp"):
        for g in (1, 2, 5, 20, 33):
            env = eda_env(kind, 3, g)
            qcases.append("(%s, %s, %s)" % (cbool(kind == "mdpp"), czraw(g), czraw(int(env.max_decaps))))
            qmeta.append((kind, g, int(env.max_decaps)))
    mixed = {"mcp": mixed_quota_experiment(torch, "mcp"), "flp": mixed_quota_experiment(torch, "flp", "B1"),
             "flp_B": mixed_quota_experiment(torch, "flp", "B")}
    dcases = []
    for key in ("mcp", "flp"):
        b = mixed[key]["batched"]
        for cnt, dn in zip(b["counters_before_step"], b["done_per_step"]):
            dcases.append("(%s, %s, %s)" % (zl(cnt), zl(mixed[key]["quotas"]), "[" + "; ".join(bl(r) for r in dn) + "]"))
    # equal-quota batches as well
    from rl4co.envs.graph.mcp.env import MCPEnv
    env = MCPEnv(check_solution=False)
    rows = [mcp_make_row(torch, rng, "pad_end", 4, 5, 2) for _ in range(3)]
    width = max(len(x) for r in rows for x in r["mem"])
    for r in rows:
        r["mem"] = [x + [0.0] * (width - len(x)) for x in r["mem"]]
    td = env.reset(mcp_td(torch, rows))
    td, recs, shapes, raw = drive(torch, env, td, rng, [None] * 3, mcp_obs, 0, 6)
    for cnt, dn in raw:
        dcases.append("(%s, %s, %s)" % (zl(cnt), zl([2, 2, 2]), "[" + "; ".join(bl(r) for r in dn) + "]"))
    try:
        qcodes = coq_eval_shards("cases_C08_quota", HEADER, "bool * Z * Z", "check_eda_quota", qcases, shard=50)
        dcodes = coq_eval_shards("cases_C08_donebxb", HEADER, "list Z * list Z * list (list bool)", "check_done_bxb", dcases, shard=50)
    except RuntimeError as e:
        qcodes, dcodes = [], []
        ctx.broken.append("correspondence C08/batched-done+constructor could not be evaluated: %s" % str(e)[-600:])
    ctx.units["eda_constructor_quota"] = {"cases": len(qcodes), "model_disagreements": sum(1 for c in qcodes if c == 13),
                                          "spec_failures": sum(1 for c in qcodes if c == 6)}
    ctx.units["done_bxb (batched done of FLP/MCP)"] = {"cases": len(dcodes), "disagreements": sum(1 for c in dcodes if c != 0)}
    for c, (kind, g, e) in zip(qcodes, qmeta):
        if c == 13:
            ctx.broken.append("correspondence C08/%s constructor: env.max_decaps=%d for generator max_decaps=%d differs from the model" % (kind, e, g))
            break
    if any(c != 0 for c in dcodes):
        ctx.broken.append("correspondence C08/done_bxb: td['done'] of a batch differs from the modelled [B]>=[B,1] broadcast")
    ctx.evaluations += len(qcodes) + len(dcodes)

    for envname, msg in sorted(FORMAT_PROBLEMS.items()):
        ctx.broken.append("correspondence C08/%s: hand-built instances are not in the generator's format: %s" % (envname, msg))
    ctx.extra["generator_format_seen"] = {key[0]: {kk: list(vv) for kk, vv in v.items()} for key, v in _SCHEMA.items()}

    # ---- decision: concrete failures of the property on the implementation
    n_fail = 0
    n_stream_fail = 0
    for envname, (_, obj) in sorted(rep_found.items()):
        n_fail += 1
        n_stream_fail += 1
        ctx.failure(SIG_LEAK % envname, obj, tag=envname + "-repeat")
    for name in ("flp", "mcp", "dpp", "mdpp"):
        best = {}
        for mech, detail, meta in units[name].spec_fail:
            size = len(meta["actions"]) * 100 + len(json.dumps(meta["row"], default=str))
            if mech not in best or size < best[mech][0]:
                best[mech] = (size, detail, meta)
        for mech, (_, detail, meta) in sorted(best.items()):
            n_fail += 1
            n_stream_fail += 1
            obj = replay_obj_of(meta)
            obj.update({"mechanism": mech, "detail": detail,
                        "what": "the property's specification evaluated on the implementation's observables is false"})
            ctx.failure("%s: %s" % (name, mech.split("-at-step-")[0]), obj, tag=name)
    # known mechanisms, re-found on every run
    for key, envname in (("mcp", "mcp"), ("flp", "flp")):
        rec = mixed[key]
        found = units[envname].forced_past_quota
        if found or mixed_quota_fails(rec) or (envname == "flp" and mixed_quota_fails(mixed["flp_B"])):
            rec = dict(rec, found_in_random_stream=len(found),
                       first_found=replay_obj_of(found[0]) if found else None,
                       minimal_replay_fails=mixed_quota_fails(rec))
            if envname == "flp":
                rec = dict(rec, also_with_generator_shape_B=mixed["flp_B"]["observed"])
            rec["what"] = ("per-row quotas in one batch: the env offers a finished row no inert action (mask stays ~chosen) and rl4co's "
                           "rollout loop steps until td['done'].all(); the row selects past its quota and is rewarded for the larger "
                           "selection.  td['done'] is moreover a BxB matrix ([B] >= [B,1]); in lockstep its entry [r][c] is row r's done, "
                           "so .all() is unaffected by the broadcast.")
            rec["format_note"] = ("quota tensors are per row ([B,1] documented; FLPGenerator emits [B]) but the bundled generators "
                                  "only ever emit one constant per batch")
            n_fail += 1
            ctx.failure(SIG_MIXED % envname, rec, tag=envname + "-mixedquota")
    for c, (kind, g, e) in zip(qcodes, qmeta):
        if c == 6:
            n_fail += 1
            ctx.failure("%s: env-quota-ignores-generator-max_decaps" % kind, mdpp_quota_experiment(2, 3) if kind == "mdpp" else
                        {"kind": "mdpp_quota", "env": kind, "generator_max_decaps": g, "env_max_decaps": e}, tag=kind + "-quota")
            break
    ctx.extra["spec_on_impl_failures"] = n_fail

    # ---- search (only when a proof or the correspondence broke and the stream itself showed no failing input)
    if (ctx.broken or not proofs_ok) and n_stream_fail == 0:
        n_stream_fail += search(ctx, torch, rng, units)
    if ctx.broken and n_stream_fail == 0 and ctx.violations:
        # the only reported failures are the standing mechanisms above, which do not explain the broken
        # obligation: the driver's own "no-failing-input-found" line would be suppressed by them
        ctx.violation({"broken": ctx.broken, "note": "no concrete failing input found by the search"}, tag="broken", no_input=True)


def search(ctx, torch, rng, units):
    """more instances through the python specification: around the first disagreeing case, all admitted orders of
    further tiny instances, then a larger random sample at thorough sizes."""
    firsts = {d["unit"]: d["case"]["instance"] for d in ctx.extra.get("first_disagreements", [])}
    s_units = {name: Unit(ctx, torch, name) for name in ("flp", "mcp", "dpp", "mdpp")}
    big = list(range(3, 21))
    run_flp(ctx, torch, rng, s_units["flp"], 120, big, around=firsts.get("flp"))
    flp_bfs(ctx, torch, rng, s_units["flp"], [3, 4, 5])
    run_mcp(ctx, torch, rng, s_units["mcp"], 120, big, around=firsts.get("mcp"))
    mcp_bfs(ctx, torch, rng, s_units["mcp"], [3, 4, 5])
    run_eda(ctx, torch, rng, s_units["dpp"], "dpp", 60, [2, 3, 4, 10])
    eda_bfs(ctx, torch, rng, s_units["dpp"], "dpp")
    run_eda(ctx, torch, rng, s_units["mdpp"], "mdpp", 60, [2, 3, 4, 10])
    eda_bfs(ctx, torch, rng, s_units["mdpp"], "mdpp")
    found = 0
    rep_stats, rep_found, _ = repeat_stream(ctx, torch, rng, s_units, 48, [3, 4, 5, 6, 8, 10])
    for envname, (_, obj) in sorted(rep_found.items()):
        found += 1
        ctx.failure(SIG_LEAK % envname, dict(obj, found_by="search after a broken obligation", broken=ctx.broken[:3]), tag=envname + "-repeat")
    for name, u in s_units.items():
        best = {}
        for mech, detail, meta in u.spec_fail:
            size = len(meta["actions"]) * 100 + len(json.dumps(meta["row"], default=str))
            if mech not in best or size < best[mech][0]:
                best[mech] = (size, detail, meta)
        for mech, (_, detail, meta) in sorted(best.items()):
            found += 1
            obj = replay_obj_of(meta)
            obj.update({"mechanism": mech, "detail": detail, "found_by": "search after a broken obligation",
                        "broken": ctx.broken[:3]})
            ctx.failure("%s: %s" % (name, mech), obj, tag=name)
    ctx.extra["search"] = {"cases": sum(len(u.meta) for u in s_units.values()), "failing_inputs_found": found}
    return found


def replay(obj):
    """./check --replay <file>: run the recorded case on the current tree, print observed vs expected."""
    import numpy as np
    import torch
    EDA_ROOT.mkdir(parents=True, exist_ok=True)
    eda_write_data(np)
    kind = obj.get("kind")
    print("signature:", obj.get("signature"))
    if kind == "mixed_quota":
        env = obj["env"]
        shape = "B" if obj.get("to_choose_shape") == "B" else "B1"
        rec = mixed_quota_experiment(torch, env, shape)
        print("expected:", rec["expected"])
        print("observed:", rec["observed"])
        print("batched :", json.dumps(rec["batched"]))
        print("solo    :", json.dumps(rec["solo"]))
        print("still fails" if mixed_quota_fails(rec) else "no longer fails")
        return 1 if mixed_quota_fails(rec) else 0
    if kind == "mdpp_quota":
        rec = mdpp_quota_experiment(obj.get("generator_params", {}).get("max_decaps", 2), 3)
        print("expected:", rec["expected"])
        print("observed:", rec["observed"])
        bad = rec["env_max_decaps"] != rec["generator_max_decaps"]
        print("still fails" if bad else "no longer fails")
        return 1 if bad else 0
    if kind == "repeat":
        import random
        from rl4co.envs.graph.flp.env import FLPEnv
        from rl4co.envs.graph.mcp.env import MCPEnv
        envname, scenario, qshape = obj["env"], obj["scenario"], obj.get("to_choose_shape", "B")
        rows = [dict(r) for r in obj["rows"]]
        for r in rows:
            if envname == "flp":
                r["tol"] = Fraction(0) if r.get("exact") else Fraction(1, 10 ** 5) * 100
        if envname == "flp":
            envs = (FLPEnv(check_solution=False), FLPEnv(check_solution=False))
        elif envname == "mcp":
            envs = (MCPEnv(check_solution=False), MCPEnv(check_solution=False))
        else:
            envs = (eda_env(envname, rows[0]["size"], rows[0]["q"]), eda_env(envname, rows[0]["size"], rows[0]["q"]))
            for e in envs:
                e.max_decaps = rows[0]["q"]
        acts = obj["actions"]
        labels = list(acts)
        plans1 = acts[labels[0]] if labels else [None] * len(rows)
        plans2 = acts[labels[1]] if len(labels) > 1 else None
        rng = random.Random(0)
        res = run_scenario(torch, rng, envname, envs, rows, qshape, scenario, plans1, plans2)
        new, diffs = scenario_verdict(torch, rng, envname, envs, rows, qshape, scenario, res)
        print("scenario:", scenario, "| rows:", len(rows), "| recorded actions:", json.dumps(acts))
        print("recorded:", json.dumps({"mutated_instance_tensors": obj.get("mutated_instance_tensors"),
                                       "first_difference": obj.get("first_difference")}, default=str)[:1500])
        for label, _, recs, rews in res["episodes"]:
            print("on the current tree, episode %-32s actions %s reward %s" % (label, [r["acts"] for r in recs], rews))
        if new is not None:
            print("on the current tree: caller tensors written in place:", new["mutated_instance_tensors"])
            print("on the current tree: first difference:", json.dumps(new["first_difference"], default=str)[:1500])
        print("still fails" if new is not None else "no longer fails (episodes on one instance are independent, caller tensors bit-identical)")
        return 1 if new is not None else 0
    if kind == "batch_crash":
        import random
        rows = [dict(r) for r in obj["batch_rows"]]
        plans = obj["crash"]["actions_so_far"]
        if obj["crash"].get("where") == "step":
            plans = [p + [a] for p, a in zip(plans, obj["crash"]["actions"])]
        ctx = Ctx("C08", "replay", 0)
        u = Unit(ctx, torch, obj["env"])
        rng = random.Random(0)
        for r in rows:
            r["tol"] = Fraction(1, 1000)
        if obj["env"] == "flp":
            from rl4co.envs.graph.flp.env import FLPEnv
            flp_run_batch(ctx, torch, rng, FLPEnv(check_solution=False), u, rows, plans, obj["batch"].get("to_choose_shape", "B"), 0)
        elif obj["env"] == "mcp":
            from rl4co.envs.graph.mcp.env import MCPEnv
            mcp_run_batch(ctx, torch, rng, MCPEnv(check_solution=False), u, rows, plans, 0)
        else:
            env = eda_env(obj["env"], rows[0]["size"], rows[0]["q"])
            env.max_decaps = rows[0]["q"]
            eda_run_batch(ctx, torch, rng, env, u, rows, plans, 0)
        print("recorded:", obj["crash"])
        bad = [(m, d) for m, d, _ in u.spec_fail]
        for m, d in bad[:5]:
            print("on the current tree:", m, d)
        print("still fails" if bad else "no longer fails")
        return 1 if bad else 0
    if kind == "episode":
        import random
        row = dict(obj["instance"])
        env_name = obj["env"]
        rng = random.Random(0)
        ctx = Ctx("C08", "replay", 0)
        u = Unit(ctx, torch, env_name)
        acts = obj["actions"]
        if env_name == "flp":
            from rl4co.envs.graph.flp.env import FLPEnv
            row["tol"] = Fraction(0) if row.get("exact") else Fraction(1, 10 ** 5) * 100
            flp_run_batch(ctx, torch, rng, FLPEnv(check_solution=False), u, [row], [acts], obj["batch"].get("to_choose_shape", "B"), 0)
        elif env_name == "mcp":
            from rl4co.envs.graph.mcp.env import MCPEnv
            mcp_run_batch(ctx, torch, rng, MCPEnv(check_solution=False), u, [row], [acts], 0)
        else:
            env = eda_env(env_name, row["size"], row["q"])
            env.max_decaps = row["q"]
            eda_run_batch(ctx, torch, rng, env, u, [row], [acts], 0)
        if u.meta:
            print("actions taken:", u.meta[0]["actions"], "ending:", u.meta[0]["ending"], "reward:", u.meta[0]["reward"])
        print("recorded mechanism:", obj.get("mechanism"), obj.get("detail"))
        for mech, detail, _ in u.spec_fail:
            print("specification false on the current tree:", mech, detail)
        print("still fails" if u.spec_fail else "specification holds on this case now (solo replay)")
        return 1 if u.spec_fail else 0
    print(json.dumps(obj, indent=1)[:3000])
    return 0
