"""C12 -- replicated rollouts (multi-start, sampling, augmentation) keep their instance.

Proof obligations: Properties/C12.v (unbounded theorems about the models in coq/theories/Decoding/
Batchify.v, Nest.v, Layout.v, SelectBest.v, Starts.v).
Correspondence: the real rl4co functions (ops.batchify / unbatchify / unbatchify_and_gather / gather_by_index /
get_num_starts / select_start_nodes / sample_n_random_actions, DecodingStrategy.__init__ / pre_decoder_hook /
_select_best, StateAugmentation, AttentionModelDecoder.forward) are run on tagged tensors, TensorDicts and real
env instances; the models are evaluated inside Coq (Harness/HC12.v) on the same inputs and the integer outputs
compared exactly.  Random branches (torch.multinomial) are compared through their contract: the drawn indices
are decoded from the implementation's output and handed to the model as its oracle.
Spec-on-impl (every run, every case, BEFORE and independently of the model comparison): "row r belongs to instance
r mod B", entry formulas, round trips, best-of-own-rollouts with that rollout's actions/LL, and "forced starts
(select_start_nodes at k = 2..get_num_starts+2, sample_n_random_actions) feasible under the instance's own reset mask
and pairwise distinct per instance whenever k feasible starts exist" are evaluated directly on the implementation's
outputs; a failing input is reported through ctx.failure(signature, replay) with a mechanism-specific signature.  A
model/implementation disagreement without a spec failure stays a broken correspondence; for the random units it first
triggers a re-sampling search on the disagreeing input and its neighbours.
Case files: build/cases_C12_<pid>/cases_C12_<unit>_<k>.v, <= 150 cases and <= 300 KB each, <= 6 coqc at a time
(VERIF_C12_WORKERS); row tags are binary N literals (unary nat tags made one 900 KB shard cost 9 GB / 160 s)."""
import itertools
import os
import re
import shutil
import types
from concurrent.futures import ThreadPoolExecutor

from vt.common import BUILD, RES_RE, Ctx, cz, cnat, cnatlist, cboollist, clist, coqc_file
from vt import decode_guard as dg

HEADER = ("From Coq Require Import List ZArith NArith Bool.\n"
          "From RL4CO Require Import Decoding.Batchify Decoding.Nest Decoding.Starts Harness.HC12.\n"
          "Import ListNotations.\n")

ENV_CTOR = {"tsp": "Etsp", "atsp": "Eatsp", "flp": "Eflp", "mcp": "Emcp", "jssp": "Ejssp", "fjsp": "Efjsp",
            "op": "Eop", "cvrp": "Ecvrp", "cvrptw": "Ecvrptw", "sdvrp": "Esdvrp", "mtsp": "Emtsp",
            "pctsp": "Epctsp", "spctsp": "Espctsp", "pdp": "Epdp", "svrp": "Esvrp", "mtvrp": "Emtvrp"}
NO_DEPOT = ("tsp", "atsp", "flp", "mcp")

SIG_OP_INFEASIBLE = "select_start_nodes/op: forced-start-infeasible-without-resampling"
SIG_OP_DUP = "select_start_nodes/op: batch-global-resampling-with-replacement-duplicates"
SIG_NUM_LOC = "select_start_nodes/generic: modulus-is-generator-num_loc-not-instance-size"


SIG_SAMPLE_INFEASIBLE = "sample_n_random_actions: infeasible action sampled"
SIG_SAMPLE_DUP = "sample_n_random_actions: duplicates-although-k-feasible-starts-exist"
SIG_SAMPLE_DUP_BATCH = "sample_n_random_actions: batch-global-replacement-duplicates-although-k-feasible-starts-exist"
SIG_SAMPLE_DUP_COL0 = "sample_n_random_actions: replacement-test-skips-column-0-duplicates-although-k-feasible-starts-exist"


def sig_mask(env_name):
    return "select_start_nodes/%s: forced-start-ignores-reset-mask" % env_name


# ----------------------------------------------------------------------------------------- Coq literals

def czlist_(xs):
    return "[" + "; ".join(cz(x) for x in xs) + "]"


def copt(s):
    return "None" if s is None else "Some (%s)" % s


def cnest(obj):
    """nested python lists of ints -> nest nat literal"""
    if isinstance(obj, (list, tuple)):
        return "Node [" + "; ".join(cnest(o) for o in obj) + "]"
    return "Leaf %s" % cnat(obj)


def shape_list(shape):
    """what ops.batchify does with its argument: an int is the one-element shape"""
    return [shape] if isinstance(shape, int) else list(shape)


def posfactors(shape):
    return [s for s in shape_list(shape) if s > 0]


def prod(xs):
    p = 1
    for x in xs:
        p *= x
    return p


def all_shapes(maxf, maxnest, extra_nest=()):
    out = list(range(1, maxf + 1))
    for m in range(1, maxnest + 1):
        out += list(itertools.product(range(1, maxf + 1), repeat=m))
    for m, f in extra_nest:
        out += list(itertools.product(range(1, f + 1), repeat=m))
    out += SPECIAL_SHAPES
    return out


SPECIAL_SHAPES = [0, -3, (0,), (-1,), (2, 0), (0, 3), (0, 2, -1), (-2, 2, 3), (3, 0, 2), (1, 1, 1)]


def thorough_shapes():
    """strictly more than the quick set all_shapes(5, 3): every int and every tuple of length <= 2 over 1..7, every
    triple over 1..5 (= quick) plus the larger-step triples over {1,3,5,7} and {2,4,6}, every 4-tuple over 1..3.
    (The full cube 1..7 ^3 at B <= 8 is ~40 MB of literals for no additional mechanism.)"""
    out = list(range(1, 8))
    for m in (1, 2):
        out += list(itertools.product(range(1, 8), repeat=m))
    t3 = set(itertools.product(range(1, 6), repeat=3)) | set(itertools.product((1, 3, 5, 7), repeat=3)) \
        | set(itertools.product((2, 4, 6), repeat=3))
    out += sorted(t3)
    out += list(itertools.product(range(1, 4), repeat=4))
    out += SPECIAL_SHAPES
    return out


def cNlist(xs):
    """row tags travel as binary N literals (a nat literal is unary: cost ~ value)"""
    return "[" + "; ".join("%d%%N" % int(x) for x in xs) + "]"


# ----------------------------------------------------------------------------------------- unit evaluation

SHARD_MAX_CASES = 150            # cases per generated file
SHARD_MAX_BYTES = 300 * 1000     # literal text per generated file (a 900 KB shard of L=2744 rows needed 9 GB / 160 s)
SHARD_TIMEOUT = 600
WORKERS = max(1, min(int(os.environ.get("VERIF_C12_WORKERS", "6")), os.cpu_count() or 4))
_RUN_DIR = [None]


def run_dir():
    """build/cases_C12_<pid>/: one directory per run, so that two C12 runs at the same time (seeded worktrees) cannot
    overwrite each other's case files; removed at the end of a run in which every shard was evaluated"""
    if _RUN_DIR[0] is None:
        d = BUILD / ("cases_C12_%d" % os.getpid())
        d.mkdir(parents=True, exist_ok=True)
        _RUN_DIR[0] = d
    return _RUN_DIR[0]


def make_shards(cases, max_cases=SHARD_MAX_CASES, max_bytes=SHARD_MAX_BYTES):
    """consecutive index ranges with <= max_cases cases and <= max_bytes of literal text (one oversized case = own shard)"""
    shards, cur, size = [], [], 0
    for i, c in enumerate(cases):
        n = len(c) + 4
        if cur and (len(cur) >= max_cases or size + n > max_bytes):
            shards.append(cur)
            cur, size = [], 0
        cur.append(i)
        size += n
    if cur:
        shards.append(cur)
    return shards


def run_shard(name, text, n):
    """-> (codes | None, exit status, coqc output)"""
    path = run_dir() / (name + ".v")
    path.write_text(text)
    rc, out = coqc_file(path, timeout=SHARD_TIMEOUT)
    for q in [path.with_suffix(e) for e in (".vo", ".vok", ".vos", ".glob")] + [path.parent / ("." + path.stem + ".aux")]:
        if q.exists():
            q.unlink()
    codes = None
    if rc == 0:
        m = RES_RE.findall(out)
        if len(m) == 1:
            codes = [int(t) for t in re.findall(r"-?\d+", m[0].replace("%Z", ""))]
            if len(codes) != n:
                codes = None
    return codes, rc, out or ""


def died_without_diagnosis(rc, out):
    """killed / out of memory / stack / timeout: nothing that Coq itself reported as an error of the file"""
    if rc == 0:
        return False
    return rc < 0 or rc in (124, 134, 137, 139) or not out.strip() or "Error" not in out \
        or "Stack overflow" in out or "Out of memory" in out


def eval_unit(ctx, unit, case_type, check_fn, cases, metas, shard=SHARD_MAX_CASES):
    """evaluate the model on the recorded cases inside Coq (<= WORKERS coqc at a time, shards bounded in cases and in
    bytes); a shard that dies without a Coq error message is retried once on its own; a non-zero code or a shard
    that cannot be evaluated breaks the correspondence.  Returns the codes (None where not evaluated)."""
    if not cases:
        return []
    shards = make_shards(cases, max_cases=shard)
    texts = []
    for idxs in shards:
        texts.append(HEADER + "\nDefinition cases : list (%s) := [\n  %s ].\n" % (case_type, ";\n  ".join(cases[i] for i in idxs))
                     + "Set Printing Width 1000000.\nSet Printing Depth 1000000.\n"
                     + "Eval vm_compute in (map (%s) cases).\n" % check_fn)
    names = ["cases_C12_%s_%03d" % (unit, k) for k in range(len(shards))]
    with ThreadPoolExecutor(max_workers=WORKERS) as ex:
        results = list(ex.map(lambda k: run_shard(names[k], texts[k], len(shards[k])), range(len(shards))))
    retried, errors = [], []
    for k, (cs, rc, out) in enumerate(results):
        if cs is not None:
            continue
        again = died_without_diagnosis(rc, out)
        if again:                                   # alone, nothing else of this check running
            retried.append(names[k])
            results[k] = run_shard(names[k], texts[k], len(shards[k]))
        cs2, rc2, out2 = results[k]
        if cs2 is None:
            tail = " | ".join(l for l in (out2 or "").strip().splitlines()[-8:])[-700:]
            errors.append("coqc failed on shard %s (%d cases, %d bytes): exit status %s%s; %s; last lines: %s" % (
                names[k], len(shards[k]), len(texts[k]), rc2,
                " (first attempt: %s)" % rc if again else "",
                "retried once alone, failed again" if again else "not retried (Coq reported an error / unparsable answer)",
                tail if tail else "<no output: killed, out of memory or stack overflow>"))
    codes = [None] * len(cases)
    for idxs, (cs, _, _) in zip(shards, results):
        if cs is not None:
            for i, c in zip(idxs, cs):
                codes[i] = c
    nz = [(i, c) for i, c in enumerate(codes) if c not in (0, None)]
    ctx.units[unit] = {"cases": len(cases), "disagreements": len(nz), "shards": len(shards),
                       "max_shard_bytes": max(len(t) for t in texts), "evaluated": sum(1 for c in codes if c is not None)}
    if retried:
        ctx.units[unit]["shards_retried_alone"] = retried
        ctx.notes.append("C12/%s: shard(s) %s died without a Coq diagnosis and were re-run alone" % (unit, ", ".join(retried)))
    if errors:
        ctx.broken.append("correspondence C12/%s could not be evaluated: %s" % (unit, " || ".join(errors)[-1500:]))
        ctx.extra["unevaluated_shards"] = ctx.extra.get("unevaluated_shards", 0) + len(errors)
    if nz:
        i, c = nz[0]
        ctx.broken.append("correspondence C12/%s: model and implementation differ on %d case(s); first: code %d on %s" % (
            unit, len(nz), c, str(metas[i])[:400]))
        ctx.extra.setdefault("disagreeing_cases", []).extend({"unit": unit, "code": c, "case": metas[i]} for i, c in nz[:5])
    return codes


# ----------------------------------------------------------------------------------------- tagged data

def make_tensor(torch, tags):
    t = torch.tensor(tags, dtype=torch.int64)
    return torch.stack([t, t + 7777], dim=1)           # [L, 2]


def tensor_tags(torch, out):
    """tags of an int tensor [..., 2] produced from make_tensor; None if a row was torn apart"""
    if not bool((out[..., 1] == out[..., 0] + 7777).all()):
        return None
    return out[..., 0]


def make_td(torch, TensorDict, tags):
    t = torch.tensor(tags, dtype=torch.int64)
    L = len(tags)
    return TensorDict({"a": t.clone(),
                       "b": torch.stack([t.float(), t.float() + 0.5], dim=1),
                       "c": TensorDict({"d": torch.stack([2 * t, 2 * t + 1], dim=1).view(L, 1, 2)}, batch_size=[L])},
                      batch_size=[L])


def td_tags(torch, out):
    a = out["a"]
    nb = len(out.batch_size)
    if tuple(a.shape) != tuple(out.batch_size):
        return None
    b, d = out["b"], out["c", "d"]
    if tuple(b.shape[:nb]) != tuple(a.shape) or tuple(d.shape[:nb]) != tuple(a.shape):
        return None
    ok = bool((b[..., 0] == a.float()).all() and (b[..., 1] == a.float() + 0.5).all()
              and (d[..., 0, 0] == 2 * a).all() and (d[..., 0, 1] == 2 * a + 1).all())
    return a if ok else None


def expected_unbatchify_index(np, B, fs):
    """row index held at [b][j1]..[jm]: b + B*(j1 + f1*(j2 + f2*(...)))  (C12_unbatchify_entry_nested)"""
    dims = (B,) + tuple(fs)
    g = np.indices(dims)
    rad = np.zeros(dims, dtype=np.int64)
    for i in reversed(range(len(fs))):
        rad = g[i + 1] + fs[i] * rad
    return g[0] + B * rad


# ----------------------------------------------------------------------------------------- the check

def run(ctx: Ctx, proofs_ok: bool):
    try:
        _run(ctx, proofs_ok)
    except dg.DecodeTimeout as exc:      # a guarded call into rl4co did not return (the inner handlers re-raise it)
        ctx.failure(dg.signature(exc.fn_name), {"kind_": "no-return", "unit": exc.fn_name, "what": str(exc),
                                                "input": getattr(exc, "replay", None)}, tag="no_return")
    finally:
        ctx.extra["decode_guard"] = dg.evidence()


def _run(ctx: Ctx, proofs_ok: bool):
    import logging
    import numpy as np
    import torch
    from tensordict import TensorDict
    from rl4co.utils import ops
    logging.getLogger("rl4co").setLevel(logging.ERROR)      # "num_starts is ignored ..." etc. are expected here
    from rl4co.utils.decoding import Greedy, Sampling, get_decoding_strategy

    rng = ctx.rng
    tier = ctx.tier
    torch.manual_seed(rng.randrange(2 ** 31))
    thorough = tier == "thorough"
    ctx.rule = ("pure helpers: EXHAUSTIVE over batch sizes B<=6 (thorough 8) x all int factors and all tuples of length <=3 "
                "over factors 1..5 (thorough: additionally ints and tuples of length <=2 over 1..7, triples over {1,3,5,7} and "
                "{2,4,6}, 4-tuples over 1..3; up to 2744 rows) plus shapes containing 0 / negative factors, on tagged "
                "int tensors [L,2] and TensorDicts (3 keys, one nested); select_start_nodes on real env instances (tsp atsp cvrp "
                "sdvrp cvrptw pdp op pctsp spctsp mtsp svrp mtvrp(presets) flp mcp), B<=4, k=1..default+2, OP with hand-set "
                "max_length so that 0..n nodes are reachable, generator/instance size mismatches; sample_n_random_actions on B<=4 x N in {3,4,6}: "
                "all-true / random masks, the function's own boundary (n valid columns 1..) and the candidates' boundary per instance "
                "(n == candidates, n == candidates + 1, column 0 admissible / masked) with a 40-draw repeat statistic; hooks, _select_best with ties, "
                "real StateAugmentation+multistart pipeline, real AttentionModel decoder/policy, POMO/SymNCO shared_step, eval.py. "
                "non-trivial = more than one instance or more than one replica; distinct by hash of the inputs")
    ctx.assumptions += [
        "torch.multinomial modelled as an oracle with its documented contract (indices of positive weight; pairwise distinct "
        "per row without replacement); the distribution is not modelled",
        "torch.max(dim) returns the first maximal index (documented); rewards compared as exact integers in the correspondence",
        "forced-start feasibility is relative to the observed reset mask (reset masks themselves belong to C01/C05 models); "
        "the hypothesis 'all candidates allowed at reset' is evaluated on every generated instance",
        "env.step / get_reward / the neural decoder are per-row functions (C04/C14); the decoder enters as an uninterpreted h",
    ]
    fails = []           # (signature, replay) found by the spec-on-impl evaluation
    import time as _time
    timing = ctx.extra.setdefault("timing_s", {})
    _t = [_time.time()]

    def mark(name):
        timing[name] = round(_time.time() - _t[0], 1)
        _t[0] = _time.time()

    def fail(sig, replay, tag=""):
        fails.append((sig, replay, tag))

    # ================================================================================== 1. batchify / unbatchify
    maxB = 8 if thorough else 6
    shapes = thorough_shapes() if thorough else all_shapes(5, 3)
    max_rows = 3000          # guard only: B * prod(factors) of every shape above is <= 8 * 343
    b_cases, b_meta, u_cases, u_meta = [], [], [], []
    for B in range(1, maxB + 1):
        tagsB = rng.sample(range(60), B)
        for shape in shapes:
            fs = posfactors(shape)
            P = prod(fs)
            L = B * P
            if L > max_rows:
                ctx.count("helper_shapes_skipped_too_many_rows")
                continue
            nontriv = B > 1 and P > 1
            for kind in ("tensor", "td"):
                # ---- batchify
                x = make_tensor(torch, tagsB) if kind == "tensor" else make_td(torch, TensorDict, tagsB)
                out = ops.batchify(x, shape)
                tg = tensor_tags(torch, out) if kind == "tensor" else td_tags(torch, out)
                meta = {"fn": "batchify", "kind": kind, "B": B, "shape": shape, "tags": tagsB}
                if tg is None or tg.dim() != 1:
                    fail("batchify: rows torn apart or wrong batch dims", dict(meta, kind_="batchify"))
                    outl = []
                else:
                    outl = tg.tolist()
                    exp = [tagsB[r % B] for r in range(L)]
                    if outl != exp:
                        fail("batchify: row r does not hold instance r mod B", dict(meta, kind_="batchify", observed=outl, expected=exp))
                b_cases.append("(%s, %s, %s)" % (czlist_(shape_list(shape)), cNlist(tagsB), cNlist(outl)))
                b_meta.append(meta)
                ctx.seen(meta, nontrivial=nontriv)
                # ---- unbatchify on L distinct rows (arange for tensors, a permutation for TensorDicts)
                xt = list(range(L)) if kind == "tensor" else rng.sample(range(L), L)
                y = make_tensor(torch, xt) if kind == "tensor" else make_td(torch, TensorDict, xt)
                meta = {"fn": "unbatchify", "kind": kind, "B": B, "shape": shape, "L": L}
                u = ops.unbatchify(y, shape)
                tg = tensor_tags(torch, u) if kind == "tensor" else td_tags(torch, u)
                if tg is None or tuple(tg.shape) != (B,) + tuple(fs):
                    fail("unbatchify: wrong leading dimensions or rows torn apart", dict(meta, kind_="unbatchify", observed=str(None if tg is None else tuple(tg.shape))))
                    obs = "Some ([], [])"
                else:
                    idx = expected_unbatchify_index(np, B, fs)
                    exp = np.asarray(xt, dtype=np.int64)[idx]
                    if not np.array_equal(tg.numpy(), exp):
                        fail("unbatchify: entry [b][j1]..[jm] is not row b + B*(j1 + f1*(j2 + ...))",
                             dict(meta, kind_="unbatchify", x=xt, observed=tg.tolist(), expected=exp.tolist()))
                    obs = "Some (%s, %s)" % (cnatlist(tg.shape), cNlist(tg.reshape(-1).tolist()))
                    # rows r mod B: every entry of block b is one of instance b's rows
                    if not bool((torch.as_tensor(idx) % B == torch.arange(B).view((B,) + (1,) * len(fs))).all()):
                        fail("unbatchify: block b holds a row of another instance", dict(meta, kind_="unbatchify"))
                u_cases.append("(%s, %s, %s)" % (czlist_(shape_list(shape)), cNlist(xt), obs))
                u_meta.append(meta)
                ctx.seen(meta, nontrivial=nontriv)
                # ---- expansion followed by its inverse, on the implementation
                rt = ops.unbatchify(ops.batchify(x, shape), shape)
                tg = tensor_tags(torch, rt) if kind == "tensor" else td_tags(torch, rt)
                expc = torch.tensor(tagsB).view((B,) + (1,) * len(fs)).expand((B,) + tuple(fs))
                if tg is None or tuple(tg.shape) != tuple(expc.shape) or not bool((tg == expc).all()):
                    fail("unbatchify(batchify(x)): not the constant block of the instance's own copies", dict(meta, kind_="roundtrip", tags=tagsB))
                ctx.count("helper_cases_%s" % kind, 3)
            ctx.count("nesting_%d" % len(fs))
    # lengths that are not a multiple: the implementation must raise, the model must be None
    for B, k, extra in [(2, 3, 1), (3, 2, 1), (1, 4, 2), (4, 5, 3), (2, 2, 1)]:
        L = B * k + extra
        for shape in (k, (k,), (2, k)):
            for kind in ("tensor", "td"):
                xt = list(range(L))
                y = make_tensor(torch, xt) if kind == "tensor" else make_td(torch, TensorDict, xt)
                try:
                    u = ops.unbatchify(y, shape)
                    tg = tensor_tags(torch, u) if kind == "tensor" else td_tags(torch, u)
                    obs = "Some (%s, %s)" % (cnatlist(tg.shape[:1 + len(posfactors(shape))]), cNlist(tg.reshape(-1).tolist()))
                except Exception:
                    obs = "None"
                u_cases.append("(%s, %s, %s)" % (czlist_(shape_list(shape)), cNlist(xt), obs))
                u_meta.append({"fn": "unbatchify", "kind": kind, "L": L, "shape": shape, "expect": "raise"})
                ctx.seen(u_meta[-1], nontrivial=True)
                ctx.count("unbatchify_not_a_multiple")
    eval_unit(ctx, "batchify", "batchify_caseN", "check_batchifyN", b_cases, b_meta, shard=140)
    eval_unit(ctx, "unbatchify", "unbatchify_caseN", "check_unbatchifyN", u_cases, u_meta, shard=140)
    ctx.sample({"unit": "unbatchify", "case": u_meta[len(u_meta) // 2]})

    mark("batchify_unbatchify")
    # ================================================================================== 2. gather_by_index / unbatchify_and_gather
    g_cases, g_meta, a_cases, a_meta = [], [], [], []

    def run_gather(fn, x, kind):
        try:
            out = fn(x)
            tg = tensor_tags(torch, out) if kind == "tensor" else td_tags(torch, out)
            return None if tg is None else (list(tg.shape), tg.reshape(-1).tolist()), tg
        except Exception:
            return "raise", None

    for B in range(1, maxB + 1):
        for k in range(1, 6):
            L = B * k
            xt = list(range(L))
            for rep in range(3 if not thorough else 6):
                idx = [rng.randrange(k) for _ in range(B)]
                variants = [("ok", idx)]
                if rep == 0:
                    variants.append(("out_of_range", idx[:-1] + [k]))
                    variants.append(("length_mismatch", idx + [0, 0]))
                    if B > 1:
                        variants.append(("broadcast", [idx[0]]))
                for what, ix in variants:
                    for kind in ("tensor", "td"):
                        x = make_tensor(torch, xt) if kind == "tensor" else make_td(torch, TensorDict, xt)
                        it = torch.tensor(ix, dtype=torch.int64)
                        res, tg = run_gather(lambda v: ops.unbatchify_and_gather(v, it, k), x, kind)
                        meta = {"fn": "unbatchify_and_gather", "kind": kind, "B": B, "k": k, "idx": ix, "what": what}
                        if res is None:
                            fail("unbatchify_and_gather: rows torn apart", dict(meta, kind_="uag"))
                            obs = "Some ([], [])"
                        elif res == "raise":
                            obs = "None"
                        else:
                            obs = "Some (%s, %s)" % (cnatlist(res[0]), cnatlist(res[1]))
                            if what == "ok":
                                exp = [xt[ix[b] * B + b] for b in range(B)]
                                if res[1] != exp:
                                    fail("unbatchify_and_gather: out[b] is not row idx[b]*B + b", dict(meta, kind_="uag", observed=res[1], expected=exp))
                        a_cases.append("(%s, %s, %s, %s)" % (cz(k), cnatlist(xt), cnest(ix), obs))
                        a_meta.append(meta)
                        ctx.seen(meta, nontrivial=B > 1 and k > 1)
                        ctx.count("uag_" + what)
    # POMO's call: gather_by_index(unbatchify(actions, (a, s)), max_idxs[B, a], dim=max_idxs.dim())
    for B in range(1, 5):
        for a in range(1, 4):
            for s in range(1, 5):
                L = B * a * s
                xt = rng.sample(range(L), L)
                ix = [[rng.randrange(s) for _ in range(a)] for _ in range(B)]
                it = torch.tensor(ix, dtype=torch.int64)
                for kind in ("tensor", "td"):
                    x = make_tensor(torch, xt) if kind == "tensor" else make_td(torch, TensorDict, xt)
                    res, tg = run_gather(lambda v: ops.gather_by_index(ops.unbatchify(v, (a, s)), it, dim=it.dim()), x, kind)
                    meta = {"fn": "gather_by_index(unbatchify(x,(a,s)),idx[B,a])", "kind": kind, "B": B, "a": a, "s": s, "idx": ix}
                    if res is None or res == "raise":
                        obs = "None" if res == "raise" else "Some ([], [])"
                    else:
                        obs = "Some (%s, %s)" % (cnatlist(res[0]), cnatlist(res[1]))
                        exp = [xt[b + B * (p + a * ix[b][p])] for b in range(B) for p in range(a)]
                        if res[1] != exp:
                            fail("gather_by_index(unbatchify(x,(a,s))): out[b][p] is not the row of instance b, augmentation p, start idx[b][p]",
                                 dict(meta, kind_="gather2", observed=res[1], expected=exp))
                    g_cases.append("(%s, %s, %s, %s)" % (czlist_([a, s]), cnatlist(xt), cnest(ix), obs))
                    g_meta.append(meta)
                    ctx.seen(meta, nontrivial=B > 1)
                    ctx.count("gather_nested")
    # DecodingStrategy.step's call: gather_by_index(logprobs[B, N], selected[B], dim=1)
    for B in range(1, 5):
        for N in range(1, 5):
            src = [[rng.randrange(4000) for _ in range(N)] for _ in range(B)]
            ix = [rng.randrange(N) for _ in range(B)]
            out = ops.gather_by_index(torch.tensor(src), torch.tensor(ix), dim=1)
            flat_src = [src[b][j] for j in range(N) for b in range(B)]     # unbatchify [N] of this list is src
            obs = "Some (%s, %s)" % (cnatlist(out.shape), cnatlist(out.reshape(-1).tolist()))
            if out.reshape(-1).tolist() != [src[b][ix[b]] for b in range(B)]:
                fail("gather_by_index(dim=1): out[b] is not src[b][idx[b]]", {"kind_": "gather1", "src": src, "idx": ix})
            g_cases.append("(%s, %s, %s, %s)" % (czlist_([N]), cnatlist(flat_src), cnest(ix), obs))
            g_meta.append({"fn": "gather_by_index(dim=1)", "B": B, "N": N})
            ctx.seen(g_meta[-1], nontrivial=B > 1)
    eval_unit(ctx, "unbatchify_and_gather", "uag_case", "check_uag", a_cases, a_meta)
    eval_unit(ctx, "gather_by_index", "gather_case", "check_gather", g_cases, g_meta)

    mark("gather")
    # ================================================================================== 3. _select_best
    class StubEnv:
        def __init__(self, r):
            self.r = r

        def get_reward(self, td, actions):
            return self.r

    s_cases, s_meta = [], []
    for B in range(1, maxB + 1):
        for k in range(1, 6):
            for rep in range(4 if not thorough else 10):
                L = B * k
                span = rng.choice([1, 2, 3, 50])
                rew = [rng.randint(-span, span) for _ in range(L)]
                st = Greedy(multistart=True, num_starts=k, select_best=True) if rep % 2 == 0 else Sampling(multisample=True, num_samples=k, select_best=True)
                st.num_starts = k
                acts = torch.stack([torch.arange(L), torch.arange(L) + 100, torch.arange(L) * 2], 1)
                lp = torch.stack([torch.arange(L) + 1000.0, torch.zeros(L)], 1)
                tdx = TensorDict({"tag": torch.arange(L) + 2000, "m": torch.zeros(L, 3), "i": TensorDict({"j": torch.arange(L).view(L, 1)}, batch_size=[L])}, batch_size=[L])
                meta = {"fn": "_select_best", "B": B, "k": k, "rewards": rew}
                try:
                    l, a, t, _ = dg.call("DecodingStrategy._select_best", st._select_best, lp, acts, tdx, StubEnv(torch.tensor(rew, dtype=torch.float32)))
                    oa, ol, ot = a[:, 0].tolist(), [int(v) for v in l[:, 0].tolist()], t["tag"].tolist()
                    obs = "Some (%s, %s, %s)" % (cnatlist(oa), cnatlist(ol), cnatlist(ot))
                    # the property on the implementation's output
                    ok = list(a.shape) == [B, 3] and list(t.batch_size) == [B]
                    for b in range(B):
                        own = [j * B + b for j in range(k)]
                        best = max(rew[r] for r in own)
                        first = min(r for r in own if rew[r] == best)
                        r = oa[b]
                        ok = ok and r == first and ol[b] == 1000 + r and ot[b] == 2000 + r \
                            and a[b].tolist() == [r, r + 100, 2 * r] and t["i", "j"][b].tolist() == [r]
                    if not ok:
                        fail("_select_best: not the best of the instance's own rollouts with that rollout's actions/logp/state",
                             dict(meta, kind_="select_best", observed={"actions": oa, "logp": ol, "td": ot}))
                except dg.DecodeTimeout:
                    raise
                except Exception as e:      # noqa: BLE001
                    obs = "None"
                    meta["raised"] = repr(e)[:200]
                s_cases.append("(%s, %s, %s)" % (cnat(k), czlist_(rew), obs))
                s_meta.append(meta)
                ctx.seen(meta, nontrivial=B > 1 and k > 1)
                ctx.count("select_best_cases")
                ctx.count("select_best_with_ties", int(any(len(set(rew[j * B + b] for j in range(k))) < k for b in range(B))))
    eval_unit(ctx, "select_best", "select_case", "check_select_best", s_cases, s_meta)
    ctx.sample({"unit": "_select_best", "case": s_meta[-1]})

    mark("select_best")
    # ================================================================================== 4. get_num_starts / select_start_nodes
    from rl4co.envs import (ATSPEnv, CVRPEnv, CVRPTWEnv, FLPEnv, MCPEnv, MTSPEnv, MTVRPEnv, OPEnv, PCTSPEnv, PDPEnv,
                            SDVRPEnv, SPCTSPEnv, SVRPEnv, TSPEnv)
    n_cases, n_meta, st_cases, st_meta = [], [], [], []
    stats = {}

    def candidates(name, m):
        """reset-mask bits of the nodes a start may be (pickups for PDP, non-depot nodes for depot envs)"""
        N = len(m)
        if name in NO_DEPOT:
            return list(range(N))
        if name == "pdp":
            return list(range(1, (N - 1) // 2 + 1))
        return list(range(1, N))

    st_rerun = []

    def record_starts(env, td, k, via_env, label, extra=None, record=True, found_by="stream"):
        """record=False: only re-run the implementation on the input and judge its output by the property (search)"""
        name = env.name
        masks = [[bool(v) for v in row] for row in td["action_mask"].tolist()]
        B, N = len(masks), len(masks[0])
        gen = getattr(env.generator, "num_loc", None)
        state = torch.get_rng_state()
        try:
            sel = (dg.call("env.select_start_nodes", env.select_start_nodes, td, k) if via_env
                   else dg.call("ops.select_start_nodes", ops.select_start_nodes, td, env, k))
            sel = [int(v) for v in sel.tolist()]
        except dg.DecodeTimeout as exc:
            exc.replay = {"env": label, "k": k, "masks": masks}
            raise
        except Exception as e:      # noqa: BLE001
            sel = None
        needs_resample = name == "op" and any(sum(m[1:]) < k for m in masks)
        tbl = []
        if sel is not None and needs_resample and len(sel) == k * B:
            tbl = [[sel[j * B + b] - 1 for j in range(k)] for b in range(B)]
        meta = {"fn": "select_start_nodes", "env": label, "name": name, "gen_num_loc": gen, "N": N, "k": k, "B": B,
                "via_env": via_env, "masks": masks, "observed": sel}
        if extra:
            meta.update(extra)
        if record:
            st_cases.append("(%s, %s, %s, %s, %s, %s, %s, %s)" % (
                ENV_CTOR.get(name, "Eother"), copt(None if gen is None else cnat(gen)), cnat(N), cnat(k),
                clist(cboollist(m) for m in masks), "true" if via_env else "false",
                clist(cnatlist([max(v, 0) for v in row]) for row in tbl), copt(None if sel is None else cnatlist(sel))))
            st_meta.append(meta)
            st_rerun.append((env, td, k, via_env, label, extra))
            ctx.seen({k_: v for k_, v in meta.items() if k_ != "observed"}, nontrivial=B > 1 and k > 1)
            ctx.count("starts_%s" % name)
        if sel is None or len(sel) != k * B:
            if record:
                ctx.count("starts_raised")
            return False
        if needs_resample and record:
            ctx.count("starts_op_resampled")
        found = False
        # ---- the property on the implementation's output, per instance (k = 1 is not multistart: DecodingStrategy
        #      turns multistart off for num_starts <= 1, so no start is ever forced with k = 1)
        for b in range(B if k >= 2 else 0):
            m = masks[b]
            cand = candidates(name, m)
            nfeas = sum(1 for c in cand if m[c])
            own = [sel[j * B + b] for j in range(k)]
            feas = [0 <= a < N and m[a] for a in own]
            key = (label, "premise" if nfeas >= k else "no_premise")
            d = stats.setdefault(key, {"instances": 0, "infeasible": 0, "duplicates": 0}) if record else {"instances": 0, "infeasible": 0, "duplicates": 0}
            d["instances"] += 1
            d["infeasible"] += int(not all(feas))
            d["duplicates"] += int(len(set(own)) < k)
            if nfeas < k:
                continue                      # fewer than k feasible starts exist: the property claims nothing
            replay = {"kind_": "starts", "env": label, "name": name, "generator_num_loc": gen, "N": N, "k": k, "B": B,
                      "via_env": via_env, "instance_row": b, "reset_masks": masks, "selected": sel,
                      "starts_of_instance": own, "feasible_under_reset_mask": feas, "feasible_candidates": nfeas,
                      "rng_state_hex": state.numpy().tobytes().hex() if needs_resample else None, "found_by": found_by}
            if extra:
                replay.update(extra)
            expected_mod = (N if name in NO_DEPOT else N - 1)
            mismatch = name not in ("pdp", "mtvrp", "flp", "mcp") and gen is not None and gen != expected_mod
            found = found or not all(feas) or len(set(own)) < k
            if not all(feas):
                if name == "op" and not needs_resample and not mismatch:
                    fail(SIG_OP_INFEASIBLE, replay, "op")
                elif mismatch:
                    fail(SIG_NUM_LOC, replay, "numloc")
                else:
                    fail(sig_mask(name), replay, name)
            if len(set(own)) < k:
                if name == "op" and needs_resample:
                    fail(SIG_OP_DUP, replay, "opdup")
                elif mismatch:
                    fail(SIG_NUM_LOC, replay, "numloc")
                else:
                    fail("select_start_nodes/%s: duplicate-starts-although-k-feasible-starts-exist" % name, replay, name)
        return found

    def record_num_starts(env, td, label):
        N = td["action_mask"].shape[-1]
        for via_env in (True, False):
            v = env.get_num_starts(td) if via_env else ops.get_num_starts(td, env.name)
            n_cases.append("(%s, %s, %s, %s)" % (ENV_CTOR.get(env.name, "Eother"), "true" if via_env else "false", cnat(N), cz(int(v))))
            n_meta.append({"fn": "get_num_starts", "env": label, "N": N, "via_env": via_env, "observed": int(v)})
            ctx.seen(n_meta[-1], nontrivial=True)
        if "locs" in td.keys() and env.name in ("pdp", "mtvrp"):
            assert td["locs"].shape[-2] == N, "model identifies locs.shape[-2] with the mask width"
        return int(env.get_num_starts(td))

    env_specs = [(TSPEnv, dict(num_loc=5), "tsp"), (ATSPEnv, dict(num_loc=4), "atsp"), (CVRPEnv, dict(num_loc=5), "cvrp"),
                 (SDVRPEnv, dict(num_loc=4), "sdvrp"), (CVRPTWEnv, dict(num_loc=5), "cvrptw"), (PDPEnv, dict(num_loc=6), "pdp"),
                 (OPEnv, dict(num_loc=5), "op"), (PCTSPEnv, dict(num_loc=5), "pctsp"), (SPCTSPEnv, dict(num_loc=4), "spctsp"),
                 (MTSPEnv, dict(num_loc=5), "mtsp"), (SVRPEnv, dict(num_loc=5), "svrp"),
                 (FLPEnv, dict(num_loc=6, to_choose=2), "flp"), (MCPEnv, dict(num_sets=7, num_items=10, min_size=2, max_size=4, n_sets_to_choose=2), "mcp")]
    presets = ["all", "cvrp", "vrpb", "vrptw", "ovrpbltw", "vrpl"] + (["ovrp", "vrpbtw", "ovrpb", "vrpltw"] if thorough else [])
    for v in presets:
        env_specs.append((MTVRPEnv, dict(num_loc=5, variant_preset=v), "mtvrp/" + v))
    if thorough:
        env_specs += [(TSPEnv, dict(num_loc=9), "tsp9"), (CVRPEnv, dict(num_loc=8), "cvrp8"), (PDPEnv, dict(num_loc=10), "pdp10")]
    built = {}
    for cls, kw, label in env_specs:
        try:
            env = cls(generator_params=kw)
        except Exception:
            try:
                env = cls(generator_params={})
            except Exception as e:      # noqa: BLE001
                ctx.notes.append("env %s could not be constructed: %s" % (label, repr(e)[:200]))
                continue
        built[label] = env
        for B in ((1, 2, 3) if not thorough else (1, 2, 3, 4)):
            td = env.reset(batch_size=[B])
            kdef = record_num_starts(env, td, label)
            kmax = min(kdef + 2, 12)
            for k in range(1, kmax + 1):
                record_starts(env, td, k, True, label)
                if k in (1, 2, kdef) and env.name not in ("pdp", "mtvrp"):
                    record_starts(env, td, k, False, label)     # ops.select_start_nodes called directly
    # OP with hand-set max_length: rows with 0 .. n reachable nodes (deterministic branch, resampling branch, raise)
    if "op" in built:
        env = built["op"]
        for B in (1, 2, 3, 4):
            for rep in range(8 if not thorough else 30):
                gen = env.generator(batch_size=[B])
                gen["max_length"] = torch.tensor([rng.choice([0.2, 0.5, 0.8, 1.1, 1.5, 3.0]) for _ in range(B)])
                td = env.reset(gen)
                for k in range(1, 7):
                    record_starts(env, td, k, True, "op/short", extra={"op_max_length": gen["max_length"].tolist(),
                                                                      "op_locs": gen["locs"].tolist(), "op_depot": gen["depot"].tolist()})
    # generator.num_loc differs from the instance's size (an env reset on data of another size)
    from rl4co.envs.routing.cvrp.generator import CVRPGenerator
    from rl4co.envs.routing.tsp.generator import TSPGenerator
    for cls, gcls, pairs in ((TSPEnv, TSPGenerator, [(3, 6), (6, 3), (4, 5)]), (CVRPEnv, CVRPGenerator, [(3, 6), (6, 3)])):
        for g, n in pairs:
            env = cls(generator_params=dict(num_loc=g))
            for B in (1, 2):
                td = env.reset(gcls(num_loc=n)(batch_size=[B]))
                kdef = record_num_starts(env, td, "%s/gen%d_inst%d" % (env.name, g, n))
                for k in sorted({1, 2, min(g, n), kdef}):
                    record_starts(env, td, k, True, "%s/gen%d_inst%d" % (env.name, g, n), extra={"instance_num_loc": n})
    # names for which ops.select_start_nodes raises; a generator without num_loc (0xFFFFFFFF)
    tdm = TensorDict({"action_mask": torch.ones(2, 4, dtype=torch.bool)}, batch_size=[2])
    for nm in ("jssp", "fjsp"):
        record_starts(types.SimpleNamespace(name=nm, generator=types.SimpleNamespace()), tdm, 2, False, "stub/" + nm)
    record_starts(types.SimpleNamespace(name="mcp", generator=types.SimpleNamespace()), tdm, 6, False, "stub/mcp-no-num_loc")
    record_starts(types.SimpleNamespace(name="cvrp", generator=types.SimpleNamespace(num_loc=0)), tdm, 2, False, "stub/num_loc-0")
    eval_unit(ctx, "get_num_starts", "numstarts_case", "check_num_starts", n_cases, n_meta)
    st_codes = eval_unit(ctx, "select_start_nodes", "starts_case", "check_starts", st_cases, st_meta)
    # search: where model and implementation differ, the implementation is run again on that input, on k-1 / k+1 and (random
    # OP branch) repeatedly, and its output judged by the property itself
    tries = 0
    for i in [i for i, c in enumerate(st_codes or []) if c not in (0, None)][:12]:
        env_, td_, k_, via_, label_, extra_ = st_rerun[i]
        for kk in (k_, k_ + 1, k_ - 1):
            if kk < 2:
                continue
            for _ in range(20 if env_.name == "op" else 1):
                tries += 1
                if record_starts(env_, td_, kk, via_, label_, extra_, record=False,
                                 found_by="search after disagreement (code %d)" % st_codes[i]):
                    break
    ctx.count("starts_search_reruns", tries)
    ctx.extra["forced_starts_on_impl"] = {"%s|%s" % k_: v for k_, v in sorted(stats.items())}
    ctx.sample({"unit": "select_start_nodes", "case": {k_: v for k_, v in st_meta[3].items() if k_ != "masks"}})

    # ---- sample_n_random_actions (FJSPEnv.select_start_nodes; eval.py SamplingEval's select_start_nodes_fn)
    # The function DRAWS among all admissible columns of the mask (column 0 included: `ps[~action_mask] = -inf; softmax`) but
    # DECIDES about replacement from columns 1.. only (`action_mask[:, 1:]`).  The property speaks about the feasible starts of
    # the instance = the admissible columns of ITS mask (the candidates of the draw).  The stream holds, for every n, the
    # boundaries of both counts: every instance / one instance with exactly n admissible columns among 1.. (the function's own
    # test), and -- per instance, also in single-row batches -- n == number of candidates and n == number of candidates + 1,
    # with column 0 admissible and not; all-true masks and random masks.
    sm_cases, sm_meta = [], []
    sm_stats = {"instances_with_premise": 0, "instances_without_premise": 0, "duplicates_with_premise": 0,
                "duplicates_with_premise_all_rows_have_k": 0, "duplicates_with_premise_column_0_not_counted": 0, "infeasible": 0}
    repl_stat = {}          # boundary kind -> [draws, draws with a repeated start in a row that has exactly n candidates]

    def sample_spec(masks, n, sel, state_hex, where):
        """the property on the implementation's output: every start of instance b is allowed by ITS mask; the n starts
        of an instance with >= n valid actions are pairwise distinct"""
        B = len(masks)
        nvalid = [sum(1 for v in m[1:] if v) for m in masks]          # what the function's replacement test counts
        ncand = [sum(1 for v in m if v) for m in masks]               # the candidates of the draw = the instance's feasible starts
        found = False
        for b in range(B):
            own = [sel[j * B + b] for j in range(n)]
            feas = [0 <= a < len(masks[b]) and masks[b][a] for a in own]
            replay = {"kind_": "sample_n", "B": B, "k": n, "n": n, "masks": masks, "selected": sel, "instance_row": b,
                      "starts_of_instance": own, "feasible_under_mask": feas, "valid_actions_per_instance": nvalid,
                      "candidates_per_instance": ncand, "rng_state_hex": state_hex, "found_by": where}
            if not all(feas):
                sm_stats["infeasible"] += 1
                fail(SIG_SAMPLE_INFEASIBLE, replay, "sample_n")
                found = True
            if ncand[b] < n:
                sm_stats["instances_without_premise"] += 1
                continue                      # fewer than n feasible starts: the property claims nothing
            sm_stats["instances_with_premise"] += 1
            if len(set(own)) < n:
                sm_stats["duplicates_with_premise"] += 1
                found = True
                if nvalid[b] < n:             # n feasible starts, column 0 among them: the instance's OWN row switches replacement on
                    sm_stats["duplicates_with_premise_column_0_not_counted"] += 1
                    fail(SIG_SAMPLE_DUP_COL0, replay, "sample_n_col0")
                elif min(nvalid) >= n:        # every instance of the batch has n valid actions
                    sm_stats["duplicates_with_premise_all_rows_have_k"] += 1
                    fail(SIG_SAMPLE_DUP, replay, "sample_n")
                else:                         # a batch-mate with fewer valid actions switched replacement on for all rows
                    fail(SIG_SAMPLE_DUP_BATCH, replay, "sample_n_batch")
        return found

    def call_sample(masks, n):
        state = torch.get_rng_state()
        try:
            sel = [int(v) for v in dg.call("ops.sample_n_random_actions", ops.sample_n_random_actions,
                                           TensorDict({"action_mask": torch.tensor(masks)}, batch_size=[len(masks)]), n).tolist()]
        except dg.DecodeTimeout as exc:
            exc.replay = {"masks": masks, "n": n}
            raise
        except Exception:      # noqa: BLE001
            sel = None
        if sel is not None and len(sel) != n * len(masks):
            sel = None
        return sel, state.numpy().tobytes().hex()

    def record_sample(masks, n, what):
        B = len(masks)
        sel, state_hex = call_sample(masks, n)
        tbl = [] if sel is None else [[sel[j * B + b] for j in range(n)] for b in range(B)]
        sm_cases.append("(%s, %s, %s, %s)" % (cnat(n), clist(cboollist(m) for m in masks),
                                           clist(cnatlist(r) for r in tbl), copt(None if sel is None else cnatlist(sel))))
        sm_meta.append({"fn": "sample_n_random_actions", "n": n, "masks": masks, "observed": sel, "what": what})
        ctx.seen({"fn": "sample_n", "n": n, "masks": masks}, nontrivial=B > 1 and n > 1)
        ctx.count("sample_n_cases")
        ctx.count("sample_n_" + what)
        if sel is not None:
            sample_spec(masks, n, sel, state_hex, "stream")

    def mask_with(N, nv, col0):
        """a mask of width N with exactly nv valid actions among columns 1.."""
        on = set(rng.sample(range(1, N), nv))
        return [col0] + [c in on for c in range(1, N)]

    def replacement_statistic(masks, n, what, R=40):
        """The replacement decision is not visible in ONE draw without a repeat.  In a row with exactly n candidates a draw WITH
        replacement repeats a start with probability >= 1 - n!/n^n >= 1/2 (for every weight vector), a draw WITHOUT never does:
        R further draws on the same input, counted per kind; the model's rule (sample_replace) predicts which of the two it is."""
        B = len(masks)
        rows = [b for b in range(B) if sum(masks[b]) == n]
        if not rows or n < 2:
            return
        d = repl_stat.setdefault(what, [0, 0, None])
        for _ in range(R):
            sel, _h = call_sample(masks, n)
            if sel is None:
                return
            d[0] += 1
            d[1] += int(any(len(set(sel[j * B + b] for j in range(n))) < n for b in rows))
        d[2] = {"masks": masks, "n": n}

    for B in (1, 2, 3, 4):
        for N in (3, 4, 6):
            for rep in range(3 if not thorough else 8):
                masks = [[rng.random() < 0.7 for _ in range(N)] for _ in range(B)]
                if rep == 0:
                    masks = [[True] * N for _ in range(B)]
                for n in range(1, 5):
                    record_sample(masks, n, "all_true" if rep == 0 else "random")
            # the boundary: number of valid actions == n, for every instance / for one instance of the batch
            for n in range(2, min(N - 1, 5) + 1):
                for rep in range(2 if not thorough else 5):
                    record_sample([mask_with(N, n, rng.random() < 0.5) for _ in range(B)], n, "boundary_all_rows_nvalid_eq_n")
                    if B > 1 and n < N - 1:
                        rows = [mask_with(N, n, rng.random() < 0.5)] + [mask_with(N, rng.randint(n + 1, N - 1), rng.random() < 0.5)
                                                                        for _ in range(B - 1)]
                        rng.shuffle(rows)
                        record_sample(rows, n, "boundary_one_row_nvalid_eq_n")
            # the boundary of the CANDIDATES (all admissible columns), per instance: n == candidates and n == candidates + 1, with
            # column 0 admissible (then the function's count is one short: it draws with replacement although n candidates exist)
            # and with column 0 masked (the two counts coincide)
            for n in range(2, min(N, 4) + 1):
                for col0 in (True, False):
                    for extra_n, tag in ((0, "n_eq_candidates"), (1, "n_eq_candidates_plus_1")):
                        c = n - extra_n                                   # number of candidates of every instance
                        nv = c - (1 if col0 else 0)                       # of them among columns 1..
                        if nv < 0 or nv > N - 1 or c < 1:
                            continue
                        what = "boundary_%s_col0_%s" % (tag, "admissible" if col0 else "masked")
                        mk = [mask_with(N, nv, col0) for _ in range(B)]
                        record_sample(mk, n, what)
                        if B <= 2 and extra_n == 0:
                            replacement_statistic(mk, n, what)
    sm_codes = eval_unit(ctx, "sample_n_random_actions", "sample_case", "check_sample", sm_cases, sm_meta)
    # search: a disagreement of a RANDOM unit is re-sampled on the disagreeing input and on its neighbours (n-1, n+1,
    # the instance alone) and judged by the property itself
    bad = [i for i, c in enumerate(sm_codes or []) if c not in (0, None)]
    tries = 0
    for i in bad[:12]:
        masks, n = sm_meta[i]["masks"], sm_meta[i]["n"]
        neigh = [(masks, n), (masks, n + 1)] + ([(masks, n - 1)] if n > 2 else []) + [([m], n) for m in masks[:3]]
        for mk, nn in neigh:
            for _ in range(40):
                sel, state_hex = call_sample(mk, nn)
                tries += 1
                if sel is not None and sample_spec(mk, nn, sel, state_hex, "search after disagreement (code %d)" % sm_codes[i]):
                    break
    ctx.count("sample_n_search_draws", tries)
    ctx.extra["sample_n_on_impl"] = sm_stats
    # the replacement rule itself: model (Starts.sample_replace: columns 1.. of SOME row hold fewer than n admissible actions)
    # against the repeat statistic of the implementation on rows with exactly n candidates
    ctx.extra["sample_n_replacement_statistic"] = {k_: {"draws": v[0], "draws_with_a_repeat": v[1]} for k_, v in sorted(repl_stat.items())}
    for what, (draws, reps, example) in sorted(repl_stat.items()):
        if not draws or example is None:
            continue
        model_replace = any(sum(1 for v in m[1:] if v) < example["n"] for m in example["masks"])
        if model_replace and reps == 0:
            ctx.broken.append("correspondence C12/sample_n_random_actions: the model (replacement decided from columns 1.. of the mask) says the "
                              "draws of kind %s are WITH replacement, the implementation never repeated a start in %d draws on rows with exactly "
                              "n candidates (probability < 2^-%d under the model); e.g. %s" % (what, draws, draws, example))
        if not model_replace and reps > 0:
            ctx.broken.append("correspondence C12/sample_n_random_actions: the model says the draws of kind %s are WITHOUT replacement, the "
                              "implementation repeated a start in %d of %d draws; e.g. %s" % (what, reps, draws, example))

    mark("start_nodes")
    # ================================================================================== 5. DecodingStrategy.__init__ + pre_decoder_hook
    h_cases, h_meta = [], []
    hook_envs = [(built.get("tsp"), 2), (built.get("cvrp"), 3)]
    for env, B in hook_envs:
        if env is None:
            continue
        td0 = env.reset(batch_size=[B])
        locs0 = td0["locs"]
        dflt = int(env.get_num_starts(td0))
        for ms, mp, ns, nsamp in itertools.product((False, True), (False, True), (None, 0, 1, 2, 3), (None, 0, 1, 3)):
            meta = {"fn": "pre_decoder_hook", "env": env.name, "B": B, "multistart": ms, "multisample": mp, "num_starts": ns, "num_samples": nsamp}
            sel = []
            try:
                stg = Greedy(multistart=ms, multisample=mp, num_starts=ns, num_samples=nsamp)
                td2, _, n_out = dg.call("DecodingStrategy.pre_decoder_hook", stg.pre_decoder_hook, td0.clone(), env)
                L = td2.batch_size[0]
                inst = []
                for r in range(L):
                    hit = [b for b in range(B) if bool((td2["locs"][r] == locs0[b]).all())]
                    inst.append(hit[0] if len(hit) == 1 else 4999)
                sel = [int(v) for v in stg.actions[0].tolist()] if stg.actions else []
                acts = [copt(cnat(a)) for a in sel] if sel else ["None"] * L
                rows = clist("(%s, %s)" % (cnat(i), a) for i, a in zip(inst, acts))
                obs = "Some (%s, %s)" % (cz(int(n_out)), rows)
                if inst != [r % B for r in range(L)]:
                    fail("pre_decoder_hook: row r of the expanded state is not instance r mod B", dict(meta, kind_="hook", observed=inst))
                if sel and "current_node" in td2.keys() and td2["current_node"].reshape(-1).tolist() != sel:
                    fail("pre_decoder_hook: the forced action of row r was not applied to row r", dict(meta, kind_="hook"))
            except AssertionError:
                obs = "None"
            h_cases.append("(%s, %s, %s, %s, %s, %s, %s, %s)" % (
                "true" if ms else "false", "true" if mp else "false", copt(None if ns is None else cz(ns)),
                copt(None if nsamp is None else cz(nsamp)), cz(dflt), cnat(B), cnatlist(sel), obs))
            h_meta.append(meta)
            ctx.seen(meta, nontrivial=True)
            ctx.count("hook_cases")
    eval_unit(ctx, "pre_decoder_hook", "hook_case", "check_hook", h_cases, h_meta)

    mark("hook")
    # ================================================================================== 6. replica coordinates through the real pipeline
    from rl4co.data.transforms import StateAugmentation, dihedral_8_augmentation
    g_cases2, g_meta2 = [], []
    tsp = built.get("tsp")
    if tsp is not None:
        aug = StateAugmentation(num_augment=8, augment_fn="dihedral8")
        for B in (1, 2, 3):
            for s in (2, 3, 5):
                td0 = tsp.reset(batch_size=[B])
                ref = [dihedral_8_augmentation(td0["locs"][b:b + 1]) for b in range(B)]      # ref[b][p] = transform p of instance b
                tda = aug(td0.clone())
                stg = get_decoding_strategy("multistart_greedy", num_starts=s)
                td2, _, n_out = dg.call("DecodingStrategy.pre_decoder_hook", stg.pre_decoder_hook, tda, tsp)
                L = td2.batch_size[0]
                obs, ok = [], True
                for r in range(L):
                    hit = [(b, p) for b in range(B) for p in range(8) if bool((td2["locs"][r] == ref[b][p]).all())]
                    if len(hit) != 1:
                        ok = False
                        obs.append((4999, [0, 0]))
                        continue
                    (b, p), j = hit[0], int(stg.actions[0][r])
                    obs.append((b, [j, p]))
                meta = {"fn": "StateAugmentation+pre_decoder_hook", "B": B, "n_aug": 8, "n_start": s}
                g_cases2.append("(%s, %s, %s)" % (cnat(B), cnatlist([8, s]), clist("(%s, %s)" % (cnat(b), cnatlist(t)) for b, t in obs)))
                g_meta2.append(meta)
                ctx.seen(meta, nontrivial=True)
                ctx.count("pipeline_stage_cases")
                if not ok:
                    ctx.notes.append("pipeline: a row's augmentation could not be identified uniquely %s" % meta)
                    continue
                # POMO's and SymNCO's regroupings of these rows, on the implementation (C12_pomo_regrouping / C12_symnco_regrouping)
                enc = torch.tensor([b * 10000 + t[1] * 100 + t[0] for b, t in obs])
                up = ops.unbatchify(enc, (8, s))
                us = ops.unbatchify(enc, (s, 8))
                okp = all(int(up[b, p, j]) == b * 10000 + p * 100 + j for b in range(B) for p in range(8) for j in range(s))
                oks = all(int(us[b, j, p]) == b * 10000 + ((j + s * p) % 8) * 100 + (j + s * p) // 8
                          for b in range(B) for j in range(s) for p in range(8))
                if not okp:
                    fail("pomo: unbatchify(out,(n_aug,n_start))[b][p][j] is not instance b / augmentation p / start j", dict(meta, kind_="pomo"))
                if not oks:
                    fail("symnco: unbatchify(out,(n_start,n_aug)) does not keep the instance / the stated replica permutation", dict(meta, kind_="symnco"))
    eval_unit(ctx, "replica_coordinates", "stages_case", "check_stages", g_cases2, g_meta2)

    mark("pipeline")
    # ================================================================================== 7. AM decoder regrouping, policy, POMO, eval.py
    r_cases, r_meta = [], []
    from einops import rearrange
    for B in range(1, 5):
        for s in range(1, 5):
            L = B * s
            xt = rng.sample(range(L), L)
            out = rearrange(ops.unbatchify(torch.tensor(xt).view(L, 1), s), "b s l -> (s b) l", s=s).reshape(-1).tolist()
            r_cases.append("(%s, %s, %s)" % (cnat(s), cnatlist(xt), cnatlist(out)))
            r_meta.append({"fn": "rearrange(unbatchify(x,s),'b s l -> (s b) l')", "B": B, "s": s})
            ctx.seen(r_meta[-1], nontrivial=B > 1 and s > 1)
            if out != xt:
                fail("am-decoder: unbatchify followed by 'b s l -> (s b) l' is not the identity on rows", {"kind_": "regroup", "B": B, "s": s, "x": xt, "observed": out})
    eval_unit(ctx, "decoder_regroup", "regroup_case", "check_regroup", r_cases, r_meta)

    try:
        policy_level(ctx, built, fail, torch, ops, get_decoding_strategy, thorough)
    except dg.DecodeTimeout:
        raise
    except Exception as e:      # noqa: BLE001
        import traceback
        ctx.broken.append("C12 policy-level spec-on-impl crashed: %s" % traceback.format_exc()[-800:])

    mark("policy_level")
    policy_rows(ctx, fail, torch, thorough)
    mark("policy_rows")
    # ================================================================================== decision
    ctx.extra["spec_on_impl_failures"] = len(fails)
    by_sig = {}
    for sig, rep, tag in fails:
        size = (rep.get("B", 0), rep.get("k", 0), len(str(rep)))
        if sig not in by_sig or size < by_sig[sig][0]:
            by_sig[sig] = (size, rep, tag)
    ctx.extra["failure_signatures"] = {s: sum(1 for f in fails if f[0] == s) for s in by_sig}
    for sig, (_, rep, tag) in sorted(by_sig.items()):
        rep = dict(rep)
        rep["what"] = WHAT.get(sig, sig)
        ctx.failure(sig, rep, tag=tag)
    if thorough:
        run_coqchk(ctx)
    # generated case files: kept when a shard could not be evaluated (or VERIF_C12_KEEP_CASES=1), removed otherwise
    if _RUN_DIR[0] is not None:
        if ctx.extra.get("unevaluated_shards") or os.environ.get("VERIF_C12_KEEP_CASES"):
            ctx.notes.append("case files kept in %s" % _RUN_DIR[0])
        else:
            shutil.rmtree(_RUN_DIR[0], ignore_errors=True)
        _RUN_DIR[0] = None


WHAT = {
    SIG_OP_INFEASIBLE: "OP: resampling only happens when FEWER than k nodes are feasible; with k < n the first k nodes are forced "
                       "even if some of them are out of reach at reset although k feasible starts exist (Coq: C12_op_forced_start_infeasible_refuted)",
    SIG_OP_DUP: "OP: one batch row with fewer than k feasible nodes makes ALL rows resample with replacement, so an instance "
                "with >= k feasible starts gets duplicate starts (Coq: C12_op_resample_duplicates_refuted)",
    SIG_NUM_LOC: "ops.select_start_nodes reduces modulo env.generator.num_loc instead of the instance's number of nodes: an env "
                 "reset on a larger instance repeats starts although get_num_starts(td) <= number of feasible starts "
                 "(Coq: C12_generic_num_loc_mismatch_refuted, C12_tsp_num_loc_mismatch_refuted)",
    SIG_SAMPLE_DUP: "sample_n_random_actions drew the n starts of an instance WITH replacement (duplicates) although every instance of the "
                    "batch has at least n valid actions (columns 1.. of its mask); Coq: C12_sample_n_distinct needs sample_replace = false",
    SIG_SAMPLE_DUP_BATCH: "sample_n_random_actions decides 'with replacement' from the MINIMUM number of valid actions over the batch: an "
                          "instance with >= n valid actions gets duplicate starts because a batch-mate has fewer",
    SIG_SAMPLE_INFEASIBLE: "sample_n_random_actions returned an action that the instance's own mask forbids",
    SIG_SAMPLE_DUP_COL0: "sample_n_random_actions draws among ALL admissible columns of the mask (column 0 included) but decides about "
                         "replacement from columns 1.. only: an instance with exactly n admissible actions, column 0 among them, is drawn WITH "
                         "replacement and gets duplicate starts although n feasible starts exist -- also in a single-row batch (mask ones(1,3), "
                         "n=3); reachable via SamplingEval on TSP-like reset states (Coq: C12_sample_n_col0_duplicates_refuted)",
    sig_mask("svrp"): "SVRP masks at reset the nodes the first technician cannot serve; the generic start rule forces nodes "
                      "1..k regardless (Coq: C12_generic_ignores_reset_mask_refuted)",
}


# ----------------------------------------------------------------------------------------- policy level

def policy_level(ctx, built, fail, torch, ops, get_decoding_strategy, thorough):
    """real AttentionModel decoder / policy, POMO.shared_step, eval.py: row r belongs to instance r mod B"""
    from rl4co.models.zoo.am import AttentionModelPolicy
    from rl4co.models.zoo.pomo import POMO
    from rl4co.models.zoo.symnco import SymNCO, SymNCOPolicy
    from rl4co.tasks.eval import AugmentationEval, GreedyMultiStartAugmentEval, GreedyMultiStartEval

    def close(a, b, tol=2e-4):
        return abs(float(a) - float(b)) <= tol * (1 + abs(float(b)))

    n_checked = 0
    for name in ("tsp", "cvrp"):
        env = built.get(name)
        if env is None:
            continue
        pol = AttentionModelPolicy(env_name=name, embed_dim=32, num_encoder_layers=1, num_heads=2, feedforward_hidden=32)
        pol.eval()
        for B, s in ((1, 2), (2, 3), (3, 2), (3, 5)):
            td0 = env.reset(batch_size=[B])
            meta = {"env": name, "B": B, "num_starts": s}
            with torch.no_grad():
                # --- the decoder: mask and logits after regrouping belong to the row's own state and instance
                hidden, _ = pol.encoder(td0)
                stg = get_decoding_strategy("multistart_greedy", num_starts=s)
                td2, _, ns = dg.call("DecodingStrategy.pre_decoder_hook", stg.pre_decoder_hook, td0.clone(), env)
                td2, _, cached = pol.decoder.pre_decoder_hook(td2, env, hidden, ns)
                logits, mask = pol.decoder(td2, cached, ns)
                ref_logits, ref_mask = pol.decoder(td2, cached.batchify(num_starts=ns), 0)      # every row on its own
                if not bool((mask == td2["action_mask"]).all()) or not bool((mask == ref_mask).all()):
                    fail("am-decoder: regrouped mask row is not the row's own action mask", dict(meta, kind_="decoder"))
                fin = torch.isfinite(ref_logits)
                if not bool((torch.isfinite(logits) == fin).all()) or float((logits[fin] - ref_logits[fin]).abs().max()) > 1e-4:
                    fail("am-decoder: regrouped logits row differs from the row decoded on its own", dict(meta, kind_="decoder"))
                # --- the policy: every output row r is a rollout of instance r mod B
                for dt, kw in (("multistart_greedy", dict(num_starts=s)), ("sampling", dict(num_samples=s, multisample=True)),
                               ("multistart_sampling", dict(num_starts=s))):
                    out = dg.call("ConstructivePolicy.forward", pol, td0.clone(), env, phase="test", decode_type=dt, **kw)
                    acts, rew = out["actions"], out["reward"]
                    if acts.shape[0] != s * B:
                        fail("policy: wrong number of output rows", dict(meta, kind_="policy", decode_type=dt))
                        continue
                    for r in range(s * B):
                        own = env.get_reward(td0[r % B: r % B + 1], acts[r: r + 1])
                        if not close(rew[r], own[0]):
                            fail("policy(%s): reward of output row r is not the reward of its actions on instance r mod B" % dt,
                                 dict(meta, kind_="policy", row=r, observed=float(rew[r]), expected=float(own[0])))
                    if "multistart" in dt:
                        exp = env.select_start_nodes(td0, s).tolist()
                        if acts[:, 0].tolist() != exp:
                            fail("policy(%s): first action of row r is not the start selected for row r" % dt, dict(meta, kind_="policy"))
                    n_checked += s * B
                # --- select_best inside the policy
                out_all = dg.call("ConstructivePolicy.forward", pol, td0.clone(), env, phase="test", decode_type="multistart_greedy", num_starts=s)
                out_best = dg.call("ConstructivePolicy.forward", pol, td0.clone(), env, phase="test", decode_type="multistart_greedy", num_starts=s,
                                   select_best=True)
                for b in range(B):
                    own = [float(out_all["reward"][j * B + b]) for j in range(s)]
                    j = own.index(max(own))
                    if not close(out_best["reward"][b], max(own)) or out_best["actions"][b].tolist() != out_all["actions"][j * B + b].tolist():
                        fail("policy(select_best): not the best of the instance's own rollouts", dict(meta, kind_="policy_best", instance=b))
                # --- eval.py
                for ev in (GreedyMultiStartEval(env, num_starts=s, progress=False),
                           AugmentationEval(env, num_augment=8, force_dihedral_8=True, progress=False),
                           GreedyMultiStartAugmentEval(env, num_starts=s, num_augment=8, force_dihedral_8=True, progress=False)):
                    a_, r_ = dg.call("eval.%s._inner" % type(ev).__name__, ev._inner, pol, td0.clone())
                    for b in range(B):
                        own = env.get_reward(td0[b: b + 1], a_[b: b + 1])
                        if not close(r_[b], own[0]):
                            fail("eval.%s: returned reward is not the reward of the returned actions on the instance" % type(ev).__name__,
                                 dict(meta, kind_="eval", instance=b, observed=float(r_[b]), expected=float(own[0])))
                    if isinstance(ev, GreedyMultiStartEval):
                        for b in range(B):
                            best = max(float(out_all["reward"][j * B + b]) for j in range(s))
                            if not close(r_[b], best):
                                fail("eval.GreedyMultiStartEval: not the maximum over the instance's own rollouts", dict(meta, kind_="eval", instance=b))
                    n_checked += B
    # --- POMO.shared_step / SymNCO.shared_step (test phase), metrics dictionary captured
    env = built.get("tsp")
    if env is not None:
        pol = AttentionModelPolicy(env_name="tsp", embed_dim=32, num_encoder_layers=1, num_heads=2, feedforward_hidden=32)
        for B, a, s in ((2, 8, 3), (3, 8, 2)):
            m = POMO(env, policy=pol, num_augment=a, num_starts=s, augment_fn="dihedral8")
            cap = {}
            m.log_metrics = lambda out, phase, dataloader_idx=None: cap.setdefault("out", out) and {}
            raw = {}
            h = m.policy.register_forward_hook(lambda mod, inp, out: raw.update(actions=out["actions"].clone(), reward=out["reward"].clone()))
            batch = env.generator(batch_size=[B])
            with torch.no_grad():
                dg.call("POMO.shared_step", m.shared_step, batch, 0, phase="test")
            h.remove()
            out = cap["out"]
            td0 = env.reset(batch)
            meta = {"model": "POMO", "B": B, "n_aug": a, "n_start": s}
            for b in range(B):
                own_rows = [r for r in range(a * s * B) if r % B == b]
                best = max(float(raw["reward"][r]) for r in own_rows)
                if not close(out["max_aug_reward"][b], best):
                    fail("pomo.shared_step: max_aug_reward is not the maximum over the instance's own rollouts", dict(meta, kind_="pomo_step", instance=b))
                if not close(env.get_reward(td0[b: b + 1], out["best_aug_actions"][b: b + 1])[0], best):
                    fail("pomo.shared_step: best_aug_actions are not the actions of the instance's best rollout", dict(meta, kind_="pomo_step", instance=b))
                for p in range(a):
                    grp = [float(raw["reward"][j * a * B + p * B + b]) for j in range(s)]
                    if not close(out["max_reward"][b, p], max(grp)):
                        fail("pomo.shared_step: max_reward[b][p] is not the maximum over the starts of instance b, augmentation p", dict(meta, kind_="pomo_step", instance=b))
                    if out["best_multistart_actions"][b, p].tolist() != raw["actions"][grp.index(max(grp)) * a * B + p * B + b].tolist():
                        fail("pomo.shared_step: best_multistart_actions[b][p] are not that rollout's actions", dict(meta, kind_="pomo_step", instance=b))
            for r in range(a * s * B):
                if not close(raw["reward"][r], env.get_reward(td0[r % B: r % B + 1], raw["actions"][r: r + 1])[0]):
                    fail("pomo.shared_step: reward row r is not a tour of instance r mod B", dict(meta, kind_="pomo_step", row=r))
            n_checked += a * s * B
        spol = SymNCOPolicy(env_name="tsp", embed_dim=32, num_encoder_layers=1, num_heads=2, feedforward_hidden=32)
        B, a, s = 2, 4, 3
        sm = SymNCO(env, policy=spol, num_augment=a, num_starts=s)
        cap = {}
        sm.log_metrics = lambda out, phase, dataloader_idx=None: cap.setdefault("out", out) and {}
        raw = {}
        h = sm.policy.register_forward_hook(lambda mod, inp, out: raw.update(reward=out["reward"].clone()))
        batch = env.generator(batch_size=[B])
        with torch.no_grad():
            dg.call("SymNCO.shared_step", sm.shared_step, batch, 0, phase="test")
        h.remove()
        out = cap["out"]
        for b in range(B):
            best = max(float(raw["reward"][r]) for r in range(a * s * B) if r % B == b)
            if not close(out["max_aug_reward"][b], best):
                fail("symnco.shared_step: max_aug_reward is not the maximum over the instance's own rollouts", {"kind_": "symnco_step", "instance": b})
        # observation (not a user-visible output: shared_step returns only loss and scalar metrics)
        ctx.notes.append("observation: SymNCO.shared_step(val/test) builds best_multistart_actions of shape %s and best_aug_actions of shape %s "
                         "for n_start=%d, n_aug=%d, T=%d (gather_by_index(actions[B,S,A,T], max_idxs[B,A]) with the default dim=1 gathers "
                         "whole [A,T] blocks); these entries are not logged or returned" % (
                             tuple(out["best_multistart_actions"].shape), tuple(out["best_aug_actions"].shape), s, a, out["actions"].shape[-1]))
    ctx.count("policy_level_rows_checked", n_checked)
    ctx.units["policy_level_spec_on_impl"] = {"rows_checked": n_checked}


# ----------------------------------------------------------------------------------------- k-fold pass vs. the instance alone

ROW_ENV_KW = {"tsp": dict(num_loc=6), "cvrp": dict(num_loc=6), "sdvrp": dict(num_loc=6),
              "fjsp": dict(num_jobs=3, num_machines=2, min_ops_per_job=2, max_ops_per_job=3),
              "jssp": dict(num_jobs=3, num_machines=2)}
ROW_STATIC_ENVS = ("tsp", "cvrp")
ROW_REQUIRED_ENVS = ("tsp", "cvrp", "sdvrp")


def sig_rows(env_name):
    return "am-decoder/%s: row j*B+b of a k-fold rollout is not decoded on instance b (cache layout)" % env_name


def dynamic_embedding_envs():
    """names of the env registry whose decoder embedding (rl4co.models.nn.env_embeddings.dynamic) is not the static one:
    their cache cannot be shared between the replicas and is expanded by the decoder itself"""
    from rl4co.envs import ENV_REGISTRY
    from rl4co.models.nn.env_embeddings.dynamic import StaticEmbedding, env_dynamic_embedding
    out = []
    for name in sorted(ENV_REGISTRY):
        try:
            emb = env_dynamic_embedding(name, {"embed_dim": 8})
        except Exception:      # noqa: BLE001
            continue
        if not isinstance(emb, StaticEmbedding):
            out.append(name)
    return out


def rows_vs_single(torch, name, B, k, dt, seed, tol=1e-4):
    """The real policy (random weights of generator seed `seed`, eval mode) decodes a batch of B instances k-fold
    (dt = multistart_greedy: num_starts=k; dt = sampling: num_samples=k).  Row j*B+b of the outputs must be a rollout of
    instance b: the SAME policy evaluates the row's actions on instance b alone (k plain copies of it, decode_type
    evaluate, no replication machinery) and must reproduce the row's per-step log-probabilities (from step 1 on when
    step 0 was a forced start) and its reward; greedy actions must be those of the k-fold pass on instance b alone.
    -> ("ok", rows) | ("raises", reason: the k-fold pass itself raised) | ("tie", info) | ("fail", replay)"""
    from rl4co.envs import get_env
    torch.manual_seed(seed)
    env = get_env(name, generator_params=dict(ROW_ENV_KW.get(name, {})))
    if name in ("jssp", "fjsp"):
        from rl4co.models.zoo.l2d.policy import L2DAttnPolicy
        pol = L2DAttnPolicy(env_name=name, embed_dim=32, num_heads=2, num_encoder_layers=1)
    else:
        from rl4co.models.zoo.am import AttentionModelPolicy
        pol = AttentionModelPolicy(env_name=name, embed_dim=32, num_encoder_layers=1, num_heads=2, feedforward_hidden=32)
    pol.eval()
    td0 = env.reset(batch_size=[B])
    multistart = dt.startswith("multistart")
    kw = dict(num_starts=k) if multistart else dict(num_samples=k, multisample=True)
    with torch.no_grad():
        try:
            out = dg.call("ConstructivePolicy.forward", pol, td0.clone(), env, phase="test", decode_type=dt, return_actions=True,
                          return_sum_log_likelihood=False, **kw)
        except dg.DecodeTimeout:
            raise
        except Exception as e:      # noqa: BLE001   no outputs, nothing to attribute to an instance (a raise is loud)
            return "raises", repr(e)[:160]
        acts, ll, rew = out["actions"], out["log_likelihood"], out["reward"]
        base = {"kind_": "policy_row", "env": name, "generator_params": ROW_ENV_KW.get(name, {}), "policy": type(pol).__name__,
                "B": B, "k": k, "decode_type": dt, "seed": seed}
        if acts.shape[0] != k * B or ll.shape[0] != k * B or rew.shape[0] != k * B:
            return "fail", dict(base, reason="wrong number of output rows", observed=list(acts.shape))
        first = 1 if multistart else 0
        T = acts.shape[1]
        for b in range(B):
            rows = [j * B + b for j in range(k)]
            alone = td0[torch.tensor([b] * k)]
            ref = dg.call("ConstructivePolicy.forward", pol, alone.clone(), env, phase="test", actions=acts[rows], return_actions=True,
                          return_sum_log_likelihood=False)
            rl, rr = ref["log_likelihood"], ref["reward"]
            Tr = min(rl.shape[1], T)
            for j, r in enumerate(rows):
                dev = (ll[r, first:Tr] - rl[j, first:Tr]).abs()
                rest = ll[r, Tr:].abs()
                worst = float(dev.max()) if dev.numel() else 0.0
                bad_ll = worst > tol or (rest.numel() and float(rest.max()) > tol)
                bad_rew = abs(float(rew[r]) - float(rr[j])) > tol * (1 + abs(float(rr[j])))
                if bad_ll or bad_rew:
                    step = first + int(dev.argmax()) if dev.numel() else -1
                    return "fail", dict(base, reason="log-probabilities / reward of the row differ from the same actions evaluated on instance b alone",
                                        row=r, j=j, instance=b, actions_of_row=acts[r].tolist(), first_compared_step=first,
                                        worst_step=step, worst_abs_deviation=worst,
                                        observed_logp=[round(float(v), 6) for v in ll[r]], expected_logp=[round(float(v), 6) for v in rl[j]],
                                        observed_reward=float(rew[r]), expected_reward=float(rr[j]))
            if dt == "multistart_greedy":
                one = dg.call("ConstructivePolicy.forward", pol, td0[b:b + 1].clone(), env, phase="test", decode_type=dt, return_actions=True,
                              num_starts=k)["actions"]
                T1 = min(one.shape[1], T)
                mine = acts[rows]
                if one.shape[0] == k and bool((one[:, 0] == mine[:, 0]).all()) and not (
                        bool((one[:, :T1] == mine[:, :T1]).all()) and bool((mine[:, T1:] == mine[:, T1 - 1:T1]).all() or (mine[:, T1:] == 0).all())):
                    # the per-step log-probabilities above agree, so this can only be an arg-max tie in float32
                    return "tie", dict(base, instance=b, k_fold=mine.tolist(), alone=one.tolist())
    return "ok", k * B


def policy_rows(ctx, fail, torch, thorough):
    dyn = dynamic_embedding_envs()
    ctx.extra["dynamic_embedding_envs"] = dyn
    names = dyn + [n for n in ROW_STATIC_ENVS if n not in dyn]
    n_rows, n_cfg, skipped, failed_envs = 0, 0, {}, set()
    for name in names:
        for B in (2, 3) + ((4,) if thorough else ()):
            for k in (2, 3, 4) + ((6,) if thorough else ()):
                for dt in ("multistart_greedy", "sampling"):
                    seed = ctx.rng.randrange(2 ** 31)
                    meta = {"fn": "k-fold policy pass vs instance alone", "env": name, "B": B, "k": k, "decode_type": dt, "seed": seed}
                    try:
                        verdict, info = rows_vs_single(torch, name, B, k, dt, seed)
                    except dg.DecodeTimeout:
                        raise
                    except Exception as e:      # noqa: BLE001
                        import traceback
                        verdict, info = "error", traceback.format_exc()[-500:]
                    ctx.seen(meta, nontrivial=True)
                    ctx.count("policy_rows_%s" % verdict)
                    if verdict == "ok":
                        n_rows += info
                        n_cfg += 1
                        ctx.count("policy_rows_cfg_%s" % name)
                    elif verdict == "fail":
                        failed_envs.add(name)
                        fail(sig_rows(name), info, "rows_" + name)
                    elif verdict == "tie":
                        ctx.notes.append("k-fold vs alone: greedy actions differ although every per-step log-probability agrees (float tie): %s" % str(info)[:300])
                    elif verdict == "raises":
                        skipped["%s/%s" % (name, dt)] = info
                    else:
                        if name in ROW_ENV_KW:
                            ctx.broken.append("C12 k-fold-vs-alone check crashed on %s: %s" % (meta, info))
                        else:
                            skipped["%s/%s" % (name, dt)] = "not covered (no policy set-up for this env): " + info[-200:]
    # an env whose k-fold pass never produced outputs: a loss of coverage for the AM routing envs (must work), a recorded
    # limitation for the others (today jssp/fjsp: L2DAttnActor.pre_decoder_hook hands the cache over as a 1-tuple and
    # AttentionModelDecoder.forward calls cached.batchify on it -> AttributeError for every num_starts > 1)
    for name in names:
        if not ctx.dist.get("policy_rows_cfg_%s" % name) and name not in failed_envs:
            why = "; ".join("%s: %s" % kv for kv in skipped.items() if kv[0].startswith(name + "/"))[:400]
            if name in ROW_REQUIRED_ENVS:
                ctx.broken.append("C12 k-fold-vs-alone: no k-fold pass of env %s could be compared (%s)" % (name, why))
            else:
                ctx.notes.append("dynamic-embedding env %s: every k-fold pass raises, nothing to compare (%s)" % (name, why))
    ctx.units["policy_rows_vs_instance_alone"] = {"envs": names, "configs_ok": n_cfg, "rows_checked": n_rows, "skipped": skipped}
    ctx.count("policy_rows_checked", n_rows)



def run_coqchk(ctx):
    from vt.common import COQ, sh
    rc, out = sh("coqchk -silent -o -Q theories RL4CO RL4CO.Properties.C12", cwd=COQ, timeout=900)
    ctx.extra["coqchk"] = {"rc": rc, "output_tail": out[-1500:]}
    if rc != 0:
        ctx.broken.append("coqchk rejected the C12 development: %s" % out[-400:])


# ----------------------------------------------------------------------------------------- replay

def replay(obj):
    """./check --replay <file>: re-run a recorded forced-start case on the current tree"""
    import torch
    from tensordict import TensorDict
    from rl4co.utils import ops
    print("signature:", obj.get("signature"))
    print("what     :", obj.get("what"))
    if obj.get("kind_") == "sample_n":
        masks = torch.tensor(obj["masks"])
        B, n, b = masks.shape[0], obj["n"], obj["instance_row"]
        td = TensorDict({"action_mask": masks}, batch_size=[B])
        nvalid = [int(v) for v in masks[:, 1:].sum(1).tolist()]
        ncand = [int(v) for v in masks.sum(1).tolist()]

        def judge(sel):
            own = [sel[j * B + b] for j in range(n)]
            feas = [bool(masks[b, a]) for a in own]
            return own, feas, (not all(feas)) or (ncand[b] >= n and len(set(own)) < n)
        print("masks: %s   feasible starts (admissible columns) per instance: %s   of them among columns 1..: %s   n = %d   instance %d" % (
            obj["masks"], ncand, nvalid, n, b))
        print("recorded starts of the instance: %s feasible: %s" % (obj["starts_of_instance"], obj["feasible_under_mask"]))
        if obj.get("rng_state_hex"):
            torch.set_rng_state(torch.frombuffer(bytearray(bytes.fromhex(obj["rng_state_hex"])), dtype=torch.uint8))
        own, feas, bad = judge(ops.sample_n_random_actions(td, n).tolist())
        print("observed now with the recorded generator state: %s feasible: %s distinct: %s" % (own, feas, len(set(own)) == n))
        torch.manual_seed(0)
        nbad = sum(1 for _ in range(200) if judge(ops.sample_n_random_actions(td, n).tolist())[2])
        print("200 fresh draws: the property fails on %d of them" % nbad)
        bad = bad or nbad > 0
        print("property %s on the current tree" % ("FAILS" if bad else "holds"))
        return 1 if bad else 0
    if obj.get("kind_") == "policy_row":
        verdict, info = rows_vs_single(torch, obj["env"], obj["B"], obj["k"], obj["decode_type"], obj["seed"])
        print("%s  B=%d k=%d %s seed=%d policy=%s" % (obj["env"], obj["B"], obj["k"], obj["decode_type"], obj["seed"], obj.get("policy")))
        print("recorded: row %s (j=%s, instance %s): worst deviation %s at step %s" % (
            obj.get("row"), obj.get("j"), obj.get("instance"), obj.get("worst_abs_deviation"), obj.get("worst_step")))
        if verdict == "fail":
            print("observed now: row %s (instance %s): %s; worst deviation %s at step %s" % (
                info.get("row"), info.get("instance"), info.get("reason"), info.get("worst_abs_deviation"), info.get("worst_step")))
            print("  log-probs of the row          :", info.get("observed_logp"))
            print("  same actions on instance alone:", info.get("expected_logp"))
        else:
            print("observed now: %s" % verdict)
        print("property %s on the current tree" % ("FAILS" if verdict == "fail" else "holds"))
        return 1 if verdict == "fail" else 0
    if obj.get("kind_") != "starts":
        import json
        print(json.dumps(obj, indent=1)[:3000])
        return 0
    masks = torch.tensor(obj["reset_masks"])
    B, N = masks.shape
    name, gen = obj["name"], obj["generator_num_loc"]
    env = types.SimpleNamespace(name=name, generator=types.SimpleNamespace(**({} if gen is None else {"num_loc": gen})))
    td = TensorDict({"action_mask": masks, "locs": torch.zeros(B, N, 2)}, batch_size=[B])
    if obj.get("rng_state_hex"):
        torch.set_rng_state(torch.frombuffer(bytearray(bytes.fromhex(obj["rng_state_hex"])), dtype=torch.uint8))
    sel = ops.select_start_nodes(td, env, obj["k"]).tolist()
    b, k = obj["instance_row"], obj["k"]
    own = [sel[j * B + b] for j in range(k)]
    feas = [0 <= a < N and bool(masks[b, a]) for a in own]
    print("reset mask of instance %d: %s  (feasible candidates: %s)" % (b, obj["reset_masks"][b], obj["feasible_candidates"]))
    print("recorded starts of the instance: %s feasible: %s" % (obj["starts_of_instance"], obj["feasible_under_reset_mask"]))
    print("observed now (ops.select_start_nodes on the recorded masks): %s feasible: %s distinct: %s" % (own, feas, len(set(own)) == k))
    bad = (not all(feas)) or len(set(own)) < k
    print("property %s on the current tree" % ("FAILS" if bad else "holds"))
    return 1 if bad else 0
