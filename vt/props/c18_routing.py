"""C18, unit routing -- CVRP, CVRPTW, MTVRP, OP, SVRP, PDP/MDCPDP, mTSP, PCTSP generators
(Properties/C18_routing.v; model Data/GenRouting.v; harness Harness/HC18_routing.v).

(b) model vs code (exact unless stated): the real generators are run on CHOSEN raw samples -- fixed samplers passed
    through the documented `*_sampler` kwargs, torch.rand / Tensor.uniform_ / torch.multinomial patched to return
    queued tensors -- with exactly representable data, and the Gallina post-processing must reproduce the output:
    size tables (CVRP capacities, OP max lengths, MTVRP capacities), CVRP integer demands, CVRPTW windows incl.
    truncation and both repair branches, MTVRP generate_demands / generate_time_windows (tolerance 2^-16: the
    constants 0.15/0.18/0.2 are not dyadic) / subsample_problems for all 19 presets, OP "dist" prizes, SVRP.
(a) property on the implementation: wfb / solvableb evaluated in Coq on instances of the unmodified generators
    (torch seeded from VERIF_SEED), plus documented keys / shapes / dtypes / ranges checked directly."""
import time
from fractions import Fraction

from vt.c18_util import (bulk, FixedSampler, boollist, ensure_dirs, fr, patched, queue_fn,
                         quiet_logs, run_jobs, zs, zs_floor)
from vt.common import cq, cz

HEADER = ("From Coq Require Import List ZArith QArith.\nFrom RL4CO Require Import Data.GenRouting Harness.HC18_routing.\n"
          "Import ListNotations.\nOpen Scope Q_scope.\n")

SIG = {
    "cvrp": "cvrp: generated demand outside 1..9 / above capacity",
    "cvrp_table": "cvrp/op: an off-table num_loc does not get the entry of a closest table key",
    "cvrp_fmt": "cvrp: generated instance outside the documented keys/shapes/ranges",
    "cvrptw": "cvrptw: generated window not ordered / not reachable from the depot / leaves no time to return",
    "cvrptw_floor": "cvrptw: generator emits an unreachable customer for draws with equal window ends at floor(dist)",
    "cvrptw_draws": "cvrptw: generator emits an ill-formed window (not ordered / unreachable / no time to return) for chosen legal draws",
    "cvrptw_nonint": "cvrptw: non-integer max_time is truncated at the depot only -> generated instance has a dead end",
    "pctsp": "pctsp/spctsp: penalty / prize outside the coded ranges or instance outside the environment's input format",
    "tsp_mtsp_md": "tsp/mtsp/mdcpdp: generated instance outside the environment's input format / num_agents or capacity out of range / not solvable",
    "cvrptw_far": "cvrptw: generator emits a customer that cannot be reached or left in time (2*dist > max_time) without tripping its feasibility assert",
    "mtvrp": "mtvrp: generated row violates the environment's solvability condition",
    "mtvrp_feat": "mtvrp: features of the generated row are not those of the requested preset",
    "mtvrp_slow": "mtvrp/TW,speed<1: generator emits a time-window customer that cannot be served and left in time at the requested speed (no feasibility assert)",
    "op": "op: prize outside 0.01..1.00 / max_length not from the table",
    "op_crash": "op: OPGenerator(prize_type='const'|'unif') raises AttributeError (self.device is never set)",
    "svrp": "svrp: technicians not sorted or last technician cannot serve every customer",
    "pdp": "pdp/mdcpdp: odd number of nodes or wrong shapes",
    "cvrptw_raise": "cvrptw: generator raises on a configuration where every customer leaves room for a window (floor(d)+1 <= floor(max_time-d))",
    "misc": "routing generator output outside the documented keys/shapes/ranges",
}


def q(x):
    return cq(fr(x))


def qz(n):
    return cq(Fraction(int(n)))


def optq(x):
    import math
    return "None" if math.isinf(float(x)) else "(Some %s)" % q(x)


def zzmat_(rows):
    return "[" + "; ".join("[" + "; ".join(cz(v) for v in r) + "]" for r in rows) + "]"


def q4(t):
    return "(%s, %s, %s, %s)" % tuple(q(x) for x in t)


class Run:
    def __init__(self, ctx, torch):
        self.ctx, self.torch = ctx, torch
        self.rng = ctx.rng
        self.thorough = ctx.tier == "thorough"
        self.stats = {}
        self.jobs = []      # (label, case_type, check_fn, cases, metas, handler)

    def add(self, label, case_type, fn, cases, metas, handler):
        self.jobs.append((label, case_type, fn, cases, metas, handler))

    def seed(self):
        s = self.rng.randrange(2 ** 31)
        self.torch.manual_seed(s)
        return s

    def evaluate(self):
        res = run_jobs(self.ctx, "routing", HEADER, [(l, t, f, c, m) for (l, t, f, c, m, h) in self.jobs],
                       cap=600 if self.thorough else 120)
        for (label, ctype, fn, cases, metas, handler) in self.jobs:
            codes = res.get(label)
            st = {"cases": len(cases)}
            if codes is not None:
                st["nonzero"] = sum(1 for c in codes if c != 0)
                st["within_tolerance_only"] = sum(1 for c in codes if c == 10)
                for m, c in zip(metas, codes):
                    if c not in (0, 10):
                        handler(m, c)
            self.stats[label] = st


def mismatch_handler(run, what, sig_of=None):
    """codes of the model-vs-code checks (Harness/HC18_routing.v [judge]): 1 model differs; 6 property false on the
    implementation's output for these (legal) chosen draws; 16 both.  6/16 are concrete failing inputs."""
    done = set()

    def h(meta, code):
        if code in (1, 16) and what not in done:
            done.add(what)
            run.ctx.broken.append("correspondence C18/routing/%s: model and generator differ on %s"
                                  % (what, {k: meta[k] for k in list(meta)[:8]}))
        if code not in (1,):
            sig = sig_of(meta) if sig_of else meta.get("sig", SIG["misc"])
            r = dict(meta)
            r.pop("sig", None)
            r["code"] = code
            r["what"] = ("the generator, fed these raw draws (legal sampler outputs, patched in through the documented sampler kwargs / torch RNG calls), "
                         "emits an instance on which the property's predicate is false")
            run.ctx.failure(sig, r, tag=what.split(" ")[0].split(".")[0])
    return h


def prop_handler(run, sigkey):
    def h(meta, code):
        r = dict(meta)
        r["code"] = code
        # a row on which the mechanism of a recorded finding was recognised on the implementation's own output (see the site
        # that sets it) fails under that finding's signature; every other failing row keeps the generic one
        sig = r.pop("sig_if_fails", None) or SIG[sigkey]
        r.pop("sig", None)
        r["signature"] = sig
        run.ctx.failure(sig, r, tag=sigkey)
    return h


# ---------------------------------------------------------------------------------------------- tables
def tables(run):
    from rl4co.envs.routing.cvrp.generator import CVRPGenerator
    from rl4co.envs.routing.mtvrp.generator import get_vehicle_capacity
    from rl4co.envs.routing.op.generator import OPGenerator
    rng = run.rng
    ns = [1, 2, 5, 10, 12, 13, 15, 17, 18, 20, 25, 30, 35, 40, 45, 50, 55, 60, 67, 68, 75, 87, 88, 100, 112, 113, 125, 137, 138,
          150, 175, 200, 349, 350, 351, 500, 749, 750, 751, 1000, 5000]
    ns += [rng.randint(1, 1200) for _ in range(60 if run.thorough else 15)]
    cases, metas = [], []
    from rl4co.envs.routing.cvrp.generator import CAPACITIES
    from rl4co.envs.routing.op.generator import MAX_LENGTHS

    def closest_values(tbl, n):       # the specification, computed independently of the code's lookup
        if n in tbl:
            return {tbl[n]}
        best = min(abs(k - n) for k in tbl)
        return {v for k, v in tbl.items() if abs(k - n) == best}
    for n in ns:
        cap = CVRPGenerator(num_loc=n).capacity
        cases.append("(0%%nat, %s, %s)" % (cz(n), cz(int(cap))))
        metas.append({"gen": "cvrp", "kind": "table", "num_loc": n})
        ml = OPGenerator(num_loc=n).max_length
        if cap not in closest_values(CAPACITIES, n) or not cap > 9:
            run.ctx.failure(SIG["cvrp_table"], {"unit": "routing", "gen": "cvrp", "kind": "table", "num_loc": n, "observed_capacity": cap,
                                               "expected_one_of": sorted(closest_values(CAPACITIES, n))}, tag="cvrp")
        if ml not in closest_values(MAX_LENGTHS, n):
            run.ctx.failure(SIG["cvrp_table"], {"unit": "routing", "gen": "op", "kind": "table", "num_loc": n, "observed_max_length": ml,
                                               "expected_one_of": sorted(closest_values(MAX_LENGTHS, n))}, tag="op")
        cases.append("(1%%nat, %s, %s)" % (cz(n), cz(int(ml))))
        metas.append({"gen": "op", "kind": "table", "num_loc": n, "max_length": ml})
        if float(ml) != int(ml):
            run.ctx.failure(SIG["op"], {"unit": "routing", "gen": "op", "kind": "table", "num_loc": n, "max_length": ml}, tag="op")
    for n in ns + [1001, 1033, 1034, 1333, 1334, 2000, 5000, 10000]:
        c = get_vehicle_capacity(n)
        cases.append("(2%%nat, %s, %s)" % (cz(n), cz(int(c))))
        metas.append({"gen": "mtvrp", "kind": "table", "num_loc": n, "capacity": c})
    for m in metas:
        run.ctx.seen({"table": [m["gen"], m["num_loc"]]}, nontrivial=True)
    run.ctx.count("routing_table_lookups", len(cases))
    run.add("tables", "nat * Z * Z", "check_table", cases, metas, mismatch_handler(run, "size tables"))


# ---------------------------------------------------------------------------------------------- CVRP
def cvrp(run):
    import numpy as np
    torch = run.torch
    from rl4co.envs.routing.cvrp.generator import CVRPGenerator
    rng = run.rng
    # (b) chosen raw demand samples
    cases, metas = [], []
    confs = [(20, None, 1, 10), (17, None, 1, 10), (7, None, 1, 10), (50, None, 1, 10), (350, None, 1, 10), (10, 9, 1, 10),
             (12, 40, 1, 10), (9, None, 2, 7), (30, None, 3, 21)]
    reps = 6 if run.thorough else 2
    for (n, ovr, lo, hi) in confs:
        for _ in range(reps):
            B = 3
            rows = []
            for b in range(B):
                row = []
                for j in range(n):
                    k = rng.randint(lo - 1, hi - 2)
                    mode = rng.random()
                    u = float(k) if mode < 0.3 else (k + 1 - 2.0 ** -10 if mode < 0.5 else k + rng.randint(1, 255) / 256.0)
                    row.append(u)
                rows.append(row)
            g = CVRPGenerator(num_loc=n, capacity=ovr, min_demand=lo, max_demand=hi,
                              demand_sampler=FixedSampler(torch.tensor(rows, dtype=torch.float32)))
            td = g(B)
            cap = float(g.capacity)
            for b in range(B):
                obs = td["demand"][b]
                ks = [int(round(float(x) * cap)) for x in obs]
                exact = all(np.float32(k) / np.float32(cap) == np.float32(float(x)) for k, x in zip(ks, obs))
                meta = {"unit": "routing", "gen": "cvrp", "kind": "model_vs_code", "num_loc": n, "capacity_override": ovr,
                        "min_demand": lo, "max_demand": hi, "raw_samples": rows[b], "observed_demand_x_capacity": ks,
                        "observed_capacity": cap, "sig": SIG["cvrp"]}
                if not exact or float(td["capacity"][b]) != cap:
                    run.ctx.broken.append("correspondence C18/routing/cvrp: td['demand'] is not float32(k)/float32(capacity) %s" % meta)
                cases.append("(%s, %s, %s, %s, [%s], [%s], %s)" % (
                    cz(n), "None" if ovr is None else "(Some %s)" % cz(ovr), cz(lo), cz(hi),
                    "; ".join(q(u) for u in rows[b]), "; ".join(cz(k) for k in ks), cz(int(cap))))
                metas.append(meta)
                run.ctx.seen({"cvrp_b": rows[b], "n": n, "o": ovr}, nontrivial=True)
                run.ctx.count("cvrp_model_vs_code_rows")
    run.ctx.sample({k: metas[0][k] for k in ("gen", "kind", "num_loc", "raw_samples", "observed_demand_x_capacity", "observed_capacity")})
    run.add("cvrp", "Z * option Z * Z * Z * list Q * list Z * Z", "check_cvrp", cases, metas, mismatch_handler(run, "cvrp"))

    # (a) unmodified generator
    cases, metas = [], []
    sizes = [5, 10, 17, 20, 33, 50, 100] + ([75, 150, 350, 1000] if run.thorough else [350])
    dists = [("uniform", {})] + ([("cluster", dict(n_cluster=3)), ("mixed", dict(n_cluster_mix=1)),
                                  ("gaussian_mixture", dict(num_modes=3, cdist=10))] if run.thorough else [("cluster", dict(n_cluster=3))])
    B = 64 if run.thorough else 8
    plan = [(n, dist, kw, B) for n in sizes for dist, kw in dists if dist == "uniform" or n in (20, 50)]
    if run.thorough:      # bulk: 10^4 small rows
        plan += [(10, "uniform", {}, 1000)] * bulk(6) + [(13, "uniform", {}, 1000)] * bulk(4)
    for (n, dist, kw, B) in plan:
        if True:
            seed = run.seed()
            g = CVRPGenerator(num_loc=n, loc_distribution=dist if dist != "uniform" else torch.distributions.Uniform, **kw)
            td = g(B)
            cap = float(g.capacity)
            base = {"unit": "routing", "gen": "cvrp", "kind": "generated", "kwargs": {"num_loc": n, "loc_distribution": dist, **kw},
                    "torch_seed": seed, "batch": B}
            ok = (tuple(td["locs"].shape) == (B, n, 2) and tuple(td["depot"].shape) == (B, 2) and tuple(td["demand"].shape) == (B, n)
                  and tuple(td["capacity"].shape) == (B, 1) and td["demand"].dtype == torch.float32
                  and float(td["locs"].min()) >= 0.0 and float(td["locs"].max()) <= 1.0
                  and float(td["depot"].min()) >= 0.0 and float(td["depot"].max()) <= 1.0)
            if not ok:
                run.ctx.failure(SIG["cvrp_fmt"], dict(base, what="keys/shapes/dtypes/coordinate bounds",
                                                      shapes={k: list(v.shape) for k, v in td.items()}), tag="cvrp")
            for b in range(B):
                dem = td["demand"][b].tolist()
                ks = [x * cap for x in dem]
                if not all(abs(k - round(k)) < 1e-4 and 1 <= round(k) <= 9 for k in ks):
                    run.ctx.failure(SIG["cvrp"], dict(base, row=b, observed_demand_x_capacity=ks,
                                                      what="demand * capacity is not an integer in 1..9"), tag="cvrp")
                cases.append("([%s], %s)" % ("; ".join(cz(zs(x)) for x in dem), cz(zs(1.0))))
                metas.append(dict(base, row=b, observed_demand=dem if B < 100 else None))
                run.ctx.seen({"cvrp_a": [seed, b, n, dist]}, nontrivial=True)
                run.ctx.count("cvrp_generated_rows")
    run.add("cvrp_prop", "list Z * Z", "check_cvrp_prop", cases, metas, prop_handler(run, "cvrp"))


# ---------------------------------------------------------------------------------------------- CVRPTW
def _pyth_points(rng, n):
    """depot (0,0) and n customers at (0.75a, a), (5b/4.., ) : distances 1.25a, exact in float32"""
    pts = [(0.0, 0.0)]
    for _ in range(n):
        fam = rng.random()
        if fam < 0.6:
            a = rng.randint(0, 150)
            pts.append((0.75 * a, 1.0 * a))           # d = 1.25 a
        elif fam < 0.8:
            a = rng.randint(0, 44)
            pts.append((1.25 * a, 3.0 * a))           # 5-12-13 /4 : d = 3.25 a
        else:
            a = rng.randint(0, 150)
            pts.append((0.0, 1.0 * a))                # d = a (integer: the second repair branch)
    return pts


def _dist0(p):
    return (Fraction(p[0]) ** 2 + Fraction(p[1]) ** 2)


def cvrptw_nonint_experiment(torch):
    from rl4co.envs.routing.cvrptw.env import CVRPTWEnv
    from rl4co.envs.routing.cvrptw.generator import CVRPTWGenerator
    locs = [[1.0, 1.0], [1.25, 1.0], [1.25, 1.0], [0.75, 1.0]]
    t1, t2 = [0.0, 511 / 512.0, 511 / 512.0, 511 / 512.0], [0.0, 4095 / 4096.0, 4095 / 4096.0, 4095 / 4096.0]
    g = CVRPTWGenerator(num_loc=3, max_time=480.5, loc_sampler=FixedSampler(torch.tensor([locs])), demand_sampler=FixedSampler(torch.full((1, 3), 0.5)))
    with patched(torch, "rand", queue_fn([torch.tensor([t1]), torch.tensor([t2])])):
        td = g(1)
    rec = {"unit": "routing", "gen": "cvrptw", "kind": "nonint_witness", "kwargs": {"num_loc": 3, "max_time": 480.5}, "locs_depot_first": locs,
           "ts_1": t1, "ts_2": t2, "actions": [1, 3, 2], "emitted_time_windows": td["time_windows"][0].tolist(),
           "coq_witness": "C18_cvrptw_noninteger_deadline_refuted (generator), C18_cvrptw_noninteger_max_time_refuted (composition)",
           "expected": "after the mask-admitted moves 1, 3, 2 either the row is done or the mask offers an action (the depot)"}
    env = CVRPTWEnv(generator=g, check_solution=False)
    s = env.reset(td.clone(), batch_size=[1])
    trace = []
    dead = False
    for a in rec["actions"]:
        if not bool(s["action_mask"][0, a]):
            trace.append({"action": a, "offered": False, "mask": s["action_mask"][0].tolist()})
            break
        s.set("action", torch.tensor([a]))
        s = env.step(s)["next"]
        trace.append({"action": a, "time": float(s["current_time"][0, 0]), "mask": s["action_mask"][0].tolist(), "done": bool(s["done"][0])})
    else:
        dead = (not bool(s["action_mask"][0].any())) and (not bool(s["done"][0]))
    rec["trace"] = trace
    rec["dead_end"] = dead
    rec["observed"] = "all-False mask with done=False" if dead else "no dead end"
    return rec


def cvrptw(run):
    import math
    torch = run.torch
    from rl4co.envs.routing.cvrptw.generator import CVRPTWGenerator
    from rl4co.utils.ops import get_distance
    rng = run.rng
    cases, metas = [], []
    reps = 20 if run.thorough else 6
    branch = {}
    for rep in range(reps):
        n = rng.choice([1, 2, 4, 7, 10]) if rep > 0 else 10
        T = (480.5 if rep == 1 else rng.choice([480, 480, 400, 1000, 480.5])) if rep > 0 else 480
        B = 3
        locs, t1s, t2s = [], [], []
        for b in range(B):
            pts = _pyth_points(rng, n)
            if rep == 0:      # boundary batch: the customers of modes 0 / 1 sit at a NON-integral distance 1.25 a (a odd)
                for j in range(1, n + 1):
                    if j % 6 in (0, 1):
                        a_odd = 2 * rng.randint(0, 74) + 1
                        pts[j] = (0.75 * a_odd, 1.0 * a_odd)
            locs.append(pts)
            r1, r2 = [], []
            for j in range(n + 1):
                mode = (rng.randrange(6) if j > 0 else 5) if rep > 0 else (j % 6)     # the first batch cycles through every mode
                if mode == 0:        # both draws 0: both ends = floor(dist) exactly (lo - 1 < int(dist): second repair)
                    a_, b_ = 0.0, 0.0
                elif mode == 1:      # both tiny: equal truncations at floor(dist) for non-integral dist
                    a_, b_ = rng.randint(0, 2) / 1024.0, rng.randint(0, 2) / 1024.0
                elif mode == 2:      # equal draws elsewhere: first repair (lo - 1)
                    a_ = b_ = rng.randint(1, 255) / 256.0
                elif mode == 3:      # neighbouring draws: ends one or two apart
                    a_ = rng.randint(0, 254) / 256.0
                    b_ = a_ + 1 / 256.0
                elif mode == 4:      # extreme draws
                    a_, b_ = rng.choice([0.0, 255 / 256.0]), rng.choice([0.0, 255 / 256.0])
                else:
                    a_, b_ = rng.randint(0, 255) / 256.0, rng.randint(0, 255) / 256.0
                r1.append(a_)
                r2.append(b_)
            t1s.append(r1)
            t2s.append(r2)
        L = torch.tensor(locs, dtype=torch.float32)
        dem = torch.full((B, n), 3.5)
        g = CVRPTWGenerator(num_loc=n, max_time=T, loc_sampler=FixedSampler(L), demand_sampler=FixedSampler(dem))
        try:
            with patched(torch, "rand", queue_fn([torch.tensor(t1s, dtype=torch.float32), torch.tensor(t2s, dtype=torch.float32)])):
                td = g(B)
        except AssertionError as e:
            # d <= 187.5 and max_time >= 400 here: floor(d) + 1 <= floor(max_time - d), the model never has lo = hi
            rec = {"unit": "routing", "gen": "cvrptw", "kind": "model_vs_code", "max_time": T, "num_loc": n, "locs_depot_first": locs,
                   "ts_1": t1s, "ts_2": t2s, "expected": "a TensorDict (every customer has room for a window)", "observed": repr(e)}
            run.ctx.broken.append("correspondence C18/routing/cvrptw: the generator raised where the model emits ordered windows")
            run.ctx.failure(SIG["cvrptw_raise"], rec, tag="cvrptw")
            continue
        d = get_distance(td["depot"], td["locs"].transpose(0, 1)).transpose(0, 1)
        tw = td["time_windows"]
        for b in range(B):
            ds = [float(x) for x in d[b]]
            exact = all(Fraction(x) ** 2 == _dist0(p) for x, p in zip(ds, locs[b][1:]))
            if not exact:
                run.ctx.count("cvrptw_exact_rows_dropped_inexact_distance")
                continue
            cust = [(ds[j], 0.0, t1s[b][j + 1], t2s[b][j + 1]) for j in range(n)]
            obs = [(int(tw[b, j, 0]), int(tw[b, j, 1])) for j in range(n + 1)]
            kinds = []
            for j in range(n):
                dj = Fraction(ds[j])
                ra = math.floor(dj + (Fraction(T) - 2 * dj) * Fraction(t1s[b][j + 1]))
                rb = math.floor(dj + (Fraction(T) - 2 * dj) * Fraction(t2s[b][j + 1]))
                kind = ("equal_at_floor_dist_nonintegral" if ra == rb == math.floor(dj) and dj.denominator != 1 else
                        "equal_at_floor_dist_integral" if ra == rb == math.floor(dj) else
                        "equal_elsewhere" if ra == rb else "one_apart" if abs(ra - rb) == 1 else "ordinary")
                kinds.append(kind)
                branch[kind] = branch.get(kind, 0) + 1
            cases.append("(%s, [%s], [%s])" % (q(T), "; ".join(q4(c) for c in cust),
                                               "; ".join("(%s, %s)" % (cz(a), cz(b_)) for a, b_ in obs)))
            metas.append({"unit": "routing", "gen": "cvrptw", "kind": "model_vs_code", "max_time": T, "num_loc": n,
                          "locs_depot_first": locs[b], "ts_1": t1s[b], "ts_2": t2s[b], "observed_time_windows": obs,
                          "dist_to_depot": ds, "customer_kinds": kinds})
            run.ctx.seen({"cvrptw_b": [locs[b], t1s[b], t2s[b], T]}, nontrivial=n >= 2)
            run.ctx.count("cvrptw_model_vs_code_rows")
    for k_, v_ in sorted(branch.items()):
        run.ctx.count("cvrptw_exact_customers_" + k_, v_)
    for k_ in ("equal_at_floor_dist_nonintegral", "equal_elsewhere", "one_apart"):
        if not branch.get(k_):
            run.ctx.broken.append("correspondence C18/routing/cvrptw: the chosen draws contain no customer of kind %s" % k_)

    def cvrptw_sig(meta):
        """mechanism-specific signature: which kind of draw does the first bad customer have?"""
        T_ = meta["observed_time_windows"][0][1]          # the deadline the environment reads
        for j, (d_, w_, kind) in enumerate(zip(meta["dist_to_depot"], meta["observed_time_windows"][1:], meta["customer_kinds"])):
            ok = 0 <= w_[0] < w_[1] and d_ <= w_[1] and w_[1] + d_ <= T_
            if not ok and float(meta["max_time"]) != int(meta["max_time"]) and 0 <= w_[0] < w_[1] and d_ <= w_[1] and w_[1] + d_ <= meta["max_time"]:
                meta["failing_customer"] = {"index": j + 1, "dist": d_, "window": list(w_), "emitted_depot_deadline": T_,
                                            "predicate": "tw_hi + dist <= emitted depot deadline int(max_time)"}
                return SIG["cvrptw_nonint"]
            if not ok:
                meta["failing_customer"] = {"index": j + 1, "dist": d_, "window": list(w_), "draw_kind": kind,
                                            "predicate": "cvrptw_customer_okb (0 <= lo < hi, dist <= hi, hi + dur + dist <= max_time)"}
                return SIG["cvrptw_floor"] if kind.startswith("equal_at_floor_dist") else SIG["cvrptw_draws"]
        return SIG["cvrptw_draws"]
    if metas:
        run.ctx.sample({k: metas[0][k] for k in ("gen", "kind", "max_time", "locs_depot_first", "ts_1", "ts_2", "observed_time_windows")})
    run.add("cvrptw", "Q * list (Q * Q * Q * Q) * list (Z * Z)", "check_cvrptw", cases, metas, mismatch_handler(run, "cvrptw", cvrptw_sig))

    # (a) unmodified generator, scaled and unscaled
    cases, metas = [], []
    B = 48 if run.thorough else 8
    plan = [(n, scale, mt, B) for n in ([5, 10, 20, 50, 100] if run.thorough else [5, 20, 50]) for scale in (False, True) for mt in (480, 600)]
    plan += [(20, False, 480.5, B), (50, False, 600.25, B)]          # non-integer max_time (judged against the emitted depot deadline)
    if run.thorough:      # bulk: 10^4 small rows
        plan += [(6, False, 480, 1000)] * bulk(5) + [(6, True, 480, 1000)] * bulk(3) + [(8, False, 600, 1000)] * bulk(2)
    for (n, scale, mt, B) in plan:
        if True:
            if True:
                seed = run.seed()
                g = CVRPTWGenerator(num_loc=n, max_time=mt, scale=scale)
                td = g(B)
                base = {"unit": "routing", "gen": "cvrptw", "kind": "generated", "kwargs": {"num_loc": n, "max_time": mt, "scale": scale},
                        "torch_seed": seed, "batch": B}
                tw, du = td["time_windows"], td["durations"]
                if tuple(tw.shape) != (B, n + 1, 2) or tuple(du.shape) != (B, n + 1) or tuple(td["locs"].shape) != (B, n, 2):
                    run.ctx.failure(SIG["cvrptw"], dict(base, what="shapes", shapes={k: list(v.shape) for k, v in td.items()}), tag="cvrptw")
                    continue
                d = get_distance(td["depot"], td["locs"].transpose(0, 1)).transpose(0, 1)
                tol = Fraction(1, 4096) / (mt if scale else 1)
                for b in range(B):
                    H = float(tw[b, 0, 1])
                    cust = [(float(d[b, j]), float(du[b, j + 1]), float(tw[b, j + 1, 0]), float(tw[b, j + 1, 1])) for j in range(n)]
                    ok0 = float(tw[b, 0, 0]) == 0.0 and abs(H - (1.0 if scale else int(mt))) < 1e-6
                    if not ok0:
                        run.ctx.failure(SIG["cvrptw"], dict(base, row=b, depot_window=[float(tw[b, 0, 0]), H], what="depot window is not [0, max_time]"), tag="cvrptw")
                    cases.append("(%s, %s, [%s])" % (cq(tol), q(H), "; ".join(q4(c) for c in cust)))
                    metas.append(dict(base, row=b, customers_d_dur_lo_hi=cust if B < 100 else None, horizon=H))
                    run.ctx.seen({"cvrptw_a": [seed, b, n, scale, mt]}, nontrivial=True)
                    run.ctx.count("cvrptw_generated_rows")
    def a_handler(meta, code):
        key = "cvrptw_nonint" if float(meta["kwargs"]["max_time"]) != int(meta["kwargs"]["max_time"]) else "cvrptw"
        run.ctx.failure(SIG[key], dict(meta, code=code), tag="cvrptw")
    run.add("cvrptw_prop", "Q * Q * list (Q * Q * Q * Q)", "check_cvrptw_prop", cases, metas, a_handler)

    # ---- known finding (non-integer max_time), dedicated deterministic experiment: chosen draws, real generator, real env episode.
    #      max_time 480.5; depot (1, 1); customers 1, 2 at (1.25, 1), customer 3 at (0.75, 1): distance 1/4 each; draws 511/512 and
    #      4095/4096 -> every window [479, 480] (fine for 480.5), emitted depot deadline int(480.5) = 480.  After the admitted moves
    #      1, 3, 2 the clock reads 480, the depot is 1/4 away: nothing is offered and the row is not done.
    try:
        rec = cvrptw_nonint_experiment(torch)
        run.ctx.seen({"cvrptw_nonint": "witness"}, nontrivial=True)
        if rec["dead_end"]:
            run.ctx.failure(SIG["cvrptw_nonint"], rec, tag="cvrptw")
    except Exception as e:
        run.ctx.broken.append("correspondence C18/routing/cvrptw: the non-integer max_time experiment crashed: %r" % (e,))
    # ---- known finding, dedicated deterministic re-finding experiment (no dependence on VERIF_SEED):
    #  (i) the Coq witness C18_cvrptw_far_customer_refuted on the real code: one customer at (180, 240), d = 300, max_time 480,
    #      draws 1/4 and 1/2 -> window [240, 270]: the assert passes, the customer can never be reached before 270;
    #  (ii) the unmodified generator, max_loc = 250, num_loc = 10, batch 2, torch seeds 0..3 (fixed).
    cases, metas = [], []
    try:
        L = torch.tensor([[[0.0, 0.0], [180.0, 240.0]]])
        g = CVRPTWGenerator(num_loc=1, max_loc=300.0, max_time=480, loc_sampler=FixedSampler(L), demand_sampler=FixedSampler(torch.full((1, 1), 3.5)))
        with patched(torch, "rand", queue_fn([torch.tensor([[0.0, 0.25]]), torch.tensor([[0.0, 0.5]])])):
            td = g(1)
        tw = td["time_windows"]
        d = get_distance(td["depot"], td["locs"].transpose(0, 1)).transpose(0, 1)
        cust = [(float(d[0, 0]), float(td["durations"][0, 1]), float(tw[0, 1, 0]), float(tw[0, 1, 1]))]
        cases.append("(%s, %s, [%s])" % (cq(Fraction(1, 4096)), q(float(tw[0, 0, 1])), "; ".join(q4(c) for c in cust)))
        metas.append({"unit": "routing", "gen": "cvrptw", "kind": "far_witness", "kwargs": {"num_loc": 1, "max_loc": 300.0, "max_time": 480},
                      "locs_depot_first": [[0.0, 0.0], [180.0, 240.0]], "ts_1": [0.0, 0.25], "ts_2": [0.0, 0.5],
                      "customers_d_dur_lo_hi": cust, "horizon": float(tw[0, 0, 1]),
                      "what": "the generator returned this row (its assert passed) although the customer has 2*dist > max_time",
                      "coq_witness": "C18_cvrptw_far_customer_refuted"})
        run.ctx.seen({"cvrptw_far": "witness"}, nontrivial=True)
    except AssertionError:
        run.ctx.count("cvrptw_far_witness_rejected_by_generator_assert")
    g = CVRPTWGenerator(num_loc=10, max_loc=250.0, max_time=480)
    for seed in (0, 1, 2, 3):
        torch.manual_seed(seed)
        try:
            td = g(2)
        except AssertionError:
            run.ctx.count("cvrptw_far_batches_rejected_by_generator_assert")
            continue
        d = get_distance(td["depot"], td["locs"].transpose(0, 1)).transpose(0, 1)
        tw, du = td["time_windows"], td["durations"]
        for b in range(2):
            cust = [(float(d[b, j]), float(du[b, j + 1]), float(tw[b, j + 1, 0]), float(tw[b, j + 1, 1])) for j in range(10)]
            cases.append("(%s, %s, [%s])" % (cq(Fraction(1, 4096)), q(float(tw[b, 0, 1])), "; ".join(q4(c) for c in cust)))
            metas.append({"unit": "routing", "gen": "cvrptw", "kind": "generated", "kwargs": {"num_loc": 10, "max_loc": 250.0, "max_time": 480},
                          "torch_seed": seed, "batch": 2, "row": b, "customers_d_dur_lo_hi": cust, "horizon": float(tw[b, 0, 1]),
                          "what": "the generator returned this row (its assert passed) although a customer has 2*dist > max_time"})
            run.ctx.seen({"cvrptw_far": [seed, b]}, nontrivial=True)
            run.ctx.count("cvrptw_far_rows")
    run.add("cvrptw_far", "Q * Q * list (Q * Q * Q * Q)", "check_cvrptw_prop", cases, metas, prop_handler(run, "cvrptw_far"))


# ---------------------------------------------------------------------------------------------- MTVRP
def _row_of(td, b, cap_scaled=True):
    """mtvrp_row literal of row b of an MTVRP TensorDict (demands as scaled integers)"""
    n1 = td["locs"].shape[1]
    tw = td["time_windows"][b]
    tws = "; ".join("(%s, %s)" % (q(tw[j, 0]), optq(tw[j, 1])) for j in range(n1))
    svc = "; ".join(q(x) for x in td["service_time"][b])
    dem = "; ".join("(%s, %s)" % (cz(zs(l)), cz(zs(bk))) for l, bk in zip(td["demand_linehaul"][b], td["demand_backhaul"][b]))
    return "{| r_open := %s; r_tw := [%s]; r_svc := [%s]; r_limit := %s; r_dem := [%s] |}" % (
        "true" if bool(td["open_route"][b]) else "false", tws, svc, optq(td["distance_limit"][b, 0]), dem)


def _flags_from_name(name):
    rest = name
    if name == "cvrp":
        return (False, False, False, False)
    o = rest.startswith("o")
    if o:
        rest = rest[1:]
    assert rest.startswith("vrp")
    rest = rest[3:]
    tw = rest.endswith("tw")
    if tw:
        rest = rest[:-2]
    return (o, tw, "l" in rest, "b" in rest)


def mtvrp(run):
    torch = run.torch
    from rl4co.envs.routing.mtvrp.generator import MTVRPGenerator, VARIANT_GENERATION_PRESETS
    from rl4co.utils.ops import get_distance
    rng = run.rng
    # (b1) generate_time_windows on chosen draws
    cases, metas = [], []
    for rep in range(12 if run.thorough else 4):
        B, n = 3, rng.choice([1, 3, 6])
        speed_v = rng.choice([1.0, 1.0, 2.0, 0.5])
        g = MTVRPGenerator(num_loc=n, variant_preset="all", speed=speed_v)
        locs = torch.tensor([[[rng.randint(1, 63) / 64.0, rng.randint(1, 63) / 64.0] for _ in range(n + 1)] for _ in range(B)], dtype=torch.float32)
        if speed_v == 0.5:
            locs = locs * 0.5
        rs = [torch.tensor([[rng.choice([0.0, 255 / 256.0, rng.randint(0, 255) / 256.0]) for _ in range(n)] for _ in range(B)], dtype=torch.float32) for _ in range(3)]
        speed = torch.full((B, 1), speed_v)
        with patched(torch, "rand", queue_fn(rs)):
            tw, svc = g.generate_time_windows(locs=locs, speed=speed)
        d = get_distance(locs[:, 0:1], locs[:, 1:])
        for b in range(B):
            for j in range(n):
                if float(d[b, j]) == 0.0:
                    continue
                cases.append("(%s, %s, %s, %s, %s, %s, %s, %s, %s, %s)" % (
                    cq(Fraction(1, 65536)), q(g.max_time), q(speed_v), q(d[b, j]), q(rs[0][b, j]), q(rs[1][b, j]), q(rs[2][b, j]),
                    q(tw[b, j + 1, 0]), q(tw[b, j + 1, 1]), q(svc[b, j + 1])))
                metas.append({"unit": "routing", "gen": "mtvrp", "kind": "model_vs_code", "fn": "generate_time_windows", "speed": speed_v, "sig": SIG["mtvrp"],
                              "d": float(d[b, j]), "draws": [float(r[b, j]) for r in rs],
                              "observed": [float(tw[b, j + 1, 0]), float(tw[b, j + 1, 1]), float(svc[b, j + 1])]})
                run.ctx.seen({"mtvrp_tw": metas[-1]["draws"] + [metas[-1]["d"], speed_v]}, nontrivial=True)
        if not (float(tw[0, 0, 0]) == 0.0 and abs(float(tw[0, 0, 1]) - g.max_time) < 1e-6 and float(svc[0, 0]) == 0.0):
            run.ctx.broken.append("correspondence C18/routing/mtvrp: depot window / service time is not (0, max_time) / 0")
    run.ctx.count("mtvrp_tw_model_vs_code_customers", len(cases))
    run.add("mtvrp_tw", "Q * Q * Q * Q * Q * Q * Q * Q * Q * Q", "check_mtvrp_tw", cases, metas, mismatch_handler(run, "mtvrp.generate_time_windows"))

    # (b2) generate_demands on chosen draws
    cases, metas = [], []
    for rep in range(8 if run.thorough else 3):
        B, n = 2, 8
        ratio = rng.choice([0.2, 0.5, 0.25])
        g = MTVRPGenerator(num_loc=n, variant_preset="all", backhaul_ratio=ratio)

        def draws():
            return torch.tensor([[rng.choice([float(rng.randint(0, 8)), rng.randint(0, 8) + 1 - 2.0 ** -10, rng.randint(0, 2303) / 256.0])
                                  for _ in range(n)] for _ in range(B)], dtype=torch.float32)
        ul, ub = draws(), draws()
        r = torch.tensor([[rng.choice([ratio, rng.randint(0, 255) / 256.0]) for _ in range(n)] for _ in range(B)], dtype=torch.float32)
        qu = [ul, ub]

        def fake_uniform_(self, a=0.0, b=1.0):
            t = qu.pop(0)
            assert tuple(t.shape) == tuple(self.shape)
            self.copy_(t)
            return self
        with patched(torch.Tensor, "uniform_", fake_uniform_), patched(torch, "rand", queue_fn([r])):
            lin, back = g.generate_demands(batch_size=[B], num_loc=n)
        for b in range(B):
            for j in range(n):
                cases.append("(%s, %s, %s, %s, %s, %s)" % (q(float(torch.tensor(ratio, dtype=torch.float32))), q(ul[b, j]), q(ub[b, j]), q(r[b, j]),
                                                           cz(int(lin[b, j])), cz(int(back[b, j]))))
                metas.append({"unit": "routing", "gen": "mtvrp", "kind": "model_vs_code", "fn": "generate_demands", "backhaul_ratio": ratio, "sig": SIG["mtvrp"],
                              "draws": [float(ul[b, j]), float(ub[b, j]), float(r[b, j])], "observed": [float(lin[b, j]), float(back[b, j])]})
                run.ctx.seen({"mtvrp_dem": metas[-1]["draws"] + [ratio]}, nontrivial=True)
    run.ctx.count("mtvrp_demand_model_vs_code_nodes", len(cases))
    run.add("mtvrp_dem", "Q * Q * Q * Q * Z * Z", "check_mtvrp_dem", cases, metas, mismatch_handler(run, "mtvrp.generate_demands"))

    # (b3) subsample_problems for every preset on a fully featured batch
    cases, metas = [], []
    fcases, fmetas = [], []
    subp_cases, subp_metas = [], []
    B, n = (6, 5)
    for name, probs in VARIANT_GENERATION_PRESETS.items():
        seed = run.seed()
        full = MTVRPGenerator(num_loc=n, variant_preset=name, subsample=False)(B)
        g = MTVRPGenerator(num_loc=n, variant_preset=name)
        p4 = [probs["O"], probs["TW"], probs["L"], probs["B"]]
        td0 = full.clone()
        if name == "all":
            u = torch.tensor([[rng.choice([0.5, rng.randint(0, 255) / 256.0]) for _ in range(4)] for _ in range(B)], dtype=torch.float32)
            with patched(torch, "rand", queue_fn([u])):
                td1 = g.subsample_problems(full.clone())
            kinds = [(3, 0, u[b].tolist()) for b in range(B)]
        elif name in ("cvrp", "single_feat", "single_feat_otw"):
            hi = 6 if name == "single_feat_otw" else 5
            idx = torch.tensor([[4] if name == "cvrp" else [rng.randrange(hi)] for _ in range(B)])
            with patched(torch, "multinomial", queue_fn([idx])):
                td1 = g.subsample_problems(full.clone())
            kinds = [(2 if name == "single_feat_otw" else 1, int(idx[b, 0]), [0, 0, 0, 0]) for b in range(B)]
        else:
            td1 = g.subsample_problems(full.clone())
            kinds = [(0, 0, [0, 0, 0, 0]) for b in range(B)]
        dsub = get_distance(td1["locs"][:, 0:1], td1["locs"][:, 1:])
        for b in range(B):
            kind, idx_b, u_b = kinds[b]
            subp_cases.append("(%s, %s, [%s], %s)" % (cz(zs(float(td1["vehicle_capacity"][b, 0]))), q(td1["speed"][b, 0]),
                                                      "; ".join(q(x) for x in dsub[b]), _row_of(td1, b)))
            subp_metas.append({"unit": "routing", "gen": "mtvrp", "kind": "model_vs_code", "fn": "subsample_problems", "preset": name,
                               "keep_kind": kind, "index": idx_b, "uniform": u_b, "torch_seed": seed, "row": b,
                               "what": "subsample_problems on a fully featured generated batch emits a row violating the solvability condition"})
            cases.append("(%d%%nat, %d%%nat, %s, %s, %s, %s)" % (kind, idx_b, q4(u_b), q4(p4), _row_of(td0, b), _row_of(td1, b)))
            metas.append({"unit": "routing", "gen": "mtvrp", "kind": "model_vs_code", "fn": "subsample_problems", "preset": name,
                          "keep_kind": kind, "index": idx_b, "uniform": u_b, "torch_seed": seed, "row": b})
            run.ctx.seen({"mtvrp_sub": [name, seed, b]}, nontrivial=True)
            if kind == 0:
                fl = _flags_from_name(name)
                fcases.append("((%s, %s, %s, %s), %s)" % (*("true" if x else "false" for x in fl), _row_of(td1, b)))
                fmetas.append({"unit": "routing", "gen": "mtvrp", "kind": "generated_subsample", "preset": name, "expected_features_O_TW_L_B": list(fl),
                               "torch_seed": seed, "row": b})
    run.ctx.count("mtvrp_subsample_model_vs_code_rows", len(cases))
    run.add("mtvrp_sub", "nat * nat * (Q * Q * Q * Q) * (Q * Q * Q * Q) * mtvrp_row * mtvrp_row", "check_mtvrp_sub", cases, metas,
            mismatch_handler(run, "mtvrp.subsample_problems"))
    run.add("mtvrp_sub_prop", "Z * Q * list Q * mtvrp_row", "check_mtvrp_prop", subp_cases, subp_metas, prop_handler(run, "mtvrp"))

    # (a) the unmodified generator: features per preset name + solvability, all presets
    pcases, pmetas = [], []
    sizes = [5, 10, 20, 50] if run.thorough else [6, 20]
    B = 24 if run.thorough else 4
    plan = [(name, n, B, {}) for name in VARIANT_GENERATION_PRESETS for n in sizes if not (n == 50 and name not in ("all", "ovrpbltw", "vrptw"))]
    if run.thorough:      # bulk: 10^4 small rows over all presets
        plan += [(name, 5, 53 * bulk(10), {}) for name in VARIANT_GENERATION_PRESETS]
    # non-default but legal parameterisations: a distance limit that some draws cannot meet (the generator must refuse those
    # draws -- its documented assert -- and every instance it does emit must still be solvable), other speeds and capacities
    lpresets = [nm for nm in VARIANT_GENERATION_PRESETS if "l" in nm.replace("all", "").replace("single_feat", "")] or ["all"]
    for rep in range(12 if run.thorough else 4):
        for nm in lpresets:
            plan += [(nm, 10, 16, {"distance_limit": 2.4}), (nm, 6, 4, {"distance_limit": 2.0}), (nm, 6, 4, {"distance_limit": 2.75})]
    plan += [(nm, 6, 4, kw) for nm in ("all", "vrptw", "ovrpbltw") for kw in ({"speed": 2.0}, {"speed": 0.5}, {"capacity": 15.0}, {"max_time": 6.0})]
    # fixed draw exhibiting the recorded slow-speed finding on every run (MTVRP's generate_locations ignores loc_sampler, so the
    # instance is pinned by its torch seed): rows 6, 8, 32, 37 have a customer whose round trip at speed 0.5 exceeds max_time
    plan += [("vrptw", 6, 64, {"speed": 0.5, "_seed": 3})]
    for (name, n, B, kw) in plan:
        if True:
            seed = run.seed()
            kw = dict(kw)
            if "_seed" in kw:
                seed = kw.pop("_seed")
                torch.manual_seed(seed)
            g = MTVRPGenerator(num_loc=n, variant_preset=name, **kw)
            try:
                td = g(B)
            except AssertionError as e:
                if "distance_limit" in kw and "Distance limit too low" in str(e):
                    run.ctx.count("mtvrp_generator_refused_draw(distance limit)")
                    continue
                raise
            base = {"unit": "routing", "gen": "mtvrp", "kind": "generated", "kwargs": dict({"num_loc": n, "variant_preset": name}, **kw), "torch_seed": seed, "batch": B}
            if kw:
                run.ctx.count("mtvrp_generated_batches_nondefault_%s" % "_".join(sorted(kw)))
            exp_shapes = {"locs": (B, n + 1, 2), "demand_backhaul": (B, n + 1), "demand_linehaul": (B, n + 1), "distance_limit": (B, 1),
                          "time_windows": (B, n + 1, 2), "service_time": (B, n + 1), "vehicle_capacity": (B, 1), "capacity_original": (B, 1),
                          "open_route": (B, 1), "speed": (B, 1)}
            bad = [k for k, s in exp_shapes.items() if k not in td.keys() or tuple(td[k].shape) != s]
            if bad or float(td["locs"].min()) < 0 or float(td["locs"].max()) > 1:
                run.ctx.failure(SIG["misc"], dict(base, what="keys/shapes/coordinate bounds", bad_keys=bad), tag="mtvrp")
                continue
            d = get_distance(td["locs"][:, 0:1], td["locs"][:, 1:])
            cap0 = float(td["capacity_original"][0, 0])
            for b in range(B):
                row = _row_of(td, b)
                ks = [(float(l) + float(bk)) * cap0 for l, bk in zip(td["demand_linehaul"][b, 1:], td["demand_backhaul"][b, 1:])]
                if not all(abs(k - round(k)) < 1e-4 and 1 <= round(k) <= 9 for k in ks):
                    run.ctx.failure(SIG["mtvrp"], dict(base, row=b, observed_demand_x_capacity=ks, what="demand * capacity not an integer in 1..9"), tag="mtvrp")
                pcases.append("(%s, %s, [%s], %s)" % (cz(zs(float(td["vehicle_capacity"][b, 0]))), q(td["speed"][b, 0]),
                                                      "; ".join(q(x) for x in d[b]), row))
                pmetas.append(dict(base, row=b))
                sp = float(kw.get("speed", 1.0))
                if sp < 1.0:
                    # recorded finding: generate_time_windows never checks that a customer can be reached before its window
                    # closes and left in time to be back by max_time when travel takes d / speed; recognised on the emitted row
                    Tend = float(td["time_windows"][b, 0, 1])
                    far = [j + 1 for j in range(n) if bool(torch.isfinite(td["time_windows"][b, j + 1, 1])) and
                           (float(d[b, j]) / sp > float(td["time_windows"][b, j + 1, 1]) + 1e-4 or
                            (not bool(td["open_route"][b, 0]) and
                             max(float(d[b, j]) / sp, float(td["time_windows"][b, j + 1, 0])) + float(td["service_time"][b, j + 1])
                             + float(d[b, j]) / sp > Tend + 1e-4))]
                    if far:
                        pmetas[-1].update(sig_if_fails=SIG["mtvrp_slow"], customers_out_of_reach=far, speed=sp,
                                          dist_to_depot=[float(x) for x in d[b]],
                                          time_windows=[[float(x) for x in w] for w in td["time_windows"][b]],
                                          service_time=[float(x) for x in td["service_time"][b]])
                if name not in ("all", "single_feat", "single_feat_otw"):
                    fl = _flags_from_name(name)
                    fcases.append("((%s, %s, %s, %s), %s)" % (*("true" if x else "false" for x in fl), row))
                    fmetas.append(dict(base, row=b, expected_features_O_TW_L_B=list(fl)))
                else:
                    feats = (bool(td["open_route"][b, 0]), bool(torch.isfinite(td["time_windows"][b, 1:, 1]).all()),
                             bool(torch.isfinite(td["distance_limit"][b, 0])), bool((td["demand_backhaul"][b] > 0).any()))
                    if name.startswith("single_feat"):
                        okf = sum(feats) <= 1 or (name == "single_feat_otw" and feats == (True, True, False, False))
                        if not okf:
                            run.ctx.failure(SIG["mtvrp_feat"], dict(base, row=b, observed_features_O_TW_L_B=list(feats),
                                                                    what="single-feature preset produced a row with several features"), tag="mtvrp")
                    run.ctx.count("mtvrp_mixed_features_%s" % "".join("1" if f else "0" for f in feats))
                run.ctx.seen({"mtvrp_a": [name, seed, b, n]}, nontrivial=True)
                run.ctx.count("mtvrp_generated_rows")
    run.add("mtvrp_feat", "keep4 * mtvrp_row", "check_mtvrp_features", fcases, fmetas, prop_handler(run, "mtvrp_feat"))
    run.add("mtvrp_prop", "Z * Q * list Q * mtvrp_row", "check_mtvrp_prop", pcases, pmetas, prop_handler(run, "mtvrp"))


# ---------------------------------------------------------------------------------------------- OP / SVRP / PDP / others
def op_svrp_misc(run):
    torch = run.torch
    rng = run.rng
    from rl4co.envs.routing.mdcpdp.generator import MDCPDPGenerator
    from rl4co.envs.routing.mtsp.generator import MTSPGenerator
    from rl4co.envs.routing.op.generator import OPGenerator
    from rl4co.envs.routing.pctsp.generator import PCTSPGenerator
    from rl4co.envs.routing.pdp.generator import PDPGenerator
    from rl4co.envs.routing.svrp.generator import SVRPGenerator
    from rl4co.envs.routing.tsp.generator import TSPGenerator
    # ---- OP "dist", chosen points on one ray: d / dmax is dyadic, so the float32 division is exact
    cases, metas = [], []
    for rep in range(10 if run.thorough else 4):
        n = rng.choice([2, 5, 9])
        B = 2
        locs = []
        for b in range(B):
            ks = [64] + [rng.randint(0, 64) for _ in range(n - 1)]
            rng.shuffle(ks)
            locs.append([(0.0, 0.0)] + [(0.75 * k / 128.0, k / 128.0) for k in ks])
        g = OPGenerator(num_loc=n, prize_type="dist", loc_sampler=FixedSampler(torch.tensor(locs, dtype=torch.float32)))
        td = g(B)
        for b in range(B):
            ds = [1.25 * p[1] for p in locs[b][1:]]
            obs = [float(x) * 100 for x in td["prize"][b]]
            cases.append("([%s], [%s])" % ("; ".join(q(x) for x in ds), "; ".join(cz(int(round(x))) for x in obs)))
            metas.append({"unit": "routing", "gen": "op", "kind": "model_vs_code", "locs_depot_first": locs[b], "observed_prize_x100": obs, "sig": SIG["op"]})
            run.ctx.seen({"op_b": locs[b]}, nontrivial=n >= 3)
    run.add("op_dist", "list Q * list Z", "check_op_dist", cases, metas, mismatch_handler(run, "op prize_type=dist"))
    # ---- OP "unif" / "const" on chosen draws (repaired code, repo commit 3bee17c; the crash probe stays: if the AttributeError
    #      returns, the same signature fires again)
    import numpy as np
    ucases, umetas, ccases, cmetas = [], [], [], []
    for rep in range(6 if run.thorough else 3):
        n, B = rng.choice([1, 4, 9]), 2
        ks = torch.tensor([[rng.choice([0, 99, rng.randrange(100)]) for _ in range(n)] for _ in range(B)])
        log = []
        try:
            with patched(torch, "randint", queue_fn([ks], log)):
                td = OPGenerator(num_loc=n, prize_type="unif")(B)
            tdc = OPGenerator(num_loc=n, prize_type="const")(B)
        except AttributeError as e:
            run.ctx.failure(SIG["op_crash"], {"unit": "routing", "gen": "op", "kind": "crash", "kwargs": {"num_loc": n, "prize_type": "unif"}, "batch": B,
                                              "expected": "a TensorDict with prize in (0, 1]", "observed": repr(e)}, tag="op")
            continue
        if log and tuple(log[0][0][:2]) != (0, 100):
            run.ctx.broken.append("correspondence C18/routing/op: unif prizes drawn by randint%s, the theorem assumes randint(0, 100)" % (log[0][0][:2],))
        for b in range(B):
            obs = [int(round(float(x) * 100)) for x in td["prize"][b]]
            if not all(np.float32(1 + int(k)) / np.float32(100) == np.float32(float(x)) for k, x in zip(ks[b], td["prize"][b])):
                run.ctx.broken.append("correspondence C18/routing/op: unif prize is not float32(1 + k) / 100")
            ucases.append("([%s], [%s])" % ("; ".join(cz(int(k)) for k in ks[b]), "; ".join(cz(k) for k in obs)))
            umetas.append({"unit": "routing", "gen": "op", "kind": "model_vs_code", "prize_type": "unif", "randint_draws": ks[b].tolist(),
                           "observed_prize_x100": obs, "sig": SIG["op"]})
            cobs = [float(x) * 100 for x in tdc["prize"][b]]
            ccases.append("(%d%%nat, [%s])" % (n, "; ".join(cz(int(x)) if float(x) == int(x) else cz(-1) for x in cobs)))
            cmetas.append({"unit": "routing", "gen": "op", "kind": "model_vs_code", "prize_type": "const", "num_loc": n, "observed_prize_x100": cobs, "sig": SIG["op"]})
            run.ctx.seen({"op_unif": ks[b].tolist()}, nontrivial=n >= 3)
    run.add("op_unif", "list Z * list Z", "check_op_unif", ucases, umetas, mismatch_handler(run, "op prize_type=unif"))
    run.add("op_const", "nat * list Z", "check_op_const", ccases, cmetas, mismatch_handler(run, "op prize_type=const"))
    # ---- OP, unmodified generator, all three prize types (the two crash probes of the former defect run here on every run)
    pcases, pmetas = [], []
    plan = [(pt, n, 8) for pt in ("dist", "const", "unif") for n in (7, 20, 50, 100)]
    if run.thorough:      # bulk: 10^4 rows
        plan += [("dist", 10, 1000)] * bulk(4) + [("unif", 10, 1000)] * bulk(4) + [("const", 10, 1000)] * bulk(2)
    for (pt, n, B) in plan:
        seed = run.seed()
        base = {"unit": "routing", "gen": "op", "kind": "generated", "kwargs": {"num_loc": n, "prize_type": pt}, "torch_seed": seed, "batch": B}
        try:
            td = OPGenerator(num_loc=n, prize_type=pt)(B)
        except AttributeError as e:
            run.ctx.failure(SIG["op_crash"], {"unit": "routing", "gen": "op", "kind": "crash", "kwargs": {"num_loc": n, "prize_type": pt}, "batch": B,
                                              "expected": "a TensorDict with prize in (0, 1]", "observed": repr(e)}, tag="op")
            continue
        ok = (tuple(td["prize"].shape) == (B, n) and tuple(td["max_length"].shape) == (B,) and float(td["max_length"][0]) in (2.0, 3.0, 4.0)
              and tuple(td["locs"].shape) == (B, n, 2) and tuple(td["depot"].shape) == (B, 2))
        if not ok:
            run.ctx.failure(SIG["op"], dict(base, what="shapes / max_length", shapes={k: list(v.shape) for k, v in td.items()}), tag="op")
            continue
        ptc = {"const": 0, "unif": 1, "dist": 2}[pt]
        pl = td["prize"].tolist()
        for b in range(B):
            pcases.append("(%d%%nat, %s, [%s])" % (ptc, cq(Fraction(1, 1 << 20)), "; ".join(q(x) for x in pl[b])))
            pmetas.append(dict(base, row=b))
            run.ctx.seen({"op_a": [seed, b, n, pt]}, nontrivial=True)
            run.ctx.count("op_generated_rows_" + pt)
    run.add("op_prop", "nat * Q * list Q", "check_op_prop", pcases, pmetas, prop_handler(run, "op"))

    # ---- SVRP on chosen draws
    cases, metas = [], []
    for rep in range(10 if run.thorough else 4):
        B, n, m = 2, rng.choice([3, 6]), rng.choice([1, 2, 3, 5])
        raw = torch.tensor([[[rng.choice([1.0, 10.0, rng.randint(64, 640) / 64.0])] for _ in range(m)] for _ in range(B)], dtype=torch.float32)
        us = torch.tensor([[[rng.choice([0.0, 255 / 256.0, rng.randint(0, 255) / 256.0])] for _ in range(n)] for _ in range(B)], dtype=torch.float32)
        qu = [raw, us]

        def fake_uniform_(self, a=0.0, b=1.0):
            t = qu.pop(0)
            assert tuple(t.shape) == tuple(self.shape), (t.shape, self.shape)
            self.copy_(t)
            return self
        g = SVRPGenerator(num_loc=n, tech_costs=list(range(1, m + 1)))
        with patched(torch.Tensor, "uniform_", fake_uniform_):
            td = g(B)
        for b in range(B):
            cases.append("([%s], [%s], [%s], [%s])" % ("; ".join(q(x) for x in raw[b, :, 0]), "; ".join(q(x) for x in us[b, :, 0]),
                                                       "; ".join(q(x) for x in td["techs"][b, :, 0]), "; ".join(q(x) for x in td["skills"][b, :, 0])))
            metas.append({"unit": "routing", "gen": "svrp", "kind": "model_vs_code", "raw_techs": raw[b, :, 0].tolist(), "raw_skill_draws": us[b, :, 0].tolist(),
                          "observed_techs": td["techs"][b, :, 0].tolist(), "observed_skills": td["skills"][b, :, 0].tolist(), "sig": SIG["svrp"]})
            run.ctx.seen({"svrp_b": [raw[b].tolist(), us[b].tolist()]}, nontrivial=m >= 2)
    run.add("svrp", "list Q * list Q * list Q * list Q", "check_svrp", cases, metas, mismatch_handler(run, "svrp"))
    cases, metas = [], []
    plan = [(n, costs, 16 if run.thorough else 6) for n, costs in ((10, [1, 2, 3]), (20, [1, 2, 3, 4, 5]), (7, [1]))]
    if run.thorough:      # bulk: 10^4 rows
        plan += [(8, [1, 2, 3], 1000)] * bulk(10)
    for (n, costs, B) in plan:
        seed = run.seed()
        td = SVRPGenerator(num_loc=n, tech_costs=costs)(B)
        if tuple(td["techs"].shape) != (B, len(costs), 1) or tuple(td["skills"].shape) != (B, n, 1):
            run.ctx.failure(SIG["misc"], {"unit": "routing", "gen": "svrp", "kind": "generated", "kwargs": {"num_loc": n, "tech_costs": costs}, "torch_seed": seed,
                                          "shapes": {k: list(v.shape) for k, v in td.items()}}, tag="svrp")
            continue
        for b in range(B):
            cases.append("([%s], [%s])" % ("; ".join(q(x) for x in td["techs"][b, :, 0]), "; ".join(q(x) for x in td["skills"][b, :, 0])))
            metas.append({"unit": "routing", "gen": "svrp", "kind": "generated", "kwargs": {"num_loc": n, "tech_costs": costs}, "torch_seed": seed, "batch": B, "row": b})
            run.ctx.seen({"svrp_a": [seed, b, n]}, nontrivial=True)
    run.add("svrp_prop", "list Q * list Q", "check_svrp_prop", cases, metas, prop_handler(run, "svrp"))

    # ---- PCTSP / SPCTSP on chosen draws (torch.rand patched: penalty, deterministic prize, stochastic factor); sizes whose
    #      max_penalty and 4 / num_loc are dyadic are compared exactly, the others with tolerance 2^-20
    cases, metas = [], []
    for (n, factor) in [(4, 3.0), (8, 3.0), (16, 3.0), (32, 3.0), (64, 3.0), (16, 2.0), (10, 3.0), (20, 3.0), (50, 3.0)] if True else []:
        B = 2
        exact = n in (4, 8, 16, 32, 64)
        locs = torch.tensor([[[rng.randint(0, 64) / 64.0, rng.randint(0, 64) / 64.0] for _ in range(n + 1)] for _ in range(B)], dtype=torch.float32)
        draws = [torch.tensor([[rng.choice([0.0, 255 / 256.0, rng.randint(0, 255) / 256.0]) for _ in range(n)] for _ in range(B)], dtype=torch.float32) for _ in range(3)]
        g = PCTSPGenerator(num_loc=n, penalty_factor=factor, loc_sampler=FixedSampler(locs))
        with patched(torch, "rand", queue_fn(draws)):
            td = g(B)
        for b in range(B):
            obs = list(zip(td["penalty"][b].tolist(), td["deterministic_prize"][b].tolist(), td["stochastic_prize"][b].tolist()))
            dr = list(zip(draws[0][b].tolist(), draws[1][b].tolist(), draws[2][b].tolist()))
            cases.append("(%s, %s, None, %s, %s, [%s], [%s])" % (
                cq(Fraction(0) if exact else Fraction(1, 1 << 20)), cz(n), q(factor), q(float(torch.tensor(g.max_penalty, dtype=torch.float32))) if exact else cq(Fraction(g.max_penalty)),
                "; ".join("(%s, %s, %s)" % (q(a), q(b_), q(c)) for a, b_, c in dr), "; ".join("(%s, %s, %s)" % (q(a), q(b_), q(c)) for a, b_, c in obs)))
            metas.append({"unit": "routing", "gen": "pctsp", "kind": "model_vs_code", "num_loc": n, "penalty_factor": factor, "max_penalty": g.max_penalty,
                          "draws_rp_rd_rs": dr, "observed_penalty_det_stoch": obs, "sig": SIG["pctsp"]})
            run.ctx.seen({"pctsp_b": dr, "n": n, "f": factor}, nontrivial=True)
    run.ctx.count("pctsp_model_vs_code_rows", len(cases))
    run.add("pctsp", "Q * Z * option Q * Q * Q * list (Q * Q * Q) * list (Q * Q * Q)", "check_pctsp", cases, metas, mismatch_handler(run, "pctsp"))

    # ---- PCTSP / SPCTSP / TSP / mTSP / MDCPDP: unmodified generators judged by the environment units' predicates in Coq
    def dmat(x):
        return [[zs_floor(v, 30) for v in r] for r in (x[:, None, :] - x[None, :, :]).norm(p=2, dim=-1).tolist()]
    GB = 1 << 30
    pc, pm, tc, tm, mc, mm, dc, dm = [], [], [], [], [], [], [], []
    Bq = 40 if run.thorough else 4
    for n in ((5, 8, 13, 20) if run.thorough else (5, 8)):
        seed = run.seed()
        g = PCTSPGenerator(num_loc=n)
        td = g(Bq)
        mp = -(-Fraction(g.max_penalty) * GB // 1) + 1
        for b in range(Bq):
            for st in (False, True):
                pc.append("(%s, %s, %s, [%s], [%s], [%s])" % ("true" if st else "false", cz(GB), cz(int(mp)),
                          "; ".join(cz(zs_floor(v, 30)) for v in td["deterministic_prize"][b].tolist()),
                          "; ".join(cz(zs_floor(v, 30)) for v in td["stochastic_prize"][b].tolist()),
                          "; ".join(cz(zs_floor(v, 30)) for v in td["penalty"][b].tolist())))
                pm.append({"unit": "routing", "gen": "spctsp" if st else "pctsp", "kind": "generated", "kwargs": {"num_loc": n}, "torch_seed": seed, "batch": Bq, "row": b})
            run.ctx.seen({"pctsp_a": [seed, b, n]}, nontrivial=True)
        seed = run.seed()
        td = TSPGenerator(num_loc=n)(Bq)
        for b in range(Bq):
            tc.append(zzmat_(dmat(td["locs"][b])))
            tm.append({"unit": "routing", "gen": "tsp", "kind": "generated", "kwargs": {"num_loc": n}, "torch_seed": seed, "batch": Bq, "row": b})
            run.ctx.seen({"tsp_a": [seed, b, n]}, nontrivial=True)
        seed = run.seed()
        td = MTSPGenerator(num_loc=n, min_num_agents=2, max_num_agents=4)(Bq)
        for b in range(Bq):
            mc.append("(%s, %s, %s, %s)" % (cz(2), cz(4), cz(int(td["num_agents"][b])), zzmat_(dmat(td["locs"][b]))))
            mm.append({"unit": "routing", "gen": "mtsp", "kind": "generated", "kwargs": {"num_loc": n, "min_num_agents": 2, "max_num_agents": 4}, "torch_seed": seed,
                       "batch": Bq, "row": b, "num_agents": int(td["num_agents"][b])})
            run.ctx.seen({"mtsp_a": [seed, b, n]}, nontrivial=True)
        for mode, nd in (("multiple", 3), ("single", 2)):
            seed = run.seed()
            g = MDCPDPGenerator(num_loc=n, num_depot=nd, depot_mode=mode, min_capacity=1, max_capacity=4)
            td = g(Bq)
            for b in range(Bq):
                nodes = torch.cat((td["depot"][b], td["locs"][b]), 0)
                dc.append("(%d%%nat, %d%%nat, %s, %s, [%s], %s, %s, %s)" % (n, nd, cz(1), cz(4), "; ".join(cz(int(v)) for v in td["capacity"][b].reshape(-1).tolist()),
                                                                          zzmat_(dmat(nodes)), cz(GB), cz(zs_floor(float(td["lateness_weight"][b].reshape(-1)[0]), 30))))
                dm.append({"unit": "routing", "gen": "mdcpdp", "kind": "generated", "kwargs": {"num_loc": n, "num_depot": nd, "depot_mode": mode, "min_capacity": 1, "max_capacity": 4},
                           "torch_seed": seed, "batch": Bq, "row": b, "capacity": td["capacity"][b].reshape(-1).tolist(), "shapes": {k: list(v.shape) for k, v in td.items()}})
                run.ctx.seen({"mdcpdp_a": [seed, b, n, mode]}, nontrivial=True)
    run.ctx.count("pctsp_spctsp_generated_rows_coq", len(pc))
    run.ctx.count("tsp_mtsp_mdcpdp_generated_rows_coq", len(tc) + len(mc) + len(dc))
    run.add("pctsp_prop", "bool * Z * Z * list Z * list Z * list Z", "check_pctsp_prop", pc, pm, prop_handler(run, "pctsp"))
    run.add("tsp_prop", "list (list Z)", "check_tsp_prop", tc, tm, prop_handler(run, "tsp_mtsp_md"))
    run.add("mtsp_prop", "Z * Z * Z * list (list Z)", "check_mtsp_prop", mc, mm, prop_handler(run, "tsp_mtsp_md"))
    run.add("mdcpdp_prop", "nat * nat * Z * Z * list Z * list (list Z) * Z * Z", "check_mdcpdp_prop", dc, dm, prop_handler(run, "tsp_mtsp_md"))

    # ---- PDP / MDCPDP: even number of nodes; mTSP / PCTSP / TSP ranges
    cases, metas = [], []
    for n in (2, 5, 6, 9, 20, 21):
        for cls, name in ((PDPGenerator, "pdp"), (MDCPDPGenerator, "mdcpdp")):
            seed = run.seed()
            g = cls(num_loc=n)
            td = g(3)
            m = td["locs"].shape[1]
            if m % 2 != 0 or not (n <= m <= n + 1):
                run.ctx.failure(SIG["pdp"], {"unit": "routing", "gen": name, "kind": "generated", "kwargs": {"num_loc": n}, "torch_seed": seed,
                                            "observed_num_loc": m, "expected": "an even number of nodes (n or n + 1): pickups 1..m/2 are paired with deliveries m/2+1..m"}, tag=name)
            cases.append("(%s, %s)" % (cz(n), cz(m)))
            metas.append({"unit": "routing", "gen": name, "kind": "generated", "kwargs": {"num_loc": n}, "torch_seed": seed, "observed_num_loc": m})
            ok = float(td["locs"].min()) >= 0 and float(td["locs"].max()) <= 1
            if name == "mdcpdp":
                ok = ok and tuple(td["depot"].shape) == (3, 5, 2) and int(td["capacity"].min()) >= 1 and int(td["capacity"].max()) <= 5
            else:
                ok = ok and tuple(td["depot"].shape) == (3, 2)
            if not ok:
                run.ctx.failure(SIG["pdp"], dict(metas[-1], what="shapes / ranges", shapes={k: list(v.shape) for k, v in td.items()}), tag=name)
            run.ctx.seen({"pdp": [name, n, seed]}, nontrivial=True)
    run.add("pdp", "Z * Z", "check_pdp", cases, metas, mismatch_handler(run, "pdp num_loc"))
    for (n, Bm) in [(5, 16), (20, 16), (33, 16)] + ([(10, 250 * bulk(10))] * 4 if run.thorough else []):
        seed = run.seed()
        td = MTSPGenerator(num_loc=n, min_num_agents=2, max_num_agents=4)(Bm)
        ok = tuple(td["locs"].shape) == (Bm, n, 2) and int(td["num_agents"].min()) >= 2 and int(td["num_agents"].max()) <= 4
        td2 = PCTSPGenerator(num_loc=n)(Bm)
        mp = PCTSPGenerator(num_loc=n).max_penalty
        ok2 = (float(td2["penalty"].min()) >= 0 and float(td2["penalty"].max()) <= mp + 1e-6 and float(td2["deterministic_prize"].min()) >= 0
               and float(td2["deterministic_prize"].max()) <= 4.0 / n + 1e-6
               and bool((td2["stochastic_prize"] <= 2 * td2["deterministic_prize"] + 1e-6).all()) and float(td2["stochastic_prize"].min()) >= 0)
        td3 = TSPGenerator(num_loc=n)(Bm)
        tdp = PDPGenerator(num_loc=n)(Bm)
        tdm = MDCPDPGenerator(num_loc=n)(Bm)
        okp = (tdp["locs"].shape[1] % 2 == 0 and tdm["locs"].shape[1] % 2 == 0 and int(tdm["capacity"].min()) >= 1 and int(tdm["capacity"].max()) <= 5
               and float(tdp["locs"].min()) >= 0 and float(tdp["locs"].max()) <= 1 and float(tdm["depot"].min()) >= 0 and float(tdm["depot"].max()) <= 1)
        ok3 = okp and tuple(td3["locs"].shape) == (Bm, n, 2) and float(td3["locs"].min()) >= 0 and float(td3["locs"].max()) <= 1
        run.ctx.seen({"misc": [n, seed]}, nontrivial=True)
        run.ctx.count("mtsp_pctsp_tsp_pdp_mdcpdp_generated_instances_checked_directly", 5 * Bm)
        if Bm > 100:      # instance-level bookkeeping for the bulk (checked by vectorised comparisons, not in Coq)
            run.ctx.evaluations += 5 * Bm
            run.ctx.nontrivial.update("misc-%d-%d-%d" % (seed, k, b_) for k in range(5) for b_ in range(Bm))
        for okx, name in ((ok, "mtsp"), (ok2, "pctsp"), (ok3, "tsp")):
            if not okx:
                run.ctx.failure(SIG["misc"], {"unit": "routing", "gen": name, "kind": "generated", "kwargs": {"num_loc": n}, "torch_seed": seed,
                                              "what": "documented shapes / ranges violated"}, tag=name)


def run_unit(ctx, proofs_ok):
    import torch
    torch.set_num_threads(2)
    quiet_logs()
    ensure_dirs('routing')
    t0 = time.time()
    run = Run(ctx, torch)
    for part in (tables, cvrp, cvrptw, mtvrp, op_svrp_misc):
        try:
            part(run)
        except Exception as e:
            import traceback
            ctx.broken.append("correspondence C18/routing: %s crashed: %s" % (part.__name__, traceback.format_exc()[-900:]))
    t1 = time.time()
    run.evaluate()
    ctx.units["routing"] = {
        "checks": run.stats, "python_s": round(t1 - t0, 1), "coq_s": round(time.time() - t1, 1),
        "proved": "CVRP demands+capacity table (any num_loc), CVRPTW steps 1-8 per customer and per row, MTVRP time windows / demands / "
                  "subsample / capacity, OP prize ranges for all three prize types + table, PDP pairing, SVRP sorted+dominating, "
                  "TSP / mTSP / PCTSP+SPCTSP / MDCPDP / SDVRP stated with the environment units' predicates",
        "property_evaluated_only": "coordinates within bounds; distance-matrix facts (symmetric / non-negative / zero diagonal) are hypotheses of the TSP / mTSP / MDCPDP theorems and are evaluated on generated instances",
    }
    ctx.notes.append(
        "routing: exact arithmetic only. CVRPTW: `hi + dur + d <= max_time` and `d <= hi` have no slack under float32 rounding of "
        "max_time - dist / of the scaled coordinates (scale=True); on generated data they are evaluated with tolerance 2^-12 (%d rows hold only "
        "within it). CVRPTW theorems need 2*d + dur <= max_time per customer; the generator's assert does not enforce it (finding). "
        "A capacity override below max_demand-1 is accepted silently by CVRP/MTVRP generators (outside the hypotheses, gen_cvrp_small_override_refuted). "
        "MTVRP: a customer located exactly at the depot (d = 0) makes generate_time_windows divide by zero (nan windows); excluded by hypothesis d > 0; "
        "MTVRP ignores loc_distribution (generate_locations always uses uniform_). MTVRP generate_time_windows is compared with tolerance 2^-16."
        % run.stats.get("cvrptw_prop", {}).get("within_tolerance_only", 0))


# ---------------------------------------------------------------------------------------------- replay
def replay(obj):
    import torch
    quiet_logs()
    from rl4co.utils.ops import get_distance
    print("signature:", obj.get("signature"))
    gen, kind = obj.get("gen"), obj.get("kind")
    if kind == "crash":
        from rl4co.envs.routing.op.generator import OPGenerator
        try:
            td = OPGenerator(**obj["kwargs"])(obj.get("batch", 2))
            print("expected:", obj.get("expected"))
            print("observed: generator returned prize", td["prize"][0].tolist())
            print("no longer fails")
            return 0
        except Exception as e:
            print("expected:", obj.get("expected"))
            print("observed:", repr(e))
            print("still fails")
            return 1
    if kind == "nonint_witness":
        rec = cvrptw_nonint_experiment(torch)
        print("expected:", rec["expected"])
        print("emitted time windows:", rec["emitted_time_windows"])
        for t in rec["trace"]:
            print("  ", t)
        print("observed:", rec["observed"])
        print("still fails" if rec["dead_end"] else "no longer fails")
        return 1 if rec["dead_end"] else 0
    if kind == "far_witness":
        from rl4co.envs.routing.cvrptw.generator import CVRPTWGenerator
        L = torch.tensor([obj["locs_depot_first"]], dtype=torch.float32)
        g = CVRPTWGenerator(loc_sampler=FixedSampler(L), demand_sampler=FixedSampler(torch.full((1, 1), 3.5)), **obj["kwargs"])
        print("expected: either an AssertionError (customer at distance 300 with max_time 480 cannot be served) or a window the customer can reach and leave in time")
        try:
            with patched(torch, "rand", queue_fn([torch.tensor([obj["ts_1"]], dtype=torch.float32), torch.tensor([obj["ts_2"]], dtype=torch.float32)])):
                td = g(1)
        except AssertionError as e:
            print("observed: generator now raises", repr(e))
            print("no longer fails")
            return 0
        tw = td["time_windows"][0].tolist()
        d = float(get_distance(td["depot"], td["locs"].transpose(0, 1)).transpose(0, 1)[0, 0])
        bad = not (tw[1][0] < tw[1][1] and d <= tw[1][1] and tw[1][1] + d <= tw[0][1])
        print("observed: distance %s, window %s, depot window %s" % (d, tw[1], tw[0]))
        print("still fails" if bad else "no longer fails")
        return 1 if bad else 0
    if kind == "generated" and gen == "cvrptw":
        from rl4co.envs.routing.cvrptw.generator import CVRPTWGenerator
        torch.manual_seed(obj["torch_seed"])
        try:
            td = CVRPTWGenerator(**obj["kwargs"])(obj["batch"])
        except AssertionError as e:
            print("observed: generator now raises", repr(e))
            print("no longer fails")
            return 0
        b = obj["row"]
        d = get_distance(td["depot"], td["locs"].transpose(0, 1)).transpose(0, 1)[b]
        tw = td["time_windows"][b]
        H = float(tw[0, 1])
        bad = [(j + 1, float(d[j]), float(tw[j + 1, 0]), float(tw[j + 1, 1])) for j in range(d.shape[0])
               if not (float(tw[j + 1, 0]) < float(tw[j + 1, 1]) and float(d[j]) <= float(tw[j + 1, 1]) + 2.5e-4
                       and float(tw[j + 1, 1]) + float(d[j]) <= H + 2.5e-4)]
        print("expected: every customer j has tw_lo < tw_hi, dist(depot, j) <= tw_hi and tw_hi + dist(j, depot) <= %s" % H)
        print("observed: customers (j, dist, tw_lo, tw_hi) violating it:", bad)
        print("still fails" if bad else "no longer fails")
        return 1 if bad else 0
    if kind == "table":
        from rl4co.envs.routing.cvrp.generator import CAPACITIES, CVRPGenerator
        from rl4co.envs.routing.op.generator import MAX_LENGTHS, OPGenerator
        n = obj["num_loc"]
        tbl, val = (CAPACITIES, CVRPGenerator(num_loc=n).capacity) if gen == "cvrp" else (MAX_LENGTHS, OPGenerator(num_loc=n).max_length)
        best = min(abs(k - n) for k in tbl)
        allowed = sorted({v for k, v in tbl.items() if abs(k - n) == best}) if n not in tbl else [tbl[n]]
        print("expected: num_loc=%d gets one of %s (entry of a closest table key)" % (n, allowed))
        print("observed:", val)
        print("still fails" if val not in allowed else "no longer fails")
        return 1 if val not in allowed else 0
    if kind == "model_vs_code" and gen == "cvrptw" and "expected" in obj:
        from rl4co.envs.routing.cvrptw.generator import CVRPTWGenerator
        L = torch.tensor(obj["locs_depot_first"], dtype=torch.float32)
        B, n = L.shape[0], L.shape[1] - 1
        g = CVRPTWGenerator(num_loc=n, max_time=obj["max_time"], loc_sampler=FixedSampler(L), demand_sampler=FixedSampler(torch.full((B, n), 3.5)))
        print("expected:", obj["expected"])
        try:
            with patched(torch, "rand", queue_fn([torch.tensor(obj["ts_1"], dtype=torch.float32), torch.tensor(obj["ts_2"], dtype=torch.float32)])):
                td = g(B)
            print("observed: time_windows", td["time_windows"].tolist())
            print("no longer fails")
            return 0
        except AssertionError as e:
            print("observed:", repr(e))
            print("still fails")
            return 1
    if kind == "model_vs_code" and gen == "cvrptw" and "observed_time_windows" in obj:
        from rl4co.envs.routing.cvrptw.generator import CVRPTWGenerator
        L = torch.tensor([obj["locs_depot_first"]], dtype=torch.float32)
        n = L.shape[1] - 1
        g = CVRPTWGenerator(num_loc=n, max_time=obj["max_time"], loc_sampler=FixedSampler(L), demand_sampler=FixedSampler(torch.full((1, n), 3.5)))
        print("generator: CVRPTWGenerator(num_loc=%d, max_time=%s) with loc_sampler returning locs_depot_first and torch.rand patched to ts_1 / ts_2" % (n, obj["max_time"]))
        print("expected: every customer has 0 <= tw_lo < tw_hi, dist(depot, j) <= tw_hi and tw_hi + dist(j, depot) <= max_time")
        try:
            with patched(torch, "rand", queue_fn([torch.tensor([obj["ts_1"]], dtype=torch.float32), torch.tensor([obj["ts_2"]], dtype=torch.float32)])):
                td = g(1)
        except AssertionError as e:
            print("observed: generator raises", repr(e))
            print("still fails")
            return 1
        d = get_distance(td["depot"], td["locs"].transpose(0, 1)).transpose(0, 1)[0].tolist()
        tw = td["time_windows"][0].tolist()
        bad = [{"customer": j + 1, "dist": d[j], "window": tw[j + 1], "draws": [obj["ts_1"][j + 1], obj["ts_2"][j + 1]]} for j in range(n)
               if not (0 <= tw[j + 1][0] < tw[j + 1][1] and d[j] <= tw[j + 1][1] and tw[j + 1][1] + d[j] <= obj["max_time"])]
        print("observed: customers violating it:", bad)
        print("still fails" if bad else "no longer fails")
        return 1 if bad else 0
    if kind == "generated" and gen in ("pdp", "mdcpdp"):
        from rl4co.envs.routing.mdcpdp.generator import MDCPDPGenerator
        from rl4co.envs.routing.pdp.generator import PDPGenerator
        td = (PDPGenerator if gen == "pdp" else MDCPDPGenerator)(**obj["kwargs"])(3)
        m = td["locs"].shape[1]
        print("expected:", obj.get("expected", "an even number of nodes"))
        print("observed: num_loc=%d gives %d nodes" % (obj["kwargs"]["num_loc"], m))
        print("still fails" if m % 2 else "no longer fails")
        return 1 if m % 2 else 0
    if kind == "generated" and gen in ("cvrp", "mtvrp", "svrp", "op"):
        mod = {"cvrp": ("rl4co.envs.routing.cvrp.generator", "CVRPGenerator"), "mtvrp": ("rl4co.envs.routing.mtvrp.generator", "MTVRPGenerator"),
               "svrp": ("rl4co.envs.routing.svrp.generator", "SVRPGenerator"), "op": ("rl4co.envs.routing.op.generator", "OPGenerator")}[gen]
        import importlib
        cls = getattr(importlib.import_module(mod[0]), mod[1])
        torch.manual_seed(obj["torch_seed"])
        kw = dict(obj["kwargs"])
        if kw.get("loc_distribution") == "uniform":
            kw.pop("loc_distribution")
        g = cls(**kw)
        td = g(obj["batch"])
        b = obj.get("row", 0)
        bad = []
        if gen == "cvrp":
            ks = [float(x) * float(g.capacity) for x in td["demand"][b]]
            bad = [k for k in ks if not (abs(k - round(k)) < 1e-4 and 1 <= round(k) <= 9 and k <= float(g.capacity) + 1e-4)]
            print("expected: demand * capacity is an integer in 1..9 (and <= capacity = %s)" % g.capacity)
            print("observed: demand * capacity =", [round(k, 4) for k in ks])
        elif gen == "svrp":
            t, sk = td["techs"][b, :, 0].tolist(), td["skills"][b, :, 0].tolist()
            if t != sorted(t):
                bad.append("techs not ascending")
            bad += [x for x in sk if x > t[-1]]
            print("expected: techs ascending and every required skill <= the last technician's")
            print("observed: techs", t, "skills", sk)
        elif gen == "mtvrp":
            d = get_distance(td["locs"][:, 0:1], td["locs"][:, 1:])[b].tolist()
            tw, sv = td["time_windows"][b].tolist(), td["service_time"][b].tolist()
            dl, db = td["demand_linehaul"][b].tolist(), td["demand_backhaul"][b].tolist()
            op, lim, sp, cap = bool(td["open_route"][b, 0]), float(td["distance_limit"][b, 0]), float(td["speed"][b, 0]), float(td["vehicle_capacity"][b, 0])
            for j, dj in enumerate(d, start=1):
                x = dj / sp
                okj = (dl[j] + db[j] > 0 and 0 <= dl[j] <= cap and 0 <= db[j] <= cap and (dj if op else 2 * dj) <= lim and x < tw[j][1]
                       and (op or max(x, tw[j][0]) + sv[j] + x < tw[0][1]))
                if not okj:
                    bad.append({"customer": j, "dist": dj, "tw": tw[j], "service": sv[j], "linehaul": dl[j], "backhaul": db[j]})
            if "expected_features_O_TW_L_B" in obj:
                import math
                feats = [op, all(math.isfinite(w[1]) for w in tw[1:]), math.isfinite(lim), any(x > 0 for x in db)]
                exp = obj["expected_features_O_TW_L_B"]
                if feats[:3] != exp[:3] or (feats[3] and not exp[3]):
                    bad.append({"features_O_TW_L_B": feats, "expected": exp})
            print("expected: every customer has a demand that fits, is reachable within the distance limit and before its deadline, "
                  "and (closed routes) the depot can be reached in time; features as requested by the preset")
            print("observed: open=%s limit=%s depot_window=%s" % (op, lim, tw[0]))
        else:
            pr = (td["prize"][b] * 100).tolist()
            bad = [x for x in pr if not (0.999 <= x <= 100.001)]
            print("expected: prizes in 0.01..1.00; observed x100:", pr)
        print("violations:", bad)
        print("still fails" if bad else "no longer fails")
        return 1 if bad else 0
    import json
    print(json.dumps(obj, indent=1)[:3000])
    return 0
