"""C02 / unit sched -- FJSPEnv, JSSPEnv, FFSPEnv, SMTWTPEnv: no dead ends, finished rows stay finished and steppable,
no crash on offered actions, episodes within the step bound.

Proof obligations: coq/theories/Properties/C02_sched.v (models Env/FJSP.v, Env/FFSP.v, Env/SMTWTP.v; new lemmas
Env/SchedBatch.v, Env/SchedBatch2.v).
Correspondence: mixed batches of the real envs (rows of unequal size finishing at different steps, one slowed-down
batch-mate, a different walk policy per row, further padding steps after the last row finished; finished rows receive
random admitted actions, i.e. their inert no-op / wait).  Python evaluates the property itself on the implementation's
observables after EVERY step for EVERY row (mask non-empty incl. finished rows, done monotone, no exception, number of
steps before the first done within the bound); Coq (Harness/HC0234_*.v) runs the row model on the same actions and
compares mask emptiness, done and the step count, so that the theorems transfer.
Every env.reset / env.step / env.pre_step / env.get_reward runs under a wall-clock guard (vt/sched_guard.py): a call that
does not return IS the failure of "episodes terminate" and is reported as `<env>: env.step does not terminate` with the
instance and the actions as replay; that env is then abandoned for the rest of the run.  env.pre_step is probed on clones
of the running FFSP batches (it must refuse a batch with a row past stage 0; model Env/SchedGuards.v)."""
import random
import time

from vt import sched_graph_common as C
from vt.props import c07_ffsp as G


def _evaluate(ctx, res, coll, tag):
    n = {"fjsp_rows": 0, "ffsp_rows": 0, "smtwtp_rows": 0}
    # FJSP / JSSP
    insts, cases, metas = [], [], []
    for kind, mno, out in res["fjsp"]:
        for b, row in enumerate(out["rows"]):
            insts.append(out["insts"][b])
            cases.append(C.fjsp_case(kind, mno, "I%d" % (len(insts) - 1), row))
            metas.append((kind, C.fjsp_replay_obj(kind, mno, out, b)))
            ctx.seen({"i": out["insts"][b], "a": [s[0] for s in row["steps"]], "k": kind, "m": mno},
                     nontrivial=len(row["steps"]) >= 2 and row["choice"])
    codes = C.coq_codes(ctx, "cases_C02_sched_fjsp" + tag, C.fjsp_header(insts), "fjsp_case", "check_C02_fjsp", cases, shard=40)
    if codes is not None:
        n["fjsp_rows"] = len(codes)
        for kind in ("fjsp", "jssp"):
            sel = [(c, m[1]) for c, m in zip(codes, metas) if m[0] == kind]
            coll.codes(kind, [c for c, _ in sel], [m for _, m in sel], "c02")
    # FFSP
    recs = res["ffsp"]
    codes = C.coq_codes(ctx, "cases_C02_sched_ffsp" + tag, C.HDR_FFSP, "HC07F.ffsp_case", "check_C02_ffsp",
                        [G.ffsp_case_term(r, keys=False) for r in recs], shard=30)
    if codes is not None:
        n["ffsp_rows"] = len(codes)
        coll.codes("ffsp", codes, [G.ffsp_replay_obj(r, "C02", 0) for r in recs], "c02")
        for r in recs:
            ctx.seen({"f": [r["rt"], [a for a, _ in r["steps"]]]}, nontrivial=len(r["steps"]) >= 2)
            ctx.count("c02_ffsp_wait_actions_before_done", sum(1 for a, _ in r["steps"][: r["first_done"]] if a == r["J"]))
            ctx.count("c02_ffsp_padding_steps_after_done", len(r["steps"]) - r["first_done"])
    # SMTWTP
    srecs = res["smtwtp"]
    codes = C.coq_codes(ctx, "cases_C02_sched_smtwtp" + tag, C.HDR_FFSP, "HC07F.smtwtp_case", "check_C02_smtwtp",
                        [G.smtwtp_case_term(r, keys=False) for r in srecs], shard=60)
    if codes is not None:
        n["smtwtp_rows"] = len(codes)
        coll.codes("smtwtp", codes, [G.smtwtp_replay_obj(r, "C02", 0) for r in srecs], "c02")
        for r in srecs:
            ctx.seen({"s": [r["due"], r["wgt"], r["ptime"], [a for a, _, _ in r["steps"]]]}, nontrivial=r["n"] >= 2)
    # env.pre_step probed on clones of the running FFSP batches: it must refuse a batch with a row past stage 0
    n["ffsp_pre_step_probes"], _ = G.ffsp_probe_evaluate(ctx, res.get("ffsp_batches", []), "cases_C02_sched_ffsp_prestep" + tag, C.HDR_FFSP,
                                                          coll.fail, count=not tag)
    return n


def run_unit(ctx, proofs_ok):
    import torch
    t0 = time.time()
    rng = random.Random(ctx.rng.randrange(2 ** 62))
    torch.manual_seed(rng.randrange(2 ** 31))
    ctx.rule += (" [sched] mixed batches of FJSPEnv/JSSPEnv (mask_no_ops on/off; 2..4 jobs x 2..3 machines x 1..3 ops/job from the env "
                 "generators, thorough up to 6 x 4; 3..5 rows of unequal op counts, one row slowed down x3 in 70% of the batches), "
                 "FFSPEnv (2..4 jobs, 1..3 stages, 1..2 machines, integer durations, 2..4 rows, one row slowed down) and SMTWTPEnv "
                 "(3..7 jobs on the 1/64 grid, 1..4 rows); a different walk policy per row (uniform / always-wait / never-wait / "
                 "first / last); 0..2 padding steps after the last row finished; finished rows take random admitted actions.")
    ctx.assumptions += [
        "sched unit: FFSP's step bound is (J*S*(Dmax+2) + 2) * S*M (C02_ffsp_step_bound: real-job steps are exactly J*S, every step "
        "advances the clock, and time is bounded by the instance); the guess J*S*(1+M) is refuted "
        "(C02_ffsp_ops_times_machines_bound_refuted: the number of waits depends on the durations)",
        "sched unit: SMTWTP has no inert action (mask of a finished row is empty); all rows of a batch finish at step n (proved), "
        "so no row is ever stepped after it finished",
    ]
    with C.Threads():
        coll = C.Collector(ctx, "C02", "sched")
        scale = C.budget(ctx, 4, 40)
        res = C.sched_streams(ctx, rng, torch, scale, coll, "c02")
        n = _evaluate(ctx, res, coll, "")
        unit = dict(n, models="Env/FJSP.v, Env/FFSP.v, Env/SMTWTP.v; Env/SchedBatch.v, Env/SchedBatch2.v",
                    observables="per row and step: action_mask non-empty (python: implementation alone; Coq: equal to the model's "
                                "emptiness), done (monotone; equal to the model), exceptions, steps before the first done vs the bound")
        if (coll.n_disagree or not proofs_ok or any("C02_sched" in b for b in ctx.broken)) and not coll.best and not C.guard.timed_out():
            res2 = C.sched_streams(ctx, rng, torch, 4 * scale, coll, "c02_search")     # the search: python-level property only matters
            n2 = _evaluate(ctx, res2, C.Collector(ctx, "C02", "sched-search"), "_search")
            unit["search_rows"] = sum(n2.values())
        unit["concrete_failures"] = coll.flush()
        unit["disagreements"] = coll.n_disagree
        unit["env_call_guard"] = dict(C.guard.evidence(), envs_abandoned_after_a_call_that_did_not_return=C.guard.timed_out(),
                                      reported_as="<env>: env.step does not terminate (C02: episodes terminate), replay = instance + actions")
        unit["wall_s_unit"] = round(time.time() - t0, 1)
        ctx.units["sched"] = unit
        for kind, mno, out in res["fjsp"][:1]:
            ctx.sample({"unit": "sched", "env": kind, "mask_no_ops": mno, "instances": out["insts"], "actions_per_step": out["actions"],
                        "first_done_per_row": [r["first_done"] for r in out["rows"]]})


def replay(obj):
    return C.replay(obj)
