"""C02 / unit graph -- FLPEnv, MCPEnv, DPPEnv, MDPPEnv: no dead end before the quota, done stable, offered steps never
raise, the episode is done exactly from its quota-th selection on.

Proof obligations: coq/theories/Properties/C02_graph.v.
Correspondence: batches of 1..4 rows driven by rl4co's own loop (`while not td["done"].all()`), uniform walks in the
implementation's mask, common quota and (every third FLP/MCP batch) per-row quotas, to_choose in both shapes; after every
step, for every row: mask non-empty while the row is unfinished (python, implementation alone), done monotone, no
exception, first done exactly at the quota; Coq (Harness/HC0234_graph.v) runs the row models on the same actions and
compares mask emptiness and done."""
import random
import time

from vt import sched_graph_common as C


def _evaluate(ctx, res, coll, tag, count=True):
    n = {}
    for envname in ("flp", "mcp", "dpp", "mdpp"):
        cases, metas = [], []
        for en, rows, recs, rew, qshape, mixed in res:
            if en != envname:
                continue
            for b, (row, rec) in enumerate(zip(rows, recs)):
                if not rec["acts"]:
                    continue
                try:
                    cases.append(C.graph_c02_term(envname, row, rec))
                except ValueError:
                    ctx.count("c02_%s_dropped_unrepresentable" % envname)
                    continue
                metas.append(C.graph_replay_obj(envname, rows, recs, b, qshape=qshape))
                if count:
                    ctx.seen({"e": envname, "i": {k: v for k, v in row.items() if k not in ("tol", "locs")}, "a": rec["acts"], "B": len(rows)},
                             nontrivial=len(rec["acts"]) >= 2 and rec["forced"] < len(rec["acts"]))
        codes = C.coq_codes(ctx, "cases_C02_graph_%s%s" % (envname, tag), C.HDR_GRAPH,
                            "%s * list (nat * (bool * bool))" % C.INST_TYPE[envname], "check_C02_%s" % envname, cases, shard=60)
        if codes is not None:
            n[envname + "_rows"] = len(codes)
            coll.codes(envname, codes, metas, "c02")
    return n


def run_unit(ctx, proofs_ok):
    import torch
    t0 = time.time()
    rng = random.Random(ctx.rng.randrange(2 ** 62))
    torch.manual_seed(rng.randrange(2 ** 31))
    ctx.rule += (" [graph] FLPEnv / MCPEnv (3..7 locations / sets; exact point sets, dyadic and asymmetric matrices; hand-built "
                 "memberships with padding anywhere and repeated ids), DPPEnv / MDPPEnv (2x2..4x4 grids on synthetic chip data): "
                 "batches of 1..4 rows, quota 1, n or uniform, every third FLP/MCP batch with per-row quotas, to_choose as [B] and [B,1]; "
                 "uniform walks in the implementation's mask under rl4co's loop `while not done.all()`.")
    ctx.assumptions += [
        "graph unit: quota <= number of allowed items for the no-dead-end statements (the envs' solvability condition; "
        "C02_dpp_dead_end_when_quota_exceeds_allowed_cells)",
        "graph unit: the selection envs have NO inert action; instead all rows of an equal-quota batch finish at the same step "
        "(proved). With per-row quotas a finished row keeps a non-empty mask and is made to select on: C02 as worded (mask "
        "non-empty, done stable, first done at the quota) still holds there; the consequence is a C04 / C08 finding",
    ]
    with C.Threads():
        coll = C.Collector(ctx, "C02", "graph")
        scale = C.budget(ctx, 5, 60)
        res = C.graph_streams(ctx, rng, torch, scale, coll, "c02")
        unit = _evaluate(ctx, res, coll, "")
        if (coll.n_disagree or not proofs_ok or any("C02_graph" in b for b in ctx.broken)) and not coll.best:
            res2 = C.graph_streams(ctx, rng, torch, 4 * scale, coll, "c02_search")
            unit["search_rows"] = sum(_evaluate(ctx, res2, C.Collector(ctx, "C02", "graph-search"), "_search", count=False).values())
        unit["concrete_failures"] = coll.flush()
        unit["disagreements"] = coll.n_disagree
        unit["observables"] = "per row and step: action_mask non-empty before done, done (monotone, first at the quota), exceptions"
        unit["wall_s_unit"] = round(time.time() - t0, 1)
        ctx.units["graph"] = unit


def replay(obj):
    return C.replay(obj)
