"""C04 / unit graph -- FLPEnv, MCPEnv, DPPEnv, MDPPEnv: an instance's outcome is independent of its batch-mates.

Proof obligations: coq/theories/Properties/C04_graph.v (done [B] >= [B,1] as a B x B matrix; FLP's
nonzero().view(batch, -1); equal quotas => rows finish together; per-row quotas refuted).
Correspondence: an instance X is run solo, then forced through the same selections at every position of batches of
2..4 rows next to strangers (same size and quota -- the only batches the generators emit -- and, for FLP/MCP, strangers
with OTHER quotas) and next to a copy of itself.  Compared for X on the implementation alone: mask after reset and after
every step, the bookkeeping shown to the policy (distances / weights / membership / keepout), the finishing step, the
reward (exact on exact data).  In Coq: the row models on X's batched rows (masks
equal, done), FLP's batched distance update against its batched model after every step, td["done"] against done_bxb.
The selection envs have no inert action, so there is no padding to test with equal quotas; with per-row quotas rl4co's
loop makes the finished row select on: re-found on every run (minimal experiment of C08 + the random compositions) and
reported under the signatures `mcp|flp: row-selects-past-its-quota-in-mixed-quota-batch`."""
import random
import time

from vt import sched_graph_common as C
from vt.props import c08 as S

SIG = "%s: outcome-depends-on-batch-mates"


def _cmp(solo, solo_rew, rec, rew):
    n = len(solo["acts"])
    if rec["deviated"] or rec["acts"][:n] != solo["acts"]:
        return "mask differs: a selection of the solo run was not offered"
    if rec["obs0"]["mask"] != solo["obs0"]["mask"]:
        return "mask after reset differs"
    for k in range(n):
        if rec["obs"][k]["mask"] != solo["obs"][k]["mask"]:
            return "mask differs after step %d" % (k + 1)
        if rec["obs"][k]["done"] != solo["obs"][k]["done"]:
            return "done differs after step %d" % (k + 1)
        for key in solo["obs"][k]:      # what the policy is shown (distances / weights / membership / keepout) must be the row's own too
            if key not in ("mask", "done") and rec["obs"][k][key] != solo["obs"][k][key]:
                return "observation '%s' differs after step %d" % (key, k + 1)
    if len(rec["acts"]) != n:
        return "the row was stepped %d times, solo %d (finishing step / episode length differs)" % (len(rec["acts"]), n)
    if solo_rew is not None and rew != solo_rew:
        return "reward differs (%r vs solo %r)" % (rew, solo_rew)
    return None


def _part(ctx, rng, torch, nx, coll, count=True):
    stats = {}
    eda_envs = {}
    bview, dcases = [], []
    for envname in ("flp", "mcp", "dpp", "mdpp"):
        cases, metas = [], []
        n_cmp = n_mixed_fail = 0
        for rep in range(nx):
            if envname in ("flp", "mcp"):
                size = rng.randint(3, 6)
                q = rng.randint(1, size)
                env = C.graph_env(torch, envname)
            else:
                size = rng.choice([2, 3, 3])
                q = rng.randint(1, max(1, min(size * size - 2, 4)))
                key = (envname, size, q)
                if key not in eda_envs:
                    eda_envs[key] = C.graph_env(torch, envname, size, q)
                    eda_envs[key].max_decaps = q
                env = eda_envs[key]
            rows = C.graph_rows(torch, rng, envname, 4, size, q, env)
            X, strangers = rows[0], rows[1:]
            qshape = "B1" if rep % 2 == 0 else "B"
            srecs, srew, scrash, _, _ = C.graph_rollout(torch, env, envname, [X], [None], rng, qshape)
            if scrash or not srecs[0]["acts"]:
                continue
            solo, solo_rew = srecs[0], (srew[0] if srew else None)
            plan = solo["acts"]
            comps = []
            for p in range(3):
                comps.append(("position-%d" % p, strangers[:p] + [X] + strangers[p:2], [p], False))
            comps.append(("copies", [X, dict(X), strangers[0]], [0, 1], False))
            if envname in ("flp", "mcp") and size > 1:
                other = dict(strangers[0])
                other["q"] = q + 1 if q < size else q - 1
                comps.append(("stranger-with-other-quota", [X, other] if other["q"] > q else [other, X], [0] if other["q"] > q else [1], True))
            for name, batch, xs, mixed in comps:
                recs, rew, crash, raw, td = C.graph_rollout(torch, env, envname, batch, [plan if b in xs else None for b in range(len(batch))], rng, qshape)
                for b in xs:
                    n_cmp += 1
                    why = ("the batch containing the instance crashed: %r" % (crash,)) if crash else _cmp(solo, solo_rew, recs[b], rew[b] if rew else None)
                    if count:
                        ctx.count("c04_%s_compositions_%s" % (envname, name.split("-")[0]))
                        ctx.seen({"e": envname, "i": {k: v for k, v in X.items() if k not in ("tol", "locs")}, "a": plan, "c": name, "b": b},
                                 nontrivial=len(plan) >= 2)
                    if why:
                        rep_obj = C.graph_replay_obj(envname, batch, recs, b, {
                            "composition": name, "what": why, "expected": "row %d behaves as in its solo run" % b,
                            "solo": {"actions": plan, "reward": solo_rew, "done": [o["done"] for o in solo["obs"]]},
                            "observed": {"actions": recs[b]["acts"], "reward": rew[b] if rew else None, "done": [o["done"] for o in recs[b]["obs"]]}}, qshape)
                        if mixed and not crash:
                            n_mixed_fail += 1
                            coll.fail(S.SIG_MIXED % envname, rep_obj)
                        else:
                            coll.fail(SIG % envname, rep_obj)
                    if not crash and recs[b]["acts"]:
                        try:
                            cases.append(C.graph_c04_term(envname, batch[b], recs[b]))
                            metas.append(C.graph_replay_obj(envname, batch, recs, b, {"composition": name}, qshape))
                        except ValueError:
                            pass
                # batch-level models: FLP distance update after every step, done tensor of FLP/MCP
                if not crash and envname == "flp" and name == "position-1":
                    try:
                        for k in range(min(len(r["obs"]) for r in recs)):
                            rws = "[" + "; ".join("(%s, %s)" % (C.flp_inst_term(batch[b]), S.bl(recs[b]["obs"][k]["chosen"])) for b in range(len(batch))) + "]"
                            ds = S.zll([[S.zs(x, S.DBITS) for x in recs[b]["obs"][k]["dist"]] for b in range(len(batch))])
                            bview.append("(%s, %s)" % (rws, ds))
                    except ValueError:
                        pass
                if not crash and envname in ("flp", "mcp") and (qshape == "B1" or envname == "mcp"):
                    for cnt, dn in raw:
                        if len(dn) == len(batch) and all(len(r) == len(batch) for r in dn):
                            dcases.append("(%s, %s, %s)" % (S.zl(cnt), S.zl([r["q"] for r in batch]), "[" + "; ".join(S.bl(r) for r in dn) + "]"))
        codes = C.coq_codes(ctx, "cases_C04_graph_%s" % envname, C.HDR_GRAPH,
                            "%s * list bool * list (nat * (list bool * bool))" % C.INST_TYPE[envname], "check_C04_%s" % envname, cases, shard=60)
        if codes is not None:
            coll.codes(envname, codes, metas, "corr")
        stats[envname] = {"compared": n_cmp, "model_rows": len(cases), "per_row_quota_compositions_failing": n_mixed_fail}
    codes = C.coq_codes(ctx, "cases_C04_graph_bview", C.HDR_GRAPH, "list (flp_inst * list bool) * list (list Z)", "check_flp_bview", bview, shard=40)
    if codes is not None:
        coll.codes("flp-batched-distances", codes, [{"kind": "flp_bview", "case": t[:500]} for t in bview], "corr")
    codes = C.coq_codes(ctx, "cases_C04_graph_done", C.HDR_GRAPH, "list Z * list Z * list (list bool)", "check_done_bxb", dcases, shard=80)
    if codes is not None:
        coll.codes("done-broadcast", codes, [{"kind": "done_bxb", "case": t[:300]} for t in dcases], "corr")
    stats["flp_batched_distance_steps"] = len(bview)
    stats["done_matrix_steps"] = len(dcases)
    return stats


def run_unit(ctx, proofs_ok):
    import torch
    t0 = time.time()
    rng = random.Random(ctx.rng.randrange(2 ** 62))
    torch.manual_seed(rng.randrange(2 ** 31))
    ctx.rule += (" [graph] per env (FLP, MCP: 3..6 locations / sets; DPP, MDPP: 2x2, 3x3 grids) instances X: solo, then forced through the "
                 "same selections at positions 0..2 of batches with strangers of the same size and quota, next to a copy of itself, and "
                 "(FLP/MCP) next to a stranger with another quota; to_choose as [B] and [B,1].")
    ctx.assumptions += [
        "graph unit: 'any batch' means rows of one tensor shape; with ONE quota per batch (all the bundled generators emit) the "
        "outcome of a row is its solo outcome; per-row quotas are admitted by the tensor format and violate C04 (open finding)",
    ]
    with C.Threads():
        coll = C.Collector(ctx, "C04", "graph")
        nx = C.budget(ctx, 3, 30)
        unit = _part(ctx, rng, torch, nx, coll)
        # the standing mechanism, re-found by its dedicated minimal experiment on every run
        for envname in ("mcp", "flp"):
            try:
                rec = S.mixed_quota_experiment(torch, envname)
            except Exception as e:  # noqa: BLE001  (e.g. an all-masked row: the experiment takes the first offered item)
                coll.fail(SIG % envname, {"kind": "mixed_quota", "env": envname, "what": "the minimal per-row-quota experiment (two copies of one "
                                          "instance, quotas 1 and 3, rl4co's loop) raised %s: %s" % (type(e).__name__, str(e)[:200])})
                unit["%s_mixed_quota_minimal_experiment_fails" % envname] = "raised"
                continue
            if S.mixed_quota_fails(rec):
                rec = dict(rec, what="per-row quotas in one batch: the env offers a finished row no inert action and rl4co's rollout loop "
                                     "steps until td['done'].all(); the row selects past its quota and is rewarded for the larger selection, "
                                     "so its outcome depends on the quota of its batch-mates")
                coll.fail(S.SIG_MIXED % envname, rec)
            unit["%s_mixed_quota_minimal_experiment_fails" % envname] = S.mixed_quota_fails(rec)
        others = [s for s in coll.best if "mixed-quota" not in s]
        if (coll.n_disagree or not proofs_ok or any("C04_graph" in b for b in ctx.broken)) and not others:
            unit["search"] = _part(ctx, rng, torch, 4 * nx, coll, count=False)
        unit["concrete_failures"] = coll.flush()
        unit["disagreements"] = coll.n_disagree
        unit["observables"] = ("mask after reset and every step, finishing step, reward: batched row vs solo run (implementation alone); row "
                               "models, FLP batched distance update and the done tensor vs their models in Coq")
        unit["wall_s_unit"] = round(time.time() - t0, 1)
        ctx.units["graph"] = unit


def replay(obj):
    return C.replay(obj)
