"""C03 -- generic driver over the environment adapters of vt/envs (see vt/envprops.py), plus any
vt/props/c03_<unit>.py units."""
from vt.envprops import run_env_property
from vt.props._units import run_units


def run(ctx, proofs_ok):
    run_env_property(ctx, proofs_ok, "C03")
    run_units(ctx, proofs_ok)


def replay(obj):
    from vt import envreplay
    return envreplay.replay(obj, "C03")
