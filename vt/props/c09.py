"""C09 -- improvement environments (TSPkoptEnv with k_max = 2 / 3 / 4 / ..., PDPRuinRepairEnv) keep tours valid and the
best-so-far bookkeeping exact.

Proof obligations : coq/theories/Properties/C09.v (models Env/Improve.v, ImproveTwoOpt.v, ImproveKopt.v,
                    ImproveKoptFinite.v, ImprovePDP.v).
Correspondence    : the real env.reset / env.step / env.step_to_solution are driven, in mixed batches and solo, through
                    long move sequences taken from the environment's own sampler (_random_action), from its move masks
                    (get_mask), from cost-guided improve-then-worsen phases, and from the bundled policies DACT / NeuOpt
                    / N2S with random weights.  After EVERY step rec_current, rec_best, visited_time, cost_current,
                    cost_bsf and reward are compared with the model evaluated inside Coq (Harness/HC09.v check_full);
                    the instance travels as its distance matrix (float32 values converted exactly to scaled integers),
                    so the model computes every cost itself.  The masks themselves are compared as full matrices, and
                    for k >= 3 the support of the sequential move builder is enumerated in Coq on small tours and
                    compared with what the sampler was seen to produce.
Spec-on-impl      : on every run the property's specification (single cycle, pickup before delivery, reported cost =
                    tour length, bsf = min of the costs seen = length of rec_best, reward = old - new bsf, telescoping
                    sum, visited_time = position) is evaluated on the implementation's own outputs, inside Coq
                    (check_spec) and independently here with exact rationals.
Search            : when the correspondence or a proof breaks and the stream itself showed no failing input, a larger
                    sample and the exhaustive small enumerations go through the python specification.
Numbers           : exact stream = integral point sets / 128 and collinear dyadic points (every float32 operation of
                    get_costs is exact: zero tolerance, self-checked); margin stream = generator output (tolerances
                    2^-16 * n on costs, 2^-18 on float32 differences)."""
import itertools
import json
from fractions import Fraction

from vt.common import Ctx, cbool, clist, coq_eval_shards

HEADER = ("From Coq Require Import List ZArith Bool Arith.\n"
          "From RL4CO Require Import Env.Improve Env.ImproveTwoOpt Env.ImprovePDP Env.ImproveKopt Harness.HC09.\n"
          "Import ListNotations.\n")

TAGS = {1: "move outside the model mask / move builder", 2: "rec_current differs", 3: "rec_best differs",
        4: "visited_time differs / is not the position in the tour", 5: "cost_bsf differs", 6: "reward differs / is not old - new bsf",
        7: "get_costs(rec_best) recomputed with the real function differs from cost_bsf", 8: "tour not valid",
        9: "cost_bsf is not the minimum of the costs seen", 10: "rewards do not sum to initial - best cost",
        11: "cost_current is not the length of the current tour", 12: "cost_bsf is not the length of the stored best tour",
        13: "wrong array length"}
SPEC_MECH = {4: "visited_time-is-not-the-position-in-the-tour", 6: "reward-is-not-the-decrease-of-cost_bsf",
             7: "cost_bsf-differs-from-cost-of-rec_best", 8: "tour-not-valid", 9: "cost_bsf-is-not-the-minimum-of-costs-seen",
             10: "rewards-do-not-sum-to-initial-minus-best", 11: "cost_current-is-not-the-length-of-the-current-tour",
             12: "cost_bsf-differs-from-cost-of-rec_best", 13: "tour-array-has-wrong-length"}
SIG_TWO_NODES = "tspkopt/k>=3: two-node-instance-sampler-move-yields-self-loops"

PTS = [(5, 0), (-5, 0), (9, 0), (-9, 0), (16, 0), (-16, 0), (35, 0), (-35, 0), (0, 12)]
EXACT_BITS = 7          # exact stream: every distance and every cost is a multiple of 1/128
MARGIN_BITS = 48        # margin stream: float32 values >= 2^-25 are exact on this grid; anything else is dropped and counted


# ------------------------------------------------------------------------------------------------ literals
def nl(xs):
    return "[" + "; ".join(str(int(x)) for x in xs) + "]"


def zlit(x):
    return "(%d)%%Z" % int(x)


def zs(x, bits):
    f = Fraction(float(x)) * (1 << bits)
    if f.denominator != 1:
        raise ValueError("value %r not on the 2^-%d grid" % (x, bits))
    return int(f)


def opk_lit(kind, k):
    return {"two_opt": "Op2", "pdp_rr": "OpPDP"}.get(kind) or "(OpK %d)" % k


def unit_name(kind, k):
    return {"two_opt": "tspkopt/k=2", "pdp_rr": "pdp_rr"}.get(kind) or "tspkopt/k>=3"


def obs_lit(o, bits):
    return "(Build_obs %s %s %s %s %s %s %s %s %s)" % (
        nl(o.get("action") or []), cbool(o.get("adm", False)), nl(o["rec_current"]), nl(o["rec_best"]), nl(o["vt"]),
        zlit(zs(o["cost_current"], bits)), zlit(zs(o["cost_bsf"], bits)), zlit(zs(o.get("reward", 0.0), bits)),
        zlit(zs(o["cost_of_best"], bits)))


def case_lit(row):
    bits = EXACT_BITS if row["exact"] else MARGIN_BITS
    D = "(" + "[" + "; ".join("[" + "; ".join(str(zs(x, bits)) for x in rv) + "]" for rv in row["D"]) + "]" + ")%Z"
    ctol, rtol = tolerances(row)
    steps = clist("(%s, %s)" % ("Some " + nl(s["to"]) if s.get("to") is not None else "None", obs_lit(s, bits))
                  for s in row["steps"])
    return "(%s, %s, (%s, %s), %s, %s, %s)" % (
        opk_lit(row["kind"], row["k"]), D, zlit(ctol_z(ctol, bits)), zlit(ctol_z(rtol, bits)), nl(row["init"]),
        obs_lit(row["obs0"], bits), steps)


def tolerances(row):
    if row["exact"]:
        return Fraction(0), Fraction(0)
    return Fraction(row["n"], 1 << 16), Fraction(1, 1 << 18)


def ctol_z(t, bits):
    t = Fraction(t) * (1 << bits)
    return -(-t.numerator // t.denominator)


# ------------------------------------------------------------------------------------------------ python specification
def succ_of_order(order):
    rec = [0] * len(order)
    for i, v in enumerate(order):
        rec[v] = order[(i + 1) % len(order)]
    return rec


def walk_from0(rec):
    n = len(rec)
    out, c = [], 0
    for _ in range(n):
        out.append(c)
        c = rec[c] if 0 <= c < n else -1
        if c < 0:
            break
    return out, c


def is_tour(rec):
    order, back = walk_from0(rec)
    return len(order) == len(rec) and len(set(order)) == len(rec) and back == 0


def pdp_precedence(rec):
    n = len(rec)
    h = n // 2
    order, _ = walk_from0(rec)
    pos = {v: i for i, v in enumerate(order)}
    return all(pos[j] < pos[j + h] for j in range(1, h + 1))


def tour_len(D, rec):
    order, _ = walk_from0(rec)
    return sum(Fraction(D[order[i]][order[(i + 1) % len(order)]]) for i in range(len(order)))


def py_spec(row):
    """the property's specification on the implementation's outputs of one row: list of (mechanism, step, detail)."""
    kind, n, D = row["kind"], row["n"], row["D"]
    ctol, rtol = tolerances(row)
    fails = []

    def valid(rec, what, k):
        if len(rec) != n:
            fails.append(("tour-array-has-wrong-length", k, {"which": what, "tour": rec}))
            return False
        if not is_tour(rec):
            fails.append(("%s-tour-is-not-a-single-cycle" % what, k, {"tour": rec}))
            return False
        if kind == "pdp_rr" and not pdp_precedence(rec):
            fails.append(("%s-tour-delivers-before-pickup" % what, k, {"tour": rec}))
            return False
        return True

    prev_bsf = None
    minseen = None
    sumrw = Fraction(0)
    c0 = None
    for k, o in enumerate([row["obs0"]] + row["steps"]):
        okc = valid(o["rec_current"], "current", k)
        okb = valid(o["rec_best"], "best", k)
        cc, cb = Fraction(o["cost_current"]), Fraction(o["cost_bsf"])
        if okc:
            order, _ = walk_from0(o["rec_current"])
            pos = {v: i for i, v in enumerate(order)}
            if o["vt"] != [n if v == 0 else pos[v] for v in range(n)]:
                fails.append(("visited_time-is-not-the-position-in-the-tour", k, {"tour": o["rec_current"], "visited_time": o["vt"]}))
            ln = tour_len(D, o["rec_current"])
            if abs(ln - cc) > ctol:
                fails.append(("cost_current-is-not-the-length-of-the-current-tour", k,
                              {"tour": o["rec_current"], "cost_current": o["cost_current"], "length": float(ln)}))
        if okb:
            ln = tour_len(D, o["rec_best"])
            if abs(ln - cb) > ctol or o["cost_of_best"] != o["cost_bsf"]:
                fails.append(("cost_bsf-differs-from-cost-of-rec_best", k,
                              {"rec_best": o["rec_best"], "cost_bsf": o["cost_bsf"], "length_of_rec_best": float(ln),
                               "get_costs(rec_best)": o["cost_of_best"]}))
        if k == 0:
            c0 = cc
            minseen = cc
            if cb != cc:
                fails.append(("cost_bsf-is-not-the-minimum-of-costs-seen", 0, {"cost_current": o["cost_current"], "cost_bsf": o["cost_bsf"]}))
        else:
            minseen = min(minseen, cc)
            if cb > prev_bsf:
                fails.append(("cost_bsf-increases", k, {"before": float(prev_bsf), "after": o["cost_bsf"]}))
            if cb != minseen:
                fails.append(("cost_bsf-is-not-the-minimum-of-costs-seen", k,
                              {"cost_bsf": o["cost_bsf"], "min_of_costs_seen": float(minseen)}))
            rw = Fraction(o["reward"])
            if abs((prev_bsf - cb) - rw) > rtol:
                fails.append(("reward-is-not-the-decrease-of-cost_bsf", k,
                              {"reward": o["reward"], "bsf_before": float(prev_bsf), "bsf_after": o["cost_bsf"]}))
            sumrw += rw
        prev_bsf = cb
    if abs(sumrw - (c0 - prev_bsf)) > rtol * (len(row["steps"]) + 1):
        fails.append(("rewards-do-not-sum-to-initial-minus-best", len(row["steps"]),
                      {"sum_of_rewards": float(sumrw), "initial": float(c0), "best": float(prev_bsf)}))
    return fails


# ------------------------------------------------------------------------------------------------ real environments
class Envs:
    def __init__(self, torch):
        self.torch = torch
        self.cache = {}
        self.pol = {}

    def get(self, kind, n, k, init="random"):
        from rl4co.envs.routing.pdp.env import PDPRuinRepairEnv
        from rl4co.envs.routing.tsp.env import TSPkoptEnv
        key = (kind, n, k, init)
        if key not in self.cache:
            if kind == "pdp_rr":
                env = PDPRuinRepairEnv(generator_params=dict(num_loc=n - 1, init_sol_type=init))
            else:
                env = TSPkoptEnv(generator_params=dict(num_loc=n, init_sol_type=init), k_max=k)
            self.cache[key] = env
        return self.cache[key]

    def policy(self, kind):
        torch = self.torch
        if kind not in self.pol:
            kw = dict(embed_dim=32, num_encoder_layers=1, num_heads=2, feedforward_hidden=32)
            if kind == "two_opt":
                from rl4co.models.zoo.dact.policy import DACTPolicy
                p = DACTPolicy(**kw)
            elif kind == "pdp_rr":
                from rl4co.models.zoo.n2s.policy import N2SPolicy
                p = N2SPolicy(**kw)
            else:
                from rl4co.models.zoo.neuopt.policy import NeuOptPolicy
                p = NeuOptPolicy(**kw)
            self.pol[kind] = p.eval()
        return self.pol[kind]


def make_locs(rng, torch, n, kind):
    """n points (float pairs) of one of the exact kinds"""
    if kind == "pts":        # integral point set / 128, duplicates allowed: all pairwise distances are integers / 128
        pts = [rng.choice(PTS) for _ in range(n)]
        return [[(x + 35) / 128.0, y / 128.0] for x, y in pts]
    if kind == "line":       # collinear dyadic points: distances |dx|
        y = rng.randint(0, 128) / 128.0
        return [[rng.randint(0, 128) / 128.0, y] for _ in range(n)]
    if kind == "same":       # every cost is 0: ties only
        p = [rng.randint(0, 128) / 128.0, rng.randint(0, 128) / 128.0]
        return [list(p) for _ in range(n)]
    raise ValueError(kind)


def instance_td(torch, rng, env, kind, n, B, kinds):
    """generator batch with the rows of an exact kind overwritten"""
    td0 = env.generator(batch_size=[B])
    for r, kd in enumerate(kinds):
        if kd == "gen":
            continue
        pts = torch.tensor(make_locs(rng, torch, n, kd), dtype=torch.float32)
        if kind == "pdp_rr":
            td0["depot"][r] = pts[0]
            td0["locs"][r] = pts[1:]
        else:
            td0["locs"][r] = pts
    return td0


def td_from_rows(torch, kind, rows_locs):
    from tensordict import TensorDict
    locs = torch.tensor(rows_locs, dtype=torch.float32)
    if kind == "pdp_rr":
        return TensorDict({"depot": locs[:, 0, :].clone(), "locs": locs[:, 1:, :].clone()}, batch_size=[locs.shape[0]])
    return TensorDict({"locs": locs}, batch_size=[locs.shape[0]])


def snapshot(torch, env, td, first=False):
    cob = env.get_costs(td["locs"], td["rec_best"]).tolist()
    rc, rb, vt = td["rec_current"].tolist(), td["rec_best"].tolist(), td["visited_time"].tolist()
    cc, cb = td["cost_current"].reshape(-1).tolist(), td["cost_bsf"].reshape(-1).tolist()
    rw = [0.0] * len(rc) if first else td["reward"].reshape(-1).tolist()
    return [{"rec_current": rc[r], "rec_best": rb[r], "vt": vt[r], "cost_current": cc[r], "cost_bsf": cb[r],
             "reward": rw[r], "cost_of_best": cob[r]} for r in range(len(rc))]


def rep_td(torch, td, M):
    from tensordict import TensorDict
    keys = [k for k in ("locs", "rec_current", "rec_best", "visited_time", "cost_current", "cost_bsf") if k in td.keys()]
    B = td["rec_current"].shape[0]
    return TensorDict({k: td[k].repeat_interleave(M, 0) for k in keys}, batch_size=[B * M])


def mask_moves(torch, rng, env, kind, td):
    """one uniformly chosen admitted move per row, from the environment's own mask"""
    B, n = td["rec_current"].shape
    if kind == "two_opt":
        m = env.get_mask(td)
        acts = []
        for r in range(B):
            idx = m[r].reshape(-1).nonzero().reshape(-1).tolist()
            j = rng.choice(idx)
            acts.append([j // n, j % n])
        return torch.tensor(acts, dtype=torch.int64)
    sel = torch.tensor([[rng.randrange(n // 2)] for _ in range(B)], dtype=torch.int64)
    m = env.get_mask(sel + 1, td)
    acts = []
    for r in range(B):
        idx = m[r].reshape(-1).nonzero().reshape(-1).tolist()
        mode = rng.random()
        if mode < 0.15:          # boundary: pickup and delivery re-inserted after the same node
            same = [j for j in idx if j // n == j % n]
            idx = same or idx
        j = rng.choice(idx)
        acts.append([int(sel[r, 0]), j // n, j % n])
    return torch.tensor(acts, dtype=torch.int64)


def guided_moves(torch, env, td, M, worsen):
    """per row the best (or worst) of M moves of the environment's own sampler, by resulting cost"""
    B = td["rec_current"].shape[0]
    big = rep_td(torch, td, M)
    cand = env._random_action(big)
    res = env._local_operator(big["rec_current"], cand)
    cost = env.get_costs(big["locs"], res).reshape(B, M)
    pick = cost.argmax(1) if worsen else cost.argmin(1)
    return cand.reshape(B, M, -1)[torch.arange(B), pick]


def random_tour(rng, kind, n):
    if kind != "pdp_rr":
        order = [0] + rng.sample(range(1, n), n - 1)
        return succ_of_order(order)
    h = n // 2
    order = [0]
    todo = list(range(1, h + 1))
    carried = []
    while todo or carried:
        if todo and (not carried or rng.random() < 0.5):
            j = todo.pop(rng.randrange(len(todo)))
            order.append(j)
            carried.append(j + h)
        else:
            order.append(carried.pop(rng.randrange(len(carried))))
    return succ_of_order(order)


def make_plan(rng, kind, style, T):
    has_mask = kind in ("two_opt", "pdp_rr")
    if style == "sampler":
        plan = ["S"] * T
    elif style == "mask":
        plan = ["M" if has_mask else "S"] * T
    elif style == "policy":
        plan = ["P"] * T
    elif style == "guided":      # improve-then-worsen phases
        plan = []
        while len(plan) < T:
            plan += ["I"] * rng.randint(1, 3) + ["W"] * rng.randint(1, 3) + ["S"] * rng.randint(0, 2)
        plan = plan[:T]
    else:                        # mixed
        alphabet = ["S", "S", "I", "W", "P"] + (["M", "M"] if has_mask else [])
        plan = [rng.choice(alphabet) for _ in range(T)]
    if style != "policy":
        for t in range(T):
            u = rng.random()
            if u < 0.04:
                plan[t] = "B"    # step_to_solution(td, td["rec_best"])  (restart from the best tour)
            elif u < 0.07:
                plan[t] = "T"    # step_to_solution(td, a fresh valid tour)
    return plan


def drive(torch, rng, envs, kind, n, k, init, td0, plan, info, forced_init=None, script=None):
    """reset + the planned steps on one batch.  Returns (rows, crash).  `script` (replay): per step a list of per-row
    {"to": tour | None, "action": [...]} used instead of the plan."""
    env = envs.get(kind, n, k, init)
    saved = None
    if forced_init is not None:      # replay only: start from the recorded initial tours
        saved = env.generator._get_initial_solutions
        env.generator._get_initial_solutions = lambda coords: torch.tensor(forced_init, dtype=torch.int64)
    try:
        td = env.reset(td0.clone())
    finally:
        if saved is not None:
            env.generator._get_initial_solutions = saved
    B = td["rec_current"].shape[0]
    locs = td["locs"]
    Dm = (locs[:, None, :, :] - locs[:, :, None, :]).norm(p=2, dim=3).tolist()      # D[i][j] = |locs[j] - locs[i]|
    snap = snapshot(torch, env, td, first=True)
    rows = [{"kind": kind, "k": k, "n": n, "init_sol_type": init, "locs": locs[r].tolist(), "D": Dm[r],
             "init": snap[r]["rec_current"], "obs0": snap[r], "steps": [], "plan": "".join(plan), "batch": dict(info, B=B, row=r)}
            for r in range(B)]
    crash = None
    masks = []
    steps_iter = script if script is not None else plan
    for t, src in enumerate(steps_iter):
        try:
            if script is not None:
                if src[0].get("to") is not None:
                    target = torch.tensor([s["to"] for s in src], dtype=torch.int64)
                    td = env.step_to_solution(td, target)
                    acts, tos, adm = None, target.tolist(), False
                else:
                    a = torch.tensor([s["action"] for s in src], dtype=torch.int64)
                    td.set("action", a)
                    td = env.step(td)["next"]
                    acts, tos, adm = a.tolist(), None, True
            elif src in ("B", "T"):
                if src == "B":
                    target = td["rec_best"]
                    tos = target.tolist()
                else:
                    tos = [random_tour(rng, kind, n) for _ in range(B)]
                    target = torch.tensor(tos, dtype=torch.int64)
                td = env.step_to_solution(td, target)
                acts, adm = None, False
            else:
                if src == "S":
                    a = env._random_action(td)
                elif src == "M":
                    a = mask_moves(torch, rng, env, kind, td)
                    if kind == "pdp_rr" and len(masks) < 2 and rng.random() < 0.3:
                        r = rng.randrange(B)
                        p = int(a[r, 0]) + 1
                        m = env.get_mask(a[:, :1] + 1, td)[r].tolist()
                        masks.append(("pdp", td["rec_current"][r].tolist(), p, m))
                elif src in ("I", "W"):
                    a = guided_moves(torch, env, td, 12, src == "W")
                else:
                    with torch.no_grad():
                        kw = {"decode_type": "greedy"} if info.get("greedy") else {}
                        envs.policy(kind)(td, env, phase="test", **kw)
                    a = td["action"]
                a = a.clone()
                td.set("action", a)
                td = env.step(td)["next"]
                acts, tos, adm = a.tolist(), None, True
        except Exception as e:      # every move came from the env's own sampler / mask / policies: must not raise
            crash = {"step": t + 1, "source": src if script is None else "script", "error": "%s: %s" % (type(e).__name__, str(e)[:300])}
            break
        snap = snapshot(torch, env, td)
        for r in range(B):
            o = snap[r]
            o["action"] = acts[r] if acts is not None else []
            o["to"] = tos[r] if tos is not None else None
            o["adm"] = adm
            rows[r]["steps"].append(o)
    if kind == "two_opt" and script is None:
        masks.append(("two_opt", n, env.get_mask(td)[rng.randrange(B)].tolist()))
    return rows, crash, masks


def finish_row(row):
    """exactness self-check: a row is on the exact stream iff every distance and every reported number is a multiple of
    1/128 and every reported cost equals the exact rational tour length."""
    ok = all((Fraction(x) * 128).denominator == 1 for rv in row["D"] for x in rv)
    if ok:
        for o in [row["obs0"]] + row["steps"]:
            vals = [o["cost_current"], o["cost_bsf"], o["reward"], o["cost_of_best"]]
            if any((Fraction(v) * 128).denominator != 1 for v in vals):
                ok = False
                break
    row["exact"] = ok
    return row


def nontrivial(row):
    """>= 2 operator moves, and the best-so-far both improved at some step and a later step was worse than the best"""
    moves = [s for s in row["steps"] if s.get("to") is None]
    improved_at = [i for i, s in enumerate(row["steps"]) if s["reward"] > 0]
    itw = any(row["steps"][j]["cost_current"] > row["steps"][j]["cost_bsf"] for i in improved_at for j in range(i + 1, len(row["steps"])))
    return len(moves) >= 2, itw


def replay_of(row, upto=None, batch_rows=None):
    steps = row["steps"] if upto is None else row["steps"][:upto]
    obj = {"kind": "episode", "env": "PDPRuinRepairEnv" if row["kind"] == "pdp_rr" else "TSPkoptEnv",
           "op": row["kind"], "k_max": row["k"], "n": row["n"], "init_sol_type": row["init_sol_type"],
           "rows": [{"locs": r["locs"], "locs_hex": [[float(x).hex() for x in p] for p in r["locs"]], "init": r["init"],
                     "steps": [{"to": s.get("to"), "action": s.get("action")} for s in (r["steps"] if upto is None else r["steps"][:upto])]}
                    for r in (batch_rows or [row])],
           "row": row["batch"]["row"] if batch_rows else 0, "plan": row.get("plan"), "batch": row["batch"],
           "observed_last": {k: v for k, v in (steps[-1] if steps else row["obs0"]).items() if k != "adm"}}
    return obj


# ------------------------------------------------------------------------------------------------ collection of cases
class Collector:
    def __init__(self, ctx, torch, envs, searching=False):
        self.ctx, self.torch, self.envs, self.searching = ctx, torch, envs, searching
        self.rows = {"two_opt": [], "k_opt": [], "pdp_rr": []}
        self.fails = []          # (signature, replay_obj, size)
        self.masks = []
        self.dropped = 0
        self.failed_rows = set()      # id(row) of rows on which the python specification already failed

    def add_batch(self, rows, crash, masks, rng):
        ctx = self.ctx
        self.masks += masks
        if crash:
            r0 = rows[0]
            obj = replay_of(r0, batch_rows=rows)
            obj.update({"mechanism": "step-raises", "crash": crash})
            sig = "%s: step-raises-on-a-move-of-its-own-sampler-mask-or-policy" % unit_name(r0["kind"], r0["k"])
            if len(rows) == 1 and r0["kind"] == "pdp_rr" and "single memory location" in crash["error"]:
                sig = BATCH1["pdp_step"][0]
            elif len(rows) == 1 and r0["kind"] == "k_opt" and crash["source"] in ("S", "I", "W") and crash["error"].startswith("IndexError"):
                sig = BATCH1["kopt_sampler"][0]
            self.fails.append((sig, obj, 0))
            ctx.count("batches_raised")
        for row in rows:
            finish_row(row)
            fails = py_spec(row)
            if fails:
                self.failed_rows.add(id(row))
                self.report(row, rows, fails, rng)
            two, itw = nontrivial(row)
            key = {"k": row["kind"], "kk": row["k"], "l": row["locs"], "i": row["init"],
                   "s": [(s.get("to"), s.get("action")) for s in row["steps"]], "B": row["batch"]["B"]}
            ctx.seen(key, nontrivial=two)
            p = "search_" if self.searching else ""
            ctx.count(p + "%s_rows" % row["kind"])
            ctx.count(p + "%s_steps" % row["kind"], len(row["steps"]))
            if not self.searching:
                ctx.count("rows_%s_stream" % ("exact" if row["exact"] else "margin"))
                ctx.count("rows_with_improve_then_worsen", 1 if itw else 0)
                ctx.count("steps_improving_bsf", sum(1 for s in row["steps"] if s["reward"] > 0))
                ctx.count("steps_with_cost_equal_to_bsf_tie", sum(1 for i, s in enumerate(row["steps"]) if s["reward"] == 0 and s["cost_current"] == s["cost_bsf"]))
                ctx.count("steps_step_to_solution", sum(1 for s in row["steps"] if s.get("to") is not None))
                ctx.count("rows_%s" % ("solo" if row["batch"]["B"] == 1 else "batched"))
                ctx.count("style_%s" % row["batch"].get("style", "?"))
                ctx.count("size_n%02d" % row["n"])
            self.rows["k_opt" if row["kind"] == "k_opt" else row["kind"]].append(row)

    def report(self, row, batch_rows, fails, rng):
        """one entry per mechanism: the earliest step; try to reproduce solo for a minimal replay"""
        best = {}
        for mech, step, detail in fails:
            if mech not in best or step < best[mech][0]:
                best[mech] = (step, detail)
        for mech, (step, detail) in best.items():
            obj = None
            if len(batch_rows) > 1:
                solo = self.solo_rerun(row, step)
                if solo is not None and any(m == mech for m, _, _ in py_spec(solo)):
                    obj = replay_of(solo, upto=step)
                    obj["reproduces_solo"] = True
            if obj is None:
                obj = replay_of(row, upto=step, batch_rows=batch_rows if len(batch_rows) > 1 else None)
                obj["reproduces_solo"] = len(batch_rows) == 1
            obj.update({"mechanism": mech, "step": step, "detail": detail,
                        "what": "the property's specification evaluated on the implementation's own outputs is false"})
            size = step * 100 + row["n"] + (0 if obj["reproduces_solo"] else 10 ** 6)
            self.fails.append(("%s: %s" % (unit_name(row["kind"], row["k"]), mech), obj, size))

    def solo_rerun(self, row, upto):
        torch = self.torch
        try:
            copies = 1
            td0 = td_from_rows(torch, row["kind"], [row["locs"]] * copies)
            script = [[{"to": s.get("to"), "action": s.get("action")}] * copies for s in row["steps"][:max(upto, 1)]]
            rows, crash, _ = drive(torch, None, self.envs, row["kind"], row["n"], row["k"], row["init_sol_type"], td0, [],
                                   {"style": "solo-rerun"}, forced_init=[row["init"]] * copies, script=script)
            return finish_row(rows[0])
        except Exception:
            return None


def generate(ctx, torch, rng, envs, col, n_batches, sizes, T_range, kinds_k, policies=True, around=None):
    turn = {}
    for b in range(n_batches):
        kind, k = kinds_k[b % len(kinds_k)]          # round-robin over operators, and over styles per operator
        if around and b % 2 == 0:
            kind, k = around["kind"], around["k"]
        n = rng.choice(sizes)
        if around and b % 4 == 0:
            n = around["n"]
        if kind == "pdp_rr":
            n = max(3, n | 1)          # n = 2h + 1
        styles = ["sampler", "guided", "mixed", "mixed"] + (["mask", "mask"] if kind != "k_opt" else ["sampler"])
        if policies and n >= (5 if kind == "pdp_rr" else 4):
            styles += ["policy", "policy"]
        turn[kind] = turn.get(kind, -1) + 1
        style = styles[turn[kind] % len(styles)]
        T = rng.randint(*T_range)
        if style == "policy":
            T = min(T, 25)
        plan = make_plan(rng, kind, style, T)
        if n < (5 if kind == "pdp_rr" else 4):
            plan = [("S" if s == "P" else s) for s in plan]
        B = 1 if (b % 4 == 3 or (style == "sampler" and turn[kind] % 2 == 0)) else rng.randint(2, 6)
        if B == 1 and kind != "two_opt" and "P" in plan:
            # NeuOptPolicy / N2SPolicy raise at batch size 1 (out_of_scope_observations): the env sampler stands in
            ctx.count("policy_steps_replaced_by_sampler_at_batch_size_1", plan.count("P"))
            plan = [("S" if x == "P" else x) for x in plan]
        init = "greedy" if rng.random() < 0.25 else "random"
        env = envs.get(kind, n, k, init)
        kinds = [rng.choice(["pts", "pts", "line", "gen", "gen", "gen", "same"] if rng.random() < 0.9 else ["same"]) for _ in range(B)]
        td0 = instance_td(torch, rng, env, kind, n, B, kinds)
        info = {"style": style, "loc_kinds": kinds, "greedy": style == "policy" and rng.random() < 0.2}
        rows, crash, masks = drive(torch, rng, envs, kind, n, k, init, td0, plan, info)
        col.add_batch(rows, crash, masks, rng)
        if b % 5 == 0 and B > 1 and not crash:       # the first row again, solo, same initial tour and same moves
            r0 = rows[0]
            copies = 1
            script = [[{"to": s.get("to"), "action": s.get("action")}] * copies for s in r0["steps"]]
            srows, scrash, _ = drive(torch, rng, envs, kind, n, k, init, td_from_rows(torch, kind, [r0["locs"]] * copies), [],
                                     {"style": "solo-replay-of-batched-row"}, forced_init=[r0["init"]] * copies, script=script)
            col.add_batch(srows[:1], scrash, [], rng)
            # solo and batched must have seen the same thing (same tours; costs up to the summation order)
            same = all(a["rec_current"] == c["rec_current"] and a["rec_best"] == c["rec_best"] for a, c in zip(r0["steps"], srows[0]["steps"]))
            ctx.count("solo_replays")
            if not same and not scrash:
                gap = min((abs(a["cost_current"] - a["cost_bsf"]) for a in r0["steps"] if a["cost_current"] != a["cost_bsf"]), default=1.0)
                if r0["exact"] or gap > 1e-4:
                    obj = replay_of(r0, batch_rows=rows)
                    obj.update({"mechanism": "row-depends-on-batch-mates", "solo_last": srows[0]["steps"][-1] if srows[0]["steps"] else None})
                    col.fails.append(("%s: tours-of-a-row-depend-on-its-batch-mates" % unit_name(kind, k), obj, 10 ** 6))
                else:
                    ctx.count("solo_replays_ill_conditioned")


def enumerate_small(ctx, torch, rng, envs, col, spec):
    """all tours of small instances x all moves of the mask (2-opt, PDP) as two-step episodes
    reset -> step_to_solution(tour) -> move, in batches of <= 64 rows on an exact instance."""
    for kind, n in spec:
        k = 2
        h = n // 2
        if kind == "two_opt":
            tours = [succ_of_order([0] + list(p)) for p in itertools.permutations(range(1, n))]
            moves = [[a, c] for a in range(n) for c in range(n) if a != c]
            per = [(t, m) for t in tours for m in moves]
        else:
            tours = []
            for p in itertools.permutations(range(1, n)):
                rec = succ_of_order([0] + list(p))
                if pdp_precedence(rec):
                    tours.append(rec)
            per = None
        env = envs.get(kind, n, k, "random")
        if per is None:         # PDP: the admitted (first, second) come from the env's own mask for every removed pair
            per = []
            td = env.reset(td_from_rows(torch, kind, [make_locs(rng, torch, n, "pts")] * len(tours)))
            td = env.step_to_solution(td, torch.tensor(tours, dtype=torch.int64))
            for sel in range(h):
                m = env.get_mask(torch.full((len(tours), 1), sel + 1, dtype=torch.int64), td)
                for r, t in enumerate(tours):
                    for j in m[r].reshape(-1).nonzero().reshape(-1).tolist():
                        per.append((t, [sel, j // n, j % n]))
                if sel == 0:
                    for r in range(0, len(tours), max(1, len(tours) // 4)):
                        col.masks.append(("pdp", tours[r], sel + 1, m[r].tolist()))
        ctx.count("enumerated_%s_n%d_tour_x_move" % (kind, n), len(per))
        locs = make_locs(rng, torch, n, "pts")
        for c in range(0, len(per), 64):
            chunk = per[c:c + 64]
            script = [[{"to": t, "action": None} for t, _ in chunk], [{"to": None, "action": m} for _, m in chunk]]
            rows, crash, masks = drive(torch, rng, envs, kind, n, k, "random", td_from_rows(torch, kind, [locs] * len(chunk)), [],
                                       {"style": "enumeration"}, script=script)
            col.add_batch(rows, crash, masks, rng)


def kopt_support(ctx, torch, rng, envs, spec, samples):
    """k >= 3: for every tour of small n, the distinct actions the env's sampler produced in `samples` draws; Coq enumerates
    the model builder's whole support on the same tour (Harness/HC09.v check_support)."""
    cases, meta = [], []
    for k, n in spec:
        env = envs.get("k_opt", n, k, "random")
        tours = [succ_of_order([0] + list(p)) for p in itertools.permutations(range(1, n))]
        td = env.reset(td_from_rows(torch, "k_opt", [make_locs(rng, torch, n, "pts")] * len(tours)))
        td = env.step_to_solution(td, torch.tensor(tours, dtype=torch.int64))
        big = rep_td(torch, td, samples)
        acts = env._random_action(big).reshape(len(tours), samples, -1).tolist()
        for t, al in zip(tours, acts):
            distinct = sorted(set(tuple(a) for a in al))
            cases.append("(%d, %s, %s)" % (k, nl(t), clist(nl(a) for a in distinct)))
            meta.append({"k": k, "n": n, "tour": t, "impl_distinct": len(distinct), "actions": [list(a) for a in distinct]})
    return cases, meta


def two_node_probe(torch, envs, k=3, tries=40):
    """TSPkoptEnv(num_loc=2, k_max=k): the env's own sampler on the only tour [1, 0]"""
    env = envs.get("k_opt", 2, k, "random")
    locs = [[0.25, 0.5], [0.75, 0.5]]
    td = env.reset(td_from_rows(torch, "k_opt", [locs]))
    rec0 = td["rec_current"][0].tolist()
    for _ in range(tries):
        before = td["rec_current"][0].tolist()
        try:
            a = env._random_action(td).clone()
            td = env.step(td)["next"]
        except Exception as e:
            # a raise here is the business of the batch-size-1 probes / the episode stream, not of this finding
            return {"kind": "two_nodes", "k_max": k, "n": 2, "locs": locs, "error": "%s: %s" % (type(e).__name__, str(e)[:200]), "fails": False,
                    "observed": "the sampler / step raises"}
        after = td["rec_current"][0].tolist()
        if not is_tour(after):
            return {"kind": "two_nodes", "env": "TSPkoptEnv", "k_max": k, "n": 2, "locs": locs, "tour_before": before, "action": a[0].tolist(),
                    "tour_after": after, "cost_current": float(td["cost_current"][0]), "fails": True,
                    "expected": "a single cycle through both nodes ([1, 0])",
                    "observed": "rec_current = %s (two self-loops), cost_current = %r" % (after, float(td["cost_current"][0])),
                    "coq": "Properties/C09.v C09_k_opt_two_nodes_refuted"}
    return {"kind": "two_nodes", "k_max": k, "n": 2, "locs": locs, "tour_before": rec0, "fails": False}


BATCH1 = {      # in scope of C09: the environment's own step / sampler (repaired by fe089c4 / a3d4cc5; reported if the crash returns)
    "pdp_step": ("pdp_rr: step-raises-at-batch-size-1", "PDPRuinRepairEnv.step (any admitted move) on a batch of one instance"),
    "kopt_sampler": ("tspkopt/k>=3: _random_action-raises-at-batch-size-1", "TSPkoptEnv(k_max=3)._random_action on a batch of one instance"),
}
BATCH1_OUT_OF_SCOPE = {      # a policy that raises produces no move: recorded in the evidence only, never a failure of C09
    "neuopt_forward": "NeuOptPolicy.forward on a batch of one instance",
    "n2s_forward": "N2SPolicy.forward on a batch of one instance",
    "dact_forward": "DACTPolicy.forward on a batch of one instance",
}


def batch1_probe(torch, envs, which, n=7):
    """the same calls that work for B >= 2, on a batch of one instance; returns a replay record"""
    kind, k = {"pdp_step": ("pdp_rr", 2), "kopt_sampler": ("k_opt", 3), "neuopt_forward": ("k_opt", 3),
               "n2s_forward": ("pdp_rr", 2), "dact_forward": ("two_opt", 2)}[which]
    env = envs.get(kind, n, k, "random")
    out = {"kind": "batch1", "which": which, "call": BATCH1[which][1] if which in BATCH1 else BATCH1_OUT_OF_SCOPE[which], "n": n, "k_max": k}
    for B in (2, 1):
        err = None
        try:
            td = env.reset(batch_size=[B])
            if which == "pdp_step":       # the move comes from the env's own mask; only the step is under test
                sel = torch.zeros(B, 1, dtype=torch.int64)
                m = env.get_mask(sel + 1, td)
                j = int(m[0].reshape(-1).nonzero()[0])
                td.set("action", torch.tensor([[0, j // n, j % n]] * B, dtype=torch.int64))
                env.step(td)
            elif which == "kopt_sampler":
                env._random_action(td)
                env.step(td)
            else:
                with torch.no_grad():
                    envs.policy(kind)(td, env, phase="test")
                env.step(td)
        except Exception as e:
            err = "%s: %s" % (type(e).__name__, str(e)[:300])
        out["batch_size_%d" % B] = err or "ok"
    out["fails"] = out["batch_size_1"] != "ok" and out["batch_size_2"] == "ok"
    out["expected"] = "the call succeeds on a batch of one instance as it does on two"
    out["observed"] = "B=2: %s; B=1: %s" % (out["batch_size_2"], out["batch_size_1"])
    return out


def batch1_grid(torch):
    """PDPRuinRepairEnv.step and TSPkoptEnv._random_action on batches of 1, 2, 3 instances (training and eval mode:
    the shape of action_record depends on it): did the call raise?  Compared with Env/ImproveBatch1.v."""
    from rl4co.envs.routing.pdp.env import PDPRuinRepairEnv
    from rl4co.envs.routing.tsp.env import TSPkoptEnv
    shift, kopt = [], []
    for train in (True, False):
        for n in (3, 5, 7, 9):
            for B in (1, 2, 3):
                env = PDPRuinRepairEnv(generator_params=dict(num_loc=n - 1))
                env.train(train)
                td = env.reset(batch_size=[B])
                L, h = td["action_record"].shape[1:]
                sel = torch.zeros(B, 1, dtype=torch.int64)
                j = int(env.get_mask(sel + 1, td)[0].reshape(-1).nonzero()[0])
                td.set("action", torch.tensor([[0, j // n, j % n]] * B, dtype=torch.int64))
                try:
                    env.step(td)
                    raised = False
                except Exception:
                    raised = True
                shift.append((B, int(L), int(h), raised))
    for k in (3, 4, 5):
        for B in (1, 2, 3):
            env = TSPkoptEnv(generator_params=dict(num_loc=6), k_max=k)
            td = env.reset(batch_size=[B])
            try:
                env._random_action(td)
                raised = False
            except Exception:
                raised = True
            kopt.append((B, k, raised))
    return shift, kopt


# ------------------------------------------------------------------------------------------------ evaluation in Coq
def evaluate(ctx, col, shard):
    coq_spec_fail = 0
    for unit, rows in col.rows.items():
        if not rows:
            ctx.broken.append("correspondence C09/%s: no case could be generated" % unit)
            continue
        cases, kept = [], []
        for row in rows:
            try:
                cases.append(case_lit(row))
                kept.append(row)
            except ValueError:
                col.dropped += 1
                ctx.count("rows_dropped_unrepresentable")
        try:
            codes = coq_eval_shards("cases_C09_%s" % unit, HEADER, "full_case", "check_both", cases, shard=shard)
        except RuntimeError as e:
            ctx.broken.append("correspondence C09/%s could not be evaluated: %s" % (unit, str(e)[-800:]))
            ctx.units[unit] = {"cases": len(cases), "evaluated": False}
            continue
        full = [(i, c % 10 ** 9) for i, c in enumerate(codes) if c % 10 ** 9 != 0]
        spec = [(i, c // 10 ** 9) for i, c in enumerate(codes) if c // 10 ** 9 != 0]
        ctx.units[unit] = {"cases": len(codes), "steps": sum(len(r["steps"]) for r in kept), "disagreements": len(full),
                           "coq_spec_on_impl_failures": len(spec)}
        if full:
            i, c = full[0]
            row = kept[i]
            ctx.broken.append("correspondence C09/%s: model and implementation differ on %d of %d cases; first: case %d code %d "
                              "(step %d: %s) n=%d k=%d plan=%s batch=%s" % (
                                  unit, len(full), len(codes), i, c, c // 1000, TAGS.get(c % 1000, "?"), row["n"], row["k"],
                                  row["plan"][:60], row["batch"]))
            ctx.extra.setdefault("first_disagreements", []).append(
                {"unit": unit, "code": c, "tag": TAGS.get(c % 1000, "?"), "case": replay_of(row, upto=max(c // 1000, 1))})
        for i, c in spec:
            row = kept[i]
            coq_spec_fail += 1
            mech = SPEC_MECH.get(c % 1000, "specification-false")
            sig_unit = unit_name(row["kind"], row["k"])
            if id(row) not in col.failed_rows:       # seen by the Coq specification only
                obj = replay_of(row, upto=max(c // 1000, 1))
                obj.update({"mechanism": mech, "step": c // 1000, "detail": {"coq_code": c, "tag": TAGS.get(c % 1000, "?")},
                            "what": "the Coq specification (check_spec) evaluated on the implementation's own outputs is false"})
                col.fails.append(("%s: %s" % (sig_unit, mech), obj, (c // 1000) * 100 + row["n"] + 2 * 10 ** 6))
    return coq_spec_fail


def evaluate_masks(ctx, col):
    two = [m for m in col.masks if m[0] == "two_opt"]
    pdp = [m for m in col.masks if m[0] == "pdp"]

    def mat(m):
        return "[" + "; ".join("[" + "; ".join(cbool(x) for x in rv) + "]" for rv in m) + "]"
    out = {}
    try:
        if two:
            codes = coq_eval_shards("cases_C09_mask2", HEADER, "nat * list (list bool)", "check_two_opt_mask",
                                    ["(%d, %s)" % (n, mat(m)) for _, n, m in two], shard=60)
            out["two_opt_mask_matrices"] = {"cases": len(codes), "disagreements": sum(1 for c in codes if c)}
            if any(codes):
                i = next(i for i, c in enumerate(codes) if c)
                ctx.broken.append("correspondence C09/two_opt get_mask: mask matrix differs from the model (n=%d)" % two[i][1])
                ctx.extra.setdefault("mask_disagreements", []).append({"op": "two_opt", "n": two[i][1], "impl_mask": two[i][2]})
        if pdp:
            codes = coq_eval_shards("cases_C09_maskp", HEADER, "list nat * nat * list (list bool)", "check_pdp_mask",
                                    ["(%s, %d, %s)" % (nl(rec), p, mat(m)) for _, rec, p, m in pdp], shard=60)
            out["pdp_mask_matrices"] = {"cases": len(codes), "disagreements": sum(1 for c in codes if c)}
            if any(codes):
                i = next(i for i, c in enumerate(codes) if c)
                ctx.broken.append("correspondence C09/pdp_rr get_mask: mask matrix differs from the model (tour %s, selected node %d)" % (pdp[i][1], pdp[i][2]))
                ctx.extra.setdefault("mask_disagreements", []).append({"op": "pdp_rr", "tour": pdp[i][1], "selected_node": pdp[i][2], "impl_mask": pdp[i][3]})
    except RuntimeError as e:
        ctx.broken.append("correspondence C09/masks could not be evaluated: %s" % str(e)[-600:])
    ctx.units.update(out)
    ctx.evaluations += len(two) + len(pdp)


def pdp_mask_spec(col):
    """spec on the implementation's mask itself: every admitted (first, second) for selected node p keeps precedence
    possible: first is not after second in the tour, neither is p or p + h."""
    bad = []
    for m in col.masks:
        if m[0] != "pdp":
            continue
        _, rec, p, mat = m
        n = len(rec)
        h = n // 2
        if not is_tour(rec):          # reported by the episode specification
            continue
        order, _ = walk_from0(rec)
        pos = {v: i for i, v in enumerate(order)}
        for f in range(n):
            for s in range(n):
                if mat[f][s] and (pos[f] > pos[s] or f in (p, p + h) or s in (p, p + h)):
                    bad.append({"tour": rec, "selected_node": p, "first": f, "second": s})
    return bad


# ------------------------------------------------------------------------------------------------ entry points
def run(ctx: Ctx, proofs_ok: bool):
    import torch

    rng = ctx.rng
    torch.manual_seed(rng.randrange(2 ** 31))
    torch.set_num_threads(2)
    thorough = ctx.tier == "thorough"
    envs = Envs(torch)
    sizes = list(range(3, 26)) if thorough else list(range(3, 13))
    T_range = (10, 50) if thorough else (6, 28)
    nb = 260 if thorough else 44
    kinds_k = [("two_opt", 2), ("two_opt", 2), ("k_opt", 3), ("k_opt", 4), ("k_opt", 5 if thorough else 4), ("pdp_rr", 2), ("pdp_rr", 2)]
    if thorough:
        kinds_k.append(("k_opt", 6))
    ctx.rule = ("instances: TSPkoptEnv k_max in {2,3,4} (thorough also 5,6), n = 3..12 (thorough ..25); PDPRuinRepairEnv n = 2h+1 = 3..13 "
                "(thorough ..25); coordinates per row from integral point sets / 128 with duplicates, collinear dyadic points, all-equal "
                "points (exact stream: zero tolerance, self-checked) or generator output (margin stream); initial tours from the env's "
                "reset with init_sol_type random (75%) / greedy.  Move sequences of 6..28 (thorough 10..50) steps per batch in one of the "
                "styles: env sampler (_random_action), uniform draws from get_mask (2-opt, PDP; 15% pickup and delivery after the same "
                "node), guided (1-3 best-of-12 sampler moves then 1-3 worst-of-12: improve-then-worsen), bundled policy with random "
                "weights (DACT / NeuOpt / N2S, sampling, 20% greedy), mixed; 7% of the steps are step_to_solution (rec_best or a fresh "
                "valid tour).  Batches of 2..6 rows or of a single instance (B = 1: every 4th batch and every other sampler batch; NeuOpt / N2S policy steps are replaced by the env sampler there), every 5th batch's first row replayed solo.  Plus: every tour x "
                "every mask move for 2-opt n<=5 (thorough 6) and PDP n=5 (thorough 7) through reset/step_to_solution/step; k-opt "
                "builder support on every tour of n=4,5 (thorough 6).  non-trivial = at least 2 operator moves; distinct by hash of "
                "(operator, coordinates, initial tour, moves, batch size); rows_with_improve_then_worsen counted separately")
    ctx.assumptions += [
        "per-row models; rows of a batch are independent (checked by solo replays of batched rows)",
        "k-opt validity for k >= 3 is proved only for n <= 8 (k = 3) / n <= 7 (k = 4), exhaustively; larger n and k >= 5 are covered by the correspondence and by is_tourb on the implementation's outputs only",
        "the two-node instance is excluded from the k-opt statement (refuted theorem C09_k_opt_two_nodes_refuted; open known finding)",
        "batch dimension: per-row models plus the two shape-level statements of Env/ImproveBatch1.v (repaired code: fe089c4, a3d4cc5); NeuOptPolicy / N2SPolicy raising at batch size 1 is out of scope (out_of_scope_observations)",
        "NeuOpt / DACT / N2S enter only as sources of moves: their masks are sub-masks of the modelled builder / get_mask (checked per move by move_ok), the networks are not modelled",
        "torch.multinomial never returns an index of zero probability (the sampler's own 'fix bug of pytorch' lines guard the saturated case)",
        "scatter_ with duplicate indices (k-opt) writes equal values (scatter_consistent proved for the bounded range)",
        "get_costs is a float32 sum: compared exactly on the exact stream, within n * 2^-16 on generator data; the comparison new_obj < cost_bsf is made on the value the code stored",
        "argsort is modelled on permutations only (inverse permutation); every use is under is_tour",
    ]
    ctx.trusted.append("torch semantics of gather / scatter_ / argsort / index_put with boolean masks / repeat_interleave used by the two environments")

    import time
    t0 = time.time()
    timing = ctx.extra.setdefault("timing_s", {})
    col = Collector(ctx, torch, envs)
    generate(ctx, torch, rng, envs, col, nb, sizes, T_range, kinds_k)
    timing["generate_real_runs"] = round(time.time() - t0, 1)
    enum_spec = [("two_opt", 3), ("two_opt", 4), ("two_opt", 5), ("pdp_rr", 3), ("pdp_rr", 5)]
    if thorough:
        enum_spec += [("two_opt", 6), ("pdp_rr", 7)]
    enumerate_small(ctx, torch, rng, envs, col, enum_spec)

    timing["enumerations_real_runs"] = round(time.time() - t0 - timing["generate_real_runs"], 1)
    # ---- model evaluated in Coq: episodes, masks, builder support
    t1 = time.time()
    coq_spec_fail = evaluate(ctx, col, shard=40)
    evaluate_masks(ctx, col)
    timing["coq_episodes_and_masks"] = round(time.time() - t1, 1)
    t1 = time.time()
    for bad in pdp_mask_spec(col)[:1]:
        col.fails.append(("pdp_rr: get_mask-admits-a-move-that-cannot-keep-precedence",
                          dict(bad, kind="pdp_mask", what="get_mask admits first after second in the tour, or the removed pair itself"), 0))
    sup_spec = [(3, 4), (4, 4), (3, 5), (4, 5)] + ([(3, 6), (5, 5)] if thorough else [])
    scases, smeta = kopt_support(ctx, torch, rng, envs, sup_spec, 600 if thorough else 300)
    try:
        scodes = coq_eval_shards("cases_C09_support", HEADER, "nat * list nat * list (list nat)", "check_support", scases, shard=8)
    except RuntimeError as e:
        scodes = []
        ctx.broken.append("correspondence C09/k_opt builder support could not be evaluated: %s" % str(e)[-600:])
    tot_sup = sum(c % 10 ** 6 for c in scodes)
    tot_impl = sum(m["impl_distinct"] for m in smeta) if scodes else 0
    ctx.units["k_opt_builder_support"] = {"tours": len(scodes), "model_support_actions": tot_sup, "distinct_actions_seen_from_the_sampler": tot_impl,
                                          "outside_support": sum(1 for c in scodes if c // 10 ** 6 == 1),
                                          "support_action_yielding_non_tour": sum(1 for c in scodes if c // 10 ** 6 == 2)}
    ctx.evaluations += len(scodes)
    timing["kopt_support"] = round(time.time() - t1, 1)
    for c, m in zip(scodes, smeta):
        if c // 10 ** 6 == 1:
            ctx.broken.append("correspondence C09/k_opt: _random_action produced an action outside the model builder's support (k=%d tour=%s)" % (m["k"], m["tour"]))
            ctx.extra.setdefault("first_disagreements", []).append({"unit": "k_opt_builder_support", "case": m})
            break
    for c, m in zip(scodes, smeta):
        if c // 10 ** 6 == 2:
            ctx.broken.append("model: a builder-supported k-opt action yields a non-tour (k=%d tour=%s) -- contradicts C09_k_opt_valid" % (m["k"], m["tour"]))
            break

    for unit, rows in col.rows.items():
        for row in rows[:2]:
            ctx.sample(replay_of(row, upto=6), cap=6)

    # ---- standing probe: the degenerate two-node instance (Coq: C09_k_opt_two_nodes_refuted)
    probe = two_node_probe(torch, envs, 3)
    ctx.evaluations += 1
    ctx.extra["two_node_probe"] = {k: v for k, v in probe.items() if k != "locs"}
    if probe["fails"]:
        col.fails.append((SIG_TWO_NODES, dict(probe, what="TSPkoptEnv(num_loc=2, k_max>=3): a move of the env's own _random_action turns the only tour [1,0] into two self-loops [0,1]; cost_current becomes 0"), 0))

    # ---- standing probes: the same calls on a batch of one instance
    ctx.extra["batch_size_1_probes"] = {}
    for which in BATCH1:
        rec = batch1_probe(torch, envs, which)
        ctx.evaluations += 1
        ctx.extra["batch_size_1_probes"][which] = rec["observed"]
        if rec["fails"]:
            col.fails.append((BATCH1[which][0], dict(rec, what=BATCH1[which][1] + " raises; with two instances the same call succeeds"), 0))
    oos = ctx.extra.setdefault("out_of_scope_observations", [])
    for which, call in BATCH1_OUT_OF_SCOPE.items():
        rec = batch1_probe(torch, envs, which)
        if rec["fails"]:
            oos.append({"call": call, "observed": rec["observed"],
                        "why_out_of_scope": "C09 is about moves turning valid tours into valid tours; a policy that raises produces no move "
                                            "(and C14 covers constructive policies only)"})

    shift, kopt = batch1_grid(torch)
    try:
        hb = HEADER.replace("Harness.HC09.", "Harness.HC09 Harness.HC09b.")
        c1 = coq_eval_shards("cases_C09_b1shift", hb, "nat * nat * nat * bool", "check_batch1_shift",
                             ["(%d, %d, %d, %s)" % (B, L, h, cbool(r)) for B, L, h, r in shift], shard=100)
        c2 = coq_eval_shards("cases_C09_b1kopt", hb, "nat * nat * bool", "check_batch1_kopt",
                             ["(%d, %d, %s)" % (B, k, cbool(r)) for B, k, r in kopt], shard=100)
        ctx.units["batch_size_1_models"] = {"pdp_step_cases": len(c1), "kopt_sampler_cases": len(c2), "raised": sum(1 for x in shift + kopt if x[-1]),
                                            "disagreements": sum(1 for c in c1 + c2 if c)}
        ctx.evaluations += len(c1) + len(c2)
        if any(c1 + c2):
            bad = [x for x, c in zip(shift, c1) if c] + [x for x, c in zip(kopt, c2) if c]
            ctx.broken.append("correspondence C09/batch-size-1 models: raises / does not raise differs from Env/ImproveBatch1.v on %s "
                              "((B, L, h, raised) for PDP step, (B, k_max, raised) for the k-opt sampler)" % bad[:4])
    except RuntimeError as e:
        ctx.broken.append("correspondence C09/batch-size-1 models could not be evaluated: %s" % str(e)[-600:])

    # ---- decision
    n_reported = report_failures(ctx, col)
    ctx.extra["spec_on_impl_failures"] = n_reported
    ctx.extra["coq_spec_on_impl_failures"] = coq_spec_fail
    standing = {SIG_TWO_NODES}
    stream_fail = sum(1 for s, _, _ in col.fails if s not in standing)
    if (ctx.broken or not proofs_ok) and stream_fail == 0:
        stream_fail += search(ctx, torch, rng, envs)
    if ctx.broken and stream_fail == 0 and ctx.violations:
        ctx.violation({"broken": ctx.broken, "note": "no concrete failing input found by the search"}, tag="broken", no_input=True)


def report_failures(ctx, col):
    best = {}
    for sig, obj, size in col.fails:
        if sig not in best or size < best[sig][0]:
            best[sig] = (size, obj)
    for sig, (_, obj) in sorted(best.items()):
        ctx.failure(sig, obj, tag=sig.split(":")[0].replace("/", "-").replace(">=", "ge").replace("=", ""))
    return len(best)


def search(ctx, torch, rng, envs):
    """a larger sample through the python specification only, first around the disagreeing case"""
    firsts = ctx.extra.get("first_disagreements", [])
    around = None
    for d in firsts:
        c = d.get("case", {})
        if "op" in c:
            around = {"kind": c["op"], "k": c["k_max"], "n": c["n"]}
            break
    col = Collector(ctx, torch, envs, searching=True)
    kinds_k = [("two_opt", 2), ("k_opt", 3), ("k_opt", 4), ("k_opt", 5), ("pdp_rr", 2)]
    generate(ctx, torch, rng, envs, col, 300, list(range(3, 31)), (10, 60), kinds_k, around=around)
    enumerate_small(ctx, torch, rng, envs, col, [("two_opt", 6), ("pdp_rr", 7)])
    n = report_failures(ctx, col)
    ctx.extra["search"] = {"rows": sum(len(v) for v in col.rows.values()), "failing_inputs_found": n}
    return n


def replay(obj):
    """./check --replay <file>: run the recorded case on the current tree, print observed vs expected."""
    import torch
    envs = Envs(torch)
    print("signature:", obj.get("signature"))
    kind = obj.get("kind")
    if kind == "two_nodes":
        rec = two_node_probe(torch, envs, obj.get("k_max", 3))
        print("recorded:", obj.get("observed"))
        print("expected:", rec.get("expected", "a single cycle through both nodes"))
        print("observed:", rec.get("observed", "every sampled move kept the tour [1, 0]"))
        print("still fails" if rec["fails"] else "no longer fails")
        return 1 if rec["fails"] else 0
    if kind == "batch1":
        rec = batch1_probe(torch, envs, obj["which"], obj.get("n", 7))
        print("call    :", rec["call"])
        print("expected:", rec["expected"])
        print("recorded:", obj.get("observed"))
        print("observed:", rec["observed"])
        print("still fails" if rec["fails"] else "no longer fails")
        return 1 if rec["fails"] else 0
    if kind == "pdp_mask":
        from rl4co.envs.routing.pdp.env import PDPRuinRepairEnv
        rec = obj["tour"]
        n = len(rec)
        env = envs.get("pdp_rr", n, 2)
        td = env.reset(td_from_rows(torch, "pdp_rr", [make_locs(__import__("random").Random(0), torch, n, "pts")]))
        td = env.step_to_solution(td, torch.tensor([rec], dtype=torch.int64))
        m = PDPRuinRepairEnv.get_mask(torch.tensor([[obj["selected_node"]]]), td)[0].tolist()
        col = type("C", (), {"masks": [("pdp", rec, obj["selected_node"], m)]})
        bad = pdp_mask_spec(col)
        print("recorded:", {k: obj[k] for k in ("tour", "selected_node", "first", "second")})
        print("on the current tree:", bad[:3])
        print("still fails" if bad else "no longer fails")
        return 1 if bad else 0
    if kind == "episode":
        op, n, k = obj["op"], obj["n"], obj["k_max"]
        rws = obj["rows"]
        locs = [[[float.fromhex(x) for x in p] for p in r["locs_hex"]] if "locs_hex" in r else r["locs"] for r in rws]
        T = max(len(r["steps"]) for r in rws)
        script = [[r["steps"][t] if t < len(r["steps"]) else r["steps"][-1] for r in rws] for t in range(T)]
        rows, crash, _ = drive(torch, None, envs, op, n, k, obj.get("init_sol_type", "random"), td_from_rows(torch, op, locs), [],
                               {"style": "replay"}, forced_init=[r["init"] for r in rws], script=script)
        row = finish_row(rows[obj.get("row", 0)])
        fails = py_spec(row)
        last = row["steps"][-1] if row["steps"] else row["obs0"]
        print("recorded mechanism:", obj.get("mechanism"), "at step", obj.get("step"))
        print("recorded detail   :", json.dumps(obj.get("detail"))[:600])
        print("recorded last obs :", json.dumps(obj.get("observed_last"))[:600])
        print("observed last obs :", json.dumps({k2: v for k2, v in last.items() if k2 != "adm"})[:600])
        if crash:
            print("on the current tree the step raises:", crash)
        for mech, step, detail in fails[:6]:
            print("specification false on the current tree: %s at step %d %s" % (mech, step, json.dumps(detail)[:400]))
        bad = bool(fails) or bool(crash)
        print("still fails" if bad else "specification holds on this case now")
        return 1 if bad else 0
    print(json.dumps(obj, indent=1)[:3000])
    return 0
