"""C05 / unit sched -- SMTWTPEnv, FJSPEnv, JSSPEnv, FFSPEnv: does the mask hide a schedule that matters?

Proof obligations: coq/theories/Properties/C05_sched.v (Env/SchedComplete.v, Env/FJSPComplete.v).
  SMTWTP: all n! orders reachable.  FJSP/JSSP with mask_no_ops=False: every valid schedule is dominated by a reachable one,
  event-time schedules are reached exactly, the optimal makespan is reached.  FJSP/JSSP with the DEFAULT mask_no_ops=True and
  FFSP: refuted (`*_nondelay_optimum_refuted`, `ffsp_optimum_refuted`) -- reported below as findings when the real env shows them.
Correspondence (on every run, on the current working tree), all by EXHAUSTIVE expansion of the real env over every True
mask entry from reset to done (all prefixes of one depth stepped as one batch; FFSP depth-first, batch of one):
  * SMTWTP (3..5 jobs, thorough ..6; k/64 data incl. due dates on completion times): all n! permutations must be complete
    sequences; best reward = minimum weighted tardiness over all permutations (python Fractions and Gallina);
  * FJSP / JSSP (2..3 jobs x 2 machines, <= 2 operations per job, plus the 5-operation witness of DESIGN section 8; integer
    times with ties), both flag values: best reachable makespan vs the optimum of an independent enumeration (every
    operation order respecting job precedence x every eligible machine choice, semi-active timing; instance data only);
  * FFSP (2..3 jobs x 1..2 stages x 1..2 machines): best reachable makespan vs the same kind of enumeration;
  * Coq (Harness/HC05_sched.v): the row model runs the implementation's sequences (model mask inside the implementation's
    mask at every visited state; done exactly at the end; same reward), the model's own proved-sound exhaustive expansion
    must find as many complete sequences, the harness's optimal schedule must satisfy `valid_schedule`, and with
    mask_no_ops=False its makespan must be the best reachable one.
Signatures:
  "jssp/mask_no_ops=True: non-delay-schedules-only-optimum-not-reachable", "fjsp/mask_no_ops=True: non-delay-...",
  "ffsp: wait-hidden-when-all-jobs-ready-optimum-not-reachable"   (the three refuted statements, seen on the real env);
  "<env>[/mask_no_ops=False]: optimum-not-reachable", "smtwtp: mask-hides-feasible-solution",
  "<env>: dead-end-before-done", "<env>: crash-on-offered-action"."""
import itertools
import json
import random
import sys
import time
from fractions import Fraction

from vt import sched_graph_common as C
from vt.common import cbool, cboollist, clist, cnat, cz
from vt.props import c07_ffsp as G
from vt.props import c07_fjsp as F

HDR = ("From Coq Require Import List ZArith Bool.\n"
       "From RL4CO Require Import Spec.Schedule Env.FJSP Env.FFSP Env.SMTWTP Env.SchedComplete Harness.HC05_graph Harness.HC05_sched.\n"
       "Import ListNotations.\n")
CODE_TXT = {1: "implementation action outside the model mask", 2: "model mask offers an action the implementation hides",
            3: "model done too early / not done at the end", 4: "reward differs from the model", 6: "reward differs from the objective",
            7: "model step = None", 13: "malformed record", 20: "instance outside the documented format",
            21: "a permutation of the jobs is not among the implementation's complete sequences",
            22: "number of complete sequences differs from the model's exhaustive expansion",
            23: "best reachable reward differs from the optimum", 24: "no complete sequence",
            25: "the harness's optimal schedule is not a valid schedule of the specification"}
SIG_ND = "%s/mask_no_ops=True: non-delay-schedules-only-optimum-not-reachable"
SIG_FFSP_WAIT = "ffsp: wait-hidden-when-all-jobs-ready-optimum-not-reachable"
COQ_SAMPLE = 250            # sequences per case written for the model walk (the totals always travel)

# jobs A = (M0,10),(M1,1), B = (M1,1),(M0,1),(M1,10): DESIGN section 8, Env/SchedComplete.v NonDelay.nd_i
WITNESS = {"start": [0, 2], "end": [1, 4], "proc": [[10, 0, 0, 1, 0], [0, 1, 1, 0, 10]], "pad": [False] * 5}
FFSP_WITNESS = (2, 1, 2, [[1, 3], [1, 3]])           # FFSPWait.fw_i


# ------------------------------------------------------------------------------------------------ exhaustive expansion (batched)
def expand(torch, env, td, reward_fn, cap=20000, max_depth=60, env_name="env"):
    """all complete mask-confined sequences from the reset TensorDict `td` (batch of one).
    Returns dict(seqs=[(acts, masks_before_each_action, reward)], states, dead=[prefix], crash, cap_hit)."""
    out = {"seqs": [], "states": 0, "dead": [], "crash": None, "cap_hit": False}
    seqs, hist = [[]], [[]]
    depth = 0
    while seqs:
        masks = td["action_mask"].tolist()
        idx, acts, nseq, nhist = [], [], [], []
        for b, m in enumerate(masks):
            m = [bool(x) for x in m]
            out["states"] += 1
            if not any(m):
                out["dead"].append(list(seqs[b]))
            for a, ok in enumerate(m):
                if ok:
                    idx.append(b)
                    acts.append(a)
                    nseq.append(seqs[b] + [a])
                    nhist.append(hist[b] + [m])
        if not idx:
            break
        if len(idx) > cap or depth >= max_depth:
            out["cap_hit"] = True
            break
        td2 = td[torch.tensor(idx, dtype=torch.int64)].clone()
        td2.set("action", torch.tensor(acts, dtype=torch.int64))
        try:
            td2 = C.guard.call(env_name, "step", env.step, td2)["next"]
        except C.guard.EnvTimeout as e:      # C02's "episodes terminate": the call did not return (vt/sched_guard.py)
            out["crash"] = {"where": "timeout", "call": e.what, "depth": depth + 1, "error": str(e), "prefixes": nseq[:8]}
            break
        except Exception as e:  # noqa: BLE001
            out["crash"] = {"where": "step", "depth": depth + 1, "error": "%s: %s" % (type(e).__name__, str(e)[:300]), "prefixes": nseq[:3]}
            break
        depth += 1
        done = [bool(x) for x in td2["done"].reshape(len(idx), -1)[:, 0].tolist()]
        fin = [r for r, d in enumerate(done) if d]
        if fin:
            try:
                rew = C.guard.call(env_name, "get_reward", reward_fn, td2[torch.tensor(fin, dtype=torch.int64)], [nseq[r] for r in fin])
            except C.guard.EnvTimeout as e:
                out["crash"] = {"where": "timeout", "call": e.what, "error": str(e), "prefixes": [nseq[r] for r in fin][:8]}
                break
            except Exception as e:  # noqa: BLE001
                out["crash"] = {"where": "get_reward", "error": "%s: %s" % (type(e).__name__, str(e)[:300])}
                break
            for r, x in zip(fin, rew):
                out["seqs"].append((nseq[r], nhist[r], x))
        keep = [r for r, d in enumerate(done) if not d]
        if not keep:
            break
        if len(out["seqs"]) > 4 * cap:
            out["cap_hit"] = True
            break
        td = td2[torch.tensor(keep, dtype=torch.int64)]
        seqs = [nseq[r] for r in keep]
        hist = [nhist[r] for r in keep]
    return out


# ------------------------------------------------------------------------------------------------ FJSP / JSSP
def fjsp_expand(torch, kind, mno, inst, cap=20000):
    env = C.fjsp_env(kind, mno, {"num_jobs": len(inst["start"]), "num_machines": len(inst["proc"])})
    try:
        td = C.guard.call(kind, "reset", env.reset, C.fjsp_td(torch, [inst]))
    except C.guard.EnvTimeout as e:
        return {"seqs": [], "states": 0, "dead": [], "cap_hit": False, "crash": {"where": "timeout", "call": e.what, "error": str(e), "prefixes": [[]]}}
    return expand(torch, env, td, lambda sub, seqs: [int(x) for x in env.get_reward(sub, None).reshape(-1).tolist()], cap=cap, env_name=kind)


def fjsp_brute(inst):
    """optimal makespan by independent enumeration: every operation order that respects job precedence x every eligible
    machine, each operation started as early as its job and its machine allow.  Returns (makespan, entries)."""
    S, E, Pm = inst["start"], inst["end"], inst["proc"]
    J, M = len(S), len(Pm)
    best = [None, None]

    def rec(nxt, jr, mr, ent, mk):
        if best[0] is not None and mk >= best[0]:
            return
        if all(nxt[j] > E[j] for j in range(J)):
            best[0], best[1] = mk, list(ent)
            return
        for j in range(J):
            o = nxt[j]
            if o > E[j]:
                continue
            for m in range(M):
                p = Pm[m][o]
                if p <= 0:
                    continue
                st = max(jr[j], mr[m])
                sj, sm = jr[j], mr[m]
                nxt[j] += 1
                jr[j] = mr[m] = st + p
                ent.append((o, m, st, st + p))
                rec(nxt, jr, mr, ent, max(mk, st + p))
                ent.pop()
                nxt[j] -= 1
                jr[j], mr[m] = sj, sm

    rec(list(S), [0] * J, [0] * M, [], 0)
    return best[0], best[1]


def fjsp_rand_inst(rng, J, M, maxops, flex, pmax):
    start, end, o = [], [], 0
    for _ in range(J):
        n = rng.randint(1, maxops)
        start.append(o)
        end.append(o + n - 1)
        o += n
    proc = [[0] * o for _ in range(M)]
    for k in range(o):
        ms = rng.sample(range(M), rng.randint(1, M) if flex else 1)
        for m in ms:
            proc[m][k] = rng.randint(1, pmax)
    return {"start": start, "end": end, "proc": proc, "pad": [False] * o}


def is_jssp(inst):
    N = len(inst["pad"])
    return all(sum(1 for r in inst["proc"] if r[o] > 0) == 1 for o in range(N))


def fjsp_replay_obj(kind, mno, inst, what, extra=None):
    o = {"unit": "sched", "kind": "c05_fjsp", "env": {"fjsp": "FJSPEnv", "jssp": "JSSPEnv"}[kind], "mask_no_ops": mno,
         "instance": inst, "what": what}
    if extra:
        o.update(extra)
    return o


def entries_term(ent):
    return clist("{| e_op := %s; e_ma := %s; e_start := %s; e_end := %s |}" % (cnat(o), cnat(m), cz(a), cz(b)) for o, m, a, b in ent)


def seqs_term(rng, seqs, scale=None, limit=COQ_SAMPLE):
    pick = seqs if limit is None or len(seqs) <= limit else rng.sample(seqs, limit)
    return clist("(%s, %s, %s)" % (clist(cnat(a) for a in acts), clist(cboollist(m) for m in masks), cz(int(r) if scale is None else scale(r)))
                 for acts, masks, r in pick)


def fjsp_campaign(ctx, torch, rng, scale, big, coll, tag, count=True):
    st = {"instances": 0, "expansions": 0, "sequences": 0, "cap_hits": 0, "disagreements": 0, "optimum_reached_mno_false": 0,
          "optimum_missed_mno_true": 0}
    insts = [("witness", WITNESS)]
    shapes = [(2, 2, 2), (3, 2, 2), (2, 2, 2), (3, 2, 2), (3, 2, 1), (2, 2, 3)]
    for k in range(scale):
        J, M, mo = shapes[k % len(shapes)]
        if big and k % 4 == 3:
            M = 3
        insts.append(("rand", fjsp_rand_inst(rng, J, M, mo, flex=(k % 2 == 0), pmax=rng.choice([2, 3, 5, 10]))))
    cases, metas = [], []
    for name, inst in insts:
        st["instances"] += 1
        opt, ent = fjsp_brute(inst)
        kinds = ["fjsp"] + (["jssp"] if is_jssp(inst) else [])
        for kind in kinds:
            for mno in (True, False):
                if C.guard.timed_out(kind):      # an env call did not return (reported): the env is abandoned
                    continue
                ex = fjsp_expand(torch, kind, mno, inst)
                st["expansions"] += 1
                st["sequences"] += len(ex["seqs"])
                env_sig = "%s/mask_no_ops=%s" % (kind, mno)
                if count:
                    ctx.count("c05_%s_%s_expansions" % (kind, "mask_no_ops" if mno else "waits_allowed"))
                    ctx.count("c05_%s_complete_sequences" % kind, len(ex["seqs"]))
                    ctx.count("c05_%s_states_expanded" % kind, ex["states"])
                    for acts, _, r in ex["seqs"]:
                        ctx.seen({"e": kind, "mno": mno, "i": inst, "a": acts}, nontrivial=len(acts) >= 2)
                if ex["crash"] and ex["crash"]["where"] == "timeout":
                    coll.fail(C.guard.signature(kind, ex["crash"]["call"]), fjsp_replay_obj(kind, mno, inst, (
                        "env.%s did not return during the exhaustive expansion; `prefixes` = action sequences of the batch that was "
                        "being stepped" % ex["crash"]["call"]), {"crash": ex["crash"]}))
                    continue
                if ex["crash"]:
                    coll.fail("%s: crash-on-offered-action" % env_sig, fjsp_replay_obj(kind, mno, inst, "the real env raised on an action its mask offered", {"crash": ex["crash"]}))
                    continue
                if ex["cap_hit"]:
                    st["cap_hits"] += 1
                    if count:
                        ctx.count("c05_%s_cap_hits" % kind)
                if ex["dead"]:
                    coll.fail("%s: dead-end-before-done" % env_sig, fjsp_replay_obj(kind, mno, inst, "empty mask before done", {"prefix": ex["dead"][0]}))
                    continue
                if not ex["seqs"]:
                    continue
                bseq = max(ex["seqs"], key=lambda x: x[2])
                best = -bseq[2]
                verdict = None
                if not ex["cap_hit"] and best != opt:
                    verdict = {"expected_optimal_makespan": opt, "observed_best_reachable_makespan": best,
                               "optimal_schedule_(op,machine,start,end)": ent, "best_reachable_sequence": bseq[0],
                               "complete_sequences": len(ex["seqs"])}
                if not ex["cap_hit"] and best == opt and not mno:
                    st["optimum_reached_mno_false"] += 1
                if verdict and mno:
                    st["optimum_missed_mno_true"] += 1
                total = -1 if ex["cap_hit"] else len(ex["seqs"])
                cases.append("(%s, %s, %s, %s, %s, %s, %s, %s)" % (
                    cbool(kind == "jssp"), cbool(mno), F._inst_coq(inst), seqs_term(rng, ex["seqs"]), cz(total), cz(-best),
                    entries_term(ent), cz(opt)))
                metas.append((kind, mno, inst, verdict, name))
                if count and name == "witness":
                    ctx.sample({"unit": "sched", "env": kind, "mask_no_ops": mno, "instance": "witness A=(M0,10),(M1,1) B=(M1,1),(M0,1),(M1,10)",
                                "complete_sequences": len(ex["seqs"]), "best_reachable_makespan": best, "optimal_makespan": opt})
    codes = C.coq_codes(ctx, "cases_C05_sched_fjsp%s" % tag, HDR, "fj_case", "check_C05_fjsp", cases, shard=6)
    if codes is None:
        st["disagreements"] += 1
        codes = [None] * len(cases)
    pending = {}
    for c, (kind, mno, inst, verdict, name) in zip(codes, metas):
        env_sig = "%s/mask_no_ops=%s" % (kind, mno)
        agree = c == 0 or (c == 23 and verdict is not None)
        if c is not None and not agree:
            st["disagreements"] += 1
            t = c % 1000
            path = ctx.write_replay(fjsp_replay_obj(kind, mno, inst, "model/implementation disagreement: code %d = %s" % (c, CODE_TXT.get(t, "?")),
                                                    {"code": c, "property": "C05"}), tag="corr-sched-%s" % kind)
            ctx.broken.append("correspondence C05/sched/%s: code %d (sequence %d: %s), case file %s" % (env_sig, c, c // 1000, CODE_TXT.get(t, "?"), path))
        if verdict:
            if mno and c == 0:
                # the implementation behaves exactly as the documented automaton (model agrees) and that automaton cannot
                # reach the optimum: the refuted statement *_nondelay_optimum_refuted, seen on the real env
                sig = SIG_ND % kind
                what = ("with the default mask_no_ops=True the env reaches non-delay schedules only: best makespan over all %d complete "
                        "mask-confined sequences = %s, optimum = %s" % (verdict["complete_sequences"], verdict["observed_best_reachable_makespan"], opt_of(verdict)))
            else:
                sig = "%s: optimum-not-reachable" % env_sig
                what = ("best makespan over all %d complete mask-confined sequences = %s, optimum of the independent enumeration = %s"
                        % (verdict["complete_sequences"], verdict["observed_best_reachable_makespan"], opt_of(verdict)))
            if sig not in pending or (name == "witness" and not pending[sig][0]):
                pending[sig] = (name == "witness", fjsp_replay_obj(kind, mno, inst, what, verdict))
    for sig, (_, rep) in sorted(pending.items()):      # one replay per signature; the fixed witness instance when it shows it
        coll.fail(sig, rep)
    return st


def opt_of(v):
    return v["expected_optimal_makespan"]


# ------------------------------------------------------------------------------------------------ SMTWTP
def smtwtp_expand(torch, env, row):
    from tensordict import TensorDict
    f = lambda k: torch.tensor([[x / G.GRID for x in row[k]]], dtype=torch.float32)
    try:
        td = C.guard.call("smtwtp", "reset", env.reset, TensorDict({"job_due_time": f(0), "job_weight": f(1), "job_process_time": f(2)}, batch_size=[1]))
    except C.guard.EnvTimeout as e:
        return {"seqs": [], "states": 0, "dead": [], "cap_hit": False, "crash": {"where": "timeout", "call": e.what, "error": str(e), "prefixes": [[]]}}
    return expand(torch, env, td, lambda sub, seqs: env.get_reward(sub, torch.tensor(seqs, dtype=torch.int64)).reshape(-1).tolist(),
                  env_name="smtwtp")


def smtwtp_obj(row, perm):
    d, w, p = row
    t, tot = 0, Fraction(0)
    for j in perm:
        t += p[j]
        tot += Fraction(w[j], G.GRID) * max(Fraction(0), Fraction(t - d[j], G.GRID))
    return -tot


def smtwtp_replay_obj(row, what, extra=None):
    o = {"unit": "sched", "kind": "c05_smtwtp", "env": "SMTWTPEnv", "grid": "values are k/64", "job_due_time_x64": row[0],
         "job_weight_x64": row[1], "job_process_time_x64": row[2], "what": what}
    if extra:
        o.update(extra)
    return o


def smtwtp_campaign(ctx, torch, rng, sizes, coll, tag, count=True):
    from rl4co.envs import SMTWTPEnv
    st = {"instances": 0, "sequences": 0, "disagreements": 0}
    cases, metas = [], []
    for n in sizes:
        env = SMTWTPEnv(generator_params=dict(num_job=n), check_solution=False)
        row = C.smtwtp_rows(rng, n, 1)[0]
        ex = smtwtp_expand(torch, env, row)
        st["instances"] += 1
        st["sequences"] += len(ex["seqs"])
        if count:
            ctx.count("c05_smtwtp_instances_n%d" % n)
            ctx.count("c05_smtwtp_complete_sequences", len(ex["seqs"]))
            for acts, _, r in ex["seqs"]:
                ctx.seen({"e": "smtwtp", "i": row, "a": acts}, nontrivial=len(acts) >= 2)
        if ex["crash"] and ex["crash"]["where"] == "timeout":
            coll.fail(C.guard.signature("smtwtp", ex["crash"]["call"]), smtwtp_replay_obj(row, "env.%s did not return" % ex["crash"]["call"], {"crash": ex["crash"]}))
            break
        if ex["crash"]:
            coll.fail("smtwtp: crash-on-offered-action", smtwtp_replay_obj(row, "the real env raised on an offered action", {"crash": ex["crash"]}))
            continue
        nbad = 0
        impl = {tuple(a): r for a, _, r in ex["seqs"]}
        if any(len(p) < n for p in ex["dead"]):
            coll.fail("smtwtp: dead-end-before-done", smtwtp_replay_obj(row, "empty mask before all jobs are scheduled", {"prefix": ex["dead"][0]}))
            nbad += 1
        best_p, best_v = None, None
        for p in itertools.permutations(range(1, n + 1)):
            v = smtwtp_obj(row, p)
            if best_v is None or v > best_v:
                best_p, best_v = p, v
            if p not in impl and not nbad:
                coll.fail("smtwtp: mask-hides-feasible-solution", smtwtp_replay_obj(row, "the job order %s (objective %s) is not among the %d complete "
                          "mask-confined sequences" % (list(p), float(v), len(impl)), {"sequence": list(p), "objective": float(v)}))
                nbad += 1
        if impl:
            bs = max(impl, key=lambda a: impl[a])
            if Fraction(impl[bs]) != best_v:
                coll.fail("smtwtp: best-reachable-reward-differs-from-optimum", smtwtp_replay_obj(row, (
                    "best reward over all %d complete sequences = %s (order %s); minimum weighted tardiness over all %d! orders = %s (order %s)"
                    % (len(impl), impl[bs], list(bs), n, float(-best_v), list(best_p))),
                    {"expected": float(best_v), "observed": impl[bs], "optimal_order": list(best_p), "best_reachable_order": list(bs)}))
                nbad += 1
        try:
            sc = lambda r: G_scaled(r)
            cases.append("(SMTWTP.Build_inst %s %s %s %s, %s)" % (cnat(n), clist(cz(x) for x in row[0]), clist(cz(x) for x in row[1]),
                                                                  clist(cz(x) for x in row[2]), seqs_term(rng, ex["seqs"], sc, limit=None)))
            metas.append((row, nbad))
        except ValueError:
            ctx.count("c05_smtwtp_dropped_unrepresentable")
    codes = C.coq_codes(ctx, "cases_C05_sched_smtwtp%s" % tag, HDR, "SMTWTP.inst * list c05_seq", "check_C05_smtwtp", cases, shard=2)
    if codes is None:
        st["disagreements"] += 1
        codes = []
    for c, (row, nbad) in zip(codes, metas):
        if c == 0 or (nbad and c % 1000 in (2, 21, 23, 24)):
            continue
        st["disagreements"] += 1
        path = ctx.write_replay(smtwtp_replay_obj(row, "model/implementation disagreement: code %d = %s" % (c, CODE_TXT.get(c % 1000, "?")),
                                                  {"code": c, "property": "C05"}), tag="corr-sched-smtwtp")
        ctx.broken.append("correspondence C05/sched/smtwtp: code %d (sequence %d: %s), case file %s" % (c, c // 1000, CODE_TXT.get(c % 1000, "?"), path))
    return st


def G_scaled(r):
    fr = Fraction(float(r)) * G.GRID * G.GRID
    if fr.denominator != 1:
        raise ValueError("reward %r not on the 1/4096 grid" % r)
    return int(fr)


# ------------------------------------------------------------------------------------------------ FFSP
def ffsp_brute(rt, J, S_, M):
    """optimal makespan: every operation order respecting the stage order of each job x every machine of the stage,
    each operation started as early as its job and its machine allow (instance data only)"""
    best = [None, None]

    def rec(stage, jr, mr, ent, mk):
        if best[0] is not None and mk >= best[0]:
            return
        if all(s == S_ for s in stage):
            best[0], best[1] = mk, list(ent)
            return
        for j in range(J):
            s = stage[j]
            if s == S_:
                continue
            for c in range(M):
                m = s * M + c
                st = max(jr[j], mr[m])
                en = st + rt[j][m]
                sj, sm = jr[j], mr[m]
                stage[j] += 1
                jr[j] = mr[m] = en
                ent.append((j, m, st, en))
                rec(stage, jr, mr, ent, max(mk, en))
                ent.pop()
                stage[j] -= 1
                jr[j], mr[m] = sj, sm

    rec([0] * J, [0] * J, [0] * (S_ * M), [], 0)
    return best[0], best[1]


def ffsp_replay_obj(J, S_, M, rt, what, extra=None):
    o = {"unit": "sched", "kind": "c05_ffsp", "env": "FFSPEnv",
         "generator_params": {"num_job": J, "num_stage": S_, "num_machine": M, "flatten_stages": True}, "run_time": rt, "what": what}
    if extra:
        o.update(extra)
    return o


def ffsp_campaign(ctx, torch, rng, scale, big, coll, tag, count=True):
    st = {"instances": 0, "sequences": 0, "cap_hits": 0, "disagreements": 0, "optimum_reached": 0, "optimum_missed": 0}
    todo = [FFSP_WITNESS]
    shapes = [(2, 2, 1), (2, 2, 2), (2, 1, 2), (3, 1, 2), (3, 2, 1), (2, 2, 2)] + ([(3, 2, 2)] if big else [])
    for k in range(scale):
        J, S_, M = shapes[k % len(shapes)]
        hi = rng.choice([2, 3, 4]) if J * S_ >= 6 else rng.choice([3, 5, 9])
        todo.append((J, S_, M, G._rand_rt(rng, J, S_ * M, 1, hi)))
    envs = {}
    cases, metas = [], []
    for J, S_, M, rt in todo:
        key = (J, S_, M)
        if key not in envs:
            envs[key] = C.ffsp_env(J, S_, M, True)
        env = envs[key]
        cap = 3000 if big else 700
        leaves, hit = G.ffsp_dfs(env, rt, rng, cap)
        st["instances"] += 1
        st["sequences"] += len(leaves)
        crashed = [l for l in leaves if l.get("crashed")]
        ok = [l for l in leaves if not l.get("crashed")]
        if count:
            ctx.count("c05_ffsp_instances_J%d_S%d_M%d" % key)
            ctx.count("c05_ffsp_complete_sequences", len(ok))
            for l in ok:
                ctx.seen({"e": "ffsp", "i": [key, rt], "a": [a for a, _ in l["steps"]]}, nontrivial=len(l["steps"]) >= 2)
        tmo = [l for l in crashed if l.get("timeout")]
        if tmo:
            coll.fail(C.guard.signature("ffsp", tmo[0]["timeout"]), ffsp_replay_obj(J, S_, M, rt, tmo[0]["crashed"], {
                "hangs_in": "env.%s" % tmo[0]["timeout"], "batch_run_times": tmo[0].get("batch_rt"),
                "batch_actions_per_step": tmo[0].get("batch_actions")}))
            break
        if crashed:
            coll.fail("ffsp: dead-end-before-done", ffsp_replay_obj(J, S_, M, rt, crashed[0]["crashed"], {"prefix": [a for a, _ in crashed[0]["steps"]]}))
            continue
        if hit:
            st["cap_hits"] += 1
            if count:
                ctx.count("c05_ffsp_cap_hits")
        if not ok:
            continue
        opt, ent = ffsp_brute(rt, J, S_, M)
        bl = max(ok, key=lambda l: l["reward"])
        best = int(-bl["reward"])
        verdict = None
        if not hit and best != opt:
            st["optimum_missed"] += 1
            verdict = {"expected_optimal_makespan": opt, "observed_best_reachable_makespan": best,
                       "optimal_schedule_(job,machine,start,end)": ent, "best_reachable_sequence": [a for a, _ in bl["steps"]],
                       "complete_sequences": len(ok)}
        elif not hit:
            st["optimum_reached"] += 1
        seqs = [([a for a, _ in l["steps"]], [l["obs0"]["mask"]] + [o["mask"] for _, o in l["steps"][:-1]], int(l["reward"])) for l in ok]
        fuel = max(len(s[0]) for s in seqs) + 2
        inst = "(FFSP.Build_inst %s %s %s %s %s %s)" % (cnat(J), cnat(S_), cnat(M), clist("[" + "; ".join(cz(x) for x in row) + "]" for row in rt),
                                                        clist(cnat(x) for x in ok[0]["mtab"]), cbool(True))
        cases.append("(%s, %s, %s, %s)" % (inst, seqs_term(rng, seqs), cz(-1 if hit else len(seqs)), cnat(fuel)))
        metas.append((J, S_, M, rt, verdict))
        if count and (J, S_, M, rt) == FFSP_WITNESS:
            ctx.sample({"unit": "sched", "env": "ffsp", "instance": "witness 2 jobs x 1 stage x 2 machines, run_time [[1,3],[1,3]]",
                        "complete_sequences": len(ok), "best_reachable_makespan": best, "optimal_makespan": opt})
    codes = C.coq_codes(ctx, "cases_C05_sched_ffsp%s" % tag, HDR, "FFSP.inst * list c05_seq * Z * nat", "check_C05_ffsp", cases, shard=6)
    if codes is None:
        st["disagreements"] += 1
        codes = [None] * len(cases)
    pending = {}
    for c, (J, S_, M, rt, verdict) in zip(codes, metas):
        if c is not None and c != 0:
            st["disagreements"] += 1
            path = ctx.write_replay(ffsp_replay_obj(J, S_, M, rt, "model/implementation disagreement: code %d = %s" % (c, CODE_TXT.get(c % 1000, "?")),
                                                    {"code": c, "property": "C05"}), tag="corr-sched-ffsp")
            ctx.broken.append("correspondence C05/sched/ffsp: code %d (sequence %d: %s), case file %s" % (c, c // 1000, CODE_TXT.get(c % 1000, "?"), path))
        if verdict:
            if c == 0 and M >= 2:
                sig = SIG_FFSP_WAIT
                what = ("the wait action is not offered while every job of the stage is ready, so a free machine must take a job: best makespan "
                        "over all %d complete sequences = %s, optimum = %s" % (verdict["complete_sequences"], verdict["observed_best_reachable_makespan"], opt_of(verdict)))
            else:
                sig = "ffsp: optimum-not-reachable"
                what = ("best makespan over all %d complete mask-confined sequences = %s, optimum of the independent enumeration = %s"
                        % (verdict["complete_sequences"], verdict["observed_best_reachable_makespan"], opt_of(verdict)))
            wit = (J, S_, M, rt) == FFSP_WITNESS
            if sig not in pending or (wit and not pending[sig][0]):
                pending[sig] = (wit, ffsp_replay_obj(J, S_, M, rt, what, verdict))
    for sig, (_, rep) in sorted(pending.items()):
        coll.fail(sig, rep)
    return st


# ------------------------------------------------------------------------------------------------ unit
def run_unit(ctx, proofs_ok):
    import torch
    t0 = time.time()
    rng = random.Random(ctx.rng.randrange(2 ** 62))
    torch.manual_seed(rng.randrange(2 ** 31))
    big = ctx.tier == "thorough"
    ctx.rule += (" [sched] EXHAUSTIVE expansion of the real env over every True mask entry from reset to done on tiny instances: SMTWTP "
                 "3..5 jobs (thorough ..6), k/64 data with due dates on completion times; FJSP / JSSP 2..3 jobs x 2 machines (thorough "
                 "also 3), 1..3 operations per job, integer times 1..10 with ties, both mask_no_ops values, plus the 5-operation witness; "
                 "FFSP 2..3 jobs x 1..2 stages x 1..2 machines; expansions are capped (cap hits recorded; a capped expansion takes no part "
                 "in the optimum comparison). Optimum = independent enumeration of all operation orders x machine choices with "
                 "semi-active timing from the instance data. non-trivial = complete sequence of >= 2 actions.")
    ctx.assumptions += [
        "sched unit: a solution of FJSP/JSSP/FFSP is a schedule (Spec/Schedule.v, Spec/FlowShop.v); the objective is the makespan; "
        "every complete episode is a valid schedule with reward = -makespan (C07), so 'best reachable = optimum' is the comparison "
        "the property asks for. Schedules that are not event-time (an operation starts while nothing completes) are NOT reachable "
        "in any env: they are dominated operation by operation by a reachable schedule (C05_fjsp_dominating_reachable) -- the "
        "scheduling analogue of the documented pruning of pointless moves",
        "sched unit: FFSP positive completeness (one machine per stage) is NOT proved, only observed on the enumerated instances",
    ]
    with C.Threads():
        coll = C.Collector(ctx, "C05", "sched")
        unit = {"fjsp_jssp": fjsp_campaign(ctx, torch, rng, C.budget(ctx, 7, 100), big, coll, ""),
                "smtwtp": smtwtp_campaign(ctx, torch, rng, [3, 4, 5] + ([3, 4, 4, 5, 5, 6, 6] if big else []), coll, ""),
                "ffsp": ffsp_campaign(ctx, torch, rng, C.budget(ctx, 7, 80), big, coll, "")}
        dis = sum(u["disagreements"] for u in unit.values())
        new = [s for s in coll.best if s not in (SIG_ND % "jssp", SIG_ND % "fjsp", SIG_FFSP_WAIT)]
        if (dis or not proofs_ok or any("C05_sched" in b for b in ctx.broken)) and not new and not C.guard.timed_out():
            unit["search"] = {"fjsp_jssp": fjsp_campaign(ctx, torch, rng, 30, True, coll, "_search", count=False),
                              "smtwtp": smtwtp_campaign(ctx, torch, rng, [3, 4, 4, 5, 5], coll, "_search", count=False),
                              "ffsp": ffsp_campaign(ctx, torch, rng, 24, False, coll, "_search", count=False)}
        unit["disagreements"] = dis
        unit["concrete_failures"] = coll.flush()
        unit["signatures_seen"] = sorted(coll.best)
        unit["observables"] = ("action_mask at every state of the exhaustive expansion, done, env.get_reward / td['reward'] of every complete "
                               "sequence; compared with the optimum of an independent enumeration of schedules")
        unit["env_call_guard"] = C.guard.evidence()
        unit["wall_s_unit"] = round(time.time() - t0, 1)
        ctx.units["sched"] = unit


# ------------------------------------------------------------------------------------------------ replay
def replay(obj):
    import torch
    rng = random.Random(0)
    print("signature:", obj.get("signature"))
    print("what     :", obj.get("what"))
    k = obj.get("kind")
    if k == "c05_fjsp":
        kind = "jssp" if obj["env"] == "JSSPEnv" else "fjsp"
        inst = obj["instance"]
        opt, ent = fjsp_brute(inst)
        print("instance :", inst)
        for mno in (True, False):
            ex = fjsp_expand(torch, kind, mno, inst)
            best = min((-r for _, _, r in ex["seqs"]), default=None)
            print("%s mask_no_ops=%s now: %d complete mask-confined sequences, best makespan %s%s%s" % (
                obj["env"], mno, len(ex["seqs"]), best, " (cap hit)" if ex["cap_hit"] else "", " crash %s" % ex["crash"] if ex["crash"] else ""))
        print("optimal makespan (independent enumeration): %s   schedule (op, machine, start, end): %s" % (opt, ent))
    elif k == "c05_ffsp" and obj.get("hangs_in"):
        return G.replay(dict(obj, unit="ffsp"))
    elif k == "c05_ffsp":
        gp = obj["generator_params"]
        J, S_, M = gp["num_job"], gp["num_stage"], gp["num_machine"]
        env = C.ffsp_env(J, S_, M, True)
        leaves, hit = G.ffsp_dfs(env, obj["run_time"], rng, 5000)
        ok = [l for l in leaves if not l.get("crashed")]
        print("FFSPEnv %s run_time %s now: %d complete mask-confined sequences, best makespan %s%s" % (
            gp, obj["run_time"], len(ok), min((-l["reward"] for l in ok), default=None), " (cap hit)" if hit else ""))
        print("wait action offered at reset now:", ok[0]["obs0"]["mask"][J] if ok else None)
        print("optimal makespan (independent enumeration): %s   schedule (job, machine, start, end): %s" % ffsp_brute(obj["run_time"], J, S_, M))
    elif k == "c05_smtwtp":
        from rl4co.envs import SMTWTPEnv
        row = (obj["job_due_time_x64"], obj["job_weight_x64"], obj["job_process_time_x64"])
        n = len(row[0]) - 1
        ex = smtwtp_expand(torch, SMTWTPEnv(generator_params=dict(num_job=n), check_solution=False), row)
        impl = {tuple(a): r for a, _, r in ex["seqs"]}
        opt = max(smtwtp_obj(row, p) for p in itertools.permutations(range(1, n + 1)))
        print("SMTWTPEnv n=%d now: %d complete sequences (n! = %d), best reward %s, optimum %s" % (
            n, len(impl), len(list(itertools.permutations(range(n)))), max(impl.values(), default=None), float(opt)))
        if "sequence" in obj:
            print("sequence %s reachable now: %s" % (obj["sequence"], tuple(obj["sequence"]) in impl))
    for key in ("expected_optimal_makespan", "observed_best_reachable_makespan", "expected", "observed", "crash", "prefix"):
        if key in obj:
            print(key, "(recorded):", obj[key])
    return 0


if __name__ == "__main__":
    sys.exit(replay(json.load(open(sys.argv[-1]))))
