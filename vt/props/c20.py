"""C20 -- running statistics and stateful baselines are exact for any training history.

Proof obligations: Properties/C20.v (theorems over every ordered field, about the code as translated
from /repo on this run).  Correspondence: the translated code is executed at Qc inside Coq on the same
histories the real RewardScaler / ExponentialBaseline / WarmupBaseline classes were driven through.
Search (when either breaks): the property itself is evaluated on the implementation's outputs with exact
rational arithmetic (mean = sum/n, M2 = sum of squared deviations, EMA recurrence, convex combination).
RewardScaler.__call__ on single-valued histories (variance 0: factor std + eps = eps exactly) is compared EXACTLY, in Coq
(Harness/HC20.v check_call_zero_var, theorems C20_scaler_*_zero_variance) and against x / eps resp. 0."""
import math
from fractions import Fraction

from vt.common import Ctx, cq, clist, cz, cnat, cnatlist, coq_eval_shards

HEADER = "From Coq Require Import List ZArith QArith.\nFrom RL4CO Require Import Harness.HC20.\nImport ListNotations.\nOpen Scope Q_scope.\n"


def F(x):
    return Fraction(float(x))


def gen_history(rng, tier, kind):
    nb = rng.randint(1, 30 if tier == "thorough" else 12)
    hist = []
    mag = {"small": 1, "mid": 64, "huge": 2 ** 20}[rng.choice(["small", "mid", "huge"]) if kind != "f32" else rng.choice(["small", "mid"])]
    for _ in range(nb):
        k = rng.randint(1, 17)
        if rng.random() < 0.2:
            v = rng.randint(-64, 64) * mag / 64.0
            hist.append([v] * k)
        else:
            hist.append([rng.randint(-256, 256) * mag / 64.0 for _ in range(k)])
    return hist, mag


def run(ctx: Ctx, proofs_ok: bool):
    import torch
    from rl4co.models.rl.common.utils import RewardScaler
    from rl4co.models.rl.reinforce.baselines import (ExponentialBaseline, MeanBaseline, WarmupBaseline,
                                                     REINFORCEBaseline)

    rng = ctx.rng
    tier = ctx.tier
    n_hist = 400 if tier == "thorough" else 120
    ctx.rule = ("histories of 1..30 batches (quick 1..12) of sizes 1..17 with dyadic values (k/64 times 1, 64 or 2^20), "
                "20% constant batches, float64 and float32; EMA histories with dyadic beta; warm-up with n_epochs 1..6 and "
                "0..8 epoch callbacks; __call__ additionally on single-valued histories (first batch of 1,2,4,8,16 values, later batches 1..17, float32 and float64, both modes). non-trivial = at least 2 batches (scaler/EMA) or 0<alpha<1 (warm-up); distinct by hash of the inputs")
    ctx.trusted.append("translator/py2gallina.py (whitelist; meaning of .sum(), .mean(), len, scalar-vector broadcasting)")
    ctx.assumptions += ["sqrt is torch's (abstract function in the model); count = 1 (division by zero in the code) excluded",
                        "float rounding: implementation compared with the exact model within a per-case tolerance"]

    spec_fail = []   # concrete violations of the property on the implementation (search results)

    # ------------------------------------------------------------------ RewardScaler
    cases, meta = [], []
    for i in range(n_hist):
        kind = "f64" if i % 3 else "f32"
        dt = torch.float64 if kind == "f64" else torch.float32
        hist, mag = gen_history(rng, tier, kind)
        sc = RewardScaler(scale="norm")
        obs = []
        seen = []
        bad = None
        rows_hist = []
        for b in hist:
            # every third history feeds multi-dimensional batches ([B,S], as POMO's [batch, num_starts] advantages;
            # sometimes [B,S,1]): the statistics must count every VALUE, whatever the shape of the batch
            rows = [[x] for x in b]
            t = torch.tensor(b, dtype=dt)
            if i % 3 == 1 and len(b) >= 2:
                divs = [d for d in range(2, len(b) + 1) if len(b) % d == 0]
                S = rng.choice(divs)
                rows = [b[k:k + S] for k in range(0, len(b), S)]
                t = torch.tensor(rows, dtype=dt)
                if rng.random() < 0.3:
                    t = t.unsqueeze(-1)
                ctx.count("scaler_batches_multidim")
            rows_hist.append(rows)
            sc.update(t)
            seen += b
            if not (math.isfinite(float(sc.mean)) and math.isfinite(float(sc.M2))):
                # a non-finite statistic on finite data is a failure of the property itself (and cannot be a Coq literal)
                bad = {"unit": "RewardScaler.update", "dtype": kind, "history": hist[:len(rows_hist)], "history_as_rows": rows_hist,
                       "observed": {"count": int(sc.count), "mean": float(sc.mean), "M2": float(sc.M2)},
                       "expected": "finite mean and M2 (all inputs are finite)"}
                spec_fail.append(bad)
                break
            obs.append((int(sc.count), F(sc.mean), F(sc.M2)))
        if bad is not None:
            ctx.count("scaler_histories_nonfinite")
            continue
        n = len(seen)
        eps = 1e-11 if kind == "f64" else 2e-5
        tol = Fraction(eps) * (1 + mag) ** 2 * n
        # property on the implementation, exact rationals (search oracle)
        xs = [Fraction(x) for x in seen]
        mean = sum(xs) / n
        ssd = sum((x - mean) ** 2 for x in xs)
        if int(sc.count) != n or abs(F(sc.mean) - mean) > tol * (1 + abs(mean)) or abs(F(sc.M2) - ssd) > tol * (1 + abs(ssd)):
            bad = {"unit": "RewardScaler.update", "dtype": kind, "history": hist, "history_as_rows": rows_hist,
                   "observed": {"count": int(sc.count), "mean": float(sc.mean), "M2": float(sc.M2)},
                   "expected": {"count": n, "mean": float(mean), "M2": float(ssd)}}
            spec_fail.append(bad)
        steps = clist("(%s, (%s, %s, %s))" % (clist(clist(cq(Fraction(x)) for x in r) for r in rows), cz(c), cq(m), cq(M))
                      for rows, (c, m, M) in zip(rows_hist, obs))
        cases.append("(%s, %s)" % (cq(tol), steps))
        meta.append({"unit": "scaler", "dtype": kind, "batches": [len(b) for b in hist], "mag": mag})
        ctx.seen({"s": hist, "k": kind}, nontrivial=len(hist) >= 2)
        ctx.count("scaler_histories_" + kind)
        ctx.count("scaler_batches", len(hist))
        if i < 2:
            ctx.sample({"unit": "RewardScaler.update", "dtype": kind, "history": hist,
                        "impl_final": {"count": int(sc.count), "mean": float(sc.mean), "M2": float(sc.M2)}})
    try:
        codes = coq_eval_shards("cases_C20_scaler", HEADER, "Q * list (list (list Q) * scaler_obs)", "check_scaler", cases, shard=30)
    except RuntimeError as e:
        codes = None
        ctx.broken.append("correspondence C20/scaler could not be evaluated: %s" % str(e)[-600:])
    if codes is not None:
        nz = [(i, c) for i, c in enumerate(codes) if c != 0]
        ctx.units["RewardScaler.update"] = {"cases": len(codes), "disagreements": len(nz)}
        if nz:
            i, c = nz[0]
            ctx.broken.append("correspondence C20/scaler: translated model and implementation differ (case %d, code %d: step %d, field %d of count/mean/M2) %s" % (i, c, c // 1000, c % 1000, meta[i]))

    # ------------------------------------------------------------------ __call__ (norm / scale): stated transformation
    ncall = 0
    for i in range(n_hist // 2):
        hist, mag = gen_history(rng, tier, "f64")
        if sum(len(b) for b in hist) < 2:
            continue
        mode = "norm" if i % 2 == 0 else "scale"
        sc = RewardScaler(scale=mode)
        seen = []
        for b in hist:
            t = torch.tensor(b, dtype=torch.float64)
            out = sc(t.clone())
            seen += b
            n = len(seen)
            if n < 2:
                continue
            xs = [Fraction(x) for x in seen]
            mean = sum(xs) / n
            var = sum((x - mean) ** 2 for x in xs) / (n - 1)
            den = math.sqrt(float(var)) + torch.finfo(torch.float64).eps
            exp = [((float(x) - float(mean)) if mode == "norm" else float(x)) / den for x in b]
            got = [float(v) for v in out]
            # float32 cast of std inside the code (`.float().sqrt()`): relative 1e-6
            for g, e_ in zip(got, exp):
                if not (abs(g - e_) <= 2e-6 * (1 + abs(e_)) or (math.isinf(e_) and math.isinf(g)) or (den < 1e-12)):
                    spec_fail.append({"unit": "RewardScaler.__call__", "mode": mode, "history": hist,
                                      "batch": b, "observed": got, "expected": exp})
                    break
        ncall += 1
        ctx.seen({"call": hist, "m": mode}, nontrivial=len(hist) >= 2)
    ctx.count("scaler_call_histories", ncall)
    ctx.units["RewardScaler.__call__"] = {"cases": ncall}

    # ------------------------------------------------------------------ __call__ on single-valued histories (variance 0)
    # Every value observed so far is the same dyadic number v, so M2 = 0, std = sqrt(0) = 0 and the scaling factor
    # std + eps is EXACTLY eps: 'scale' returns v / eps (a power-of-two scaling, exact in floating point), 'norm' returns 0.
    # The first batch has a power-of-two size (v / k summed k times is then exact, so mean = v and M2 = 0 exactly);
    # later batches have any size (delta = v - mean = 0).  Compared exactly, in Coq (model at Qc, sq 0 = 0) and here.
    cases, meta = [], []
    zrng = __import__("random").Random("C20-zero-variance-%s" % ctx.seed)    # own stream: the histories above/below stay as they were
    n_zero = 24 if tier == "quick" else 96
    for i in range(n_zero):
        mode = "scale" if i % 2 == 0 else "norm"
        kind = "f32" if (i // 2) % 2 == 0 else "f64"
        dt = torch.float32 if kind == "f32" else torch.float64
        eps = Fraction(float(torch.finfo(dt).eps))
        if i == 0:
            v, sizes = 2.0, [4]                       # cf. the sweep's input RewardScaler('scale')([2,2,2]) -> 2 / 2^-23 = 16777216
        else:
            v = zrng.choice([-1, 1]) * zrng.randint(0 if i % 7 == 3 else 1, 256) / 64.0 * zrng.choice([1, 64])
            sizes = [zrng.choice([1, 2, 4, 8, 16])] + [zrng.randint(1, 17) for _ in range(zrng.randint(0, 3))]
            if sum(sizes) < 2:
                sizes.append(zrng.randint(1, 9))
        sc = RewardScaler(scale=mode)
        steps, seen_n, bad = [], 0, None
        for k in sizes:
            b = [v] * k
            out = sc(torch.tensor(b, dtype=dt))
            seen_n += k
            got = [float(x) for x in out]
            steps.append((b, got))
            if seen_n < 2:
                continue                              # count = 1: the code divides 0 by 0 (nan), excluded as in the theorems
            exp = [float(Fraction(v) / eps)] * k if mode == "scale" else [0.0] * k
            if bad is None and (got != exp or any(math.isnan(g) for g in got)):
                bad = {"unit": "RewardScaler.__call__", "mode": mode, "dtype": kind, "history": [[v] * s for s in sizes[:len(steps)]],
                       "batch": b, "observed": got, "expected": exp, "eps": float(eps),
                       "what": "zero-variance history: std = 0, so the scaling factor std + eps is eps and the output is "
                               + ("x / eps" if mode == "scale" else "(x - mean) / eps = 0")}
        if bad is not None:
            spec_fail.append(bad)
        if all(math.isfinite(g) for _, got in steps[(1 if sizes[0] == 1 else 0):] for g in got):
            cases.append("(%s, %s, %s)" % ("true" if mode == "norm" else "false", cq(eps),
                                           clist("(%s, %s)" % (clist(cq(Fraction(x)) for x in b),
                                                               clist(cq(Fraction(g) if math.isfinite(g) else Fraction(0)) for g in got))
                                                 for b, got in steps)))
            meta.append({"unit": "RewardScaler.__call__/zero-variance", "mode": mode, "dtype": kind, "value": v, "batches": sizes})
        ctx.seen({"zero_var": [mode, kind, v, sizes]}, nontrivial=True)
        ctx.count("scaler_call_zero_variance_histories")
        if i == 0:
            ctx.sample({"unit": "RewardScaler.__call__", "mode": mode, "dtype": kind, "history": [[v] * s for s in sizes],
                        "impl_out_last": steps[-1][1]})
    try:
        codes = coq_eval_shards("cases_C20_zerovar", HEADER, "bool * Q * list (list Q * list Q)", "check_call_zero_var", cases, shard=40)
    except RuntimeError as e:
        codes = None
        ctx.broken.append("correspondence C20/scaler_call_zero_variance could not be evaluated: %s" % str(e)[-600:])
    if codes is not None:
        nz = [(i, c) for i, c in enumerate(codes) if c != 0]
        ctx.units["RewardScaler.__call__ (zero variance)"] = {"cases": len(codes), "disagreements": len(nz)}
        if nz:
            i, c = nz[0]
            ctx.broken.append("correspondence C20/scaler_call_zero_variance: model and implementation differ (case %d, code %d: step %d, "
                              "9 = model variance not 0, 10 = output) %s" % (i, c, c // 1000, meta[i]))

    # ------------------------------------------------------------------ ExponentialBaseline / MeanBaseline
    cases, meta = [], []
    for i in range(n_hist):
        beta_n = rng.choice([0, 1, 8, 13, 16]) if i % 4 else 0
        beta = beta_n / 16.0
        bl = ExponentialBaseline(beta=beta) if (beta_n or i % 8) else MeanBaseline()
        hist, mag = gen_history(rng, tier, "f64")
        vals = []
        prev = None
        for b in hist:
            v, loss = bl.eval(None, torch.tensor(b, dtype=torch.float64))
            vals.append(F(v))
            m = sum(Fraction(x) for x in b) / len(b)
            expv = m if prev is None else Fraction(beta) * prev + (1 - Fraction(beta)) * m
            prev = expv
            if abs(F(v) - expv) > Fraction(1e-9) * (1 + mag) or loss != 0:
                spec_fail.append({"unit": "ExponentialBaseline.eval", "beta": beta, "history": hist,
                                  "observed": float(v), "expected": float(expv)})
                break
        tol = Fraction(1e-10) * (1 + mag)
        steps = clist("(%s, %s)" % (clist(cq(Fraction(x)) for x in b), cq(v)) for b, v in zip(hist, vals))
        cases.append("(%s, %s, %s)" % (cq(tol), cq(Fraction(beta)), steps))
        meta.append({"beta": beta, "batches": [len(b) for b in hist]})
        ctx.seen({"ema": hist, "beta": beta}, nontrivial=len(hist) >= 2)
        ctx.count("ema_histories")
        if i == 0:
            ctx.sample({"unit": "ExponentialBaseline", "beta": beta, "history": hist, "impl_values": [float(v) for v in vals]})
    try:
        codes = coq_eval_shards("cases_C20_ema", HEADER, "Q * Q * list (list Q * Q)", "check_ema", cases, shard=30)
    except RuntimeError as e:
        codes = None
        ctx.broken.append("correspondence C20/ema could not be evaluated: %s" % str(e)[-600:])
    if codes is not None:
        nz = [(i, c) for i, c in enumerate(codes) if c != 0]
        ctx.units["ExponentialBaseline.eval"] = {"cases": len(codes), "disagreements": len(nz)}
        if nz:
            i, c = nz[0]
            ctx.broken.append("correspondence C20/ema: translated model and implementation differ (case %d, code %d) %s" % (i, c, meta[i]))

    # ------------------------------------------------------------------ WarmupBaseline
    class Stub(REINFORCEBaseline):
        def __init__(self, v, l):
            super().__init__()
            self.vv, self.ll = v, l

        def eval(self, td, reward, env=None):
            return torch.tensor(self.vv, dtype=torch.float64), torch.tensor(self.ll, dtype=torch.float64)

    cases, meta = [], []
    for n_ep in range(1, 7 if tier == "quick" else 10):
        for e in range(0, n_ep + 3):
            for rep in range(2):
                vb, lb = rng.randint(-640, 640) / 64.0, rng.randint(0, 640) / 64.0
                reward = [rng.randint(-640, 640) / 64.0 for _ in range(rng.randint(1, 9))]
                wb = WarmupBaseline(Stub(vb, lb), n_epochs=n_ep, warmup_exp_beta=0.75)
                eps_list = list(range(e))
                for ep in eps_list:
                    wb.epoch_callback(None, epoch=ep)
                v, l = wb.eval(None, torch.tensor(reward, dtype=torch.float64))
                vwb = sum(Fraction(x) for x in reward) / len(reward)
                alpha = Fraction(min(e, n_ep), n_ep)
                expv = alpha * Fraction(vb) + (1 - alpha) * vwb
                expl = alpha * Fraction(lb)
                if abs(F(wb.alpha) - alpha) > Fraction(1e-12) or abs(F(v) - expv) > Fraction(1e-9) or abs(F(l) - expl) > Fraction(1e-9):
                    spec_fail.append({"unit": "WarmupBaseline", "n_epochs": n_ep, "epoch_callbacks": eps_list,
                                      "v_b": vb, "l_b": lb, "reward": reward,
                                      "observed": {"alpha": float(wb.alpha), "value": float(v), "loss": float(l)},
                                      "expected": {"alpha": float(alpha), "value": float(expv), "loss": float(expl)}})
                cases.append("(%s, (%s, %s, (%s, %s, %s, %s), (%s, %s, %s)))" % (
                    cq(Fraction(1e-10)), cnat(n_ep), cnatlist(eps_list), cq(Fraction(vb)), cq(Fraction(lb)), cq(vwb), cq(Fraction(0)),
                    cq(F(wb.alpha)), cq(F(v)), cq(F(l))))
                meta.append({"n_epochs": n_ep, "callbacks": e})
                ctx.seen({"w": [n_ep, e, vb, lb, reward]}, nontrivial=0 < e < n_ep)
                ctx.count("warmup_cases")
                if n_ep == 3 and e == 1 and rep == 0:
                    ctx.sample({"unit": "WarmupBaseline", "n_epochs": n_ep, "epoch_callbacks": eps_list, "v_b": vb, "l_b": lb,
                                "reward": reward, "impl": {"alpha": float(wb.alpha), "value": float(v), "loss": float(l)}})
    try:
        codes = coq_eval_shards("cases_C20_warm", HEADER, "Q * warm_case", "check_warmup", cases, shard=60)
    except RuntimeError as e:
        codes = None
        ctx.broken.append("correspondence C20/warmup could not be evaluated: %s" % str(e)[-600:])
    if codes is not None:
        nz = [(i, c) for i, c in enumerate(codes) if c != 0]
        ctx.units["WarmupBaseline"] = {"cases": len(codes), "disagreements": len(nz)}
        if nz:
            i, c = nz[0]
            ctx.broken.append("correspondence C20/warmup: translated model and implementation differ (case %d, code %d) %s" % (i, c, meta[i]))

    # ------------------------------------------------------------------ decision
    ctx.extra["spec_on_impl_failures"] = len(spec_fail)
    if spec_fail:
        # report the smallest failing history per unit
        by_unit = {}
        for f in spec_fail:
            size = len(str(f))
            if f["unit"] not in by_unit or size < by_unit[f["unit"]][0]:
                by_unit[f["unit"]] = (size, f)
        for u, (_, f) in sorted(by_unit.items()):
            f["what"] = "the implementation's statistic differs from the exact value recomputed from the observed history"
            ctx.violation(f, tag=u.split(".")[0])
