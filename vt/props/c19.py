"""C19 -- persistence round-trips preserve instances, environments and policies  (PARTIAL: see below).

PROVED (Properties/C19.v over Data/Persist.v, Data/PersistProofs.v, Data/PersistLoad.v; all sizes):
  * FJSP text files: fjsp.parser.read(write(i)) = i up to padding, for every number of jobs / machines / operations
    per job, every max_ops >= total; the inputs the writer / reader refuse; same for the documented JSSP format and
    jssp.parser.read (word-level model: a file is a list of lines of words); below it, Data/PersistText.v proves that
    str.split undoes the writer's joins and int(str(z)) = z (character level).
  * directories: get_n_ops_of_instance = number of operations of the file, the file generators return every instance
    padded to the largest count of the directory (any listing order), the writer's file name carries the index
    (distinct names); rl4co.data.utils.check_extension appends the extension exactly when it is missing.
  * dataset files: load_npz_to_tensordict / save_tensordict_to_npz bookkeeping (keys, order, batch size) GIVEN that the
    npz byte format round-trips (hypothesis), CVRPEnv.load_data and MTVRPEnv.load_data arithmetic over any ordered
    field: generate_vrp_data -> np.savez -> load_data gives demand / capacity, in [0,1] when 0 <= demand <= capacity,
    and route feasibility is preserved.
Correspondence (this file, every run): the real writer / readers / loaders are driven on random, generator-made and
boundary inputs (1 job, 1 machine, single eligible machine, max_ops larger than needed, times 1 and 2^24-1, ill-formed
files, ...), the Gallina models are run inside Coq (vm_compute) on the same inputs and everything observable is
compared exactly (token streams, parsed structures, raised / not raised; re-normalised floats within 2^-20).
Spec-on-impl (every run): the round-trip statement itself is evaluated on what the implementation produced.

NOT PROVABLE HERE, TESTED DIFFERENTIALLY (vt/c19_diff.py; reported in the evidence as testing, never as proof):
  npz bytes for every environment's generated TensorDict, copy.deepcopy / pickle of every environment (same masks along
  random action sequences, same rewards, same generator stream), Lightning checkpoints of REINFORCE with each baseline
  (same greedy actions / rewards, baseline values), FJSP/JSSP text files through the file generators."""
import math
import os
import re
import shutil
import time
from decimal import Decimal, InvalidOperation
from fractions import Fraction

from vt.common import BUILD, Ctx, coq_eval_shards

HEADER = ("From Coq Require Import String ZArith List Bool Arith QArith Qcanon.\n"
          "From RL4CO Require Import Base.OField Base.OFieldQc Data.Persist Data.PersistLoad Harness.HC19.\n"
          "Import ListNotations.\nOpen Scope Z_scope.\n"
          "Definition a0 := @A0 QcF. Definition a1 := @A1 QcF. Definition a2 := @A2 QcF. Definition a3 := @A3 QcF.\n"
          "Definition K (s : string) (a : arrq) : string * arrq := (s, a).\n")
WORK = BUILD / "c19"
BIG = 16777215       # 2^24 - 1: largest odd integer a float32 holds exactly
BADZ = -999983

_T = {}


class RealTimeout(BaseException):
    """a call into rl4co did not return within the wall-clock limit (BaseException: the `except Exception` blocks that
    record 'the code raised' as an observable must not swallow it)"""

    def __init__(self, what, secs):
        BaseException.__init__(self, "%s did not return within %.0f s" % (what, secs))
        self.what, self.secs = what, secs


def real(what, fn, *a, **k):
    """every call into the real rl4co code goes through here: vt/sched_guard.py (SIGALRM in the main thread)"""
    from vt import sched_guard
    try:
        return sched_guard.call("rl4co", what, fn, *a, **k)
    except sched_guard.EnvTimeout as e:
        raise RealTimeout(what, e.secs)


def nonterminating(spec_fail, e, replay):
    spec_fail.append(("%s: call into rl4co does not terminate" % e.what, dict(replay, limit_s=e.secs,
                      what="the call did not return within the wall-clock limit of the harness; the input is recorded")))


MAX_NUMEL = 20000      # a parsed instance larger than this is not converted (the shape alone is reported)


def T():
    if not _T:
        import torch
        from tensordict import TensorDict
        torch.set_num_threads(2)
        import logging
        logging.getLogger("rl4co").setLevel(logging.CRITICAL)
        import rl4co.envs.scheduling.fjsp.parser as FP
        import rl4co.envs.scheduling.jssp.parser as JP
        _T.update(torch=torch, TensorDict=TensorDict, FP=FP, JP=JP)
    return _T


# ------------------------------------------------------------------------------------------------ Coq literals
def z(n):
    n = int(n)
    return "(%d)" % n if n < 0 else "%d" % n


def zl(xs):
    return "[" + "; ".join(z(x) for x in xs) + "]"


def zll(xss):
    return "[" + "; ".join(zl(x) for x in xss) + "]"


def bl(xs):
    return "[" + "; ".join("true" if b else "false" for b in xs) + "]"


def nat(n):
    assert 0 <= int(n) < 5000
    return "%d%%nat" % int(n)


def opt(s):
    return "None" if s is None else "(Some %s)" % s


def c_tok(t):
    if t[0] == "I":
        return "(TInt %s)" % z(t[1])
    if t[0] == "F":
        return "(TFloat %s %s)" % (z(t[1]), z(t[2]))
    return "TBad"


def c_file(toks):
    return "[" + "; ".join("[" + "; ".join(c_tok(t) for t in line) + "]" for line in toks) + "]"


def c_ginst(g):
    return "(Build_ginst %s %s %s %s)" % (zl(g["start"]), zl(g["end"]), zll(g["pt"]), bl(g["pad"]))


def c_rinst(r):
    return "(Build_rinst %s %s %s %s %s %s %s)" % (zl(r["start"]), zl(r["end"]), zll(r["pt"]), bl(r["pad"]),
                                                   z(r["nj"]), z(r["nm"]), z(r["mopj"]))


def c_q(f):
    f = Fraction(f)
    return "(qc %s %d)" % (z(f.numerator), f.denominator)


def c_arr(a):
    """a = nested python lists of Fractions (rank 0..3 given explicitly as (rank, data))"""
    rank, data = a
    if rank == 0:
        return "(a0 %s)" % c_q(data)
    if rank == 1:
        return "(a1 [%s])" % "; ".join(c_q(x) for x in data)
    if rank == 2:
        return "(a2 [%s])" % "; ".join("[" + "; ".join(c_q(x) for x in r) + "]" for r in data)
    return "(a3 [%s])" % "; ".join("[" + "; ".join("[" + "; ".join(c_q(x) for x in r) + "]" for r in m) + "]" for m in data)


def c_items(items):
    return "[" + "; ".join('K "%s" %s' % (k, c_arr(a)) for k, a in items) + "]"


# ------------------------------------------------------------------------------------------------ words
INT_RE = re.compile(r"[+-]?\d+")


def tokenize(text):
    """file2lines' view of a text file, word by word, without converting: list of lines of words"""
    return [line.split() for line in text.splitlines() if line.strip()]


def classify(word):
    """the model's token for a word: ('I', z) | ('F', ip, fr) | ('B',)   (what parse_num does with it)"""
    if "." not in word:
        try:
            return ("I", int(word))
        except ValueError:
            return ("B",)
    try:
        v = float(word)
        if math.isinf(v) or math.isnan(v):
            return ("B",)
        ip = int(v)
    except (ValueError, OverflowError):
        return ("B",)
    try:
        d = Decimal(word)
        fr = (abs(d) - abs(Decimal(int(d)))) * 100000
        fr = int(fr) if fr == fr.to_integral_value() else int(fr)
    except (InvalidOperation, ValueError):
        fr = 0
    return ("F", ip, fr)


def toks_of_text(text):
    return [[classify(w) for w in line] for line in tokenize(text)]


def render(toks, rng=None):
    """a text file holding the given words (ints / raw strings); optional whitespace noise (below the model's level)"""
    lines = []
    for line in toks:
        sep = " " if rng is None else rng.choice([" ", "  ", "\t", " \t "])
        lines.append(sep.join(str(w) for w in line))
    if rng is None:
        return "\n".join(lines)
    out = []
    for ln in lines:
        if rng.random() < 0.15:
            out.append(rng.choice(["", "   ", "\t"]))
        out.append(ln + rng.choice(["", " ", "\t"]))
    return "\n".join(out) + rng.choice(["", "\n", "\n\n"])


# ------------------------------------------------------------------------------------------------ instances
def make_g(rng, nops, nm, W, mode="rand", times="mixed", junk=False):
    total = sum(nops)
    W = max(W, total)
    start, end, s = [], [], 0
    for n in nops:
        start.append(s)
        end.append(s + n - 1)
        s += n
    pt = [[0] * W for _ in range(nm)]

    def dur():
        if times == "one":
            return 1
        if times == "big":
            return rng.choice([BIG, BIG - 1, 10 ** 6 + 7])
        r = rng.random()
        return 1 if r < 0.15 else (rng.choice([BIG, 99999, 4096]) if r < 0.25 else rng.randint(1, 99))

    for o in range(total):
        if mode == "single":
            ms = [rng.randrange(nm)]
        elif mode == "all":
            ms = list(range(nm))
        elif mode == "holes":        # some operations have no machine at all (flexibility may drop below 1)
            ms = [m for m in range(nm) if rng.random() < 0.35]
        else:
            k = rng.randint(1, nm)
            ms = rng.sample(range(nm), k)
        for m in ms:
            pt[m][o] = dur()
    if junk:
        for o in range(total, W):
            for m in range(nm):
                if rng.random() < 0.5:
                    pt[m][o] = rng.randint(1, 50)
    return {"start": start, "end": end, "pt": pt, "pad": [o >= total for o in range(W)]}


def g_total(g):
    return sum(e - s + 1 for s, e in zip(g["start"], g["end"]))


def wf_py(g):
    """mirror of Persist.wf_fjspb (only for statistics and the python-side spec; Coq evaluates its own)"""
    st, en, pt, pad = g["start"], g["end"], g["pt"], g["pad"]
    if not st or len(st) != len(en):
        return False
    nops = [e - s + 1 for s, e in zip(st, en)]
    if any(n < 0 for n in nops):
        return False
    s, cs, ce = 0, [], []
    for n in nops:
        cs.append(s)
        s += n
        ce.append(s - 1)
    total, W = s, len(pad)
    return (st == cs and en == ce and 1 <= total <= W and pad == [o >= total for o in range(W)]
            and all(len(r) == W for r in pt) and all(d >= 0 for r in pt for d in r[:total]))


def repad_py(g, W):
    total = g_total(g)
    return {"start": list(g["start"]), "end": list(g["end"]),
            "pt": [r[:total] + [0] * (W - total) for r in g["pt"]], "pad": [o >= total for o in range(W)],
            "nj": len(g["start"]), "nm": len(g["pt"]),
            "mopj": max([0] + [e - s + 1 for s, e in zip(g["start"], g["end"])])}


def td_of_g(g):
    t = T()
    torch = t["torch"]
    return t["TensorDict"]({
        "start_op_per_job": torch.tensor([g["start"]], dtype=torch.int64),
        "end_op_per_job": torch.tensor([g["end"]], dtype=torch.int64),
        "proc_times": torch.tensor([g["pt"]], dtype=torch.float32).reshape(1, len(g["pt"]), len(g["pad"])),
        "pad_mask": torch.tensor([g["pad"]], dtype=torch.bool),
    }, batch_size=[1])


def g_of_td_row(td, b):
    def ints(x):
        out = []
        for v in x.tolist():
            out.append(int(v) if float(v) == int(v) else BADZ)
        return out
    return {"start": ints(td["start_op_per_job"][b]), "end": ints(td["end_op_per_job"][b]),
            "pt": [ints(r) for r in td["proc_times"][b]], "pad": [bool(x) for x in td["pad_mask"][b].tolist()]}


def obs_of_read(ret):
    td, nj, nm, mopj = ret
    shape = [int(x) for x in td["proc_times"].shape]
    if td["proc_times"].numel() > MAX_NUMEL or td["pad_mask"].numel() > MAX_NUMEL:
        # never convert a huge tensor element by element (a wrong machine count can make it millions of rows)
        return {"start": [], "end": [], "pt": [], "pad": [], "nj": int(nj), "nm": int(nm), "mopj": int(mopj),
                "oversize_proc_times_shape": shape, "dtypes": {k: str(v.dtype) for k, v in td.items()}, "shape": shape}
    g = g_of_td_row(td, 0)
    return {"start": g["start"], "end": g["end"], "pt": g["pt"], "pad": g["pad"],
            "nj": int(nj), "nm": int(nm), "mopj": int(mopj), "shape": shape,
            "dtypes": {k: str(v.dtype) for k, v in td.items()}}


def header_spec(text, o):
    """the part of the property every reader result must satisfy, whatever the file: num_jobs / num_machines are the
    first two numbers of the first non-blank line and proc_times has num_machines rows.  None = fine."""
    if o is None:
        return None
    ws = tokenize(text)
    if not ws or len(ws[0]) < 2:
        return None
    h = [classify(w) for w in ws[0][:2]]
    if any(t[0] == "B" for t in h):
        return None
    nj, nm = h[0][1], h[1][1]
    if o["nj"] != nj or o["nm"] != nm:
        return "read returns (num_jobs, num_machines) = (%s, %s), the header says (%s, %s)" % (o["nj"], o["nm"], nj, nm)
    if nm >= 0 and o["shape"][1] != nm:
        return "proc_times has shape %s, the header says %s machines" % (o["shape"], nm)
    return None


def flex_tie(g):
    a = sum(1 for r in g["pt"] for d in r if d > 0)
    b = sum(1 for p in g["pad"] if not p)
    if b == 0:
        return False
    num = 2 * a * 100000
    if num % b != 0 or (num // b) % 2 == 0:
        return False
    den = b // math.gcd(a, b)
    return den & (den - 1) != 0      # the quotient is not dyadic: the float a/b is inexact and decides the tie


_ENV = {}


def fjsp_env():
    if "e" not in _ENV:
        from rl4co.envs import FJSPEnv
        _ENV["e"] = FJSPEnv(generator_params=dict(num_jobs=2, num_machines=2, min_ops_per_job=1, max_ops_per_job=2))
    return _ENV["e"]


def run_fjsp_case(g, mos, d):
    """the real reset -> write -> read(max_ops) ; returns dict(file=toks|None, text, reads={mo: obs|None}, err)"""
    t = T()
    FP = t["FP"]
    res = {"file": None, "text": None, "reads": {}, "err": None, "stage": None}
    shutil.rmtree(d, ignore_errors=True)
    try:
        tdr = real("FJSPEnv.reset", fjsp_env().reset, td_of_g(g))
    except Exception as e:  # noqa: BLE001
        res["err"] = "%s: %s" % (type(e).__name__, str(e)[:120])
        res["stage"] = "reset"
        return res
    try:
        real("fjsp.parser.write", FP.write, str(d), tdr)
    except Exception as e:  # noqa: BLE001 -- the writer refusing is an observable
        res["err"] = "%s: %s" % (type(e).__name__, str(e)[:120])
        res["stage"] = "write"
        return res
    files = sorted(os.listdir(d))
    path = os.path.join(d, files[0])
    res["text"] = open(path).read()
    res["file"] = toks_of_text(res["text"])
    res["name"] = files[0]
    for mo in mos:
        try:
            res["reads"][mo] = obs_of_read(real("fjsp.parser.read", FP.read, path, max_ops=mo))
        except Exception as e:  # noqa: BLE001
            res["reads"][mo] = None
            res.setdefault("read_err", {})[str(mo)] = "%s: %s" % (type(e).__name__, str(e)[:100])
    return res


def strip_obs(o):
    return None if o is None else {k: o[k] for k in ("start", "end", "pt", "pad", "nj", "nm", "mopj")}


# ------------------------------------------------------------------------------------------------ unit 1: FJSP write/read
def fjsp_instances(ctx):
    rng, quick = ctx.rng, ctx.tier == "quick"
    out = []

    def add(kind, g):
        out.append((kind, g))

    # boundary
    add("b:1job-1machine-1op", make_g(rng, [1], 1, 1, "all", "one"))
    add("b:1job-1machine-1op-big", make_g(rng, [1], 1, 1, "all", "big"))
    add("b:1job-1machine-padded", make_g(rng, [3], 1, 7, "all"))
    add("b:1machine", make_g(rng, [2, 1, 3], 1, 6, "all"))
    add("b:1job", make_g(rng, [5], 3, 5, "rand"))
    add("b:single-eligible", make_g(rng, [2, 2, 2], 4, 6, "single"))
    add("b:all-eligible", make_g(rng, [1, 3], 3, 4, "all"))
    add("b:max_ops-much-larger", make_g(rng, [1, 1], 2, 30, "rand"))
    add("b:times-one", make_g(rng, [2, 3], 3, 6, "rand", "one"))
    add("b:times-big", make_g(rng, [2, 3], 3, 6, "rand", "big"))
    add("b:junk-in-padding", make_g(rng, [2, 2], 2, 8, "rand", junk=True))
    add("b:zero-op-job-middle", make_g(rng, [2, 0, 1], 2, 4, "rand"))
    add("b:zero-op-job-last", make_g(rng, [2, 1, 0], 2, 5, "rand"))
    add("b:zero-op-job-first", make_g(rng, [0, 2], 2, 3, "rand"))
    add("b:ops-without-machine", make_g(rng, [3, 3], 3, 7, "holes"))
    # flexibility decimal ties: 65/64 (dyadic), 321/320 would need 320 ops (thorough)
    g = make_g(rng, [16] * 4, 2, 64, "single")
    g["pt"][1][0] = 5 if g["pt"][1][0] == 0 else g["pt"][1][0]
    if g["pt"][0][0] == 0:
        g["pt"][0][0] = 7
    add("b:flex-65/64-dyadic-tie", g)
    # rejected by the writer
    g = make_g(rng, [2, 1], 2, 4, "rand")
    m = next(m for m in range(2) if g["pt"][m][1] > 0)
    g["pt"][m][1] = -4
    add("x:negative-duration", g)
    g = make_g(rng, [1, 1], 2, 3, "all")
    g["pad"] = [True, True, True]
    add("x:everything-padded", g)
    g = make_g(rng, [2, 2], 2, 6, "rand")
    g["pad"][1] = True                         # a padded column in the middle
    add("x:pad-in-the-middle", g)
    g = make_g(rng, [2, 2], 2, 6, "rand")
    g["pad"][5] = False                        # one real column too many
    add("x:pad-too-short", g)
    # random
    n_rand = 90 if quick else 500
    for i in range(n_rand):
        nj = rng.randint(1, 6 if quick else 10)
        nm = rng.randint(1, 5 if quick else 9)
        nops = [rng.randint(1, 4 if quick else 6) for _ in range(nj)]
        W = sum(nops) + rng.choice([0, 0, 1, 3, rng.randint(0, 12)])
        mode = rng.choice(["rand", "rand", "single", "all", "holes"])
        add("r:" + mode, make_g(rng, nops, nm, W, mode, rng.choice(["mixed", "mixed", "one", "big"]),
                                junk=rng.random() < 0.1))
    if not quick:
        g = make_g(rng, [40] * 8, 3, 320, "single")
        g["pt"][0][0] = g["pt"][0][0] or 3
        g["pt"][1][0] = g["pt"][1][0] or 4
        add("b:flex-321/320-non-dyadic-tie", g)
    # generator stream
    from rl4co.envs.scheduling.fjsp.generator import FJSPGenerator
    from rl4co.envs.scheduling.jssp.generator import JSSPGenerator
    t = T()
    for (nj, nm, lo, hi, B) in ([(3, 2, 1, 3, 4), (5, 3, 2, 4, 3), (2, 4, 1, 2, 3)] if quick else
                                [(3, 2, 1, 3, 8), (5, 3, 2, 4, 8), (2, 4, 1, 2, 8), (10, 5, 4, 6, 6), (6, 6, 1, 5, 6)]):
        t["torch"].manual_seed(rng.randint(0, 2 ** 31 - 1))
        gen = FJSPGenerator(num_jobs=nj, num_machines=nm, min_ops_per_job=lo, max_ops_per_job=hi,
                            max_processing_time=rng.choice([20, 99]))
        td = gen([B])
        for b in range(B):
            add("g:FJSPGenerator", g_of_td_row(td, b))
        gen = JSSPGenerator(num_jobs=nj, num_machines=nm)
        td = gen([B])
        for b in range(B):
            add("g:JSSPGenerator", g_of_td_row(td, b))
    return out


def unit_fjsp(ctx, spec_fail):
    rng = ctx.rng
    insts = fjsp_instances(ctx)
    cases, meta = [], []
    n_reset_rej = 0
    for idx, (kind, g) in enumerate(insts):
        total, W = g_total(g), len(g["pad"])
        mos = [None, W]
        mos.append(rng.choice([total, total + 2, max(total - 1, 0), 0, W + 5, 1]))
        mos = list(dict.fromkeys(mos))
        try:
            res = run_fjsp_case(g, mos, WORK / "run" / "fjsp")
        except RealTimeout as e:
            nonterminating(spec_fail, e, {"unit": "fjsp write/read", "instance": g, "max_ops_tried": mos})
            continue
        if res["stage"] == "reset":
            n_reset_rej += 1
            ctx.count("fjsp_reset_refused_instance")
            ctx.seen({"fjsp": g, "reset": res["err"]}, nontrivial=False)
            continue
        wf = wf_py(g)
        ctx.count("fjsp_kind_" + kind.split(":")[0])
        ctx.count("fjsp_wf" if wf else "fjsp_not_wf")
        tie = flex_tie(g)
        if tie:
            ctx.count("fjsp_flex_word_non_dyadic_tie_not_compared")
        if res["file"] is None:
            cases.append("(FC %s None %s None None)" % (c_ginst(g), "true" if tie else "false"))
            meta.append((kind, g, None, res))
            ctx.seen({"fjsp": g, "w": "raised"}, nontrivial=True)
            ctx.count("fjsp_writer_raised")
            continue
        for mo in mos:
            o = res["reads"][mo]
            cases.append("(FC %s %s %s (Some %s) %s)" % (
                c_ginst(g), opt(None if mo is None else z(mo)), "true" if tie else "false", c_file(res["file"]),
                opt(None if o is None else c_rinst(o))))
            meta.append((kind, g, mo, res))
            ctx.seen({"fjsp": g, "mo": mo}, nontrivial=len(g["start"]) >= 2 or total >= 2)
            ctx.count("fjsp_read_max_ops_" + ("none" if mo is None else "eq_width" if mo == W else "lt_total" if mo < total else "ge_total"))
            # ---- the property on the implementation's own output (python, independent of Coq)
            hs = header_spec(res["text"], o)
            if hs:
                spec_fail.append(("fjsp/text: read does not take num_jobs / num_machines from the header", {
                    "unit": "fjsp read (header)", "file_text": res["text"], "max_ops": mo, "difference": hs}))
            if wf:
                if mo is None or mo >= total:
                    Wexp = total if mo is None else mo
                    exp = repad_py(g, Wexp)
                    if o is None or strip_obs(o) != exp:
                        spec_fail.append(("fjsp/text: read(write(i)) differs from i beyond padding", {
                            "unit": "fjsp write/read", "instance": g, "max_ops": mo, "file_text": res["text"],
                            "expected": exp, "observed": strip_obs(o), "read_error": res.get("read_err", {}).get(str(mo))}))
                elif o is not None:
                    spec_fail.append(("fjsp/text: read accepts max_ops below the number of operations", {
                        "unit": "fjsp read", "instance": g, "max_ops": mo, "file_text": res["text"], "observed": strip_obs(o)}))
        if idx < 2 or kind.startswith("b:single"):
            ctx.sample({"unit": "fjsp write/read", "kind": kind, "instance": g, "file_text": res["text"],
                        "read(max_ops=None)": strip_obs(res["reads"].get(None))}, cap=4)
        if res["reads"].get(None) is not None and wf:
            dt = res["reads"][None]["dtypes"]
            ctx.extra.setdefault("fjsp_read_dtypes", dt)
    codes = eval_cases(ctx, "fjsp", "fcase", "check_fjsp", cases, shard=40)
    summarize(ctx, "fjsp.parser write_one/read (via FJSPEnv.reset)", codes, meta,
              lambda m: {"kind": m[0], "instance": m[1], "max_ops": m[2], "file_text": m[3]["text"],
                         "writer_error": m[3]["err"], "observed_read": strip_obs(m[3]["reads"].get(m[2])) if m[3]["file"] else None})
    ctx.units["fjsp.parser write_one/read (via FJSPEnv.reset)"]["instances_refused_by_reset"] = n_reset_rej
    return codes


CODE_TEXT = {9: "outside the modelled domain", 11: "model: writer raises, code wrote a file", 12: "model writes, code raised",
             21: "header num_jobs/num_machines differ", 22: "flexibility word differs", 23: "number of job lines differs",
             24: "a job line differs", 31: "model: reader raises, code returned", 32: "model returns, code raised",
             41: "start_op_per_job differs", 42: "end_op_per_job differs", 43: "proc_times differs", 44: "pad_mask differs",
             45: "num_jobs differs", 46: "num_machines differs", 47: "max_ops_per_job differs",
             50: "theorem right-hand side differs from the code's result", 61: "loader: raise mismatch",
             71: "character layer: lex + int() of the text differ from what file2lines returned",
             81: "get_n_ops_of_instance: raise mismatch", 82: "operation count differs", 83: "file generator: raise mismatch",
             84: "file generator: number of instances differs", 85: "file generator: an instance differs (start/end/proc_times/pad_mask)",
             86: "file name of a written instance differs", 87: "check_extension differs (or raised)",
             62: "batch size differs", 63: "keys / key order differ", 64: "rank or shape of a value differs", 65: "a value differs"}


def eval_cases(ctx, name, ctype, fn, cases, shard):
    if not cases:
        return []
    try:
        return coq_eval_shards("c19/cases_C19_%s" % name, HEADER, ctype, fn, cases, shard=shard)
    except RuntimeError as e:
        ctx.broken.append("correspondence C19/%s could not be evaluated: %s" % (name, str(e)[-700:]))
        return None


def summarize(ctx, unit, codes, meta, describe):
    if codes is None:
        ctx.units[unit] = {"kind": "correspondence", "cases": len(meta), "evaluated": False}
        return
    agree = sum(1 for c in codes if c in (0, 1, 2))
    u = {"kind": "correspondence (model evaluated in Coq by vm_compute)", "cases": len(codes),
         "agree_and_theorem_applies": sum(1 for c in codes if c == 0),
         "agree_outside_wellformedness": sum(1 for c in codes if c == 1),
         "agree_wf_but_flexibility_below_1": sum(1 for c in codes if c == 2),
         "out_of_model_skipped": sum(1 for c in codes if c == 9),
         "disagreements": len(codes) - agree - sum(1 for c in codes if c == 9)}
    ctx.units[unit] = u
    bad = [(i, c) for i, c in enumerate(codes) if c not in (0, 1, 2, 9)]
    if bad:
        i, c = bad[0]
        ctx.broken.append("correspondence C19/%s: model and implementation differ on %d case(s); first: code %d (%s) on %s" % (
            unit, len(bad), c, CODE_TEXT.get(c, "?"), str(describe(meta[i]))[:1500]))
        ctx.extra.setdefault("disagreeing_cases", []).append({"unit": unit, "code": c, "meaning": CODE_TEXT.get(c, "?"), "case": describe(meta[i])})


# ------------------------------------------------------------------------------------------------ unit 2: readers on arbitrary files
def mutate_file(rng, words, kind):
    """words: list of lines of python ints (a valid file).  Returns (label, list of lines of raw words (str))"""
    w = [[str(x) for x in line] for line in words]
    jl = list(range(1, len(w)))
    choice = rng.choice(["valid", "drop-word", "extra-words", "count-up", "count-down", "machine-0", "machine-too-big",
                         "machine-neg", "machine-neg-limit", "machine-neg-out", "dur-0", "dur-neg", "hdr-2", "hdr-1",
                         "hdr-nj+1", "hdr-nm-0", "hdr-nm-neg", "hdr-nm-smaller", "float-word", "float-hdr", "bad-word",
                         "exp-word", "no-jobs", "neg-count", "neg-nops", "dup-machine", "hdr-extra", "plus-sign"])
    if not jl and choice not in ("valid", "hdr-2", "hdr-1", "no-jobs", "hdr-extra"):
        choice = "valid"
    li = rng.choice(jl) if jl else 0
    line = w[li]

    def pos_of_machine():
        # index of some machine word in a job line
        if kind == 1:
            c = [i for i in range(0, len(line), 2)]
        else:
            c, i = [], 1
            while i < len(line):
                k = int(line[i])
                c += [i + 1 + 2 * j for j in range(k)]
                i += 1 + 2 * k
        return rng.choice(c) if c else None
    nm = int(w[0][1])
    if choice == "drop-word" and line:
        del line[rng.randrange(len(line))]
    elif choice == "extra-words":
        line += [str(rng.randint(1, 9)) for _ in range(rng.randint(1, 3))]
    elif choice == "count-up" and kind == 0:
        line[0] = str(int(line[0]) + rng.randint(1, 2))
    elif choice == "count-down" and kind == 0:
        line[0] = str(max(int(line[0]) - 1, 0))
    elif choice.startswith("machine-"):
        p = pos_of_machine()
        if p is not None and p < len(line):
            line[p] = str({"machine-0": 0, "machine-too-big": nm + 1, "machine-neg": -1, "machine-neg-limit": -nm + 1,
                           "machine-neg-out": -nm}[choice])
    elif choice in ("dur-0", "dur-neg"):
        p = pos_of_machine()
        if p is not None and p + 1 < len(line):
            line[p + 1] = "0" if choice == "dur-0" else str(-rng.randint(1, 9))
    elif choice == "hdr-2":
        w[0] = w[0][:2]
    elif choice == "hdr-1":
        w[0] = w[0][:1]
    elif choice == "hdr-extra":
        w[0] = w[0] + ["7", "8"]
    elif choice == "hdr-nj+1":
        w[0][0] = str(int(w[0][0]) + 1)
    elif choice == "hdr-nm-0":
        w[0][1] = "0"
    elif choice == "hdr-nm-neg":
        w[0][1] = "-2"
    elif choice == "hdr-nm-smaller":
        w[0][1] = str(max(nm - 1, 1))
    elif choice == "float-word" and line:
        p = rng.randrange(len(line))
        line[p] = line[p] + rng.choice([".0", ".7", ".25"])
    elif choice == "float-hdr":
        w[0][rng.randrange(2)] += ".0"
    elif choice == "bad-word" and line:
        line[rng.randrange(len(line))] = rng.choice(["abc", "1,5", "--3", "0x1f"])
    elif choice == "exp-word":
        if rng.random() < 0.5 and len(w[0]) >= 3:
            w[0][2] = rng.choice(["5e-05", "1e-05"])
        elif line:
            line[rng.randrange(len(line))] = rng.choice(["5e3", "1e2"])
    elif choice == "no-jobs":
        w = w[:1]
    elif choice == "neg-count" and kind == 0 and len(line) > 1:
        line[1] = "-1"
    elif choice == "neg-nops" and kind == 0:
        line[0] = "-2"
    elif choice == "dup-machine":
        p = pos_of_machine()
        if kind == 0 and p is not None and p + 3 < len(line):
            line[p + 2] = line[p]
    elif choice == "plus-sign" and line:
        p = rng.randrange(len(line))
        if not line[p].startswith("-"):
            line[p] = "+" + line[p]
    return choice, w


def unit_readers(ctx, spec_fail):
    t = T()
    rng, quick = ctx.rng, ctx.tier == "quick"
    FP, JP = t["FP"], t["JP"]
    cases, meta = [], []
    d = WORK / "run" / "readers"
    shutil.rmtree(d, ignore_errors=True)
    os.makedirs(d)
    n = 260 if quick else 1500
    for i in range(n):
        kind = i % 2
        nj, nm = rng.randint(1, 4), rng.randint(1, 4)
        nops = [rng.randint(1, 3) for _ in range(nj)]
        g = make_g(rng, nops, nm, sum(nops), "single" if kind == 1 else rng.choice(["rand", "single", "all"]))
        words = [[nj, nm] + ([] if kind == 1 else ["1.5"])]
        for s, e in zip(g["start"], g["end"]):
            line = [] if kind == 1 else [e - s + 1]
            for o in range(s, e + 1):
                ms = [m for m in range(nm) if g["pt"][m][o] != 0]
                if kind == 0:
                    line.append(len(ms))
                for m in ms:
                    line += [m + 1, g["pt"][m][o]]
            words.append(line)
        label, w = mutate_file(rng, words, kind)
        text = render(w, rng)
        path = os.path.join(d, "f%04d.txt" % i)
        with open(path, "w") as fh:
            fh.write(text)
        total = sum(nops)
        mo = rng.choice([None, None, total, total + 3, total - 1, 0, -1, total + 1])
        pname = "fjsp" if kind == 0 else "jssp"
        try:
            o = obs_of_read(real(pname + ".parser.read", (FP if kind == 0 else JP).read, path, max_ops=mo))
            err = None
        except Exception as e:  # noqa: BLE001
            o, err = None, "%s: %s" % (type(e).__name__, str(e)[:100])
        except RealTimeout as e:
            nonterminating(spec_fail, e, {"unit": pname + " read (header)", "file_text": text, "max_ops": mo})
            continue
        hs = header_spec(text, o)
        if hs:
            spec_fail.append(("%s/text: read does not take num_jobs / num_machines from the header" % pname, {
                "unit": pname + " read (header)", "file_text": text, "max_ops": mo, "difference": hs}))
        toks = toks_of_text(text)
        cases.append("(RC %s %s %s %s)" % (nat(kind), opt(None if mo is None else z(mo)), c_file(toks),
                                           opt(None if o is None else c_rinst(o))))
        meta.append((kind, label, mo, text, strip_obs(o), err))
        ctx.seen({"rd": text, "k": kind, "mo": mo}, nontrivial=len(toks) >= 2)
        ctx.count("reader_%s_%s" % ("fjsp" if kind == 0 else "jssp", "raised" if o is None else "returned"))
        ctx.count("reader_mutation_" + label)
        if i == 3:
            ctx.sample({"unit": "parser.read on a mutated file", "parser": "fjsp" if kind == 0 else "jssp", "mutation": label,
                        "max_ops": mo, "file_text": text, "returned": strip_obs(o), "raised": err})
    codes = eval_cases(ctx, "readers", "rcase", "check_read", cases, shard=60)
    summarize(ctx, "fjsp/jssp parser.read on arbitrary (incl. ill-formed) files", codes, meta,
              lambda m: {"parser": "fjsp" if m[0] == 0 else "jssp", "mutation": m[1], "max_ops": m[2], "file_text": m[3],
                         "returned": m[4], "raised": m[5]})
    return codes


# ------------------------------------------------------------------------------------------------ unit 3: JSSP format
def jssp_words(g):
    nm = len(g["pt"])
    words = [[len(g["start"]), nm]]
    for s, e in zip(g["start"], g["end"]):
        line = []
        for o in range(s, e + 1):
            for m in range(nm):
                if g["pt"][m][o] != 0:
                    line += [m + 1, g["pt"][m][o]]
        words.append(line)
    return words


def unit_jssp(ctx, spec_fail):
    t = T()
    rng, quick = ctx.rng, ctx.tier == "quick"
    JP = t["JP"]
    insts = [("b:1job-1machine-1op", make_g(rng, [1], 1, 1, "single", "one")),
             ("b:1machine", make_g(rng, [2, 3], 1, 5, "single")),
             ("b:1job", make_g(rng, [4], 3, 4, "single", "big")),
             ("b:padded", make_g(rng, [2, 2], 2, 9, "single")),
             ("x:two-machines-on-an-op", make_g(rng, [2, 2], 3, 4, "all"))]
    for _ in range(50 if quick else 300):
        nj, nm = rng.randint(1, 6), rng.randint(1, 6)
        nops = [rng.randint(1, 5) for _ in range(nj)]
        insts.append(("r", make_g(rng, nops, nm, sum(nops) + rng.choice([0, 0, 2, 7]), "single",
                                  rng.choice(["mixed", "one", "big"]))))
    from rl4co.envs.scheduling.jssp.generator import JSSPGenerator
    for (nj, nm) in [(3, 3), (5, 4)] if quick else [(3, 3), (5, 4), (10, 6), (6, 10)]:
        t["torch"].manual_seed(rng.randint(0, 2 ** 31 - 1))
        td = JSSPGenerator(num_jobs=nj, num_machines=nm)([3])
        for b in range(3):
            insts.append(("g:JSSPGenerator", g_of_td_row(td, b)))
    d = WORK / "run" / "jssp"
    shutil.rmtree(d, ignore_errors=True)
    os.makedirs(d)
    cases, meta = [], []
    for i, (kind, g) in enumerate(insts):
        total, W = g_total(g), len(g["pad"])
        text = render(jssp_words(g))
        path = os.path.join(d, "j%04d.txt" % i)
        with open(path, "w") as fh:
            fh.write(text)
        one = all(sum(1 for m in range(len(g["pt"])) if g["pt"][m][o] != 0) == 1 for o in range(total))
        for mo in list(dict.fromkeys([None, W, rng.choice([total, total + 4, total - 1])])):
            try:
                o, err = obs_of_read(real("jssp.parser.read", JP.read, path, max_ops=mo)), None
            except Exception as e:  # noqa: BLE001
                o, err = None, "%s: %s" % (type(e).__name__, str(e)[:100])
            except RealTimeout as e:
                nonterminating(spec_fail, e, {"unit": "jssp read (header)", "file_text": text, "max_ops": mo})
                continue
            hs = header_spec(text, o)
            if hs:
                spec_fail.append(("jssp/text: read does not take num_jobs / num_machines from the header", {
                    "unit": "jssp read (header)", "file_text": text, "max_ops": mo, "difference": hs}))
            cases.append("(JC %s %s %s %s)" % (c_ginst(g), opt(None if mo is None else z(mo)), c_file(toks_of_text(text)),
                                               opt(None if o is None else c_rinst(o))))
            meta.append((kind, g, mo, text, strip_obs(o), err))
            ctx.seen({"jssp": g, "mo": mo}, nontrivial=total >= 2)
            ctx.count("jssp_kind_" + kind.split(":")[0])
            if wf_py(g) and one:
                if mo is None or mo >= total:
                    exp = repad_py(g, total if mo is None else mo)
                    if strip_obs(o) != exp:
                        spec_fail.append(("jssp/text: read(format(i)) differs from i beyond padding", {
                            "unit": "jssp read", "instance": g, "max_ops": mo, "file_text": text, "expected": exp,
                            "observed": strip_obs(o), "read_error": err}))
        if i == 1:
            ctx.sample({"unit": "jssp format/read", "instance": g, "file_text": text})
    codes = eval_cases(ctx, "jssp", "jcase", "check_jssp", cases, shard=60)
    summarize(ctx, "jssp.parser read on the documented format", codes, meta,
              lambda m: {"kind": m[0], "instance": m[1], "max_ops": m[2], "file_text": m[3], "returned": m[4], "raised": m[5]})
    return codes


# ------------------------------------------------------------------------------------------------ unit 3b: character layer
PLAIN_INT = re.compile(r"-?\d+")


def unit_text(ctx, spec_fail):
    """Data/PersistText.v (lex, Z_of_str) against the real file2lines, on real writer output and on noisy renderings"""
    t = T()
    rng, quick = ctx.rng, ctx.tier == "quick"
    FP = t["FP"]
    d = WORK / "run" / "text"
    shutil.rmtree(d, ignore_errors=True)
    os.makedirs(d)
    cases, meta = [], []
    for i in range(60 if quick else 300):
        nj, nm = rng.randint(1, 4), rng.randint(1, 4)
        nops = [rng.randint(1, 3) for _ in range(nj)]
        g = make_g(rng, nops, nm, sum(nops) + rng.choice([0, 2]), rng.choice(["rand", "single", "all"]), rng.choice(["mixed", "big", "one"]))
        if i % 2 == 0:
            try:
                res = run_fjsp_case(g, [], d / "w")
            except RealTimeout as e:
                nonterminating(spec_fail, e, {"unit": "fjsp write/read", "instance": g})
                continue
            text = res["text"]
            if text is None:
                continue
        else:
            words = [[nj, nm, rng.choice(["1.5", "2.0", "1.33333"])]] + [[rng.randint(-9, BIG) for _ in range(rng.randint(1, 7))] for _ in range(nj)]
            text = render(words, rng)
        if any(ord(c) > 127 for c in text) or len(text) > 1500:
            continue
        path = os.path.join(d, "t%04d.txt" % i)
        with open(path, "w", newline="") as fh:
            fh.write(text)
        try:
            got = real("fjsp.parser.file2lines", FP.file2lines, path)
        except RealTimeout as e:
            nonterminating(spec_fail, e, {"unit": "file2lines", "file_text": text})
            continue
        ws = tokenize(text)
        if [len(x) for x in got] != [len(x) for x in ws]:
            spec_fail.append(("text: file2lines does not return one number per word of each non-blank line", {"unit": "file2lines", "file_text": text, "returned": got}))
            continue
        exp = [[(v if PLAIN_INT.fullmatch(w) else None) for w, v in zip(lw, lv)] for lw, lv in zip(ws, got)]
        cases.append("(%s, %s)" % ("[" + "; ".join(nat(ord(c)) for c in text) + "]",
                                   "[" + "; ".join("[" + "; ".join("None" if v is None else "(Some %s)" % z(v) for v in line) + "]" for line in exp) + "]"))
        meta.append((text, exp))
        ctx.seen({"text": text}, nontrivial=len(ws) >= 2)
        ctx.count("text_layer_cases")
    codes = eval_cases(ctx, "text", "list nat * list (list (option Z))", "check_text", cases, shard=30)
    summarize(ctx, "character layer: str.split / int() vs PersistText.lex / Z_of_str", codes, meta,
              lambda m: {"file_text": m[0], "file2lines_returned": m[1]})
    return codes


# ------------------------------------------------------------------------------------------------ unit 3c: directories of files
NAME_RE = re.compile(r"(\d{4,})_(\d+)j_(\d+)m\.txt")


def batch_td(gs):
    t = T()
    torch = t["torch"]
    return t["TensorDict"]({
        "start_op_per_job": torch.tensor([g["start"] for g in gs], dtype=torch.int64),
        "end_op_per_job": torch.tensor([g["end"] for g in gs], dtype=torch.int64),
        "proc_times": torch.tensor([g["pt"] for g in gs], dtype=torch.float32),
        "pad_mask": torch.tensor([g["pad"] for g in gs], dtype=torch.bool),
    }, batch_size=[len(gs)])


def row_obs(td, b):
    g = g_of_td_row(td, b)
    return {"start": g["start"], "end": g["end"], "pt": g["pt"], "pad": g["pad"], "nj": 0, "nm": 0, "mopj": 0}


def unit_dirs(ctx, spec_fail):
    """get_n_ops_of_instance / get_max_ops_from_files / the file generators on whole directories, and the file names write()
    gives: model (Persist.n_ops_of, file_generator, PersistText.file_name) evaluated in Coq against the real functions"""
    t = T()
    torch = t["torch"]
    rng, quick = ctx.rng, ctx.tier == "quick"
    FP, JP = t["FP"], t["JP"]
    from rl4co.envs.scheduling.fjsp.generator import FJSPFileGenerator
    from rl4co.envs.scheduling.jssp.generator import JSSPFileGenerator
    base = WORK / "run" / "dirs"
    shutil.rmtree(base, ignore_errors=True)
    os.makedirs(base)
    ncases, nmeta, gcases, gmeta, namecases, namemeta = [], [], [], [], [], []
    reps = [(0, 2), (0, 5), (0, 12), (1, 2), (1, 4), (1, 11), (0, 1), (1, 1)] if quick else \
           [(0, 2), (0, 5), (0, 12), (0, 25), (1, 2), (1, 4), (1, 11), (1, 30), (0, 1), (1, 1), (0, 3), (1, 3), (0, 7), (1, 7)]
    for rep, (kind, B) in enumerate(reps):
        pname = "fjsp" if kind == 0 else "jssp"
        P = FP if kind == 0 else JP
        nj, nm = rng.randint(1, 4), rng.randint(1, 4)
        W = 5 * nj
        gs = []
        for b in range(B):
            nops = [rng.randint(1, 4) for _ in range(nj)]
            if b == 1:
                nops = [1] * nj                      # unequal totals on purpose: the smaller instances get padded
            if b == 0:
                nops = [4] * nj
            gs.append(make_g(rng, nops, nm, W, "single" if kind == 1 else rng.choice(["rand", "single", "all"])))
        d = base / ("%s_%d" % (pname, rep))
        os.makedirs(d)
        info = {"unit": pname + " directory", "instances": gs, "parser": pname}
        try:
            # ---- write the directory
            if kind == 0:
                tdr = real("FJSPEnv.reset", fjsp_env().reset, batch_td(gs))
                texts = real("fjsp.parser.write", FP.write, str(d), tdr)
                names_now = sorted(os.listdir(d))
                # file names: <4-digit 1-based index>_<jobs>j_<machines>m.txt, one per instance, sorting in index order
                by_text = {}
                for nme in names_now:
                    by_text.setdefault(open(os.path.join(d, nme)).read(), []).append(nme)
                bad = None
                if len(names_now) != B:
                    bad = "%d instances written, %d files in the directory: %s" % (B, len(names_now), names_now)
                for i in range(B):
                    if bad:
                        break
                    exp_name = "%04d_%dj_%dm.txt" % (i + 1, nj, nm)
                    if names_now[i] != exp_name:
                        bad = "the %d-th file name in sorted order is %r, expected %r (all: %s)" % (i + 1, names_now[i], exp_name, names_now)
                    elif open(os.path.join(d, exp_name)).read() != texts[i]:
                        bad = "file %r does not hold instance %d of the batch" % (exp_name, i)
                for i in range(B):
                    namecases.append("(%s, %s, %s, %s)" % (z(i), z(nj), z(nm), "[" + "; ".join(nat(ord(c)) for c in (names_now[i] if i < len(names_now) else "")) + "]"))
                    namemeta.append((i, nj, nm, names_now))
                    ctx.count("dirs_file_names")
                if bad:
                    spec_fail.append(("fjsp/files: file name of a written instance is not <4-digit 1-based index>_<jobs>j_<machines>m.txt", dict(
                        info, difference=bad, file_names=names_now)))
                    # keep going with whatever was written
                paths = [os.path.join(d, nme) for nme in names_now]
            else:
                paths = []
                for b, g in enumerate(gs):
                    pth = os.path.join(d, "%04d_%dj_%dm.txt" % (b + 1, nj, nm))
                    with open(pth, "w") as fh:
                        fh.write(render(jssp_words(g)))
                    paths.append(pth)
            # ---- get_n_ops_of_instance on every file, get_max_ops_from_files on the directory
            totals = {}
            for pth in paths:
                text = open(pth).read()
                try:
                    n, err = int(real(pname + ".parser.get_n_ops_of_instance", P.get_n_ops_of_instance, pth)), None
                except Exception as e:  # noqa: BLE001
                    n, err = None, "%s: %s" % (type(e).__name__, str(e)[:100])
                ncases.append("(NC %s %s %s)" % (nat(kind), c_file(toks_of_text(text)), opt(None if n is None else z(n))))
                nmeta.append((pname, text, n, err))
                ctx.seen({"nops": text, "k": kind}, nontrivial=True)
                ctx.count("dirs_n_ops_cases")
                totals[pth] = n
                # spec: the number of operations of the instance in that file
                own = [g for g in gs if (render(jssp_words(g)) == text if kind == 1 else True)]
                exp_n = sum(len(line) // 2 for line in tokenize(text)[1:]) if kind == 1 else None
                if kind == 0:
                    # operations of an FJSP file: first word of every job line
                    exp_n = sum(int(line[0]) for line in tokenize(text)[1:])
                if n != exp_n:
                    spec_fail.append(("%s/files: get_n_ops_of_instance is not the number of operations in the file" % pname, {
                        "unit": pname + " n_ops", "parser": pname, "file_text": text, "expected": exp_n, "observed": n, "error": err}))
            exp_max = max(g_total(g) for g in gs)
            try:
                mx = int(real(pname + ".parser.get_max_ops_from_files", P.get_max_ops_from_files, paths))
            except Exception as e:  # noqa: BLE001
                mx = "%s: %s" % (type(e).__name__, str(e)[:100])
            if mx != exp_max and len(paths) == B:
                spec_fail.append(("%s/files: get_max_ops_from_files is not the largest operation count of the directory" % pname, dict(
                    info, expected=exp_max, observed=mx)))
            # ---- the file generator on the directory
            Gen = FJSPFileGenerator if kind == 0 else JSSPFileGenerator
            nmax = None if B > 1 else rng.choice([None, exp_max + 3])
            try:
                gen = real(Gen.__name__, lambda: Gen(str(d), n_ops_max=nmax))
                files_order, back, gerr = list(gen.files), gen.td, None
            except Exception as e:  # noqa: BLE001
                files_order, back, gerr = sorted(paths), None, "%s: %s" % (type(e).__name__, str(e)[:140])
            texts_in_order = [open(f).read() for f in files_order]
            if back is not None and back["proc_times"].numel() > MAX_NUMEL:
                spec_fail.append(("%s/files: file generator builds an instance tensor of shape %s" % (pname, list(back["proc_times"].shape)), dict(info)))
                continue
            obs_rows = None if back is None else [row_obs(back, b) for b in range(back.batch_size[0])]
            gcases.append("(GC %s %s %s %s)" % (nat(kind), opt(None if nmax is None else z(nmax)),
                                                 "[" + "; ".join(c_file(toks_of_text(x)) for x in texts_in_order) + "]",
                                                 opt(None if obs_rows is None else "[" + "; ".join(c_rinst(r) for r in obs_rows) + "]")))
            gmeta.append((pname, gs, nmax, texts_in_order, gerr))
            ctx.seen({"dir": gs, "k": kind}, nontrivial=B >= 2)
            ctx.count("dirs_file_generator_cases")
            # spec on the implementation: the same instances as a multiset, each padded to the directory's width
            Wexp = exp_max if B > 1 else (nmax or exp_max)
            exp_rows = sorted(json_key({k: v for k, v in repad_py(g, Wexp).items() if k in ("start", "end", "pt", "pad")}) for g in gs)
            got_rows = None if obs_rows is None else sorted(json_key({k: r[k] for k in ("start", "end", "pt", "pad")}) for r in obs_rows)
            if got_rows != exp_rows:
                spec_fail.append(("%s/files: the file generator does not return the written instances padded to the largest operation count" % pname, dict(
                    info, n_ops_max=nmax, expected_width=Wexp, observed_shape=None if back is None else list(back["proc_times"].shape),
                    observed_pad_masks=None if obs_rows is None else [r["pad"] for r in obs_rows], error=gerr)))
            if rep == 1:
                ctx.sample({"unit": "directory through " + Gen.__name__, "file_names": [os.path.basename(f) for f in files_order],
                            "operation_counts": [totals.get(f) for f in files_order], "padded_width": None if back is None else int(back["proc_times"].shape[2])})
        except RealTimeout as e:
            nonterminating(spec_fail, e, info)
    codes = eval_cases(ctx, "nops", "ncase", "check_nops", ncases, shard=40)
    summarize(ctx, "get_n_ops_of_instance (fjsp / jssp parser)", codes, nmeta,
              lambda m: {"parser": m[0], "file_text": m[1], "returned": m[2], "raised": m[3]})
    codes = eval_cases(ctx, "filegen", "gcase", "check_filegen", gcases, shard=4)
    summarize(ctx, "FJSPFileGenerator / JSSPFileGenerator on a directory", codes, gmeta,
              lambda m: {"parser": m[0], "instances": m[1], "n_ops_max": m[2], "files_in_listing_order": m[3], "raised": m[4]})
    codes = eval_cases(ctx, "names", "Z * Z * Z * list nat", "check_name", namecases, shard=40)
    summarize(ctx, "file names given by fjsp.parser.write", codes, namemeta,
              lambda m: {"index": m[0], "num_jobs": m[1], "num_machines": m[2], "sorted_file_names": m[3]})
    return codes


def json_key(o):
    import json
    return json.dumps(o, sort_keys=True)


# ------------------------------------------------------------------------------------------------ unit 3d: check_extension
def unit_ext(ctx, spec_fail):
    """rl4co/data/utils.py check_extension (and the names save / load / generate_dataset end up using) against
    PersistText.check_extension"""
    import numpy as np
    t = T()
    torch = t["torch"]
    from rl4co.data import utils as DU
    from rl4co.data.generate_data import generate_dataset
    rng = ctx.rng
    names = ["tsp20", "tsp20.npz", "data/vrp/vrp20_test_seed1234", "data/vrp/vrp20_test_seed1234.npz", "data.v2/tsp20", "a.b.c",
             "x.npz.bak", ".npz", "..npz", "dir/.hidden", "dir/.hidden.npz", "file.", "file.NPZ", "a/b.npz/c", "x.npz/", "", "noext/",
             "archive.tar.npz", "weird name.npz", "..", "a..npz"]
    for _ in range(12 if ctx.tier == "quick" else 60):
        names.append("".join(rng.choice("ab./.n") for _ in range(rng.randint(0, 7))) + rng.choice(["", ".npz", ".np", "npz", ".npz.", ".txt"]))
    cases, meta = [], []
    for name in names:
        for ext in (".npz", ".txt", ".pkl"):
            try:
                out, err = real("data.utils.check_extension", DU.check_extension, name, ext) if ext != ".npz" else \
                    real("data.utils.check_extension", DU.check_extension, name), None
            except Exception as e:  # noqa: BLE001
                out, err = None, "%s: %s" % (type(e).__name__, str(e)[:100])
            except RealTimeout as e:
                nonterminating(spec_fail, e, {"unit": "check_extension", "name": name, "ext": ext})
                continue
            cases.append("(%s, %s, %s)" % ("[" + "; ".join(nat(ord(c)) for c in name) + "]", "[" + "; ".join(nat(ord(c)) for c in ext) + "]",
                                           opt(None if out is None else "[" + "; ".join(nat(ord(c)) for c in out) + "]")))
            meta.append((name, ext, out, err))
            ctx.seen({"ext": name, "e": ext}, nontrivial=True)
            ctx.count("check_extension_cases")
            # the property on the implementation: the result is the name itself or the name + ext, ends with ext, is stable
            ok = out is not None and out in (name, name + ext) and out.endswith(ext) and \
                (out == name) == (os.path.splitext(name)[1] == ext)
            if ok:
                try:
                    ok = DU.check_extension(out, ext) == out or os.path.splitext(out)[1] != ext
                except Exception:  # noqa: BLE001
                    ok = False
            if not ok:
                spec_fail.append(("data/utils: check_extension does not return the name with the extension appended exactly when it is missing", {
                    "unit": "check_extension", "name": name, "ext": ext, "observed": out, "error": err,
                    "expected": name if os.path.splitext(name)[1] == ext else name + ext}))
    codes = eval_cases(ctx, "ext", "list nat * list nat * option (list nat)", "check_ext", cases, shard=60)
    summarize(ctx, "rl4co.data.utils.check_extension", codes, meta, lambda m: {"name": m[0], "ext": m[1], "returned": m[2], "raised": m[3]})
    # names without the extension through the functions that take user-supplied names (differential, on the real files)
    d = WORK / "run" / "ext"
    shutil.rmtree(d, ignore_errors=True)
    os.makedirs(d)
    n = fails = 0
    for stem in ("plain", "with.dot", "already.npz"):
        n += 1
        target = str(d / stem)
        try:
            real("generate_dataset", generate_dataset, filename=target, problem="tsp", dataset_size=2, graph_sizes=[5], seed=7, overwrite=True)
            want = target if target.endswith(".npz") else target + ".npz"
            ok = os.path.isfile(want) and tuple(DU.load_npz_to_tensordict(want)["locs"].shape) == (2, 5, 2)
            err = None if ok else "expected file %s; directory holds %s" % (want, sorted(os.listdir(d)))
        except Exception as e:  # noqa: BLE001
            ok, err = False, "%s: %s" % (type(e).__name__, str(e)[:160])
        except RealTimeout as e:
            nonterminating(spec_fail, e, {"unit": "generate_dataset", "filename": target})
            continue
        if not ok:
            fails += 1
            spec_fail.append(("data/generate_data: generate_dataset(filename without / with .npz) does not produce a loadable <name>.npz", {
                "unit": "generate_dataset filename", "filename_stem": stem, "error": err}))
    # save_tensordict_to_npz / load_npz_to_tensordict with and without the extension
    td = t["TensorDict"]({"locs": torch.arange(12, dtype=torch.float32).reshape(2, 3, 2) / 16}, batch_size=[2])
    asym = None
    for stem in ("s_plain", "s_ext.npz"):
        n += 1
        target = str(d / stem)
        try:
            real("save_tensordict_to_npz", DU.save_tensordict_to_npz, td, target)
            back = real("load_npz_to_tensordict", DU.load_npz_to_tensordict, DU.check_extension(target))
            ok = torch.equal(back["locs"], td["locs"])
            err = None
        except Exception as e:  # noqa: BLE001
            ok, err = False, "%s: %s" % (type(e).__name__, str(e)[:160])
        except RealTimeout as e:
            nonterminating(spec_fail, e, {"unit": "save/load npz name", "name": stem})
            continue
        if not ok:
            fails += 1
            spec_fail.append(("npz: save_tensordict_to_npz(name) -> load_npz_to_tensordict(check_extension(name)) fails", {
                "unit": "save/load npz name", "name": stem, "error": err}))
        if not stem.endswith(".npz"):
            try:
                DU.load_npz_to_tensordict(target)
                asym = False
            except Exception:  # noqa: BLE001
                asym = True
    ctx.units["TEST names with and without .npz through generate_dataset / save_tensordict_to_npz / load_npz_to_tensordict"] = {
        "kind": "differential-test", "cases": n, "failures": fails,
        "observation": "numpy appends .npz on save; load_npz_to_tensordict(name without .npz) %s (callers are expected to go through check_extension)" % (
            "raises FileNotFoundError" if asym else "works")}
    return codes


# ------------------------------------------------------------------------------------------------ unit 4: loaders
def arr_of_tensor(x):
    """(rank, nested Fractions) of a torch tensor / numpy array of rank <= 3, else None"""
    t = T()
    torch = t["torch"]
    if not isinstance(x, torch.Tensor):
        x = torch.as_tensor(x)
    if x.dim() > 3:
        return None
    if x.dtype == torch.bool:
        x = x.to(torch.int64)

    def conv(v):
        if isinstance(v, list):
            return [conv(u) for u in v]
        if isinstance(v, float) and math.isinf(v):      # inf (distance limits, open time windows): a sentinel on both sides
            return Fraction(2 ** 100 if v > 0 else -2 ** 100)
        if isinstance(v, float) and math.isnan(v):
            return Fraction(BADZ)
        return Fraction(v)
    return (x.dim(), conv(x.tolist()))


def items_of_td(td):
    out = []
    for k in td.keys():
        a = arr_of_tensor(td[k])
        if a is None:
            return None
        out.append((k, a))
    return out


def obs_of_td(td):
    it = items_of_td(td)
    return None if it is None else (int(td.batch_size[0]), it)


def c_obs_td(o):
    return "None" if o is None else "(Some (%s, %s))" % (nat(o[0]), c_items(o[1]))


def unit_loaders(ctx, spec_fail):
    import numpy as np
    t = T()
    torch, TensorDict = t["torch"], t["TensorDict"]
    from rl4co.data.utils import load_npz_to_tensordict, save_tensordict_to_npz
    from rl4co.data.generate_data import generate_dataset, generate_env_data
    from rl4co.envs import CVRPEnv, MTVRPEnv
    rng, quick = ctx.rng, ctx.tier == "quick"
    d = WORK / "run" / "npz"
    shutil.rmtree(d, ignore_errors=True)
    os.makedirs(d)
    cases, meta = [], []
    TOL = Fraction(1, 2 ** 20)

    def add(kind, tol, file_items, obs, label, extra=None):
        cases.append("(LC %s %s %s %s)" % (nat(kind), c_q(tol), c_items(file_items), c_obs_td(obs)))
        meta.append((kind, label, extra))
        ctx.seen({"ld": kind, "l": label, "f": str(file_items)[:4000]}, nontrivial=True)
        ctx.count("loader_%s" % ["load_npz", "cvrp_load_data", "mtvrp_load_noscale", "mtvrp_load_scale"][kind])

    def save_arrays(path, items):
        np.savez(path, **{k: np.array(v) for k, v in items})

    def run(fn):
        try:
            return obs_of_td(real("dataset loader", fn)), None
        except Exception as e:  # noqa: BLE001
            return None, "%s: %s" % (type(e).__name__, str(e)[:120])
        except RealTimeout as e:
            nonterminating(spec_fail, e, {"unit": "dataset loader", "files_dir": str(d)})
            return None, "timeout"

    # ---- (a) generate_dataset("vrp") -> file -> CVRPEnv.load_data  (the real generation path, float32 division)
    k = 0
    for size in ([10, 20] if quick else [10, 15, 20, 30, 50]):
        for B in ([1, 3] if quick else [1, 2, 5]):
            seed = rng.randint(0, 2 ** 31 - 1)
            path = str(d / ("vrp_%d_%d.npz" % (size, B)))
            generate_dataset(filename=path, problem="vrp", dataset_size=B, graph_sizes=[size], seed=seed, overwrite=True)
            np.random.seed(seed)
            raw = generate_env_data("vrp", B, size, None)
            items = [(kk, arr_of_tensor(torch.as_tensor(v))) for kk, v in raw.items()]
            obs, err = run(lambda: CVRPEnv.load_data(path))
            add(1, TOL, items, obs, "generate_vrp_data size=%d B=%d" % (size, B))
            # the npz hypothesis, differentially: what np.load returns is what generate_vrp_data made
            back = dict(np.load(path))
            if list(back.keys()) != list(raw.keys()) or any(not np.array_equal(back[q], raw[q]) or back[q].dtype != raw[q].dtype for q in raw):
                spec_fail.append(("npz: np.load(np.savez(d)) differs from d", {"unit": "generate_dataset", "file": path}))
            # the property on the implementation: demand = raw / capacity, in (0,1], other keys intact
            if obs is None:
                spec_fail.append(("cvrp/load_data: raises on a generate_vrp_data file", {"unit": "CVRPEnv.load_data", "error": err, "size": size, "B": B, "seed": seed}))
            else:
                tdl = CVRPEnv.load_data(path)
                ok = (set(tdl.keys()) == set(raw.keys()) and tuple(tdl["demand"].shape) == raw["demand"].shape
                      and bool(((tdl["demand"] > 0) & (tdl["demand"] <= 1)).all())
                      and torch.allclose(tdl["demand"] * torch.as_tensor(raw["capacity"])[:, None], torch.as_tensor(raw["demand"]), rtol=1e-6, atol=0)
                      and all(torch.equal(tdl[q], torch.as_tensor(raw[q])) for q in ("depot", "locs", "capacity")))
                if not ok:
                    spec_fail.append(("cvrp/load_data: generated file is not loaded as demand/capacity in (0,1]", {
                        "unit": "CVRPEnv.load_data", "size": size, "B": B, "seed": seed,
                        "loaded_demand": tdl["demand"].tolist(), "raw_demand": raw["demand"].tolist(), "capacity": raw["capacity"].tolist()}))
            if k == 0:
                ctx.sample({"unit": "generate_dataset(vrp) -> CVRPEnv.load_data", "size": size, "B": B,
                            "raw_demand_row0": raw["demand"][0].tolist(), "capacity": raw["capacity"].tolist(),
                            "loaded_demand_row0": None if obs is None else [float(x) for x in dict(obs[1])["demand"][1][0]]})
            k += 1
    # ---- (b) exact stream: capacities 2^k, dyadic demands, boundary demand = capacity, n = 1, B = 1, broadcast shapes
    for j in range(16 if quick else 80):
        B, n = rng.randint(1, 4), rng.randint(1, 5)
        cap = [float(2 ** rng.randint(0, 6)) for _ in range(B)]
        dem = [[rng.choice([c, c / 2, 1.0, c / 4, 0.0, 2 * c]) for _ in range(n)] for c in cap]
        items = [("depot", (2, [[Fraction(rng.randint(0, 64), 64) for _ in range(2)] for _ in range(B)])),
                 ("locs", (3, [[[Fraction(rng.randint(0, 64), 64) for _ in range(2)] for _ in range(n)] for _ in range(B)])),
                 ("demand", (2, [[Fraction(x) for x in r] for r in dem])), ("capacity", (1, [Fraction(c) for c in cap]))]
        variant = rng.choice(["plain", "plain", "plain", "no-capacity", "cap-len-1", "cap-len-mismatch", "order", "cap-2d"])
        if variant == "no-capacity":
            items = items[:3]
        elif variant == "cap-len-1":
            items[3] = ("capacity", (1, [Fraction(cap[0])]))
        elif variant == "cap-len-mismatch":
            items[3] = ("capacity", (1, [Fraction(c) for c in cap] + [Fraction(4)]))
        elif variant == "order":
            rng.shuffle(items)
        elif variant == "cap-2d":
            items[3] = ("capacity", (2, [[Fraction(c)] for c in cap]))
        path = str(d / ("exact_%d.npz" % j))
        save_arrays(path, [(kk, np.array(tolist_f(a), dtype=np.float32)) for kk, a in items])
        obs, err = run(lambda: CVRPEnv.load_data(path))
        add(1, Fraction(0), items, obs, "exact " + variant, err)
        if variant in ("plain", "order"):
            # the property on the implementation (exact: capacities are powers of two): demand row b / capacity b, rest intact
            exp_items = [(kk, (2, [[x / Fraction(c) for x in r] for r, c in zip(a[1], cap)]) if kk == "demand" else a) for kk, a in items]
            if obs is None or obs[0] != B or obs[1] != exp_items:
                spec_fail.append(("cvrp/load_data: dataset file is not loaded as demand[b] / capacity[b] with every other key intact", {
                    "unit": "CVRPEnv.load_data on a dataset file", "file_arrays": {kk: tolist_f(a) for kk, a in items},
                    "expected_demand": [[float(x / Fraction(c)) for x in r] for r, c in zip(dict(items)["demand"][1], cap)],
                    "observed": None if obs is None else {kk: tolist_f(a) for kk, a in obs[1]}, "error": err}))
        obs, err = run(lambda: load_npz_to_tensordict(path))
        add(0, Fraction(0), items, obs, "exact load_npz " + variant, err)
    # ---- (c) TensorDict in the layout CVRPGenerator emits -> save_tensordict_to_npz -> CVRPEnv.load_data   (finding)
    for (nloc, B) in [(5, 1), (6, 3)]:
        torch.manual_seed(rng.randint(0, 2 ** 31 - 1))
        env = CVRPEnv(generator_params=dict(num_loc=nloc))
        td = env.generator([B])
        path = str(d / ("cvrp_gen_%d_%d.npz" % (nloc, B)))
        save_tensordict_to_npz(td, path)
        obs, err = run(lambda: CVRPEnv.load_data(path))
        add(1, TOL, items_of_td(td), obs, "CVRPGenerator layout B=%d" % B, err)
        obs0, err0 = run(lambda: load_npz_to_tensordict(path))
        add(0, Fraction(0), items_of_td(td), obs0, "CVRPGenerator layout, plain load")
        same = obs is not None and obs[0] == B and dict(obs[1]).get("demand") is not None and dict(obs[1])["demand"][0] == 2 and \
            all(abs(a - b) <= TOL for ra, rb in zip(dict(obs[1])["demand"][1], arr_of_tensor(td["demand"])[1]) for a, b in zip(ra, rb))
        if not same:
            tdl = None
            try:
                tdl = CVRPEnv.load_data(path)
            except Exception:  # noqa: BLE001
                pass
            spec_fail.append(("cvrp/load_data: generator-layout-demand-becomes-BxBxn", {
                "unit": "save_tensordict_to_npz -> CVRPEnv.load_data", "num_loc": nloc, "B": B,
                "saved": {q: {"shape": list(td[q].shape), "values": td[q].tolist()} for q in ("demand", "capacity")},
                "loaded_demand_shape": None if tdl is None else list(tdl["demand"].shape),
                "loaded_demand": None if tdl is None else tdl["demand"].tolist(), "error": err,
                "what": "env.generator(batch) saved with rl4co.data.utils.save_tensordict_to_npz and read back with the "
                        "environment's loader (the one env.dataset(filename=...) uses) is not the instance that was saved"}))
    # ---- (d) MTVRP: generator TensorDict -> npz -> load_data(scale=False / True)
    for (scale_demand, preset, cap_, nloc_) in ([(True, "cvrp", None, None), (False, "cvrp", 8, 7), (False, "vrpb", None, None)] if quick else
                                                [(True, "cvrp", None, None), (False, "cvrp", 8, 7), (False, "vrpb", None, None),
                                                 (True, "vrptw", None, None), (False, "ovrpbltw", None, None), (False, "cvrp", 16, 9)]):
        torch.manual_seed(rng.randint(0, 2 ** 31 - 1))
        B = rng.randint(1, 3)
        # (False, "cvrp", 8, 7): raw demands 1..9 against capacity 8 -- the capacity constraint is certainly active
        env = MTVRPEnv(generator_params=dict(num_loc=nloc_ or rng.randint(3, 6), variant_preset=preset, scale_demand=scale_demand,
                                             capacity=cap_ or rng.choice([8, 16, 30])), check_solution=False)
        td = env.generator([B])
        path = str(d / ("mtvrp_%s_%s.npz" % (preset, scale_demand)))
        save_tensordict_to_npz(td, path)
        items = items_of_td(td)
        obs, err = run(lambda: env.load_data(path))
        add(2, Fraction(0), items, obs, "MTVRP %s scale_demand=%s, load scale=False" % (preset, scale_demand), err)
        if obs is None or obs[1] != items or obs[0] != B:
            spec_fail.append(("mtvrp/load_data: generator TensorDict does not survive save -> load_data", {
                "unit": "MTVRPEnv.load_data", "preset": preset, "scale_demand": scale_demand, "error": err}))
        obs, err = run(lambda: env.load_data(path, scale=True))
        add(3, TOL, items, obs, "MTVRP %s scale_demand=%s, load scale=True" % (preset, scale_demand), err)
        if not scale_demand:
            try:
                mtvrp_scale_probe(ctx, env, td, path, spec_fail, preset)
            except Exception as e:  # noqa: BLE001 -- the loaded TensorDict cannot even be reset / stepped
                spec_fail.append(("mtvrp/load_data: loaded instance cannot be reset or stepped", {
                    "unit": "MTVRPEnv.load_data", "preset": preset, "scale_demand": scale_demand,
                    "error": "%s: %s" % (type(e).__name__, str(e)[:200])}))
    codes = eval_cases(ctx, "load", "lcase", "check_load", cases, shard=12)
    summarize(ctx, "load_npz_to_tensordict / CVRPEnv.load_data / MTVRPEnv.load_data", codes, meta,
              lambda m: {"loader": ["load_npz_to_tensordict", "CVRPEnv.load_data", "MTVRPEnv.load_data(scale=False)",
                                    "MTVRPEnv.load_data(scale=True)"][m[0]], "case": m[1], "raised": m[2]})
    return codes


def tolist_f(a):
    rank, data = a

    def conv(v):
        return [conv(u) for u in v] if isinstance(v, list) else float(v)
    return conv(data)


def mtvrp_scale_probe(ctx, env, td, path, spec_fail, preset):
    """load_data(scale=True) on unscaled data: is the loaded instance equivalent to the stored one on what it computes
    (masks along the same action sequence)?"""
    torch = T()["torch"]
    try:
        tl = env.load_data(path, scale=True)
    except Exception:  # noqa: BLE001
        return
    s0, s1 = env.reset(td.clone()), env.reset(tl.clone())
    B = td.batch_size[0]
    acts = []
    for step in range(3 * td["locs"].shape[1]):
        m0, m1 = s0["action_mask"], s1["action_mask"]
        if not torch.equal(m0, m1):
            b = int((m0 != m1).any(-1).nonzero()[0])
            spec_fail.append(("mtvrp/load_data: scale-leaves-vehicle_capacity-unscaled", {
                "unit": "MTVRPEnv.load_data(scale=True)", "preset": preset, "row": b, "actions_so_far": [a[b] for a in acts],
                "stored": {q: td[q][b].tolist() for q in ("demand_linehaul", "demand_backhaul", "vehicle_capacity", "capacity_original", "locs")},
                "loaded": {q: tl[q][b].tolist() for q in ("demand_linehaul", "demand_backhaul", "vehicle_capacity", "capacity_original")},
                "mask_stored_instance": m0[b].tolist(), "mask_loaded_instance": m1[b].tolist(),
                "env_kwargs": {"generator_params": {"num_loc": int(td["locs"].shape[1]) - 1, "variant_preset": preset, "scale_demand": False}, "check_solution": False},
                "stored_row": {q: {"dtype": str(td[q].dtype).replace("torch.", ""), "values": td[q][b:b + 1].tolist()} for q in td.keys()},
                "what": "generator(scale_demand=False) -> save_tensordict_to_npz -> load_data(scale=True): demands are divided by "
                        "capacity_original, vehicle_capacity keeps its raw value, so the capacity constraint is c times looser"}))
            return
        if bool(s0["done"].all()):
            return
        # prefer customers (fill the vehicle) so that the capacity constraint becomes active
        a = []
        for b in range(B):
            idx = m0[b].nonzero().flatten().tolist()
            cust = [i for i in idx if i != 0]
            a.append((cust or idx)[0])
        acts.append(a)
        at = torch.tensor(a)
        s0.set("action", at)
        s1.set("action", at.clone())
        s0, s1 = env.step(s0)["next"], env.step(s1)["next"]


# ------------------------------------------------------------------------------------------------ search (when something broke)
def search_codec(ctx, spec_fail, n):
    """a larger python-only sample of the property itself (no Coq): read(write(i)) = i up to padding"""
    rng = ctx.rng
    for i in range(n):
        nj, nm = rng.randint(1, 8), rng.randint(1, 8)
        nops = [rng.randint(1, 6) for _ in range(nj)]
        W = sum(nops) + rng.choice([0, 1, 5])
        g = make_g(rng, nops, nm, W, rng.choice(["rand", "single", "all"]))
        total = g_total(g)
        for mo in (None, W):
            res = run_fjsp_case(g, [mo], WORK / "run" / "search")
            if res["stage"] == "reset":
                continue
            o = res["reads"].get(mo) if res["file"] is not None else None
            exp = repad_py(g, total if mo is None else mo)
            if strip_obs(o) != exp:
                spec_fail.append(("fjsp/text: read(write(i)) differs from i beyond padding", {
                    "unit": "fjsp write/read", "instance": g, "max_ops": mo, "file_text": res["text"], "expected": exp,
                    "observed": strip_obs(o), "writer_error": res["err"]}))
                return
        ctx.count("search_codec_cases")


# ------------------------------------------------------------------------------------------------ run
def run(ctx: Ctx, proofs_ok: bool):
    t0 = time.time()
    T()
    (WORK / "run").mkdir(parents=True, exist_ok=True)
    (BUILD / "c19").mkdir(exist_ok=True)
    ctx.rule = ("PROVED PART: instances = boundary templates (1 job, 1 machine, 1 op, single eligible machine, all eligible, width much "
                "larger than needed, junk in padded columns, zero-op jobs, times 1 and 2^24-1, flexibility decimal tie, inputs the "
                "writer refuses) + random (1..6 jobs quick / 1..10 thorough, 1..5/9 machines, 1..4/6 ops per job) + FJSPGenerator / "
                "JSSPGenerator rows; each read with max_ops in {None, width, one of total, total+2, total-1, 0, width+5, 1}; readers "
                "additionally on 28 kinds of file mutation; loaders on generate_dataset('vrp') files, exact dyadic files with broadcast / "
                "missing-key / order variants, CVRP- and MTVRP-generator TensorDicts.  non-trivial = at least 2 jobs or 2 operations "
                "(codec), at least 2 lines (readers), any loader case; distinct by hash of (instance, max_ops) / file text / arrays.  "
                "directories of 1..12 (thorough 30) files with unequal operation counts through get_n_ops_of_instance / "
                "get_max_ops_from_files / the file generators, file names of write(); check_extension on ~100 names.  Every call into rl4co runs "
                "under the wall-clock guard vt/sched_guard.py; parsed tensors above 20000 elements are never converted element-wise.  "
                "TESTED PART (not proof): see coverage.units entries with kind = differential-test")
    ctx.assumptions += [
        "text codec modelled at word level (Data/Persist.v); the character layer (join / split / blank-line filter, str(int) / int()) is proved "
        "separately in Data/PersistText.v for writer-made texts and tied to the real file2lines by its own correspondence unit; the two layers "
        "are composed by reading (token TInt z = the word str_of_Z z), not by a Coq theorem; the float-looking flexibility word is only known to be "
        "one blank-free word whose integer part is what int(float(word)) returns",
        "processing times are integers (write_one truncates int(duration)); evaluated on every generated instance",
        "round(a/b,5) modelled as half-even rounding of the exact quotient; non-dyadic decimal ties are counted and that one word is not compared",
        "negative machine-count words in an FJSP job line are outside the model (OutOfModel), counted",
        "npz byte format: np.load(np.savez(d)) = d is a HYPOTHESIS of the npz/loader theorems, validated only by differential testing",
        "float32 rounding of demand / capacity is not modelled: loaders compared within 2^-20 on the re-normalised keys, exactly elsewhere and on the dyadic stream",
        "copy.deepcopy, pickle, Lightning checkpoints, os.listdir order: no model; differential testing only",
    ]
    ctx.trusted.append("numpy npz format, pickle, copy.deepcopy, torch.save/torch.load, Lightning checkpoint format (library behaviour; tested, not modelled)")
    spec_fail = []
    codes_all = []
    for fn in (unit_fjsp, unit_readers, unit_jssp, unit_text, unit_dirs, unit_ext, unit_loaders):
        t1 = time.time()
        c = fn(ctx, spec_fail)
        codes_all.append(c)
        ctx.extra.setdefault("unit_wall_s", {})[fn.__name__] = round(time.time() - t1, 1)

    # differential tests of what cannot be modelled
    from vt import c19_diff
    t1 = time.time()
    c19_diff.run_all(ctx, spec_fail, WORK / "run")
    ctx.extra["unit_wall_s"]["differential_tests"] = round(time.time() - t1, 1)

    # decision: a broken obligation or correspondence => search a larger sample of the property itself
    if ctx.broken or not proofs_ok:
        search_codec(ctx, spec_fail, 150 if ctx.tier == "quick" else 600)
    ctx.extra["spec_on_impl_failures"] = len(spec_fail)
    seen = {}
    for sig, obj in spec_fail:
        size = len(str(obj))
        if sig not in seen or size < seen[sig][0]:
            seen[sig] = (size, obj)
    for sig, (_, obj) in sorted(seen.items()):
        obj = dict(obj)
        obj.setdefault("what", sig)
        if sig in OUT_OF_SCOPE:
            ctx.extra.setdefault("out_of_scope_observations", []).append(
                {"signature": sig, "why_not_reported": OUT_OF_SCOPE[sig], "what": str(obj.get("what"))[:400]})
            continue
        ctx.failure(sig, obj, tag=re.sub(r"[^a-z0-9]+", "-", sig.split(":")[0].lower()).strip("-"))
    ctx.extra["wall_s_total_run"] = round(time.time() - t0, 1)
    from vt import sched_guard
    ctx.extra["wall_clock_guard"] = sched_guard.evidence()
    shutil.rmtree(WORK / "run", ignore_errors=True)


# Observations the integrator judged to be OUTSIDE property C19 as stated (recorded in the evidence, never reported):
OUT_OF_SCOPE = {
    "cvrp/load_data: generator-layout-demand-becomes-BxBxn":
        "CVRPEnv.load_data is documented to normalise RAW dataset files (generate_vrp_data layout, proved in "
        "C19_cvrp_load_normalises); feeding it an already-normalised generator TensorDict is not a 'generated dataset file "
        "consumed by the environment's loader'",
    "mtvrp/load_data: scale-leaves-vehicle_capacity-unscaled":
        "scale=True is an explicit non-default option for external files; env.dataset() always loads with scale=False, which "
        "round-trips (C19_mtvrp_load_noscale_is_plain_load)",
    "reinforce/checkpoint: exponential-baseline-v-not-restored":
        "the property speaks of restored POLICIES giving the same greedy solutions and rewards; the EMA value of the "
        "exponential baseline is optimiser-side training state, not a policy",
    "reinforce/checkpoint: warmup-baseline-alpha-not-restored":
        "same: warm-up weight is training state, the restored policies (incl. the rollout baseline's policy) are equal",
}


def replay(obj):
    """./check --replay <file>: re-run the recorded case on the current tree and print observed vs expected"""
    import json
    T()
    print("signature:", obj.get("signature"))
    print("what     :", obj.get("what"))
    unit = obj.get("unit", "")
    (WORK / "replay").mkdir(parents=True, exist_ok=True)
    if unit.startswith("fjsp") and "instance" in obj:
        g, mo = obj["instance"], obj.get("max_ops")
        res = run_fjsp_case(g, [mo], WORK / "replay" / "fjsp")
        print("instance :", json.dumps(g))
        print("file now :\n" + str(res["text"]))
        print("expected :", json.dumps(obj.get("expected")))
        now = strip_obs(res["reads"].get(mo)) if res["file"] is not None else None
        print("observed now:", json.dumps(now), res.get("err"), res.get("read_err"))
        print("property on the current tree:", "HOLDS on this case" if now == obj.get("expected") else "FAILS")
        return 0
    if unit.endswith(" n_ops") and "file_text" in obj:
        p = WORK / "replay" / "n.txt"
        p.write_text(obj["file_text"])
        P = T()["FP"] if obj.get("parser") == "fjsp" else T()["JP"]
        print("file     :\n" + obj["file_text"])
        try:
            now = int(real("get_n_ops_of_instance", P.get_n_ops_of_instance, str(p)))
        except Exception as e:  # noqa: BLE001
            now = "raised %s: %s" % (type(e).__name__, e)
        print("operations in the file:", obj.get("expected"), " recorded:", obj.get("observed"), " get_n_ops_of_instance now:", now)
        print("property on the current tree:", "HOLDS on this case" if now == obj.get("expected") else "FAILS")
        return 0
    if unit == "check_extension":
        from rl4co.data.utils import check_extension
        try:
            now = check_extension(obj["name"], obj["ext"])
        except Exception as e:  # noqa: BLE001
            now = "raised %s: %s" % (type(e).__name__, e)
        print("check_extension(%r, %r): expected %r, recorded %r (%s), now %r" % (obj["name"], obj["ext"], obj.get("expected"), obj.get("observed"), obj.get("error"), now))
        print("property on the current tree:", "HOLDS on this case" if now == obj.get("expected") else "FAILS")
        return 0
    if unit.endswith(" directory") and "instances" in obj:
        gs, pname = obj["instances"], obj["parser"]
        d = WORK / "replay" / "dir"
        shutil.rmtree(d, ignore_errors=True)
        os.makedirs(d)
        nj, nm = len(gs[0]["start"]), len(gs[0]["pt"])
        P = T()["FP"] if pname == "fjsp" else T()["JP"]
        if pname == "fjsp":
            real("fjsp.parser.write", P.write, str(d), real("FJSPEnv.reset", fjsp_env().reset, batch_td(gs)))
        else:
            for b, g in enumerate(gs):
                (d / ("%04d_%dj_%dm.txt" % (b + 1, nj, nm))).write_text(render(jssp_words(g)))
        names = sorted(os.listdir(d))
        exp_names = ["%04d_%dj_%dm.txt" % (i + 1, nj, nm) for i in range(len(gs))]
        exp_max = max(g_total(g) for g in gs)
        print("%d instances, operation counts %s" % (len(gs), [g_total(g) for g in gs]))
        print("file names now:", names, "" if names == exp_names else " EXPECTED %s" % exp_names)
        ok = names == exp_names
        try:
            ns = [int(P.get_n_ops_of_instance(str(d / nme))) for nme in names]
            mx = int(P.get_max_ops_from_files([str(d / nme) for nme in names]))
            print("get_n_ops_of_instance per file:", ns, " get_max_ops_from_files:", mx, " expected max:", exp_max)
            ok = ok and mx == exp_max and sorted(ns) == sorted(g_total(g) for g in gs)
            if pname == "fjsp":
                from rl4co.envs.scheduling.fjsp.generator import FJSPFileGenerator as Gen
            else:
                from rl4co.envs.scheduling.jssp.generator import JSSPFileGenerator as Gen
            back = real("file generator", lambda: Gen(str(d), n_ops_max=obj.get("n_ops_max"))).td
            Wexp = exp_max if len(gs) > 1 else (obj.get("n_ops_max") or exp_max)
            print("file generator: proc_times shape", list(back["proc_times"].shape), " expected width", Wexp)
            rows = sorted(json_key({k: row_obs(back, b)[k] for k in ("start", "end", "pt", "pad")}) for b in range(back.batch_size[0]))
            exp_rows = sorted(json_key({k: v for k, v in repad_py(g, Wexp).items() if k in ("start", "end", "pt", "pad")}) for g in gs)
            ok = ok and rows == exp_rows
        except Exception as e:  # noqa: BLE001
            print("raised %s: %s" % (type(e).__name__, e))
            ok = False
        print("recorded :", obj.get("difference") or obj.get("error") or {k: obj.get(k) for k in ("expected", "observed", "expected_width", "observed_shape")})
        print("property on the current tree:", "HOLDS on this case" if ok else "FAILS")
        return 0
    if unit.endswith("read (header)") and "file_text" in obj:
        p = WORK / "replay" / "h.txt"
        p.write_text(obj["file_text"])
        P = T()["FP"] if unit.startswith("fjsp") else T()["JP"]
        print("file     :\n" + obj["file_text"])
        try:
            o = obs_of_read(real("parser.read", P.read, str(p), max_ops=obj.get("max_ops")))
            hs = header_spec(obj["file_text"], o)
            print("read now : num_jobs %s num_machines %s proc_times shape %s" % (o["nj"], o["nm"], o["shape"]))
        except RealTimeout as e:
            hs = str(e)
        except Exception as e:  # noqa: BLE001
            hs = None
            print("read now : raised %s: %s" % (type(e).__name__, e))
        print("recorded :", obj.get("difference"))
        print("property on the current tree:", "HOLDS on this case" if not hs else "FAILS: %s" % hs)
        return 0
    if unit.startswith("jssp") and "file_text" in obj:
        p = WORK / "replay" / "j.txt"
        p.write_text(obj["file_text"])
        try:
            now = strip_obs(obs_of_read(T()["JP"].read(str(p), max_ops=obj.get("max_ops"))))
        except Exception as e:  # noqa: BLE001
            now = "raised %s: %s" % (type(e).__name__, e)
        print("expected :", json.dumps(obj.get("expected")))
        print("observed now:", json.dumps(now))
        print("property on the current tree:", "HOLDS on this case" if now == obj.get("expected") else "FAILS")
        return 0
    from vt import c19_diff
    if c19_diff.replay(obj):
        return 0
    print(json.dumps(obj, indent=1)[:6000])
    return 0
