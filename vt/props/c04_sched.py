"""C04 / unit sched -- FJSPEnv, JSSPEnv, FFSPEnv, SMTWTPEnv: an instance's outcome is independent of its batch-mates and
of padding steps.

Proof obligations: coq/theories/Properties/C04_sched.v (the batch-global constructs written literally in
Env/SchedBatch.v / Env/SchedBatch2.v and proved row-wise; padding inertness).
Correspondence: an instance X is run solo (trimmed to its own op count, and padded), then -- forced through the SAME
action list -- at every position of batches next to strangers of other sizes (one of them slowed down, so X idles on
padding steps after it finished) and next to copies of itself, with 0..2 further padding steps.  Compared for X, directly
on the implementation: the action mask after reset and after every step, the finishing step, the reward (exact: integer
data), and during padding: mask unchanged, done unchanged.  In Coq the row model is run on X's batched rows
(Harness/HC0234_*.v: masks inside the model's, done, final arrays and reward equal) so that the theorems transfer, and
fjsp/utils.py blockify (the batch-maximum of get_job_op_view) is compared with its batched model."""
import random
import time

from vt import sched_graph_common as C
from vt.common import clist, cnat, cz
from vt.props import c07_ffsp as G

SIG = "%s: outcome-depends-on-batch-or-padding"


def _cmp_fjsp(solo_row, solo_reward, row, reward):
    """None when row X of a batch behaved exactly like its solo run, else a short description"""
    n = len(solo_row["steps"])
    if row["plan_dev"] is not None:
        return "mask differs at step %d: the solo run's action is not offered" % row["plan_dev"]
    if row["mask0"] != solo_row["mask0"]:
        return "mask after reset differs"
    if len(row["steps"]) < n:
        return "batched episode shorter than the solo one"
    for k in range(n):
        if row["steps"][k][1] != solo_row["steps"][k][1]:
            return "mask differs after step %d" % (k + 1)
        if row["steps"][k][2] != solo_row["steps"][k][2]:
            return "done differs after step %d" % (k + 1)
    if row["first_done"] != solo_row["first_done"]:
        return "finishing step differs (%r vs %r)" % (row["first_done"], solo_row["first_done"])
    for k in range(n, len(row["steps"])):
        if row["steps"][k][1] != solo_row["steps"][n - 1][1] or not row["steps"][k][2]:
            return "padding step %d changed mask or done" % (k + 1)
    if reward != solo_reward:
        return "reward differs (%r vs solo %r)" % (reward, solo_reward)
    return None


def _fjsp_part(ctx, rng, torch, nx, coll, count=True):
    from rl4co.envs.scheduling.fjsp.utils import blockify
    insts, cases, metas, jv = [], [], [], []
    probed = []
    n_cmp = 0
    for kind in ("fjsp", "jssp"):
        for mno in (True, False):
            for rep in range(nx + 1):
                if C.guard.timed_out(kind):     # an env call did not return (reported below): the env is abandoned
                    continue
                long_h = rep == nx      # last round: long horizon -- the clock passes INIT_FINISH = 9999 (X and/or its batch-mates)
                gp = C.fjsp_long_params(rng, kind) if long_h else C.fjsp_gen_params(rng, kind, big=nx > 1)
                torch.manual_seed(rng.randrange(2 ** 31))
                env = C.fjsp_env(kind, mno, gp)
                B = 3 if long_h else rng.randint(3, 4)
                td0 = env.generator(batch_size=[B])
                gen = [C.F._inst_of_td(td0, b) for b in range(B)]
                x = rng.randrange(B)
                X = C.fjsp_trim(gen[x])
                strangers = [C.fjsp_trim(g) for k, g in enumerate(gen) if k != x]
                if long_h:
                    strangers[0] = C.fjsp_trim(C.fjsp_short_copy(rng, strangers[0]))      # a short batch-mate next to the long rows
                    if count:
                        ctx.count("c04_%s_long_horizon_instances" % kind)
                if strangers:
                    slow = dict(strangers[-1])
                    slow["proc"] = [[v * 3 for v in r] for r in slow["proc"]]
                    strangers[-1] = slow
                solo = C.fjsp_rollout(torch, env, C.fjsp_td(torch, [X]), rng, None, [rng.choice(["random", "wait", "nowait"])], 0, kind=kind)
                if solo["crash"] or solo["rewards"] is None:
                    # C02-type failures belong to C02 -- except a call that does not return, which every sched unit reports
                    timeout = bool(solo["crash"]) and solo["crash"]["where"] == "timeout"
                    C.fjsp_py_c02(kind, mno, solo, coll if timeout else C.Collector(ctx, "C04", "ignored"))
                    continue
                plan = [s[0] for s in solo["rows"][0]["steps"]]
                comps = [("padded-solo", [gen[x]], [0])]
                for p in range(len(strangers) + 1):
                    rows = strangers[:p] + [X] + strangers[p:]
                    comps.append(("position-%d-of-%d" % (p, len(rows)), rows, [p]))
                comps.append(("copies", [X, X] + strangers[-1:], [0, 1]))
                for name, rows, xs in comps:
                    if C.guard.timed_out(kind):
                        break
                    out = C.fjsp_rollout(torch, env, C.fjsp_td(torch, rows), rng, [plan if b in xs else None for b in range(len(rows))],
                                         [rng.choice(["random", "wait", "nowait"]) for _ in rows], rng.randint(0, 2), kind=kind,
                                         probe_reward=True)
                    probed.append((kind, mno, out))
                    if out["crash"] and out["crash"]["where"] == "timeout":
                        C.fjsp_py_c02(kind, mno, out, coll)
                        continue
                    if out["crash"] or out["rewards"] is None:
                        coll.fail(SIG % kind, C.fjsp_replay_obj(kind, mno, out, xs[0], {
                            "composition": name, "what": "the batch containing the instance crashed or reports a non-integral / infinite reward "
                                                         "(solo: %r): %r %r" % (solo["rewards"][0], out["crash"], out.get("rewards_raw")),
                            "solo": {"instance": X, "actions": plan, "reward": solo["rewards"][0]}}))
                        continue
                    for b in xs:
                        n_cmp += 1
                        why = _cmp_fjsp(solo["rows"][0], solo["rewards"][0], out["rows"][b], out["rewards"][b])
                        pads = len(out["rows"][b]["steps"]) - len(plan)
                        if count:
                            ctx.count("c04_%s_compositions_%s" % (kind, name.split("-")[0]))
                            ctx.count("c04_%s_padding_steps_on_the_instance" % kind, pads)
                            ctx.seen({"i": X, "a": plan, "k": kind, "m": mno, "c": name}, nontrivial=len(plan) >= 2 and solo["rows"][0]["choice"])
                        if why:
                            coll.fail(SIG % kind, C.fjsp_replay_obj(kind, mno, out, b, {
                                "composition": name, "what": why, "expected": "row %d behaves as in its solo run" % b,
                                "solo": {"instance": X, "actions": plan, "reward": solo["rewards"][0],
                                         "masks": [solo["rows"][0]["mask0"]] + [s[1] for s in solo["rows"][0]["steps"]]},
                                "observed": {"masks": [out["rows"][b]["mask0"]] + [s[1] for s in out["rows"][b]["steps"]],
                                             "reward": out["rewards"][b], "first_done": out["rows"][b]["first_done"]}}))
                        insts.append(out["insts"][b])
                        cases.append(C.fjsp_case(kind, mno, "I%d" % (len(insts) - 1), out["rows"][b], out["finals"][b]))
                        metas.append((kind, C.fjsp_replay_obj(kind, mno, out, b, {"composition": name})))
                    # blockify / get_job_op_view: the batch maximum (once per composition with strangers)
                    if name.startswith("position-0"):
                        tdr = out["td_reset"]
                        N = tdr["pad_mask"].shape[-1]
                        vals = torch.stack([torch.arange(N, dtype=torch.float32) + 100 * (b + 1) for b in range(len(rows))])
                        try:
                            v = blockify(tdr, vals, pad_value=-1.0)
                            for b in range(len(rows)):
                                jv.append("(I%d, %s, %s, %s, %s)" % (
                                    len(insts), "[" + "; ".join(cz(int(t)) for t in vals[b].tolist()) + "]", cz(-1), cnat(v.shape[-1]),
                                    clist("[" + "; ".join(cz(int(t)) for t in r) + "]" for r in v[b].tolist())))
                                insts.append(out["insts"][b])
                        except Exception as e:  # noqa: BLE001
                            ctx.notes.append("sched unit: blockify raised on a reset batch: %r" % (e,))
    codes = C.coq_codes(ctx, "cases_C04_sched_fjsp", C.fjsp_header(insts), "fjsp_case", "check_C04_fjsp", cases, shard=40)
    if codes is not None:
        for kind in ("fjsp", "jssp"):
            sel = [(c, m[1]) for c, m in zip(codes, metas) if m[0] == kind]
            coll.codes(kind, [c for c, _ in sel], [m for _, m in sel], "corr")
    jcodes = C.coq_codes(ctx, "cases_C04_sched_jobview", C.fjsp_header(insts), "inst * list Z * Z * nat * list (list Z)", "check_jobview", jv, shard=60)
    if jcodes is not None:
        coll.codes("fjsp-blockify", jcodes, [{"kind": "blockify", "case": t[:600]} for t in jv], "corr")
    # a partly finished batch: env.get_reward must refuse it (the guard is batch-global; model SchedBatch.b_reward)
    n_guard = C.fjsp_reward_guard_evaluate(ctx, probed, coll, "cases_C04_sched_rewardguard", count=count)
    return {"fjsp_compared": n_cmp, "fjsp_model_rows": len(cases), "blockify_rows": len(jv), "fjsp_get_reward_guard_probes": n_guard}


def _ffsp_part(ctx, rng, torch, nx, coll, count=True):
    cases, metas = [], []
    batches = []
    n_cmp = 0
    for rep in range(nx):
        if C.guard.timed_out("ffsp"):
            break
        J, S_, M = rng.randint(2, 4), rng.choice([1, 2, 2, 3]), rng.randint(1, 2)
        env = C.ffsp_env(J, S_, M, rng.random() < 0.7)
        T = S_ * M
        X = G._rand_rt(rng, J, T, rng.choice([0, 1]), rng.choice([2, 4, 7]))
        solo = G.ffsp_episode(env, [X], [rng.choice(["uniform", "wait", "nowait"])], rng)[0]
        if solo["crashed"]:
            if solo.get("timeout"):     # a call that does not return is reported by every sched unit
                C.ffsp_py_c02([solo], coll)
            continue
        plan = [a for a, _ in solo["steps"]]
        B = rng.randint(3, 4)
        strangers = [G._rand_rt(rng, J, T, 1, rng.choice([2, 5])) for _ in range(B - 1)]
        strangers[-1] = [[v * 3 + 2 for v in r] for r in strangers[-1]]
        comps = [("position-%d-of-%d" % (p, B), strangers[:p] + [X] + strangers[p:], [p]) for p in range(B)]
        comps.append(("copies", [X, X, strangers[-1]], [0, 1]))
        for name, rows, xs in comps:
            if C.guard.timed_out("ffsp"):
                break
            recs = G.ffsp_episode(env, rows, [rng.choice(["uniform", "wait", "nowait"]) for _ in rows], rng,
                                  forced=[plan if b in xs else [] for b in range(len(rows))], probe_pre_step=True)
            batches.append(recs)
            if recs[0].get("timeout"):
                C.ffsp_py_c02(recs[:1], coll)
                continue
            for b in xs:
                rec = recs[b]
                rec["kind"] = "batch"
                n_cmp += 1
                why = None
                if rec["crashed"]:
                    why = "the batch containing the instance crashed: " + rec["crashed"]
                else:
                    n = len(plan)
                    if [a for a, _ in rec["steps"][:n]] != plan:
                        why = "mask differs: a solo action was not offered"
                    elif rec["first_done"] != solo["first_done"]:
                        why = "finishing step differs (%r vs %r)" % (rec["first_done"], solo["first_done"])
                    else:
                        if rec["obs0"]["mask"] != solo["obs0"]["mask"]:
                            why = "mask after reset differs"
                        for k in range(n):
                            so, bo = solo["steps"][k][1], rec["steps"][k][1]
                            if so["done"] != bo["done"]:
                                why = why or "done differs after step %d" % (k + 1)
                            if so.get("cmp", True) and bo.get("cmp", True) and so["mask"] != bo["mask"]:
                                why = why or "mask differs after step %d" % (k + 1)
                        for k in range(n, len(rec["steps"])):
                            a, bo = rec["steps"][k]
                            if a != J or not bo["done"] or (bo.get("cmp", True) and bo["mask"] != [False] * J + [True]):
                                why = why or "padding step %d is not an inert wait" % (k + 1)
                        if rec["reward"] != solo["reward"]:
                            why = why or "reward differs (%r vs solo %r)" % (rec["reward"], solo["reward"])
                        if [r[:J] for r in rec["sched"]] != [r[:J] for r in solo["sched"]]:
                            why = why or "schedule differs"
                if count:
                    ctx.count("c04_ffsp_compositions_%s" % name.split("-")[0])
                    ctx.count("c04_ffsp_padding_steps_on_the_instance", max(0, len(rec["steps"]) - len(plan)))
                    ctx.seen({"f": [X, plan, name]}, nontrivial=len(plan) >= 2)
                if why:
                    coll.fail(SIG % "ffsp", dict(G.ffsp_replay_obj(rec, why, 0), composition=name, batch_run_times=rows,
                                                 solo={"actions": plan, "reward": solo["reward"], "schedule": solo["sched"]}))
                elif not rec["crashed"]:
                    cases.append(G.ffsp_case_term(rec, keys=False))
                    metas.append(dict(G.ffsp_replay_obj(rec, "C04", 0), composition=name))
    codes = C.coq_codes(ctx, "cases_C04_sched_ffsp", C.HDR_FFSP, "HC07F.ffsp_case", "check_C04_ffsp", cases, shard=30)
    if codes is not None:
        coll.codes("ffsp", codes, metas, "corr")
    # env.pre_step on the running batches (clones): a batch-mate past stage 0 must make the call raise for the whole batch
    for recs in G.ffsp_mixed_stage_batches(ctx.seed + nx):
        batches.append(recs)
        if recs[0].get("timeout"):
            C.ffsp_py_c02(recs[:1], coll)
    n_probe, _ = G.ffsp_probe_evaluate(ctx, batches, "cases_C04_sched_ffsp_prestep", C.HDR_FFSP, coll.fail, count=count)
    return {"ffsp_compared": n_cmp, "ffsp_model_rows": len(cases), "ffsp_pre_step_probes": n_probe}


def _smtwtp_part(ctx, rng, torch, nx, coll, count=True):
    from rl4co.envs import SMTWTPEnv
    cases, metas = [], []
    n_cmp = 0
    for rep in range(nx):
        n = rng.randint(3, 6)
        env = SMTWTPEnv(generator_params=dict(num_job=n), check_solution=False)
        rows = C.smtwtp_rows(rng, n, 4)
        X = rows[0]
        if C.guard.timed_out("smtwtp"):
            break
        solo = G.smtwtp_batch(env, [X], [None], rng)[0]
        if solo.get("timeout"):
            C.smtwtp_py_c02([solo], coll)
            break
        plan = [a for a, _, _ in solo["steps"]]
        for p in range(3):
            batch = rows[1:1 + p] + [X] + rows[1 + p:3] + ([X] if p == 2 else [])
            xs = [p] + ([len(batch) - 1] if p == 2 else [])
            recs = G.smtwtp_batch(env, batch, [plan if b in xs else None for b in range(len(batch))], rng)
            if recs[0].get("timeout"):
                C.smtwtp_py_c02(recs[:1], coll)
                break
            for b in xs:
                rec = recs[b]
                n_cmp += 1
                why = None
                if rec["crashed"]:
                    why = rec["crashed"]
                elif [a for a, _, _ in rec["steps"]] != plan:
                    why = "mask differs: a solo action was not offered / other episode length"
                elif rec["mask0"] != solo["mask0"] or [(m, d) for _, m, d in rec["steps"]] != [(m, d) for _, m, d in solo["steps"]]:
                    why = "masks / done differ along the episode"
                elif rec["reward_f"] != solo["reward_f"]:
                    why = "reward differs (%r vs solo %r)" % (rec["reward_f"], solo["reward_f"])
                if count:
                    ctx.count("c04_smtwtp_compositions")
                    ctx.seen({"s": [X, plan, p, b]}, nontrivial=n >= 2)
                if why:
                    coll.fail(SIG % "smtwtp", dict(G.smtwtp_replay_obj(rec, why, 0), batch_rows=batch, solo_reward=solo["reward_f"]))
                elif rec["reward_scaled"] is not None:
                    cases.append(G.smtwtp_case_term(rec, keys=False))
                    metas.append(G.smtwtp_replay_obj(rec, "C04", 0))
    codes = C.coq_codes(ctx, "cases_C04_sched_smtwtp", C.HDR_FFSP, "HC07F.smtwtp_case", "check_C04_smtwtp", cases, shard=60)
    if codes is not None:
        coll.codes("smtwtp", codes, metas, "corr")
    return {"smtwtp_compared": n_cmp, "smtwtp_model_rows": len(cases)}


def run_unit(ctx, proofs_ok):
    import torch
    t0 = time.time()
    rng = random.Random(ctx.rng.randrange(2 ** 62))
    torch.manual_seed(rng.randrange(2 ** 31))
    ctx.rule += (" [sched] per env (FJSPEnv/JSSPEnv x mask_no_ops on/off, FFSPEnv, SMTWTPEnv) instances X from the generators / random "
                 "integer tables: X solo (trimmed to its own op count and padded), then forced through the same actions at every "
                 "position of a batch of 3..4 rows with strangers of other op counts (one slowed down x3) and next to a copy of "
                 "itself, 0..2 padding steps after the last row finished.")
    ctx.assumptions += [
        "sched unit: FFSP on the step that finishes the whole batch leaves action_mask / stage_idx / stage_machine_idx stale "
        "(C04_ffsp_batched_step_is_rowwise says exactly this); masks are not compared on that step",
        "sched unit: FFSP after batchify (POMO) reads machine-table row idx // bs by design (C04_ffsp_index_tables_batchified); "
        "position independence is claimed and checked for plain batches",
        "sched unit: fjsp/utils.py get_job_op_view itself raises on every TensorDict the env produces (shape mismatch in its "
        "proc_times view; it is called nowhere in rl4co) -- its batch-maximum is exercised through blockify, which shares it",
    ]
    with C.Threads():
        coll = C.Collector(ctx, "C04", "sched")
        nx = C.budget(ctx, 2, 16)
        unit = {}
        unit.update(_fjsp_part(ctx, rng, torch, nx, coll))
        unit.update(_ffsp_part(ctx, rng, torch, 2 * nx, coll))
        unit.update(_smtwtp_part(ctx, rng, torch, 2 * nx, coll))
        if (coll.n_disagree or not proofs_ok or any("C04_sched" in b for b in ctx.broken)) and not coll.best and not C.guard.timed_out():
            s = {}
            s.update(_fjsp_part(ctx, rng, torch, 4 * nx, coll, count=False))
            s.update(_ffsp_part(ctx, rng, torch, 8 * nx, coll, count=False))
            s.update(_smtwtp_part(ctx, rng, torch, 8 * nx, coll, count=False))
            unit["search"] = s
        unit["concrete_failures"] = coll.flush()
        unit["disagreements"] = coll.n_disagree
        unit["observables"] = ("action_mask after reset and every step, finishing step, reward, mask/done during padding: batched row vs its "
                               "solo run (implementation alone); row model vs batched rows in Coq; blockify vs its batched model; the batch-global guards of "
                               "env.get_reward (FJSP/JSSP, partly finished batch) and env.pre_step (FFSP, running batch) vs their batched models "
                               "(the per-state bookkeeping keys are compared by the C07 units)")
        unit["env_call_guard"] = C.guard.evidence()
        unit["wall_s_unit"] = round(time.time() - t0, 1)
        ctx.units["sched"] = unit


def replay(obj):
    return C.replay(obj)
