(* C02 (unit graph) -- FLPEnv, MCPEnv, DPPEnv, MDPPEnv: no dead ends before the quota, done stable, offered steps never
   raise, the episode finishes exactly at the quota.  These envs have NO inert action: every item a row is offered --
   finished or not -- is an item it has not selected, and taking it changes the selection.  What holds instead of
   "finished rows keep a padding action" is stated precisely: rows with equal quotas finish at the same step (DPP/MDPP:
   always, the quota is an env attribute), so in such a batch no row is finished while another runs; with per-row quotas in
   one batch (FLP/MCP tensors allow it) the finished row is made to select past its quota -- kept visible as _refuted.
   Only statements closed by [exact] and their Print Assumptions.  Models: Env/FLP.v, Env/MCP.v, Env/DPP.v;
   [*_run I (reset I) as_ = Some s] = every action of [as_] lay inside the mask of the state it was taken in, no step
   raised, [s] is the state reached. *)
From Coq Require Import ZArith List Bool Arith.
From RL4CO Require Import Env.Selection Env.FLP Env.MCP Env.DPP Env.GraphBatch.
Import ListNotations.
Open Scope Z_scope.

(* ================================================================ no dead end before the quota (quota <= allowed items) *)
Theorem C02_flp_no_dead_end :
  forall (I : flp_inst) (as_ : list nat) (s : flp_st),
    flp_wf I -> flp_run I (flp_reset I) as_ = Some s ->
    Z.of_nat (length as_) < f_q I -> f_q I <= Z.of_nat (f_n I) ->
    exists a, nth a (f_mask s) false = true.
Proof. exact flp_no_dead_end. Qed.
Print Assumptions C02_flp_no_dead_end.

Theorem C02_mcp_no_dead_end :
  forall (I : mcp_inst) (as_ : list nat) (s : mcp_st),
    mcp_wf I -> mcp_run I (mcp_reset I) as_ = Some s ->
    Z.of_nat (length as_) < m_q I -> m_q I <= Z.of_nat (length (m_mem I)) ->
    exists a, nth a (m_mask s) false = true.
Proof. exact mcp_no_dead_end. Qed.
Print Assumptions C02_mcp_no_dead_end.

Theorem C02_dpp_no_dead_end :
  forall (I : dpp_inst) (as_ : list nat) (s : dpp_st),
    dpp_wf I -> dpp_run I (dpp_reset I) as_ = Some s ->
    Z.of_nat (length as_) < d_q I -> d_q I <= Z.of_nat (count_true (d_avail I)) ->
    exists a, nth a (d_mask s) false = true.
Proof. exact dpp_no_dead_end. Qed.
Print Assumptions C02_dpp_no_dead_end.

Theorem C02_mdpp_no_dead_end :
  forall (I : mdpp_inst) (as_ : list nat) (s : dpp_st),
    mdpp_wf I -> mdpp_run I (mdpp_reset I) as_ = Some s ->
    Z.of_nat (length as_) < md_q I -> md_q I <= Z.of_nat (count_true (mdpp_mask0 I)) ->
    exists a, nth a (d_mask s) false = true.
Proof. exact mdpp_no_dead_end. Qed.
Print Assumptions C02_mdpp_no_dead_end.

(* the hypothesis quota <= allowed items is needed (the solvability condition of these envs) *)
Theorem C02_dpp_dead_end_when_quota_exceeds_allowed_cells :
  exists I as_ s, dpp_wf I /\ dpp_run I (dpp_reset I) as_ = Some s /\ d_done s = false /\
                  forallb negb (d_mask s) = true /\ Z.of_nat (count_true (d_avail I)) < d_q I.
Proof. exact dpp_dead_end_when_quota_exceeds_cells. Qed.
Print Assumptions C02_dpp_dead_end_when_quota_exceeds_allowed_cells.

(* ================================================================ offered steps never raise *)
Theorem C02_flp_offered_step_never_raises :
  forall (I : flp_inst) (as_ : list nat) (s : flp_st) (a : nat),
    flp_wf I -> flp_run I (flp_reset I) as_ = Some s -> nth a (f_mask s) false = true ->
    exists s', flp_step I s a = Some s'.
Proof. exact flp_progress. Qed.
Print Assumptions C02_flp_offered_step_never_raises.

Theorem C02_mcp_offered_step_never_raises :
  forall (I : mcp_inst) (as_ : list nat) (s : mcp_st) (a : nat),
    mcp_wf I -> mcp_run I (mcp_reset I) as_ = Some s -> nth a (m_mask s) false = true ->
    exists s', mcp_step I s a = Some s'.
Proof. exact mcp_progress. Qed.
Print Assumptions C02_mcp_offered_step_never_raises.

Theorem C02_dpp_offered_step_never_raises :
  forall (I : dpp_inst) (as_ : list nat) (s : dpp_st) (a : nat),
    dpp_wf I -> dpp_run I (dpp_reset I) as_ = Some s -> nth a (d_mask s) false = true ->
    exists s', dpp_step I s a = Some s'.
Proof. exact dpp_progress. Qed.
Print Assumptions C02_dpp_offered_step_never_raises.

Theorem C02_mdpp_offered_step_never_raises :
  forall (I : mdpp_inst) (as_ : list nat) (s : dpp_st) (a : nat),
    mdpp_wf I -> mdpp_run I (mdpp_reset I) as_ = Some s -> nth a (d_mask s) false = true ->
    exists s', mdpp_step I s a = Some s'.
Proof. exact mdpp_progress. Qed.
Print Assumptions C02_mdpp_offered_step_never_raises.

(* ================================================================ step bound = the quota; done from the quota on *)
(* done is false before the quota-th selection and true from then on: the episode finishes after exactly quota steps *)
Theorem C02_flp_finishes_exactly_at_quota :
  forall (I : flp_inst) (as_ : list nat) (s : flp_st),
    flp_wf I -> flp_run I (flp_reset I) as_ = Some s ->
    f_done s = negb (Nat.eqb (length as_) 0) && (f_q I <=? Z.of_nat (length as_)).
Proof. exact flp_done_iff. Qed.
Print Assumptions C02_flp_finishes_exactly_at_quota.

Theorem C02_mcp_finishes_exactly_at_quota :
  forall (I : mcp_inst) (as_ : list nat) (s : mcp_st),
    mcp_wf I -> mcp_run I (mcp_reset I) as_ = Some s ->
    m_done s = negb (Nat.eqb (length as_) 0) && (m_q I <=? Z.of_nat (length as_)).
Proof. exact mcp_done_iff. Qed.
Print Assumptions C02_mcp_finishes_exactly_at_quota.

Theorem C02_dpp_finishes_exactly_at_quota :
  forall (I : dpp_inst) (as_ : list nat) (s : dpp_st),
    dpp_wf I -> dpp_run I (dpp_reset I) as_ = Some s ->
    d_done s = negb (Nat.eqb (length as_) 0) && (d_q I <=? Z.of_nat (length as_)).
Proof. exact dpp_done_iff. Qed.
Print Assumptions C02_dpp_finishes_exactly_at_quota.

Theorem C02_mdpp_finishes_exactly_at_quota :
  forall (I : mdpp_inst) (as_ : list nat) (s : dpp_st),
    mdpp_wf I -> mdpp_run I (mdpp_reset I) as_ = Some s ->
    d_done s = negb (Nat.eqb (length as_) 0) && (md_q I <=? Z.of_nat (length as_)).
Proof. exact mdpp_done_iff. Qed.
Print Assumptions C02_mdpp_finishes_exactly_at_quota.

(* a finished row never becomes unfinished again, whatever mask-confined steps follow *)
Theorem C02_flp_done_stable :
  forall (I : flp_inst) (as_ ext : list nat) (s s' : flp_st), flp_wf I ->
    flp_run I (flp_reset I) as_ = Some s -> f_done s = true -> flp_run I (flp_reset I) (as_ ++ ext) = Some s' -> f_done s' = true.
Proof. exact flp_done_stable. Qed.
Print Assumptions C02_flp_done_stable.

Theorem C02_mcp_done_stable :
  forall (I : mcp_inst) (as_ ext : list nat) (s s' : mcp_st), mcp_wf I ->
    mcp_run I (mcp_reset I) as_ = Some s -> m_done s = true -> mcp_run I (mcp_reset I) (as_ ++ ext) = Some s' -> m_done s' = true.
Proof. exact mcp_done_stable. Qed.
Print Assumptions C02_mcp_done_stable.

Theorem C02_dpp_done_stable :
  forall (I : dpp_inst) (as_ ext : list nat) (s s' : dpp_st), dpp_wf I ->
    dpp_run I (dpp_reset I) as_ = Some s -> d_done s = true -> dpp_run I (dpp_reset I) (as_ ++ ext) = Some s' -> d_done s' = true.
Proof. exact dpp_done_stable. Qed.
Print Assumptions C02_dpp_done_stable.

Theorem C02_mdpp_done_stable :
  forall (I : mdpp_inst) (as_ ext : list nat) (s s' : dpp_st), mdpp_wf I ->
    mdpp_run I (mdpp_reset I) as_ = Some s -> d_done s = true -> mdpp_run I (mdpp_reset I) (as_ ++ ext) = Some s' -> d_done s' = true.
Proof. exact mdpp_done_stable. Qed.
Print Assumptions C02_mdpp_done_stable.

(* ================================================================ no inert action; what holds instead *)
(* whatever a reachable row is offered -- finished or not -- is an item it has not chosen; taking it chooses it, removes
   it from the mask and advances the step counter: there is no padding action *)
Theorem C02_flp_no_inert_action :
  forall (I : flp_inst) (as_ : list nat) (s : flp_st) (a : nat),
    flp_wf I -> flp_run I (flp_reset I) as_ = Some s -> nth a (f_mask s) false = true ->
    exists s', flp_step I s a = Some s' /\ nth a (f_chosen s) false = false /\ nth a (f_chosen s') false = true /\
               nth a (f_mask s') false = false /\ f_i s' = f_i s + 1.
Proof. exact flp_no_inert_action. Qed.
Print Assumptions C02_flp_no_inert_action.

Theorem C02_mcp_no_inert_action :
  forall (I : mcp_inst) (as_ : list nat) (s : mcp_st) (a : nat),
    mcp_wf I -> mcp_run I (mcp_reset I) as_ = Some s -> nth a (m_mask s) false = true ->
    exists s', mcp_step I s a = Some s' /\ nth a (m_chosen s) false = false /\ nth a (m_chosen s') false = true /\
               nth a (m_mask s') false = false /\ m_i s' = m_i s + 1.
Proof. exact mcp_no_inert_action. Qed.
Print Assumptions C02_mcp_no_inert_action.

(* DPP and MDPP share one step function; q = env.max_decaps *)
Theorem C02_dpp_mdpp_no_inert_action :
  forall (q : Z) (s : dpp_st) (a : nat), nth a (d_mask s) false = true ->
    exists s', eda_step q s a = Some s' /\ nth a (d_mask s') false = false /\ d_i s' = d_i s + 1.
Proof. exact eda_no_inert_action. Qed.
Print Assumptions C02_dpp_mdpp_no_inert_action.

(* instead: two rows with the same quota, stepped in lockstep, have the same done flag after every step -- all rows of
   an equal-quota batch finish at the same step (so none ever needs a padding action) *)
Theorem C02_flp_equal_quota_rows_finish_together :
  forall (I1 I2 : flp_inst) (as1 as2 : list nat) (s1 s2 : flp_st),
    flp_wf I1 -> flp_wf I2 -> f_q I1 = f_q I2 -> length as1 = length as2 ->
    flp_run I1 (flp_reset I1) as1 = Some s1 -> flp_run I2 (flp_reset I2) as2 = Some s2 -> f_done s1 = f_done s2.
Proof. exact flp_equal_quota_finish_together. Qed.
Print Assumptions C02_flp_equal_quota_rows_finish_together.

Theorem C02_mcp_equal_quota_rows_finish_together :
  forall (I1 I2 : mcp_inst) (as1 as2 : list nat) (s1 s2 : mcp_st),
    mcp_wf I1 -> mcp_wf I2 -> m_q I1 = m_q I2 -> length as1 = length as2 ->
    mcp_run I1 (mcp_reset I1) as1 = Some s1 -> mcp_run I2 (mcp_reset I2) as2 = Some s2 -> m_done s1 = m_done s2.
Proof. exact mcp_equal_quota_finish_together. Qed.
Print Assumptions C02_mcp_equal_quota_rows_finish_together.

Theorem C02_dpp_rows_finish_together :
  forall (I1 I2 : dpp_inst) (as1 as2 : list nat) (s1 s2 : dpp_st),
    dpp_wf I1 -> dpp_wf I2 -> d_q I1 = d_q I2 -> length as1 = length as2 ->
    dpp_run I1 (dpp_reset I1) as1 = Some s1 -> dpp_run I2 (dpp_reset I2) as2 = Some s2 -> d_done s1 = d_done s2.
Proof. exact dpp_batch_finishes_together. Qed.
Print Assumptions C02_dpp_rows_finish_together.

Theorem C02_mdpp_rows_finish_together :
  forall (I1 I2 : mdpp_inst) (as1 as2 : list nat) (s1 s2 : dpp_st),
    mdpp_wf I1 -> mdpp_wf I2 -> md_q I1 = md_q I2 -> length as1 = length as2 ->
    mdpp_run I1 (mdpp_reset I1) as1 = Some s1 -> mdpp_run I2 (mdpp_reset I2) as2 = Some s2 -> d_done s1 = d_done s2.
Proof. exact mdpp_batch_finishes_together. Qed.
Print Assumptions C02_mdpp_rows_finish_together.

(* ================================================================ refuted: per-row quotas in one batch (recorded finding) *)
(* the full statement "a finished row is steppable without consequences while others run" is FALSE of MCP / FLP when the
   rows of a batch carry different quotas: rl4co's loop (while not done.all()) makes the finished row select past its
   quota, and its reward becomes that of the larger selection *)
Theorem C02_mcp_finished_row_selects_past_quota_in_mixed_quota_batch_refuted :
  exists Is steps ss m,
    Forall mcp_wf Is /\
    mcp_brun Is (map mcp_reset Is) (map (fun _ => [false]) Is) steps = Some (ss, m) /\ all_done m = true /\
    exists r I s, nth_error Is r = Some I /\ nth_error ss r = Some s /\
      Z.of_nat (count_true (m_chosen s)) <> m_q I /\
      exists s1, mcp_run I (mcp_reset I) (firstn 1 (map (fun acts => nth r acts 0%nat) steps)) = Some s1 /\
                 m_done s1 = true /\ mcp_reward I s1 <> mcp_reward I s.
Proof. exact mcp_batch_quota_refuted. Qed.
Print Assumptions C02_mcp_finished_row_selects_past_quota_in_mixed_quota_batch_refuted.

Theorem C02_flp_finished_row_selects_past_quota_in_mixed_quota_batch_refuted :
  exists Is steps ss m,
    Forall flp_wf Is /\
    flp_brun Is (map flp_reset Is) (map (fun _ => [false]) Is) steps = Some (ss, m) /\ all_done m = true /\
    exists r I s, nth_error Is r = Some I /\ nth_error ss r = Some s /\
      Z.of_nat (count_true (f_chosen s)) <> f_q I /\
      exists s1, flp_run I (flp_reset I) (firstn 1 (map (fun acts => nth r acts 0%nat) steps)) = Some s1 /\
                 f_done s1 = true /\ flp_reward I s1 <> flp_reward I s.
Proof. exact flp_batch_quota_refuted. Qed.
Print Assumptions C02_flp_finished_row_selects_past_quota_in_mixed_quota_batch_refuted.

(* ================================================================ non-vacuity *)
Example C02_graph_nonvacuous :
  flp_wf flp_ex /\ option_map f_done (flp_run flp_ex (flp_reset flp_ex) [3%nat]) = Some false /\
  option_map f_done (flp_run flp_ex (flp_reset flp_ex) [3%nat; 1%nat]) = Some true /\
  option_map f_done (flp_run flp_ex (flp_reset flp_ex) [3%nat; 1%nat; 0%nat]) = Some true /\
  mcp_wf mcp_ex /\ option_map m_done (mcp_run mcp_ex (mcp_reset mcp_ex) [0%nat; 3%nat]) = Some true /\
  dpp_wf dpp_ex /\ option_map d_done (dpp_run dpp_ex (dpp_reset dpp_ex) [8; 0; 5]%nat) = Some true /\
  mdpp_wf mdpp_ex /\ option_map d_done (mdpp_run mdpp_ex (mdpp_reset mdpp_ex) [6; 0]%nat) = Some true.
Proof. vm_compute. repeat split; reflexivity. Qed.
