(* C04 for CVRPTW -- post-finish padding is inert (the row-wise half of C04; the batched half is differential). *)
From Coq Require Import ZArith List Bool.
From RL4CO Require Import Base.Num Base.EnvSig Spec.Routes Env.CVRP Env.CVRPProofs Env.CVRPTW Env.CVRPTWProofs.
Import ListNotations.
Open Scope Z_scope.

(* after a row has finished (in an instance where a vehicle can return from every deadline), any number k of further
   steps: the depot is offered (and only it), the row stays finished, the mask does not change, and the reward of the
   padded action list equals that of the unpadded one *)
Theorem C04_cvrptw_padding_inert :
  forall (i : cvrptw_inst) (acts : list nat) (k : nat),
    cvrptw_wf i ->
    (forall j, (j <= tn_of i)%nat -> hi i j + du i j + dd i j 0 <= hi i 0) ->
    adm (E:=CVRPTW exact) i acts = true -> done (CVRPTW exact) i (run (E:=CVRPTW exact) i acts) = true ->
    let pad := repeat 0%nat k in
    adm (E:=CVRPTW exact) i (acts ++ pad) = true /\
    done (CVRPTW exact) i (run (E:=CVRPTW exact) i (acts ++ pad)) = true /\
    mask (CVRPTW exact) i (run (E:=CVRPTW exact) i (acts ++ pad)) = true :: repeat false (tn_of i) /\
    (dd i 0%nat 0%nat = 0 -> cvrptw_reward i (acts ++ pad) = cvrptw_reward i acts).
Proof. exact cvrptw_padding_inert. Qed.
Print Assumptions C04_cvrptw_padding_inert.

Example C04_cvrptw_nonvacuous :
  let i := {| base := {| dem := [3; 5]; cap := 8; dist := [[0; 3; 4]; [3; 0; 5]; [4; 5; 0]]; tol := 0 |};
              twlo := [0; 0; 9]; twhi := [14; 3; 9]; durs := [0; 1; 1]; tu := 1; hz0 := 14; tsl := 0 |} in
  cvrptw_wfb i = true /\ cvrptw_returnb i = true /\
  done (CVRPTW exact) i (run (E:=CVRPTW exact) i [1; 0; 2]%nat) = true /\
  mask (CVRPTW exact) i (run (E:=CVRPTW exact) i [1; 0; 2; 0; 0]%nat) = [true; false; false].
Proof. vm_compute. repeat split; reflexivity. Qed.
