(* C04 for PCTSPEnv -- post-finish padding is inert (the row-wise half of C04; the batched half is differential). *)
From Coq Require Import ZArith List Bool.
From RL4CO Require Import Base.Num Base.EnvSig Spec.Routes Env.PCTSP Env.PCTSPProofs.
Import ListNotations.
Open Scope Z_scope.

(* after a row has finished, any number m of further steps: the depot is offered (and only it), the row stays
   finished, the mask does not change, and the reward of the padded action list equals that of the unpadded one *)
Theorem C04_pctsp_padding_inert :
  forall (i : pctsp_inst) (acts : list nat) (m : nat),
    pctsp_wf i -> adm (E:=PCTSP exact) i acts = true -> done (PCTSP exact) i (run (E:=PCTSP exact) i acts) = true ->
    let pad := repeat 0%nat m in
    adm (E:=PCTSP exact) i (acts ++ pad) = true /\
    done (PCTSP exact) i (run (E:=PCTSP exact) i (acts ++ pad)) = true /\
    mask (PCTSP exact) i (run (E:=PCTSP exact) i (acts ++ pad)) = true :: repeat false (pn_of i) /\
    (pdfun i 0%nat 0%nat = 0 -> pctsp_reward i (acts ++ pad) = pctsp_reward i acts).
Proof. exact pctsp_padding_inert. Qed.
Print Assumptions C04_pctsp_padding_inert.

Example C04_pctsp_nonvacuous :
  let i := {| dprize := [32; 32; 10]; sprize := [1; 1; 1]; stoch := false; pen := [3; 4; 5]; pdist := [[0; 3; 4; 5]; [3; 0; 5; 4]; [4; 5; 0; 3]; [5; 4; 3; 0]]; preq := 64; pthr := 63 |} in
  adm (E:=PCTSP exact) i [1; 2; 0; 0; 0]%nat = true /\ pctsp_reward i [1; 2; 0; 0; 0]%nat = pctsp_reward i [1; 2; 0]%nat.
Proof. vm_compute. auto. Qed.
