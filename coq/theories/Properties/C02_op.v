(* C02 for OP -- no dead ends, finished stays finished, step bound, no crash. Statements only. *)
From Coq Require Import ZArith List Bool.
From RL4CO Require Import Base.Num Base.EnvSig Spec.Routes Env.OP Env.OPProofs.
Import ListNotations.
Open Scope Z_scope.

(* the depot is offered in EVERY state (reachable or not, finished or not); no solvability hypothesis is needed *)
Theorem C02_op_no_dead_end :
  forall (i : op_inst) (s : op_st), anyb (mask (OP exact) i s) = true.
Proof. exact op_no_dead_end. Qed.
Print Assumptions C02_op_no_dead_end.

Theorem C02_op_done_stable :
  forall (i : op_inst) (acts : list nat) (a : nat),
    op_wf i -> adm (E:=OP exact) i (acts ++ [a]) = true ->
    done (OP exact) i (run (E:=OP exact) i acts) = true ->
    done (OP exact) i (run (E:=OP exact) i (acts ++ [a])) = true.
Proof. exact op_done_stable. Qed.
Print Assumptions C02_op_done_stable.

(* an admitted action list none of whose proper prefixes is finished has at most max(n+1, 2) actions: at most n
   distinct customers and the closing depot visit, or the two-step episode [0;0] (the first step never finishes) *)
Theorem C02_op_bound :
  forall (i : op_inst) (acts : list nat),
    op_wf i -> adm (E:=OP exact) i acts = true ->
    (forall p q, acts = p ++ q -> q <> [] -> done (OP exact) i (run (E:=OP exact) i p) = false) ->
    (length acts <= Nat.max (op_n i + 1) 2)%nat.
Proof. exact op_bound. Qed.
Print Assumptions C02_op_bound.

(* the bound of DESIGN Appendix A *)
Theorem C02_op_bound_n_plus_2 :
  forall (i : op_inst) (acts : list nat),
    op_wf i -> adm (E:=OP exact) i acts = true ->
    (forall p q, acts = p ++ q -> q <> [] -> done (OP exact) i (run (E:=OP exact) i p) = false) ->
    (length acts <= op_n i + 2)%nat.
Proof. exact op_bound_n2. Qed.
Print Assumptions C02_op_bound_n_plus_2.

(* offered actions never index outside the tensors *)
Theorem C02_op_step_ok :
  forall (i : op_inst) (acts : list nat) (a : nat),
    offered (E:=OP exact) i (run (E:=OP exact) i acts) a = true ->
    stepok (OP exact) i (run (E:=OP exact) i acts) a = true.
Proof. exact op_step_ok. Qed.
Print Assumptions C02_op_step_ok.

(* the bound is attained: n+1 with n = 2, and the episode [0;0] *)
Example C02_op_bound_attained :
  let i := {| prz := [10; 20]; maxlen := 13; eps := 1; odist := [[0; 3; 4]; [3; 0; 5]; [4; 5; 0]]; otol := 0 |} in
  adm (E:=OP exact) i [1; 2; 0]%nat = true /\ done (OP exact) i (run (E:=OP exact) i [1; 2]%nat) = false /\
  adm (E:=OP exact) i [0; 0]%nat = true /\ done (OP exact) i (run (E:=OP exact) i [0]%nat) = false /\
  done (OP exact) i (run (E:=OP exact) i [0; 0]%nat) = true.
Proof. vm_compute. auto. Qed.
