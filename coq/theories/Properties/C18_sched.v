(* C18 (unit sched) -- FJSP / JSSP / FFSP / SMTWTP generators emit instances inside the input format the
   scheduling environments assume, and solvable ones.  Only statements closed by [exact] + Print Assumptions.

   Reading guide.  [gen_fjsp ns nmax M nelig idx pt] / [gen_jssp ns nmax M ids pt] (Data/GenSched.v) are the
   deterministic post-processing of FJSPGenerator / JSSPGenerator on the raw draws of one batch row:
   ns = operations per job (randint), nmax = max_ops_per_job * num_jobs, M = machines, nelig = eligible machines per
   operation (randint), idx = the argsort permutations that shuffle the eligibility rows, ids = the machine of each
   operation column (JSSP), pt = the raw processing times ([fjsp_pt]: the same_mean_per_op formula).
   [wfb], [solvableb], [jssp_wfb] are the hypotheses of the C07 theorems (Env/FJSP.v): jobs are consecutive non-empty
   index ranges starting at 0 that partition 0 .. total_ops - 1, padding is exactly the tail, times >= 0; every real
   operation has a machine with positive time; (JSSP) exactly one.  [pad_cleanb]: padded operations have none. *)
From Coq Require Import ZArith List Bool Arith Permutation.
From RL4CO Require Import Base.Num Spec.Schedule Env.FJSP Env.FFSP Env.SMTWTP Data.GenSched.
Import ListNotations.
Open Scope nat_scope.

(* FJSP, any number of jobs / machines / operations: *)
Theorem C18_fjsp_gen_wf :
  forall (ns : list nat) (maxops M : nat) (nelig : list nat) (idx : list (list nat)) (pt : list (list Z)),
    ns <> [] -> (forall k : nat, In k ns -> 1 <= k <= maxops) -> 1 <= M ->
    let nmax := maxops * length ns in
    (forall o : nat, o < list_sum ns -> 1 <= nth o nelig 0) ->
    (forall o : nat, o < list_sum ns -> Permutation (seq 0 M) (nth o idx [])) ->
    (forall m o : nat, m < M -> o < nmax -> (1 <= nth o (nth m pt []) 0)%Z) ->
    let i := gen_fjsp ns nmax M nelig idx pt in
    wfb i = true /\ solvableb i = true /\ pad_cleanb i = true /\ total_ops i = list_sum ns.
Proof. exact gen_fjsp_wf. Qed.
Print Assumptions C18_fjsp_gen_wf.

(* FJSP processing times with same_mean_per_op: for a mean m drawn by randint(min, max) and any non-negative
   integer draw, the time lies in [min_processing_time, max_processing_time] (in particular it is positive). *)
Theorem C18_fjsp_pt_range :
  forall (minp maxp m big : Z), (0 <= minp)%Z -> (minp <= m < maxp)%Z -> (0 <= big)%Z ->
    (minp <= fjsp_pt minp maxp m big <= maxp)%Z.
Proof. exact fjsp_pt_range. Qed.
Print Assumptions C18_fjsp_pt_range.

(* JSSP (one2one_ma_map or not): every operation column gets exactly one machine. *)
Theorem C18_jssp_gen_wf :
  forall (ns : list nat) (maxops M : nat) (ids : list nat) (pt : list (list Z)),
    ns <> [] -> (forall k : nat, In k ns -> 1 <= k <= maxops) -> 1 <= M ->
    let nmax := maxops * length ns in
    (forall o : nat, o < nmax -> nth o ids 0 < M) ->
    (forall m o : nat, m < M -> o < nmax -> (1 <= nth o (nth m pt []) 0)%Z) ->
    let i := gen_jssp ns nmax M ids pt in
    wfb i = true /\ solvableb i = true /\ jssp_wfb i = true /\ total_ops i = list_sum ns.
Proof. exact gen_jssp_wf. Qed.
Print Assumptions C18_jssp_gen_wf.

(* FFSP: run times drawn in [lo, hi) with 0 <= lo, hi <= 999999 and the documented shape give the environment's
   input format (the machine table is the environment's own and is assumed well-formed). *)
Theorem C18_ffsp_gen_wf :
  forall (i : FFSP.inst) (lo hi : Z),
    1 <= FFSP.nJ i -> 1 <= FFSP.nS i -> 1 <= FFSP.nM i ->
    length (FFSP.rt i) = FFSP.nJ i ->
    (forall row : list Z, In row (FFSP.rt i) -> length row = FFSP.nT i /\ forall d : Z, In d row -> (lo <= d < hi)%Z) ->
    (0 <= lo)%Z -> (hi <= 999999)%Z ->
    ffsp_mtab_okb i = true ->
    FFSP.wfb i = true.
Proof. exact gen_ffsp_wf. Qed.
Print Assumptions C18_ffsp_gen_wf.

(* SMTWTP: three rows of length n + 1, entry 0 (the dummy start node) zeroed, non-negative draws stay so. *)
Theorem C18_smtwtp_gen_wf :
  forall (n : nat) (due wgt pt : list Z),
    1 <= n -> length due = S n -> length wgt = S n -> length pt = S n ->
    (forall x : Z, In x due \/ In x wgt \/ In x pt -> (0 <= x)%Z) ->
    let i := gen_smtwtp n due wgt pt in
    SMTWTP.wfb i = true /\ nth 0 (SMTWTP.due i) 1%Z = 0%Z /\ nth 0 (SMTWTP.wgt i) 1%Z = 0%Z /\
    nth 0 (SMTWTP.ptime i) 1%Z = 0%Z /\
    (forall x : Z, In x (SMTWTP.due i) \/ In x (SMTWTP.wgt i) \/ In x (SMTWTP.ptime i) -> (0 <= x)%Z).
Proof. exact gen_smtwtp_wf. Qed.
Print Assumptions C18_smtwtp_gen_wf.

Example C18_sched_nonvacuous :
  let i := gen_fjsp [2; 1] 4 2 [1; 2; 1; 2] [[1; 0]; [0; 1]; [0; 1]; [1; 0]] [[3; 4; 5; 6]; [7; 8; 9; 10]]%Z in
  start_op i = [0; 2] /\ end_op i = [1; 2] /\ pad_mask i = [false; false; false; true] /\
  proc i = [[0; 4; 5; 0]; [7; 8; 0; 0]]%Z /\ wfb i = true /\ solvableb i = true /\ pad_cleanb i = true.
Proof. vm_compute. repeat split. Qed.
