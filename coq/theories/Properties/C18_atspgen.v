(* C18 (unit atspgen) -- ATSPGenerator: with tmat_class the emitted cost matrix satisfies the triangle inequality.
   Only statements closed by [exact] and their Print Assumptions.

   Reading guide.  A matrix is a list of rows of exact integers (float32 values scaled by a power of two);
   [mget D a b] is entry (a, b).  [tmat_pass D i] is one execution of the loop body
       dms = torch.minimum(dms, dms[..., :, [i]] + dms[..., [i], :])
   (a NEW matrix computed entirely from the old one), [tmat_loop n D] = the passes i = 0, ..., n-1 in this order.
   [gen_atsp tmat n S mn mx U] is the whole post-processing of ATSPGenerator._generate on the raw samples U / S:
   affine scaling to [min_dist, max_dist], zero diagonal, and the loop when tmat_class.
   squareb n D: n rows of length n; nonnegb: all entries >= 0; zero_diagb: D a a = 0; triangleb: the executable
   statement of D a b <= D a k + D k b for all a, b, k (the harness evaluates it on generator output).
   Float32 rounding of the additions is not modelled. *)
From Coq Require Import ZArith List Bool Arith.
From RL4CO Require Import Base.Num Data.GenATSP.
Import ListNotations.
Open Scope Z_scope.

(* For every size n and every n x n matrix with non-negative entries and zero diagonal, the matrix after the n
   passes of the loop satisfies the triangle inequality through every intermediate node, keeps a zero diagonal,
   is non-negative and entrywise not larger than the input. *)
Theorem C18_atsp_fw_triangle :
  forall (n : nat) (D : list (list Z)),
    squareb n D = true -> nonnegb D = true -> zero_diagb D = true ->
    let R := tmat_loop n D in
    squareb n R = true /\
    (forall a b k : nat, (a < n)%nat -> (b < n)%nat -> (k < n)%nat -> mget R a b <= mget R a k + mget R k b) /\
    (forall a : nat, (a < n)%nat -> mget R a a = 0) /\
    (forall a b : nat, (a < n)%nat -> (b < n)%nat -> 0 <= mget R a b <= mget D a b).
Proof. exact fw_triangle. Qed.
Print Assumptions C18_atsp_fw_triangle.

(* The generator as a whole: for every size, every scale S >= 0, integer bounds 0 <= min_dist <= max_dist and
   every n x n array of non-negative raw samples, the emitted matrix (tmat_class=True) is n x n, non-negative,
   zero on the diagonal and satisfies the triangle inequality. *)
Theorem C18_atsp_gen_wf :
  forall (n : nat) (S mn mx : Z) (U : list (list Z)),
    squareb n U = true -> nonnegb U = true -> 0 <= S -> 0 <= mn <= mx ->
    let R := gen_atsp true n S mn mx U in
    squareb n R = true /\ nonnegb R = true /\ zero_diagb R = true /\ triangleb R = true.
Proof. exact gen_atsp_wf. Qed.
Print Assumptions C18_atsp_gen_wf.

(* triangleb is the triangle inequality (so the boolean the harness evaluates means what it should). *)
Theorem C18_atsp_triangleb_spec :
  forall D : list (list Z),
    triangleb D = true <->
    (forall a b k : nat, (a < length D)%nat -> (b < length D)%nat -> (k < length D)%nat ->
       mget D a b <= mget D a k + mget D k b).
Proof. exact triangleb_spec. Qed.
Print Assumptions C18_atsp_triangleb_spec.

(* Sharpness: n - 1 passes are not enough (3 nodes, last pass dropped), and without tmat_class nothing holds. *)
Theorem C18_atsp_short_loop_refuted :
  let D := [[0; 9; 1]; [9; 0; 9]; [9; 1; 0]] in
  squareb 3 D = true /\ nonnegb D = true /\ zero_diagb D = true /\
  triangleb (fold_left tmat_pass (seq 0 2) D) = false /\ triangleb (tmat_loop 3 D) = true.
Proof. exact tmat_short_loop_refuted. Qed.
Print Assumptions C18_atsp_short_loop_refuted.

Example C18_atsp_nonvacuous :
  let U := [[7; 100; 3]; [50; 2; 60]; [64; 1; 9]] in
  squareb 3 U = true /\ nonnegb U = true /\
  gen_atsp true 3 128 0 1 U = [[0; 4; 3]; [50; 0; 53]; [51; 1; 0]] /\
  triangleb (gen_atsp false 3 128 0 1 U) = false.
Proof. vm_compute. repeat split. Qed.
