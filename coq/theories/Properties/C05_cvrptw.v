(* C05 for CVRPTW -- the mask never hides a feasible solution. Statements only. *)
From Coq Require Import ZArith List Bool.
From RL4CO Require Import Base.Num Base.EnvSig Spec.Routes Spec.TimeWindows Env.CVRP Env.CVRPProofs Env.CVRPTW Env.CVRPTWProofs.
Import ListNotations.
Open Scope Z_scope.

(* EVERY solution of the problem -- non-empty routes that partition the customers 1..n, each with load <= capacity
   and time-feasible when driven from time 0 at the depot (service starts <= deadline and return <= depot deadline,
   EQUALITY allowed in all three constraints) -- is reachable through the mask in its canonical encoding (one depot
   visit after each route), the row is finished at its end, and decoding the encoding gives the same routes back *)
Theorem C05_cvrptw_mask_complete :
  forall (i : cvrptw_inst) (rs : list (list nat)),
    cvrptw_wf i ->
    rs <> [] -> Forall (fun r => r <> []) rs -> NoDup (concat rs) ->
    (forall x, In x (concat rs) <-> (1 <= x <= tn_of i)%nat) ->
    Forall (fun r => sumZ (map (demand (base i)) r) <= cap (base i)) rs ->
    Forall (fun r => route_times_ok (dd i) (lo i) (hi i) (du i) 0 0%nat 0 r) rs ->
    adm (E:=CVRPTW exact) i (encode_routes rs) = true /\
    done (CVRPTW exact) i (run (E:=CVRPTW exact) i (encode_routes rs)) = true /\
    routes (encode_routes rs) = rs ++ [[]].
Proof. exact cvrptw_mask_complete_unfolded. Qed.
Print Assumptions C05_cvrptw_mask_complete.

(* and its reward is minus the sum of the closed route lengths: the optimum over solutions is reachable *)
Theorem C05_cvrptw_encoding_keeps_objective :
  forall (i : cvrptw_inst) (rs : list (list nat)),
    dd i 0%nat 0%nat = 0 -> Forall (fun r => Forall (fun x => x <> 0%nat) r) rs ->
    cvrptw_objective i (encode_routes rs) = - sumZ (map (route_len (dd i)) rs).
Proof. intros i rs. exact (cvrp_encode_objective (base i) rs). Qed.
Print Assumptions C05_cvrptw_encoding_keeps_objective.

(* non-vacuity with all three constraints met with equality: load 3 + 5 = 8, arrival at customer 1 = its deadline 3,
   return of the route at 9 + 1 + 4 = 14 = depot deadline *)
Example C05_cvrptw_nonvacuous :
  let i := {| base := {| dem := [3; 5]; cap := 8; dist := [[0; 3; 4]; [3; 0; 5]; [4; 5; 0]]; tol := 0 |};
              twlo := [0; 0; 9]; twhi := [14; 3; 9]; durs := [0; 1; 1]; tu := 1; hz0 := 14; tsl := 0 |} in
  cvrptw_wfb i = true /\
  route_times_okb (dd i) (lo i) (hi i) (du i) 0 0%nat 0 [1; 2]%nat = true /\
  adm (E:=CVRPTW exact) i (encode_routes [[1; 2]]%nat) = true /\
  done (CVRPTW exact) i (run (E:=CVRPTW exact) i (encode_routes [[1; 2]]%nat)) = true.
Proof. vm_compute. repeat split; reflexivity. Qed.
