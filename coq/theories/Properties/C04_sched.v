(* C04 (unit sched) -- FJSPEnv, JSSPEnv, FFSPEnv, SMTWTPEnv: an instance's outcome is independent of its batch-mates and of
   padding steps.  Two halves, as in DESIGN.md:
   (1) batch-global constructs.  The batched code is written LITERALLY on whole batches in Env/SchedBatch.v /
       Env/SchedBatch2.v (`no_op.any()`, `_transit_to_next_time(mask, td)` applied to every row, `td.masked_select(req_op)`,
       `while step_complete.any()`, `assert td["done"].all()`, FFSP's `if td["done"].all()` (twice) and IndexTables' idx // bs,
       the batch maximum in get_job_op_view) and proved equal to the row-wise reading under the invariant that really holds:
       every row is in a state some mask-confined episode reaches.
   (2) padding.  Stepping a finished row with its inert action changes neither masks, done nor reward.
   Only statements closed by [exact] and their Print Assumptions. *)
From Coq Require Import ZArith List Bool Arith Permutation.
From RL4CO Require Import Base.FFSPLists Spec.Schedule Spec.FlowShop Env.FFSP Env.FFSPProofs Env.SMTWTP Env.SchedBatch2.
From RL4CO Require Import Env.FJSP Env.FJSPProofs Env.SchedBatch Env.SchedGuards.
Import ListNotations.
Open Scope nat_scope.

(* ================================================================ FJSP / JSSP: the batched _step *)
(* [brow] = one row of the TensorDict (instance tensors, state tensors, td["action"]).  [b_step cfg M rows] is FJSPEnv._step
   on the whole batch with at most M iterations of its while loop.  For ANY batch whose rows (of any sizes, any mixture
   of finished / waiting / scheduling rows, sharing only the number of machines M = proc_times.size(1)) are each in a
   reachable state with an offered action -- a finished row may carry any action at all -- the batched step does not raise,
   its loop ends within M iterations, and every row ends exactly where its own row-wise step puts it. *)
Theorem C04_fjsp_batched_step_is_rowwise :
  forall (cfg : bool) (M : nat) (rows : list brow),
    Forall (fun r =>
      wfb (r_i r) = true /\ solvableb (r_i r) = true /\ nM (r_i r) = M /\
      (exists acts, admb cfg (r_i r) (reset (r_i r)) acts = true /\ run cfg (r_i r) (reset (r_i r)) acts = Some (r_s r)) /\
      (done (r_s r) = false -> maskb cfg (r_i r) (r_s r) (r_a r) = true)) rows ->
    exists outs : list st,
      b_step cfg M rows = Some outs /\
      map Some outs = map (fun r => step cfg (r_i r) (r_s r) (r_a r)) rows.
Proof. exact fjsp_bstep_rowwise. Qed.
Print Assumptions C04_fjsp_batched_step_is_rowwise.

(* the reason the release phase of _transit_to_next_time, which the batched code runs on EVERY row whenever ANY row
   transits, does not disturb the other rows *)
Theorem C04_fjsp_release_phase_inert_on_bystanders :
  forall (cfg : bool) (i : inst) (acts : list nat) (s : st),
    wfb i = true -> solvableb i = true -> admb cfg i (reset i) acts = true ->
    run cfg i (reset i) acts = Some s -> release i s = s.
Proof. exact FJSP_release_inert_reachable. Qed.
Print Assumptions C04_fjsp_release_phase_inert_on_bystanders.

(* the check_mask assert at the end of the batched _step (every mask row non-empty) never fires *)
Theorem C04_fjsp_batched_step_masks_nonempty :
  forall (cfg : bool) (M : nat) (rows : list brow) (outs : list st),
    Forall (fun r =>
      wfb (r_i r) = true /\ solvableb (r_i r) = true /\ nM (r_i r) = M /\
      (exists acts, admb cfg (r_i r) (reset (r_i r)) acts = true /\ run cfg (r_i r) (reset (r_i r)) acts = Some (r_s r)) /\
      (done (r_s r) = false -> maskb cfg (r_i r) (r_s r) (r_a r) = true)) rows ->
    b_step cfg M rows = Some outs ->
    allb (zipw (fun r s => anyb (mask cfg (r_i r) s)) rows outs) = true.
Proof. exact fjsp_bstep_masks_nonempty. Qed.
Print Assumptions C04_fjsp_batched_step_masks_nonempty.

(* JSSPEnv._step = per-row action translation (job -> its one eligible machine) followed by the same batched step *)
Theorem C04_jssp_batched_step_is_rowwise :
  forall (cfg : bool) (M : nat) (rows : list brow),
    Forall (fun r =>
      wfb (r_i r) = true /\ jssp_wfb (r_i r) = true /\ nM (r_i r) = M /\
      (exists acts, jssp_admb cfg (r_i r) (reset (r_i r)) acts = true /\ jssp_run cfg (r_i r) (reset (r_i r)) acts = Some (r_s r)) /\
      (done (r_s r) = false -> jssp_maskb cfg (r_i r) (r_s r) (r_a r) = true)) rows ->
    exists outs : list st,
      jssp_b_step cfg M rows = Some outs /\
      map Some outs = map (fun r => jssp_step cfg (r_i r) (r_s r) (r_a r)) rows.
Proof. exact jssp_bstep_rowwise. Qed.
Print Assumptions C04_jssp_batched_step_is_rowwise.

(* _get_reward: `assert td["done"].all()` then a per-row maximum.  With every row done each row gets its own reward ... *)
Theorem C04_fjsp_batched_reward_is_rowwise :
  forall (rows : list (inst * st)),
    Forall (fun r => done (snd r) = true) rows ->
    forall rs : list Z, b_reward rows = Some rs -> map Some rs = map (fun r => reward (fst r) (snd r)) rows.
Proof. exact fjsp_breward_rowwise. Qed.
Print Assumptions C04_fjsp_batched_reward_is_rowwise.

(* ... and this assert is the one place where a row depends on its batch-mates: no reward for anybody before the slowest row
   has finished (rl4co's rollout loops only ask once td["done"].all()) *)
Theorem C04_fjsp_batched_reward_needs_all_done :
  forall (rows : list (inst * st)), (exists r, In r rows /\ done (snd r) = false) -> b_reward rows = None.
Proof. exact fjsp_breward_needs_all_done. Qed.
Print Assumptions C04_fjsp_batched_reward_needs_all_done.

(* padding: after a row has finished, ANY further actions (rl4co feeds the no-op, which is offered) leave the state -- hence
   mask, done, schedule and reward -- exactly as it was when the row finished *)
Theorem C04_fjsp_padding_inert :
  forall (cfg : bool) (i : inst) (acts pad : list nat) (s : st),
    run cfg i (reset i) acts = Some s -> done s = true ->
    run cfg i (reset i) (acts ++ pad) = Some s /\
    (admb cfg i (reset i) acts = true -> admb cfg i (reset i) (acts ++ repeat 0 (length pad)) = true).
Proof. exact fjsp_padding_inert_episode. Qed.
Print Assumptions C04_fjsp_padding_inert.

(* get_job_op_view / blockify (fjsp/utils.py) size their result by a maximum over the WHOLE batch.  Row b of the batched
   result is the row's own view with every job slice extended by pad_value: batch-mates decide only how many pad columns
   follow, the entries of the row's operations are its own *)
Theorem C04_fjsp_job_op_view_is_rowwise_up_to_padding :
  forall (A : Type) (pad : A) (rows : list (inst * list A)) (b : nat) (i : inst) (vals : list A),
    nth_error rows b = Some (i, vals) ->
    exists v, nth_error (b_view pad rows) b = Some v /\
      row_width i <= batch_width rows /\
      length v = nJ i /\
      forall j, j < nJ i ->
        nth j v [] = nth j (row_view pad i vals) [] ++ repeat pad (batch_width rows - row_width i) /\
        firstn (job_len i j) (nth j v []) = job_slice pad i vals j.
Proof. exact (@b_view_rowwise). Qed.
Print Assumptions C04_fjsp_job_op_view_is_rowwise_up_to_padding.

(* ================================================================ FFSP *)
(* [ffsp_b_step rows] = FFSPEnv._step on the whole batch: first half per row, then `if td["done"].all(): pass else:
   _move_to_next_machine (unfinished rows only); _update_step_state (every row)`.  Every row gets its row-wise step, except
   that on the step that finishes the WHOLE batch the three fields _update_step_state writes (action_mask, stage_idx,
   stage_machine_idx) stay stale -- time, wait counters, job_location, schedule, done and hence the reward are the
   row-wise ones in every case *)
Theorem C04_ffsp_batched_step_is_rowwise :
  forall rows : list frow,
    Forall (fun r =>
      FFSP.wfb (fr_i r) = true /\
      (exists acts, FFSP.adm (fr_i r) (FFSP.reset (fr_i r)) acts = true /\ FFSP.run (fr_i r) (FFSP.reset (fr_i r)) acts = Some (fr_s r)) /\
      nth (fr_a r) (FFSP.mask (fr_s r)) false = true) rows ->
    exists outs, ffsp_b_step rows = Some outs /\ length outs = length rows /\
      forall k r o, nth_error rows k = Some r -> nth_error outs k = Some o ->
        exists o', FFSP.step (fr_i r) (fr_s r) (fr_a r) = Some o' /\
          (forallb FFSP.done outs = false -> o = o') /\
          (FFSP.time o = FFSP.time o' /\ FFSP.sub o = FFSP.sub o' /\ FFSP.mach o = FFSP.mach o' /\ FFSP.mws o = FFSP.mws o' /\
           FFSP.jws o = FFSP.jws o' /\ FFSP.jloc o = FFSP.jloc o' /\ FFSP.sched o = FFSP.sched o' /\ FFSP.done o = FFSP.done o') /\
          FFSP.reward_of (fr_i r) o = FFSP.reward_of (fr_i r) o' /\ FFSP.schedule_of (fr_i r) o = FFSP.schedule_of (fr_i r) o'.
Proof. exact ffsp_bstep_rowwise. Qed.
Print Assumptions C04_ffsp_batched_step_is_rowwise.

(* padding + the `done.all()` guard of the reward: whatever number of wait steps a finished row receives while slower
   batch-mates run (they are all the wait action), its done flag, schedule and reward stay those of its finishing state --
   so the reward the last step of the batch writes for it is its own *)
Theorem C04_ffsp_padding_inert :
  forall (i : FFSP.inst), FFSP.wfb i = true -> forall (pad acts : list nat) (s : FFSP.st),
    FFSP.adm i (FFSP.reset i) (acts ++ pad) = true -> FFSP.run i (FFSP.reset i) acts = Some s -> FFSP.done s = true ->
    pad = repeat (FFSP.nJ i) (length pad) /\
    exists s', FFSP.run i (FFSP.reset i) (acts ++ pad) = Some s' /\ FFSP.done s' = true /\
      FFSP.schedule_of i s' = FFSP.schedule_of i s /\ FFSP.reward_of i s' = FFSP.reward_of i s.
Proof. exact ffsp_padding_frozen. Qed.
Print Assumptions C04_ffsp_padding_inert.

(* a finished row padded with waits keeps offering exactly the wait action (mask emptiness never changes) *)
Theorem C04_ffsp_padded_row_keeps_its_mask :
  forall (i : FFSP.inst) (acts : list nat),
    FFSP.wfb i = true -> FFSP.adm i (FFSP.reset i) acts = true ->
    exists s, FFSP.run i (FFSP.reset i) acts = Some s /\
      (FFSP.done s = false -> exists j, (j < FFSP.nJ i)%nat /\ nth j (FFSP.mask s) false = true) /\
      (FFSP.done s = true -> nth (FFSP.nJ i) (FFSP.mask s) false = true /\
                             forall j, (j < FFSP.nJ i)%nat -> nth j (FFSP.mask s) false = false).
Proof. exact FFSPProofs.FFSP_no_dead_end. Qed.
Print Assumptions C04_ffsp_padded_row_keeps_its_mask.

(* IndexTables.get_machine_index(idx, .) reads machine_table[idx // bs]: in a plain batch every position reads
   permutation 0 (position independence); after batchify(td, P) position p*bs + b is start p of instance b (by design) *)
Theorem C04_ffsp_index_tables_plain_batch :
  forall bs idx : nat, idx < bs -> pomo_idx bs idx = 0.
Proof. exact pomo_idx_plain. Qed.
Print Assumptions C04_ffsp_index_tables_plain_batch.

Theorem C04_ffsp_index_tables_batchified :
  forall bs p b : nat, b < bs -> pomo_idx bs (p * bs + b) = p.
Proof. exact pomo_idx_batchified. Qed.
Print Assumptions C04_ffsp_index_tables_batchified.

(* ================================================================ SMTWTP *)
(* nothing in SMTWTPEnv is batch-global; a finished row cannot be padded at all (its mask is empty) and all rows of a
   batch finish together, so there is never a padding step to be inert *)
Theorem C04_smtwtp_no_padding_possible :
  forall (i : SMTWTP.inst) (acts : list nat) (a : nat) (s : SMTWTP.st),
    SMTWTP.wfb i = true -> SMTWTP.adm i (SMTWTP.reset i) acts = true -> SMTWTP.run i (SMTWTP.reset i) acts = Some s ->
    SMTWTP.done s = true -> SMTWTP.adm i (SMTWTP.reset i) (acts ++ [a]) = false.
Proof. exact smtwtp_no_padding_possible. Qed.
Print Assumptions C04_smtwtp_no_padding_possible.

Theorem C04_smtwtp_batch_finishes_together :
  forall (i1 i2 : SMTWTP.inst) (acts1 acts2 : list nat) (s1 s2 : SMTWTP.st),
    SMTWTP.wfb i1 = true -> SMTWTP.wfb i2 = true -> SMTWTP.n_job i1 = SMTWTP.n_job i2 -> length acts1 = length acts2 ->
    SMTWTP.adm i1 (SMTWTP.reset i1) acts1 = true -> SMTWTP.adm i2 (SMTWTP.reset i2) acts2 = true ->
    SMTWTP.run i1 (SMTWTP.reset i1) acts1 = Some s1 -> SMTWTP.run i2 (SMTWTP.reset i2) acts2 = Some s2 ->
    SMTWTP.done s1 = SMTWTP.done s2.
Proof. exact smtwtp_batch_finishes_together. Qed.
Print Assumptions C04_smtwtp_batch_finishes_together.

(* ================================================================ FFSPEnv.pre_step: a batch-global misuse guard *)
(* [b_pre_step rows] is env.pre_step on a whole batch (Env/SchedGuards.v: machine_idx re-read from the row's machine table,
   _update_step_state, then the asserts  (stage_idx == 0).all()  and  (stage_machine_idx == machine_idx).all();  None = the
   call raises).  Right after reset -- the only legal place, MatNet's multi-start flow calls it there -- it raises for no
   batch of well-formed instances and changes no row. *)
Theorem C04_ffsp_pre_step_after_reset_is_identity :
  forall (insts : list FFSP.inst),
    Forall (fun i => FFSP.wfb i = true) insts ->
    b_pre_step (map (fun i => (i, FFSP.reset i)) insts) = Some (map FFSP.reset insts).
Proof. exact ffsp_pre_step_after_reset. Qed.
Print Assumptions C04_ffsp_pre_step_after_reset_is_identity.

(* on a running batch the guard is batch-global: ONE row whose current machine belongs to a later stage makes the call raise
   for every row (so a batch-mate decides whether the call on a row at stage 0 goes through) ... *)
Theorem C04_ffsp_pre_step_refuses_running_batch :
  forall (rows : list (FFSP.inst * FFSP.st)),
    (exists r, In r rows /\ FFSP.stage_of (fst r) (FFSP.sub (snd r)) <> 0) -> b_pre_step rows = None.
Proof. exact ffsp_pre_step_refuses_running_batch. Qed.
Print Assumptions C04_ffsp_pre_step_refuses_running_batch.

(* ... and when it does return, every row is at stage 0 and has been rewritten by its own row-wise pre_step only *)
Theorem C04_ffsp_pre_step_is_rowwise :
  forall (rows : list (FFSP.inst * FFSP.st)) (outs : list FFSP.st),
    b_pre_step rows = Some outs ->
    outs = map (fun r => pre_row (fst r) (snd r)) rows /\
    forall r, In r rows -> FFSP.stage_of (fst r) (FFSP.sub (snd r)) = 0.
Proof. exact ffsp_pre_step_rowwise. Qed.
Print Assumptions C04_ffsp_pre_step_is_rowwise.

(* ================================================================ non-vacuity *)
(* a concrete batch of three rows of the example instance (one scheduling, one finished and padded, one at reset) through
   the batched step equals the three row-wise steps *)
Example C04_sched_batched_step_example :
  match run true ex_i (reset ex_i) [1], run true ex_i (reset ex_i) [1; 4; 2] with
  | Some sa, Some sb =>
      done sb = true /\
      b_step true 2 [ {| r_i := ex_i; r_s := sa; r_a := 4 |}; {| r_i := ex_i; r_s := sb; r_a := 0 |};
                      {| r_i := ex_i; r_s := reset ex_i; r_a := 4 |} ]
      = Some [ match step true ex_i sa 4 with Some x => x | None => sa end; sb;
               match step true ex_i (reset ex_i) 4 with Some x => x | None => sb end ]
  | _, _ => False
  end.
Proof. exact b_step_example. Qed.
Example C04_sched_jssp_batched_step_example :
  match jssp_run true ex_i (reset ex_i) [1; 2; 1] with
  | Some sd =>
      done sd = true /\
      jssp_b_step true 2 [ {| r_i := ex_i; r_s := reset ex_i; r_a := 2 |}; {| r_i := ex_i; r_s := sd; r_a := 0 |} ]
      = Some [ match jssp_step true ex_i (reset ex_i) 2 with Some x => x | None => sd end; sd ]
  | None => False
  end.
Proof. exact jssp_b_step_example. Qed.
Example C04_sched_ffsp_batched_step_example :
  match FFSP.run FFSP.ex_i (FFSP.reset FFSP.ex_i) FFSP.ex_acts with
  | Some sd =>
      FFSP.done sd = true /\ nth 3 (FFSP.mask sd) false = true /\
      ffsp_b_step [ {| fr_i := FFSP.ex_i; fr_s := FFSP.reset FFSP.ex_i; fr_a := 1 |}; {| fr_i := FFSP.ex_i; fr_s := sd; fr_a := 3 |} ]
      = Some [ match FFSP.step FFSP.ex_i (FFSP.reset FFSP.ex_i) 1 with Some x => x | None => sd end;
               match FFSP.step FFSP.ex_i sd 3 with Some x => x | None => sd end ]
  | None => False
  end.
Proof. exact ffsp_b_step_example. Qed.
Example C04_sched_job_op_view_example :
  b_view (-1)%Z [(ex_i, [7; 8; 9; 0]%Z)] = [[[7; 8]; [9; -1]]]%Z.
Proof. vm_compute. reflexivity. Qed.

(* pre_step: a reset row next to a row two steps into its episode (stage 1) is refused; two reset rows pass unchanged *)
Example C04_sched_ffsp_pre_step_example :
  FFSP.wfb FFSP.ex_i = true /\
  b_pre_step [(FFSP.ex_i, FFSP.reset FFSP.ex_i); (FFSP.ex_i, FFSP.reset FFSP.ex_i)] = Some [FFSP.reset FFSP.ex_i; FFSP.reset FFSP.ex_i] /\
  match FFSP.run FFSP.ex_i (FFSP.reset FFSP.ex_i) [1; 0; 2] with
  | Some s => FFSP.stage_of FFSP.ex_i (FFSP.sub s) = 1 /\ b_pre_step [(FFSP.ex_i, FFSP.reset FFSP.ex_i); (FFSP.ex_i, s)] = None /\
              b_pre_step [(FFSP.ex_i, s)] = None
  | None => False
  end.
Proof. exact ffsp_pre_step_examples. Qed.
