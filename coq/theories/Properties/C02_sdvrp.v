(* C02 for SDVRP -- no dead ends, finished stays finished, step bound, no crash. Statements only. *)
From Coq Require Import ZArith List Bool.
From RL4CO Require Import Base.Num Base.EnvSig Spec.Routes Env.CVRP Env.CVRPProofs Env.SDVRP Env.SDVRPProofs.
Import ListNotations.
Open Scope Z_scope.

(* EVERY state (reachable or not, finished or not) offers an action: the depot is masked only when some customer is
   offered.  No hypothesis at all. *)
Theorem C02_sdvrp_no_dead_end :
  forall (i : cvrp_inst) (s : sd_st), anyb (mask (SDVRP exact) i s) = true.
Proof. exact sdvrp_no_dead_end. Qed.
Print Assumptions C02_sdvrp_no_dead_end.

Theorem C02_sdvrp_done_stable :
  forall (i : cvrp_inst) (acts : list nat) (a : nat),
    cvrp_wf i -> adm (E:=SDVRP exact) i (acts ++ [a]) = true ->
    done (SDVRP exact) i (run (E:=SDVRP exact) i acts) = true ->
    done (SDVRP exact) i (run (E:=SDVRP exact) i (acts ++ [a])) = true.
Proof. exact sdvrp_done_stable. Qed.
Print Assumptions C02_sdvrp_done_stable.

(* With a capacity > 0, an admitted action list none of whose proper prefixes is finished has at most
   max(1, 2 (n + ceil(total demand / capacity)) - 3) actions.  Measure (Env/SDVRPProofs.sd_measure): every customer
   visit either exhausts its customer (at most n times) or fills the vehicle without exhausting the customer (each
   such visit closes a route that delivered exactly one capacity while demand is left, so fewer than
   total/capacity times); every depot visit is preceded by its own customer visit; the last action is a customer. *)
Theorem C02_sdvrp_bound :
  forall (i : cvrp_inst) (acts : list nat),
    cvrp_wf i -> 0 < cap i -> adm (E:=SDVRP exact) i acts = true ->
    (forall p q, acts = p ++ q -> q <> [] -> done (SDVRP exact) i (run (E:=SDVRP exact) i p) = false) ->
    (length acts <= Nat.max 1 (2 * (n_of i + Z.to_nat ((sumZ (dem i) + cap i - 1) / cap i)) - 3))%nat.
Proof. exact sdvrp_bound. Qed.
Print Assumptions C02_sdvrp_bound.

(* the form of DESIGN Appendix A ("one more pair per vehicle load") follows *)
Theorem C02_sdvrp_bound_appendix :
  forall (i : cvrp_inst) (acts : list nat),
    cvrp_wf i -> 0 < cap i -> adm (E:=SDVRP exact) i acts = true ->
    (forall p q, acts = p ++ q -> q <> [] -> done (SDVRP exact) i (run (E:=SDVRP exact) i p) = false) ->
    (length acts <= 2 * (n_of i + Z.to_nat ((sumZ (dem i) + cap i - 1) / cap i)) + 1)%nat.
Proof. exact sdvrp_bound_appendix. Qed.
Print Assumptions C02_sdvrp_bound_appendix.

Theorem C02_sdvrp_step_ok :
  forall (i : cvrp_inst) (acts : list nat) (a : nat),
    offered (E:=SDVRP exact) i (run (E:=SDVRP exact) i acts) a = true ->
    stepok (SDVRP exact) i (run (E:=SDVRP exact) i acts) a = true.
Proof. exact sdvrp_step_ok. Qed.
Print Assumptions C02_sdvrp_step_ok.

(* the bound is attained: one customer with demand 150 and capacity 64 needs 1,0,1,0,1 = 2 (1 + 3) - 3 = 5 steps *)
Example C02_sdvrp_bound_attained :
  let i := {| dem := [150]; cap := 64; dist := []; tol := 0 |} in
  adm (E:=SDVRP exact) i [1; 0; 1; 0; 1]%nat = true /\
  done (SDVRP exact) i (run (E:=SDVRP exact) i [1; 0; 1; 0]%nat) = false /\
  done (SDVRP exact) i (run (E:=SDVRP exact) i [1; 0; 1; 0; 1]%nat) = true /\ sd_bound i = 5%nat.
Proof. vm_compute. auto. Qed.

(* the hypothesis capacity > 0 is needed: with capacity 0 the depot is the only action forever and the row never
   finishes *)
Example C02_sdvrp_zero_capacity_never_finishes :
  let i := {| dem := [5]; cap := 0; dist := []; tol := 0 |} in
  cvrp_wfb i = true /\ sd_solvableb i = false /\
  mask (SDVRP exact) i (run (E:=SDVRP exact) i [0; 0; 0]%nat) = [true; false] /\
  done (SDVRP exact) i (run (E:=SDVRP exact) i [0; 0; 0]%nat) = false.
Proof. vm_compute. auto. Qed.
