(* C04 for MTVRP -- post-finish padding is inert (the row-wise half of C04; the batched half is differential). *)
From Coq Require Import ZArith List Bool.
From RL4CO Require Import Base.Num Base.EnvSig Spec.Routes Spec.VRPFeatures Env.MTVRP Env.MTVRPProofs.
Import ListNotations.
Open Scope Z_scope.

(* after a row has finished, any number k of further steps: the depot is offered (and only it), the row stays
   finished, the mask does not change, and the reward of the padded action list equals that of the unpadded one *)
Theorem C04_mtvrp_padding_inert :
  forall (R : bool) (i : mtvrp_inst) (acts : list nat) (k : nat),
    mtvrp_wfb i = true -> adm (E:=MTVRP exact R) i acts = true ->
    done (MTVRP exact R) i (run (E:=MTVRP exact R) i acts) = true ->
    let pad := repeat 0%nat k in
    adm (E:=MTVRP exact R) i (acts ++ pad) = true /\
    done (MTVRP exact R) i (run (E:=MTVRP exact R) i (acts ++ pad)) = true /\
    mask (MTVRP exact R) i (run (E:=MTVRP exact R) i (acts ++ pad)) = true :: repeat false (n_of i) /\
    mtvrp_reward i (acts ++ pad) = mtvrp_reward i acts.
Proof. exact mtvrp_padding_inert. Qed.
Print Assumptions C04_mtvrp_padding_inert.
