(* C15 -- augmentation preserves costs; evaluation reports true best-of-k results.
   This file contains only statements closed by [exact] and their Print Assumptions.
   Vocabulary (Train/Augment.v, Train/EvalRegroup.v):
     sqdist p q = (x_p - x_q)^2 + (y_p - y_q)^2;  dih k = the k-th map of dihedral_8_augmentation (source order);
     sym o c s flip = symmetric_transform with offset o, c = torch.cos(phi), s = torch.sin(phi), flip = phi > 2*pi;
     state_aug = StateAugmentation.__call__ on one feature (None = the code raises);
     tsp_reward / cvrp_reward f = the env objective with the norm f(sqdist) (f = sqrt in the code);
     ev_select / ev_inner_msa / ev_inner_sampling = the _inner functions of rl4co/tasks/eval.py;
     ev_pad_concat = the padding + concatenation of EvalBase.__call__. *)
From Coq Require Import List Arith Reals QArith Qcanon.
From RL4CO Require Import Base.OField Base.OFieldQc Base.OFieldR Train.EvalRegroup Train.Augment Train.GenEqC15
  Train.EvalAggregate Train.SharedStepGrid Gen.GenAugment.
Import ListNotations.
Close Scope Qc_scope.
Close Scope Q_scope.
Close Scope R_scope.
Open Scope of_scope.

(* ------------------------------------------------------------------ dihedral family *)
Theorem C15_dihedral_preserves_squared_distance :
  forall (K : ofield) (k : nat) (p q : K * K), sqdist (dih k p) (dih k q) = sqdist p q.
Proof. exact dihedral_sqdist. Qed.
Print Assumptions C15_dihedral_preserves_squared_distance.

Theorem C15_dihedral_first_copy_is_identity :
  forall (K : ofield) (p : K * K), dih 0 p = p.
Proof. exact dihedral_first_id. Qed.
Print Assumptions C15_dihedral_first_copy_is_identity.

Theorem C15_dihedral_stays_in_unit_square :
  forall (K : ofield) (k : nat) (p : K * K), in_unit p -> in_unit (dih k p).
Proof. exact dihedral_stays_in_unit_square. Qed.
Print Assumptions C15_dihedral_stays_in_unit_square.

(* the code as translated from /repo on this run: eight images, each distance preserving, the first = the input *)
Theorem C15_translated_dihedral_code :
  forall (K : ofield) (p q : K * K),
    Forall2 (fun p' q' => sqdist p' q' = sqdist p q) (gen_dihedral8 K p) (gen_dihedral8 K q) /\
    hd p (gen_dihedral8 K p) = p.
Proof. exact gen_dihedral8_isometries. Qed.
Print Assumptions C15_translated_dihedral_code.

Theorem C15_translated_dihedral_is_model :
  forall (K : ofield) (p : K * K), gen_dihedral8 K p = map (fun k => dih k p) (seq 0 8).
Proof. exact dihedral8_gen_eq. Qed.
Print Assumptions C15_translated_dihedral_is_model.

(* ------------------------------------------------------------------ rotation family *)
Theorem C15_rotation_preserves_squared_distance :
  forall (K : ofield) (o c s : K) (flip : bool), c * c + s * s = f1 ->
    forall p q : K * K, sqdist (sym o c s flip p) (sym o c s flip q) = sqdist p q.
Proof. exact rotation_sqdist. Qed.
Print Assumptions C15_rotation_preserves_squared_distance.

Theorem C15_rotation_phi0_is_identity :
  forall (K : ofield) (o : K) (p : K * K), sym o f1 f0 false p = p.
Proof. exact rotation_phi0_id. Qed.
Print Assumptions C15_rotation_phi0_is_identity.

Theorem C15_translated_rotation_code_isometry :
  forall (K : ofield) (c s : K) (flip : bool) (o x1 y1 x2 y2 : K), c * c + s * s = f1 ->
    sqdist (gen_symmetric_transform K c s flip x1 y1 o) (gen_symmetric_transform K c s flip x2 y2 o)
      = sqdist (x1, y1) (x2, y2).
Proof. exact gen_symmetric_transform_isometry. Qed.
Print Assumptions C15_translated_rotation_code_isometry.

Theorem C15_translated_rotation_phi0 :
  forall (K : ofield) (o x y : K), gen_symmetric_transform K f1 f0 false x y o = (x, y).
Proof. exact gen_symmetric_transform_phi0. Qed.
Print Assumptions C15_translated_rotation_phi0.

Theorem C15_translated_rotation_is_model :
  forall (K : ofield) (c s : K) (flip : bool) (x y o : K),
    gen_symmetric_transform K c s flip x y o = sym o c s flip (x, y).
Proof. exact symmetric_transform_gen_eq. Qed.
Print Assumptions C15_translated_rotation_is_model.

(* the rotation family leaves the unit square; no cost statement below has a range hypothesis *)
Theorem C15_rotation_leaves_unit_square :
  exists (c s : Qc) (p : point QcF),
    (c * c + s * s = 1)%Qc /\ in_unit p /\ ~ in_unit (sym (K:=QcF) (qc 1 2) c s false p).
Proof. exact rotation_leaves_unit_square. Qed.
Print Assumptions C15_rotation_leaves_unit_square.

(* ------------------------------------------------------------------ costs *)
(* any action list of any length, any distance-preserving map T, any norm f of the squared distance *)
Theorem C15_tour_cost_invariant :
  forall (K : ofield) (f : K -> K) (T : K * K -> K * K) (locs : list (K * K)) (d : K * K) (acts : list nat),
    (forall p q, sqdist (T p) (T q) = sqdist p q) ->
    tsp_reward f (map T locs) (T d) acts = tsp_reward f locs d acts /\
    cvrp_reward f (map T locs) (T d) acts = cvrp_reward f locs d acts.
Proof. exact tour_cost_invariant. Qed.
Print Assumptions C15_tour_cost_invariant.

(* on the code's own domain (actions inside the instance) the totalisation default plays no role *)
Theorem C15_tour_cost_invariant_in_range :
  forall (K : ofield) (f : K -> K) (T : K * K -> K * K) (locs : list (K * K)) (d d' : K * K) (acts : list nat),
    (forall p q, sqdist (T p) (T q) = sqdist p q) -> locs <> [] -> actions_wfb (length locs) acts = true ->
    tsp_reward f (map T locs) d' acts = tsp_reward f locs d acts /\
    cvrp_reward f (map T locs) d' acts = cvrp_reward f locs d acts.
Proof. exact tour_cost_invariant_wf. Qed.
Print Assumptions C15_tour_cost_invariant_in_range.

(* StateAugmentation with its default flags (first_aug_identity = True, normalize = False), both families, every
   batch size and num_augment: rows 0..B-1 are the original instances, every row r is an isometric image of
   instance r mod B, and every action list has the same objective on it *)
Theorem C15_state_augmentation_cost_invariant :
  forall (K : ofield) (f : K -> K) (fam : family K) (A : nat) (d : K * K) (td : list (list (K * K))),
    match fam with
    | FamDihedral8 => A = 8
    | FamSymmetric _ par => (0 < A)%nat /\ Forall (fun q : K * K * bool => fst (fst q) * fst (fst q) + snd (fst q) * snd (fst q) = f1) par
    end ->
    exists out,
      state_aug fam A true false d td = Some out /\ length out = (A * length td)%nat /\
      (forall r, (r < length td)%nat -> nth r out [] = nth r td []) /\
      (forall r, (r < A * length td)%nat ->
         exists T : K * K -> K * K,
           (forall p q, sqdist (T p) (T q) = sqdist p q) /\
           nth r out [] = map T (nth (r mod length td) td []) /\
           forall d0 acts,
             tsp_reward f (nth r out []) (T d0) acts = tsp_reward f (nth (r mod length td) td []) d0 acts /\
             cvrp_reward f (nth r out []) (T d0) acts = cvrp_reward f (nth (r mod length td) td []) d0 acts).
Proof. exact state_aug_cost_invariant. Qed.
Print Assumptions C15_state_augmentation_cost_invariant.

(* ------------------------------------------------------------------ the non-default flags: refuted *)
Theorem C15_first_aug_identity_false_refuted :
  exists (td out : list (list (point QcF))) (r i j : nat),
    state_aug (K:=QcF) FamDihedral8 8 false false (qpt 0 1 0 1) td = Some out /\ (r < 8 * length td)%nat /\
    sqd_row (nth r out []) i j <> sqd_row (nth (r mod length td) td []) i j.
Proof. exact first_aug_identity_false_refuted. Qed.
Print Assumptions C15_first_aug_identity_false_refuted.

Theorem C15_first_aug_identity_false_symmetric_refuted :
  exists (td out : list (list (point QcF))) (par : list (sym_param QcF)) (r i j : nat),
    unit_params par /\
    state_aug (K:=QcF) (FamSymmetric (K:=QcF) (qc 1 2) par) 2 false false (qpt 0 1 0 1) td = Some out /\
    (r < 2 * length td)%nat /\
    sqd_row (nth r out []) i j <> sqd_row (nth (r mod length td) td []) i j.
Proof. exact first_aug_identity_false_symmetric_refuted. Qed.
Print Assumptions C15_first_aug_identity_false_symmetric_refuted.

Theorem C15_first_aug_identity_false_single_copy_raises :
  forall (K : ofield) (fam : family K) (d : K * K) (td : list (list (K * K))),
    td <> [] -> state_aug fam 1 false false d td = None.
Proof. exact state_aug_first_aug_false_A1_raises. Qed.
Print Assumptions C15_first_aug_identity_false_single_copy_raises.

Theorem C15_normalize_is_a_similarity :
  forall (K : ofield) (m M : K) (p q : K * K), M - m <> f0 ->
    sqdist (nrm m M p) (nrm m M q) = sqdist p q / ((M - m) * (M - m)).
Proof. exact normalize_similarity. Qed.
Print Assumptions C15_normalize_is_a_similarity.

Theorem C15_normalize_refuted :
  exists (td out : list (list (point QcF))),
    state_aug (K:=QcF) (FamSymmetric (K:=QcF) (qc 1 2) []) 1 true true (qpt 0 1 0 1) td = Some out /\
    nth 0 out [] <> nth 0 td [] /\
    sqd_row (nth 0 out []) 0 1 <> sqd_row (nth 0 td []) 0 1.
Proof. exact normalize_refuted. Qed.
Print Assumptions C15_normalize_refuted.

Theorem C15_symmetric_multi_feat_refuted :
  exists (c1 s1 c2 s2 : Qc) (p q : point QcF),
    (c1 * c1 + s1 * s1 = 1)%Qc /\ (c2 * c2 + s2 * s2 = 1)%Qc /\
    sqdist (K:=QcF) (sym (K:=QcF) (qc 1 2) c1 s1 false p) (sym (K:=QcF) (qc 1 2) c2 s2 false q) <> sqdist (K:=QcF) p q.
Proof. exact symmetric_multi_feat_refuted. Qed.
Print Assumptions C15_symmetric_multi_feat_refuted.

(* ------------------------------------------------------------------ evaluation: true best of k *)
(* AugmentationEval._inner (k = num_augment) and GreedyMultiStartEval._inner (k = num_starts), for every batch,
   every k >= 1, every candidate list the policy may return, every row-wise reward function and every total
   preorder on rewards: instance b gets a candidate j of ITS OWN rows j*B + b, scored on the ORIGINAL instance b,
   whose reward is maximal among its k candidates and which is the first such candidate *)
Theorem C15_eval_regroup_augmentation_and_multistart :
  forall (R : Type) (leb : R -> R -> bool),
    (forall x, leb x x = true) -> (forall x y z, leb x y = true -> leb y z = true -> leb x z = true) ->
    (forall x y, leb x y = true \/ leb y x = true) ->
    forall (inst act : Type) (rew : inst -> act -> R) (dI : inst) (dA : act) (dR : R)
           (k : nat) (insts : list inst) (acts : list act),
      (0 < k)%nat -> length acts = (k * length insts)%nat ->
      length (ev_select R leb inst act rew dA dR k insts acts) = length insts /\
      forall b, (b < length insts)%nat ->
        let res := nth b (ev_select R leb inst act rew dA dR k insts acts) (dA, dR) in
        let B := length insts in
        exists j, (j < k)%nat /\
          fst res = nth (j * B + b) acts dA /\
          snd res = rew (nth b insts dI) (fst res) /\
          (forall j', (j' < k)%nat -> leb (rew (nth b insts dI) (nth (j' * B + b) acts dA)) (snd res) = true) /\
          (forall j', (j' < j)%nat -> leb (snd res) (rew (nth b insts dI) (nth (j' * B + b) acts dA)) = false).
Proof. exact eval_regroup_select. Qed.
Print Assumptions C15_eval_regroup_augmentation_and_multistart.

(* GreedyMultiStartAugmentEval._inner: nested batchify (num_augment, num_starts), k = num_starts * num_augment *)
Theorem C15_eval_regroup_multistart_augment :
  forall (R : Type) (leb : R -> R -> bool),
    (forall x, leb x x = true) -> (forall x y z, leb x y = true -> leb y z = true -> leb x z = true) ->
    (forall x y, leb x y = true \/ leb y x = true) ->
    forall (inst act : Type) (rew : inst -> act -> R) (dI : inst) (dA : act) (dR : R)
           (A S : nat) (insts : list inst) (acts : list act),
      (0 < A)%nat -> (0 < S)%nat -> length acts = (S * A * length insts)%nat ->
      length (ev_inner_msa R leb inst act rew dA dR A S insts acts) = length insts /\
      forall b, (b < length insts)%nat ->
        best_of R leb inst act rew dI dA (S * A) (length insts) insts acts b
                (nth b (ev_inner_msa R leb inst act rew dA dR A S insts acts) (dA, dR)).
Proof. exact eval_regroup_msa. Qed.
Print Assumptions C15_eval_regroup_multistart_augment.

(* policy-side row of (start s, augmentation a, instance b) = candidate s*A + a of instance b *)
Theorem C15_multistart_augment_candidate_index :
  forall A S B s a b : nat, (s * (A * B) + (a * B + b) = (s * A + a) * B + b)%nat.
Proof. exact ev_msa_row. Qed.
Print Assumptions C15_multistart_augment_candidate_index.

(* SamplingEval._inner = the decoding strategy's select_best followed by the policy's own reward on the gathered
   rows: the same result as the regrouping above with k = samples *)
Theorem C15_eval_regroup_sampling :
  forall (R : Type) (leb : R -> R -> bool),
    (forall x, leb x x = true) -> (forall x y z, leb x y = true -> leb y z = true -> leb x z = true) ->
    (forall x y, leb x y = true \/ leb y x = true) ->
    forall (inst act : Type) (rew : inst -> act -> R) (dI : inst) (dA : act) (dR : R)
           (k : nat) (insts : list inst) (acts : list act),
      (0 < k)%nat -> length acts = (k * length insts)%nat ->
      ev_inner_sampling R leb inst act rew dI dA dR k insts acts = ev_select R leb inst act rew dA dR k insts acts.
Proof. exact eval_regroup_sampling. Qed.
Print Assumptions C15_eval_regroup_sampling.

Theorem C15_best_ge_member :
  forall (R : Type) (leb : R -> R -> bool),
    (forall x, leb x x = true) -> (forall x y z, leb x y = true -> leb y z = true -> leb x z = true) ->
    (forall x y, leb x y = true \/ leb y x = true) ->
    forall (inst act : Type) (rew : inst -> act -> R) (dI : inst) (dA : act) (dR : R)
           (k : nat) (insts : list inst) (acts : list act) (b j : nat),
      (0 < k)%nat -> length acts = (k * length insts)%nat -> (b < length insts)%nat -> (j < k)%nat ->
      leb (rew (nth b insts dI) (nth (j * length insts + b) acts dA))
          (snd (nth b (ev_select R leb inst act rew dA dR k insts acts) (dA, dR))) = true.
Proof. exact best_ge_member. Qed.
Print Assumptions C15_best_ge_member.

(* never worse than plain greedy when row b (first copy = the unmodified instance b) carries the greedy rollout g:
   this is the situation of AugmentationEval (both families); see the evidence for the other methods *)
Theorem C15_best_ge_greedy_when_first_copy_is_greedy :
  forall (R : Type) (leb : R -> R -> bool),
    (forall x, leb x x = true) -> (forall x y z, leb x y = true -> leb y z = true -> leb x z = true) ->
    (forall x y, leb x y = true \/ leb y x = true) ->
    forall (inst act : Type) (rew : inst -> act -> R) (dI : inst) (dA : act) (dR : R)
           (k : nat) (insts : list inst) (acts : list act) (b : nat) (g : act),
      (0 < k)%nat -> length acts = (k * length insts)%nat -> (b < length insts)%nat -> nth b acts dA = g ->
      leb (rew (nth b insts dI) g) (snd (nth b (ev_select R leb inst act rew dA dR k insts acts) (dA, dR))) = true.
Proof. exact best_ge_first_copy. Qed.
Print Assumptions C15_best_ge_greedy_when_first_copy_is_greedy.

(* row r of batchify(x, k) holds instance r mod B *)
Theorem C15_batchify_row_holds_instance :
  forall (A : Type) (k : nat) (xs : list A) (d : A) (r : nat),
    (r < k * length xs)%nat -> nth r (ev_batchify k xs) d = nth (r mod length xs) xs d.
Proof. exact @ev_nth_batchify_mod. Qed.
Print Assumptions C15_batchify_row_holds_instance.

(* ------------------------------------------------------------------ padding across loader batches *)
Theorem C15_pad_concat_rows :
  forall batches : list (list (list nat)),
    Forall ev_rect batches ->
    let L := list_max (map ev_width batches) in
    Forall2 (fun orig padded => padded = orig ++ repeat 0 (L - length orig) /\ length padded = L)
            (concat batches) (ev_pad_concat batches).
Proof. exact ev_pad_concat_rows. Qed.
Print Assumptions C15_pad_concat_rows.

Theorem C15_pad_fixed_length_noop :
  forall (batches : list (list (list nat))) (n : nat),
    Forall ev_rect batches -> Forall (fun b => ev_width b = n) batches -> ev_pad_concat batches = concat batches.
Proof. exact ev_pad_fixed_length_noop. Qed.
Print Assumptions C15_pad_fixed_length_noop.

(* depot-based objective (depot = node 0 in front of the tour, f 0 = 0): trailing zeros are inert *)
Theorem C15_pad_concat_inert :
  forall (K : ofield) (f : K -> K) (locs : list (K * K)) (d : K * K) (acts : list nat) (n : nat),
    f f0 = f0 -> cvrp_reward f locs d (acts ++ repeat 0 n) = cvrp_reward f locs d acts.
Proof. exact pad_concat_inert. Qed.
Print Assumptions C15_pad_concat_inert.

Theorem C15_tsp_pad_refuted :
  exists (locs : list (point QcF)) (acts : list nat),
    tsp_reward (K:=QcF) (fun x => x) locs (qpt 0 1 0 1) (acts ++ [0]) <> tsp_reward (K:=QcF) (fun x => x) locs (qpt 0 1 0 1) acts.
Proof. exact tsp_pad_refuted. Qed.
Print Assumptions C15_tsp_pad_refuted.

(* ------------------------------------------------------------------ the aggregates EvalBase.__call__ reports *)
(* ev_rewards = torch.cat(rewards_list), ev_avg_reward = rewards.mean(): count x avg_reward = sum of all rewards *)
Theorem C15_avg_reward_is_the_mean_of_the_returned_rewards :
  forall (K : ofield) (batches : list (list K)),
    ev_rewards batches <> [] ->
    (ev_rewards batches = concat batches) /\
    (ev_avg_reward batches = fsum (ev_rewards batches) / of_nat (length (ev_rewards batches)))%of /\
    (of_nat (length (ev_rewards batches)) * ev_avg_reward batches = fsum (map fsum batches))%of.
Proof. exact ev_avg_reward_spec. Qed.
Print Assumptions C15_avg_reward_is_the_mean_of_the_returned_rewards.

Theorem C15_avg_reward_independent_of_loader_batching :
  forall (K : ofield) (bs bs' : list (list K)), concat bs = concat bs' -> ev_avg_reward bs = ev_avg_reward bs'.
Proof. exact ev_avg_reward_batching_irrelevant. Qed.
Print Assumptions C15_avg_reward_independent_of_loader_batching.

Theorem C15_avg_reward_is_size_weighted_mean_of_batch_means :
  forall (K : ofield) (batches : list (list K)),
    ev_rewards batches <> [] ->
    ev_avg_reward batches =
      (fsum (map (fun b => of_nat (length b) * fmean b) batches) / of_nat (length (ev_rewards batches)))%of.
Proof. exact ev_avg_reward_weighted. Qed.
Print Assumptions C15_avg_reward_is_size_weighted_mean_of_batch_means.

Theorem C15_avg_reward_between_worst_and_best :
  forall (K : ofield) (lo hi : K) (batches : list (list K)),
    ev_rewards batches <> [] ->
    Forall (fun r => fle lo r /\ fle r hi) (ev_rewards batches) ->
    fle lo (ev_avg_reward batches) /\ fle (ev_avg_reward batches) hi.
Proof. exact ev_avg_reward_bounds. Qed.
Print Assumptions C15_avg_reward_between_worst_and_best.

Theorem C15_mean_is_not_the_total :
  forall (K : ofield) (l : list K), (2 <= length l)%nat -> fsum l <> f0 -> fmean l <> fsum l.
Proof. exact ev_avg_is_not_the_total. Qed.
Print Assumptions C15_mean_is_not_the_total.

(* ------------------------------------------------------------------ POMO / SymNCO shared_step over the configuration grid *)
(* pomo_shared_step A num_starts env_starts phase has_actions reward: SSRaises 2 = the step raises,
   SSReturns max_reward max_aug_reward = what it hands to log_metrics (flattened; None = key absent) *)
Theorem C15_pomo_shared_step_raises_exactly_when :
  forall (R : Type) (leb : R -> R -> bool) (dR : R) (num_augment : nat) (num_starts : option nat) (env_starts : nat)
         (ph : ss_phase) (has_actions : bool) (reward : list R) (stage : nat),
    pomo_shared_step leb dR num_augment num_starts env_starts ph has_actions reward = SSRaises stage <->
    stage = 2%nat /\
    let n_start := match num_starts with None => env_starts | Some s => s end in
    ((ph = PhTrain /\ (n_start <= 1)%nat) \/
     (ph <> PhTrain /\ (1 < num_augment)%nat /\ (n_start <= 1)%nat /\ has_actions = true /\
      (1 < length reward / (Nat.max num_augment 1 * Nat.max n_start 1))%nat)).
Proof. exact pomo_raises_iff. Qed.
Print Assumptions C15_pomo_shared_step_raises_exactly_when.

Theorem C15_symnco_raises_exactly_when :
  forall (R : Type) (leb : R -> R -> bool) (dR : R) (num_augment : nat) (num_starts : option nat)
         (ph : ss_phase) (reward : list R) (stage : nat),
    symnco_shared_step leb dR num_augment num_starts ph reward = SSRaises stage <-> stage = 1%nat /\ num_starts = None.
Proof. exact symnco_raises_iff. Qed.
Print Assumptions C15_symnco_raises_exactly_when.

(* multi-start and augmentation on (validation / test): max_aug_reward[b] dominates the reward of every row holding a
   copy of instance b (row s*(A*B) + a*B + b of the replicated batch) and is the reward of one of them *)
Theorem C15_pomo_max_aug_reward_is_instance_best :
  forall (R : Type) (leb : R -> R -> bool) (dR : R),
    (forall x, leb x x = true) -> (forall x y z, leb x y = true -> leb y z = true -> leb x z = true) ->
    (forall x y, leb x y = true \/ leb y x = true) ->
    forall (A S B : nat) (ph : ss_phase) (has_actions : bool) (reward : list R),
      ph <> PhTrain -> (1 < A)%nat -> (1 < S)%nat -> length reward = (B * A * S)%nat ->
      exists mr mar,
        pomo_shared_step leb dR A (Some S) 0 ph has_actions reward = SSReturns (Some mr) (Some mar) /\
        length mar = B /\ length mr = (B * A)%nat /\
        forall b, (b < B)%nat ->
          (forall a s, (a < A)%nat -> (s < S)%nat ->
             leb (nth (s * (A * B) + a * B + b) reward dR) (nth b mar dR) = true) /\
          (exists a s, (a < A)%nat /\ (s < S)%nat /\ nth b mar dR = nth (s * (A * B) + a * B + b) reward dR).
Proof. exact pomo_max_aug_reward_is_instance_best. Qed.
Print Assumptions C15_pomo_max_aug_reward_is_instance_best.

(* FINDINGS (code as it is) *)
Theorem C15_pomo_single_start_with_augmentation_refuted :
  exists (num_augment num_starts : nat) (reward : list Z),
    (1 < num_augment)%nat /\ num_starts = 1%nat /\
    pomo_shared_step Z.leb 0%Z num_augment (Some num_starts) 0 PhVal true reward = SSRaises 2.
Proof. exact pomo_single_start_augment_refuted. Qed.
Print Assumptions C15_pomo_single_start_with_augmentation_refuted.

Theorem C15_symnco_single_start_max_aug_reward_refuted :
  exists (num_augment : nat) (reward : list Z) (mar : list Z),
    symnco_shared_step Z.leb 0%Z num_augment (Some 1%nat) PhVal reward = SSReturns None (Some mar) /\
    length reward = (1 * num_augment)%nat /\
    mar <> [rmax Z.leb 0%Z reward] /\ length mar = num_augment.
Proof. exact symnco_single_start_max_aug_refuted. Qed.
Print Assumptions C15_symnco_single_start_max_aug_reward_refuted.

(* ------------------------------------------------------------------ the statements about real arithmetic *)
Theorem C15_dihedral_over_R :
  forall (k : nat) (x1 y1 x2 y2 : R),
    let p := dih (K:=RF) k (x1, y1) in let q := dih (K:=RF) k (x2, y2) in
    ((fst p - fst q) * (fst p - fst q) + (snd p - snd q) * (snd p - snd q)
     = (x1 - x2) * (x1 - x2) + (y1 - y2) * (y1 - y2))%R.
Proof. exact dihedral_sqdist_R. Qed.
Print Assumptions C15_dihedral_over_R.

Theorem C15_rotation_over_R_with_real_cos_sin :
  forall (phi : R) (flip : bool) (x1 y1 x2 y2 : R),
    let p := sym (K:=RF) (1 / 2)%R (cos phi) (sin phi) flip (x1, y1) in
    let q := sym (K:=RF) (1 / 2)%R (cos phi) (sin phi) flip (x2, y2) in
    ((fst p - fst q) * (fst p - fst q) + (snd p - snd q) * (snd p - snd q)
     = (x1 - x2) * (x1 - x2) + (y1 - y2) * (y1 - y2))%R.
Proof. exact rotation_sqdist_R. Qed.
Print Assumptions C15_rotation_over_R_with_real_cos_sin.

Theorem C15_rotation_phi0_over_R :
  forall x y : R, sym (K:=RF) (1 / 2)%R (cos 0) (sin 0) false (x, y) = (x, y).
Proof. exact rotation_phi0_id_R. Qed.
Print Assumptions C15_rotation_phi0_over_R.

Theorem C15_euclidean_tour_cost_invariant_over_R :
  forall (phi : R) (flip : bool) (locs : list (R * R)) (d : R * R) (acts : list nat),
    let T := sym (K:=RF) (1 / 2)%R (cos phi) (sin phi) flip in
    tsp_reward (K:=RF) sqrt (map T locs) (T d) acts = tsp_reward (K:=RF) sqrt locs d acts /\
    cvrp_reward (K:=RF) sqrt (map T locs) (T d) acts = cvrp_reward (K:=RF) sqrt locs d acts.
Proof. exact tour_cost_invariant_R. Qed.
Print Assumptions C15_euclidean_tour_cost_invariant_over_R.

(* non-vacuity at the executable instance *)
Example C15_nonvacuous_dihedral :
  exists out, state_aug (K:=QcF) FamDihedral8 8 true false (qpt 0 1 0 1) [[qpt 0 1 0 1; qpt 1 4 0 1; qpt 1 2 3 4]] = Some out /\
    length out = 8%nat /\
    map (fun row => Qc_eq_bool (sqd_row row 1 2) (qc 5 8)) out = repeat true 8.
Proof. exact state_aug_dihedral_example. Qed.

Example C15_nonvacuous_regroup :
  (* B = 2 instances, k = 3 candidates each; rewards by table; instance 0 has a tie between candidates 1 and 2 *)
  ev_select Z Z.leb nat nat (fun i a => nth a (nth i [[1; 0; 5; 0; 5; 0]; [0; 7; 0; 2; 0; 3]] []) 0)%Z 0%nat 0%Z 3 [0; 1]%nat [0; 1; 2; 3; 4; 5]%nat
  = [(2%nat, 5%Z); (1%nat, 7%Z)].
Proof. vm_compute. reflexivity. Qed.

Example C15_nonvacuous_shared_step_grid :   (* B = 2, A = 2, S = 2: rows s*(A*B) + a*B + b *)
  pomo_shared_step Z.leb 0%Z 2 (Some 2%nat) 0 PhTest true [1; 2; 3; 4; 5; 6; 7; 0]%Z
  = SSReturns (Some [5; 7; 6; 4]%Z) (Some [7; 6]%Z).
Proof. exact pomo_grid_example. Qed.

Example C15_nonvacuous_avg_reward :
  ev_avg_reward (K:=QcF) [[qc (-3) 1; qc (-2) 1]; [qc (-1) 1]] = qc (-2) 1.
Proof. apply Qc_is_canon. vm_compute. reflexivity. Qed.
