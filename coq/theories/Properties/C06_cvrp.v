(* C06 for CVRP -- check_solution_validity agrees with the problem definition. Statements only. *)
From Coq Require Import ZArith List Bool.
From RL4CO Require Import Base.Num Base.EnvSig Spec.Routes Env.CVRP Env.CVRPProofs.
Import ListNotations.
Open Scope Z_scope.

(* every feasible action list of sufficient length (incl. ones that never return to the depot) is accepted *)
Theorem C06_cvrp_checker_complete :
  forall (i : cvrp_inst) (acts : list nat),
    cvrp_wf i -> 0 <= tol i -> cvrp_feasible i acts -> (n_of i <= length acts)%nat ->
    cvrp_checker exact i acts = true.
Proof. exact cvrp_checker_complete. Qed.
Print Assumptions C06_cvrp_checker_complete.

(* accepted => feasible up to exactly the checker's own tolerance on the load *)
Theorem C06_cvrp_checker_sound :
  forall (i : cvrp_inst) (acts : list nat),
    cvrp_wf i -> 0 <= tol i -> cvrp_checker exact i acts = true ->
    (forall j, (1 <= j <= n_of i)%nat -> occ j acts = 1%nat) /\
    (forall a, In a acts -> (a <= n_of i)%nat) /\
    Forall (fun r => sumZ (map (demand i) r) <= cap i + tol i) (routes acts).
Proof. exact cvrp_checker_sound. Qed.
Print Assumptions C06_cvrp_checker_sound.

Theorem C06_cvrp_checker_rejects_missing :
  forall (i : cvrp_inst) (acts : list nat) (j : nat),
    (1 <= j <= n_of i)%nat -> ~ In j acts -> cvrp_checker exact i acts = false.
Proof. exact cvrp_checker_rejects_missing. Qed.
Print Assumptions C06_cvrp_checker_rejects_missing.

Theorem C06_cvrp_checker_rejects_duplicate :
  forall (i : cvrp_inst) (acts : list nat) (j : nat),
    (1 <= j <= n_of i)%nat -> (2 <= occ j acts)%nat -> cvrp_checker exact i acts = false.
Proof. exact cvrp_checker_rejects_duplicate. Qed.
Print Assumptions C06_cvrp_checker_rejects_duplicate.

Theorem C06_cvrp_checker_rejects_overload :
  forall (i : cvrp_inst) (acts : list nat) (r : list nat),
    cvrp_wf i -> 0 <= tol i -> In r (routes acts) -> cap i + tol i < sumZ (map (demand i) r) ->
    cvrp_checker exact i acts = false.
Proof. exact cvrp_checker_rejects_overload. Qed.
Print Assumptions C06_cvrp_checker_rejects_overload.

Example C06_cvrp_nonvacuous :
  let i := {| dem := [3; 4; 5]; cap := 8; dist := []; tol := 0 |} in
  cvrp_checker exact i [1; 3; 0; 2]%nat = true /\ cvrp_checker exact i [1; 2; 3]%nat = false /\
  cvrp_checker exact i [1; 3; 0; 1]%nat = false.
Proof. vm_compute. auto. Qed.
