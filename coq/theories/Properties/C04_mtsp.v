(* C04 for mTSP -- post-finish padding and the batch-global first-step test.  Statements only. *)
From Coq Require Import ZArith List Bool.
From RL4CO Require Import Base.Num Base.EnvSig Spec.Routes Spec.MultiTour Env.MTSP Env.MTSPProofs.
Import ListNotations.
Open Scope Z_scope.

(* any configuration: after a row has finished, for any number k of further steps the depot is offered and only the
   depot (the padding action), the row stays finished and its mask does not change.
   Partial: nothing is said about the rewards here; for the code as it is they DO change (the two _refuted theorems). *)
Theorem C04_mtsp_padding_mask_done_partial :
  forall (C : mtsp_cfg) (i : mtsp_inst) (acts : list nat) (k : nat),
    mtsp_wfb i = true -> adm (E:=MTSP exact C) i acts = true ->
    done (MTSP exact C) i (run (E:=MTSP exact C) i acts) = true ->
    adm (E:=MTSP exact C) i (acts ++ repeat 0%nat k) = true /\
    done (MTSP exact C) i (run (E:=MTSP exact C) i (acts ++ repeat 0%nat k)) = true /\
    mask (MTSP exact C) i (run (E:=MTSP exact C) i (acts ++ repeat 0%nat k)) = true :: repeat false (n_of i).
Proof. exact mtsp_padding_mask_done_b. Qed.
Print Assumptions C04_mtsp_padding_mask_done_partial.

(* code as it is, minmax: same instance, same actions, reward -6 without and -9 with one padding step *)
Theorem C04_mtsp_padding_changes_reward_refuted :
  exists i acts,
    mtsp_wfb i = true /\ adm (E:=MTSP exact cfg_faithful) i acts = true /\
    done (MTSP exact cfg_faithful) i (run (E:=MTSP exact cfg_faithful) i acts) = true /\
    adm (E:=MTSP exact cfg_faithful) i (acts ++ [0%nat]) = true /\
    mtsp_reward_minmax (run (E:=MTSP exact cfg_faithful) i acts) = -6 /\
    mtsp_reward_minmax (run (E:=MTSP exact cfg_faithful) i (acts ++ [0%nat])) = -9 /\
    - minmax_len (dfun i) (acts ++ [0%nat]) = -6.
Proof. exact mtsp_padding_changes_reward_refuted. Qed.
Print Assumptions C04_mtsp_padding_changes_reward_refuted.

(* code as it is, sum: raises without padding, -12 with one padding step, raises again with two *)
Theorem C04_mtsp_sum_padding_changes_reward_refuted :
  exists i acts,
    mtsp_wfb i = true /\ adm (E:=MTSP exact cfg_faithful) i acts = true /\
    done (MTSP exact cfg_faithful) i (run (E:=MTSP exact cfg_faithful) i acts) = true /\
    mtsp_reward_sum cfg_faithful i acts = None /\
    mtsp_reward_sum cfg_faithful i (acts ++ [0%nat]) = Some (-12) /\
    mtsp_reward_sum cfg_faithful i (acts ++ [0%nat; 0%nat]) = None.
Proof. exact mtsp_sum_padding_changes_reward_refuted. Qed.
Print Assumptions C04_mtsp_sum_padding_changes_reward_refuted.

(* repaired code: padding is inert at full strength -- mask, done and both rewards *)
Theorem C04_mtsp_padding_inert_repaired :
  forall (i : mtsp_inst) (acts : list nat) (k : nat),
    mtsp_wfb i = true -> adm (E:=MTSP exact cfg_repaired) i acts = true ->
    done (MTSP exact cfg_repaired) i (run (E:=MTSP exact cfg_repaired) i acts) = true ->
    adm (E:=MTSP exact cfg_repaired) i (acts ++ repeat 0%nat k) = true /\
    done (MTSP exact cfg_repaired) i (run (E:=MTSP exact cfg_repaired) i (acts ++ repeat 0%nat k)) = true /\
    mask (MTSP exact cfg_repaired) i (run (E:=MTSP exact cfg_repaired) i (acts ++ repeat 0%nat k)) = true :: repeat false (n_of i) /\
    - maxsub (run (E:=MTSP exact cfg_repaired) i (acts ++ repeat 0%nat k)) = - maxsub (run (E:=MTSP exact cfg_repaired) i acts) /\
    mtsp_reward_sum cfg_repaired i (acts ++ repeat 0%nat k) = mtsp_reward_sum cfg_repaired i acts.
Proof. exact mtsp_padding_inert_repaired_b. Qed.
Print Assumptions C04_mtsp_padding_inert_repaired.

(* the batched step, which uses  batch_to_scalar(td["i"]) == 0  (row 0's counter) for every row, equals the row-wise
   step whenever all rows share the step counter, and then they still share it (any rounding, any configuration) *)
Theorem C04_mtsp_batched_step_is_rowwise :
  forall (A : arith) (C : mtsp_cfg) (rows : list (mtsp_inst * mtsp_st)) (acts : list nat) (k : nat),
    Forall (fun r => cnt (snd r) = k) rows ->
    mtsp_bstep A C rows acts = mtsp_rowwise A C rows acts /\
    Forall (fun s => cnt s = S k) (mtsp_bstep A C rows acts).
Proof. exact mtsp_bstep_rowwise. Qed.
Print Assumptions C04_mtsp_batched_step_is_rowwise.

(* the shared counter is needed (the difference is confined to td["first_node"], which nothing reads) *)
Example C04_mtsp_bstep_needs_shared_counter :
  let s0 := mtsp_reset wit1 in
  let s1 := mtsp_step exact cfg_faithful wit1 s0 1 in
  mtsp_bstep exact cfg_faithful [(wit1, s0); (wit1, s1)] [1%nat; 0%nat]
  <> mtsp_rowwise exact cfg_faithful [(wit1, s0); (wit1, s1)] [1%nat; 0%nat].
Proof. exact mtsp_bstep_needs_shared_counter. Qed.

Example C04_mtsp_nonvacuous :
  let i := {| nag := 2; dist := [[0; 3; 4]; [3; 0; 5]; [4; 5; 0]] |} in
  mtsp_wfb i = true /\ adm (E:=MTSP exact cfg_repaired) i [2; 0; 1]%nat = true /\
  done (MTSP exact cfg_repaired) i (run (E:=MTSP exact cfg_repaired) i [2; 0; 1]%nat) = true /\
  mtsp_reward_minmax (run (E:=MTSP exact cfg_repaired) i ([2; 0; 1] ++ repeat 0 3)%nat) = -8.
Proof. vm_compute. auto. Qed.
