(* C09 -- improvement environments keep tours valid and best-so-far bookkeeping exact.
   This file contains only statements closed by [exact] and their Print Assumptions.
   Vocabulary (Env/Improve.v): [rec : list nat] is the successor array of the code (rec[i] = node after i);
   [is_tour rec] = iterating rec from node 0 visits all n nodes within n steps and is back at 0 after n steps;
   [pdp_valid rec] = is_tour and every pickup j in 1..h precedes its delivery j + h in the order from the depot;
   [two_opt], [k_opt], [pdp_op] = the three branches of _local_operator as coded; [two_opt_mask],
   [pdp_admissible], [kopt_builder] = the environments' move masks / sequential move sampler. *)
From Coq Require Import ZArith List Bool Arith Permutation.
From RL4CO Require Import Env.Improve Env.ImproveTwoOpt Env.ImprovePDP Env.ImproveKopt Env.ImproveKoptFinite
  Env.ImproveRun Env.ImproveBatch1 Env.ImproveKoptUnbounded Env.ImproveKoptBuilder Env.ImproveKoptRun.
Import ListNotations.

(* 1. best-so-far bookkeeping of _step: UNBOUNDED -- any tour type, any operator, any cost function, any move
   sequence of any length, starting from _reset.  [bsf_run] returns the final state and the rewards in order. *)
Theorem C09_bsf_exact :
  forall (tour act : Type) (op : tour -> act -> tour) (cost : tour -> Z) (t0 : tour) (acts : list act),
    let s := fst (bsf_run tour act op cost (bsf_reset tour cost t0) acts) in
    let rws := snd (bsf_run tour act op cost (bsf_reset tour cost t0) acts) in
    cost_current s = cost (rec_current s) /\
    cost_bsf s = cost (rec_best s) /\
    cost_bsf s = minl (cost t0) (map cost (seen_from tour act op t0 acts)) /\
    In (rec_best s) (t0 :: seen_from tour act op t0 acts) /\
    rec_current s = last (seen_from tour act op t0 acts) t0 /\
    Forall (fun r => (0 <= r)%Z) rws /\
    rws = map (fun p => (fst p - snd p)%Z)
              (combine (cost t0 :: bsf_trace tour act op cost (bsf_reset tour cost t0) acts)
                       (bsf_trace tour act op cost (bsf_reset tour cost t0) acts)) /\
    sumZ rws = (cost t0 - cost_bsf s)%Z.
Proof. exact bsf_exact. Qed.
Print Assumptions C09_bsf_exact.

(* 2. the best-so-far cost never increases from one step to the next (UNBOUNDED) *)
Theorem C09_bsf_never_increases :
  forall (tour act : Type) (op : tour -> act -> tour) (cost : tour -> Z) (acts : list act) (s : bstate tour),
    Forall (fun p => (snd p <= fst p)%Z)
           (combine (cost_bsf s :: bsf_trace tour act op cost s acts) (bsf_trace tour act op cost s acts)).
Proof. exact bsf_trace_mono. Qed.
Print Assumptions C09_bsf_never_increases.

(* 3. the same step with tensors as buffers and td entries as references (in-place write of rec_best under the
   index mask, rec_current rebound to the operator's fresh buffer): it refines the row model and the two
   references never alias (UNBOUNDED) *)
Theorem C09_bsf_store_model_refines_no_aliasing :
  forall (tour act : Type) (op : tour -> act -> tour) (cost : tour -> Z)
         (s : hstate tour) (b : bstate tour) (a : act),
    h_inv tour s -> h_abs tour s = Some b ->
    exists s' rw, h_step tour act op cost s a = Some (s', rw) /\ h_inv tour s' /\
                  h_abs tour s' = Some (fst (bsf_step tour act op cost b a)) /\
                  rw = snd (bsf_step tour act op cost b a).
Proof. exact h_step_refines. Qed.
Print Assumptions C09_bsf_store_model_refines_no_aliasing.

(* 4. get_costs (sum over array positions) is the length of the tour in visiting order, for any distance data
   (UNBOUNDED); with 1. this gives "reported cost = length of the current tour" *)
Theorem C09_get_costs_is_tour_length :
  forall (D : nat -> nat -> Z) (rec : list nat),
    is_tour rec -> get_costs D rec = tour_length D (walk rec 0 (length rec)).
Proof. exact get_costs_is_tour_length. Qed.
Print Assumptions C09_get_costs_is_tour_length.

(* 5. visited_time as computed by the loop in _reset/_step is the position in the visiting order (node 0: n) *)
Theorem C09_visited_time_is_position :
  forall (rec : list nat) (v : nat), is_tour rec -> v < length rec ->
    nth v (visited_time rec) 0 = (if Nat.eqb v 0 then length rec else index_of v (walk rec 0 (length rec))).
Proof. exact visited_time_tour. Qed.
Print Assumptions C09_visited_time_is_position.

(* 6. 2-opt (TSPkoptEnv, k_max = 2): UNBOUNDED in n.  Every move of get_mask (first <> second, both in range)
   -- hence every move of _random_action and of DACTPolicy, which draw from that mask -- maps a tour to a tour *)
Theorem C09_two_opt_valid :
  forall (sol : list nat) (first second : nat),
    is_tour sol -> two_opt_mask (length sol) first second = true -> is_tour (two_opt sol first second).
Proof. exact two_opt_valid. Qed.
Print Assumptions C09_two_opt_valid.

(* 6b. and it is the 2-opt move: if the visiting order seen from [first] is first :: A ++ B with first :: A ending
   in [second], the new array is the cycle rev (first :: A) ++ B (UNBOUNDED) *)
Theorem C09_two_opt_reverses_the_segment :
  forall (sol : list nat) (first : nat) (A B : list nat),
    is_tour sol -> cyc sol (first :: A ++ B) -> full (length sol) (first :: A ++ B) ->
    length (two_opt sol first (last A first)) = length sol /\
    cyc (two_opt sol first (last A first)) (rev (first :: A) ++ B).
Proof. exact two_opt_cyc. Qed.
Print Assumptions C09_two_opt_reverses_the_segment.

(* 7. PDP ruin-repair: UNBOUNDED in n = 2h+1.  Every move permitted by get_mask(a0 + 1) with a0 < h (the
   N2S removal head / _random_action range) maps a valid PDP tour to a valid PDP tour *)
Theorem C09_pdp_rr_valid :
  forall (sol : list nat) (h a0 first second : nat),
    length sol = 2 * h + 1 -> pdp_valid sol -> pdp_admissible sol a0 first second = true ->
    pdp_valid (pdp_op sol a0 first second).
Proof. exact pdp_rr_valid. Qed.
Print Assumptions C09_pdp_rr_valid.

(* 8. k-opt, k_max in {3, 4}: BOUNDED, exhaustive (vm_compute): k = 3 with 3 <= n <= 8, k = 4 with 3 <= n <= 7,
   every tour, every sequence of draws the sequential sampler (_random_action / NeuOptPolicy) can make.
   SUPERSEDED by the unbounded theorem 15. (every k, every n >= 3); kept as an independent evaluation of the same model. *)
Theorem C09_k_opt_valid_partial :
  forall (k : nat) (rec cs a : list nat),
    (k = 3 /\ 3 <= length rec <= 8) \/ (k = 4 /\ 3 <= length rec <= 7) ->
    is_tour rec -> length cs = k -> kopt_builder k rec cs = Some a ->
    is_tour (k_opt k rec a) /\
    scatter_consistent (firstn k (skipn k a)) (skipn (2 * k) a) = true.
Proof. exact k_opt_valid_partial. Qed.
Print Assumptions C09_k_opt_valid_partial.

(* 9. REFUTED for the degenerate two-node instance: the sampler's own move yields two self-loops *)
Theorem C09_k_opt_two_nodes_refuted :
  exists cs a, is_tourb [1; 0] = true /\ length cs = 3 /\ kopt_builder 3 [1; 0] cs = Some a /\
               is_tourb (k_opt 3 [1; 0] a) = false.
Proof. exact k_opt_two_nodes_refuted. Qed.
Print Assumptions C09_k_opt_two_nodes_refuted.

(* 10. WHOLE RUNS, 2-opt (UNBOUNDED: any n, any distance data D, any number of steps).  A step is [inl [first; second]]
   (a move through _local_operator, required to lie in get_mask) or [inr target] (step_to_solution, target a tour
   of the same size); [admitted_seq] says every step of the sequence is admitted in the state it is taken in.
   Then, after the run started by _reset on the tour t0: the current and the stored best tour are single cycles,
   the reported current cost is the length of the current tour and the best-so-far cost is the length of the stored
   best tour (with 1.: also the minimum over all tours seen, and the rewards telescope). *)
Theorem C09_two_opt_run_valid :
  forall (D : nat -> nat -> Z) (t0 : list nat) (acts : list (list nat + list nat)),
    is_tour t0 ->
    admitted_seq (list nat) (list nat + list nat) (step_op (fun t m => two_opt t (nth 0 m 0) (nth 1 m 0)))
                 (adm_two_opt (length t0)) t0 acts ->
    let s := fst (bsf_run (list nat) (list nat + list nat) (step_op (fun t m => two_opt t (nth 0 m 0) (nth 1 m 0)))
                          (get_costs D) (bsf_reset (list nat) (get_costs D) t0) acts) in
    is_tour (rec_current s) /\ is_tour (rec_best s) /\
    cost_current s = tour_length D (walk (rec_current s) 0 (length (rec_current s))) /\
    cost_bsf s = tour_length D (walk (rec_best s) 0 (length (rec_best s))).
Proof. exact two_opt_run_valid. Qed.
Print Assumptions C09_two_opt_run_valid.

(* 11. WHOLE RUNS, PDP ruin-repair (UNBOUNDED: any n = 2h+1, any D, any number of steps): steps [inl [a0; first; second]]
   admitted by get_mask(a0 + 1) with a0 < h, or [inr target] with a valid PDP tour of the same size *)
Theorem C09_pdp_run_valid :
  forall (D : nat -> nat -> Z) (h : nat) (t0 : list nat) (acts : list (list nat + list nat)),
    length t0 = 2 * h + 1 -> pdp_valid t0 ->
    admitted_seq (list nat) (list nat + list nat) (step_op (fun t m => pdp_op t (nth 0 m 0) (nth 1 m 0) (nth 2 m 0)))
                 (adm_pdp (length t0)) t0 acts ->
    let s := fst (bsf_run (list nat) (list nat + list nat)
                          (step_op (fun t m => pdp_op t (nth 0 m 0) (nth 1 m 0) (nth 2 m 0)))
                          (get_costs D) (bsf_reset (list nat) (get_costs D) t0) acts) in
    pdp_valid (rec_current s) /\ pdp_valid (rec_best s) /\
    cost_current s = tour_length D (walk (rec_current s) 0 (length (rec_current s))) /\
    cost_bsf s = tour_length D (walk (rec_best s) 0 (length (rec_best s))).
Proof. exact pdp_run_valid. Qed.
Print Assumptions C09_pdp_run_valid.

(* 12. WHOLE RUNS, k-opt with k_max in {3,4}: BOUNDED in n (3 <= n <= 8 for k = 3, 3 <= n <= 7 for k = 4) by 8.,
   unbounded in the number of steps and in D; SUPERSEDED by 18.  Steps [inl a] with a = the action the sequential builder forms from some
   k draws, or [inr target] with a tour of the same size *)
Theorem C09_kopt_run_valid_partial :
  forall (D : nat -> nat -> Z) (k : nat) (t0 : list nat) (acts : list (list nat + list nat)),
    (k = 3 /\ 3 <= length t0 <= 8) \/ (k = 4 /\ 3 <= length t0 <= 7) ->
    is_tour t0 ->
    admitted_seq (list nat) (list nat + list nat) (step_op (k_opt k)) (adm_kopt k (length t0)) t0 acts ->
    let s := fst (bsf_run (list nat) (list nat + list nat) (step_op (k_opt k)) (get_costs D)
                          (bsf_reset (list nat) (get_costs D) t0) acts) in
    is_tour (rec_current s) /\ is_tour (rec_best s) /\
    cost_current s = tour_length D (walk (rec_current s) 0 (length (rec_current s))) /\
    cost_bsf s = tour_length D (walk (rec_best s) 0 (length (rec_best s))).
Proof. exact kopt_run_valid_partial. Qed.
Print Assumptions C09_kopt_run_valid_partial.

(* 13. every batch size (shape-level model Env/ImproveBatch1.v of the statements
   `stopped = (...).squeeze(-1); k_action_left[stopped, i] = ...` of TSPkoptEnv._random_action): every index is in
   range for every number B >= 1 of instances and every k_max.  (The former bare .squeeze() went out of range at
   B = 1: recorded as fixed in known_findings.json, signature "tspkopt/k>=3: _random_action-raises-at-batch-size-1",
   repo commit a3d4cc5; the old statement is ImproveBatch1.old_sampler_batch1_out_of_range.) *)
Theorem C09_kopt_sampler_indexing_ok_all_batch_sizes :
  forall B k : nat, 1 <= B -> kopt_sampler_indexing_ok B k = true.
Proof. exact kopt_sampler_ok_all. Qed.
Print Assumptions C09_kopt_sampler_indexing_ok_all_batch_sizes.

(* 14. every batch size (memory-layout model of `action_record[:, :-1] = action_record[:, 1:].clone()` in
   PDPRuinRepairEnv._step, action_record of shape [B, L, h]; [shift_raises true] = source cloned): torch's overlap test
   never fires.  (Without the clone it fired at B = 1 whenever L >= 3: recorded as fixed in known_findings.json,
   signature "pdp_rr: step-raises-at-batch-size-1", repo commit fe089c4; ImproveBatch1.old_shift_batch1_raises.) *)
Theorem C09_pdp_step_shift_ok_all_batch_sizes :
  forall B L h : nat, shift_raises true B L h = false.
Proof. exact shift_ok_all. Qed.
Print Assumptions C09_pdp_step_shift_ok_all_batch_sizes.

(* 15. k-opt (TSPkoptEnv, k_max > 2): UNBOUNDED -- every k_max >= 1, every n >= 3, every tour, every sequence [cs] of
   k_max draws the sequential sampler (_random_action / NeuOptPolicy.forward; its masks do not depend on the network)
   can make: the action [a] it forms is mapped by _local_operator to a tour, and the scatter of (left, right) has no
   conflicting duplicate index (so torch's unspecified winner among duplicates does not matter).  n >= 3 is necessary (9.). *)
Theorem C09_k_opt_valid :
  forall (k : nat) (rec cs a : list nat),
    1 <= k -> 3 <= length rec -> is_tour rec -> length cs = k -> kopt_builder k rec cs = Some a ->
    is_tour (k_opt k rec a) /\
    scatter_consistent (firstn k (skipn k a)) (skipn (2 * k) a) = true.
Proof. exact k_opt_valid. Qed.
Print Assumptions C09_k_opt_valid.

(* 15b. the statement left open by the bounded version (ImproveKopt.k_opt_valid_statement) *)
Theorem C09_k_opt_valid_statement :
  forall (k : nat) (rec cs a : list nat), 3 <= k -> 3 <= length rec -> is_tour rec -> length cs = k ->
    kopt_builder k rec cs = Some a -> is_tour (k_opt k rec a).
Proof. exact k_opt_valid_statement_holds. Qed.
Print Assumptions C09_k_opt_valid_statement.

(* 16. the operator alone (UNBOUNDED: every k, every n >= 3, any number m and sizes of segments).  [smove_of k sol action a0 Ss R]:
   seen from a0 the tour is a0 :: S1 ++ ... ++ Sm ++ R with non-empty segments Ss = [S1; ...; Sm]; the (left, right) pairs of
   the action are, as a set, a0 -> last S1, hd S1 -> last S2, ..., hd Sm -> first node after Sm ([pairs]); left[0] = a0; the
   successors of the selected nodes contain every segment head and the node after Sm and no other segment node ([RV]).
   Then the relinking loop returns exactly the cycle in which every segment is reversed in place. *)
Theorem C09_k_opt_reverses_the_segments :
  forall (k : nat) (sol action : list nat) (a0 : nat) (Ss : list (list nat)) (R : list nat),
    3 <= length sol -> smove_of k sol action a0 Ss R ->
    length (k_opt k sol action) = length sol /\
    cyc (k_opt k sol action) (a0 :: concat (map (@rev nat) Ss) ++ R) /\
    scatter_consistent (firstn k (skipn k action)) (skipn (2 * k) action) = true.
Proof. exact k_opt_smove_order. Qed.
Print Assumptions C09_k_opt_reverses_the_segments.

(* 17. the builder only forms such moves (UNBOUNDED, loop invariant over its k_max steps incl. the early-stop rows): hence
   the new tour is the old one with the segments between consecutive selected nodes reversed in place *)
Theorem C09_k_opt_builder_forms_S_moves :
  forall (k : nat) (rec cs a : list nat),
    1 <= k -> 3 <= length rec -> is_tour rec -> length cs = k -> kopt_builder k rec cs = Some a ->
    exists (a0 : nat) (Ss : list (list nat)) (R : list nat),
      cyc rec (a0 :: concat Ss ++ R) /\ full (length rec) (a0 :: concat Ss ++ R) /\
      cyc (k_opt k rec a) (a0 :: concat (map (@rev nat) Ss) ++ R).
Proof. exact k_opt_builder_order. Qed.
Print Assumptions C09_k_opt_builder_forms_S_moves.

(* 18. WHOLE RUNS, k-opt: UNBOUNDED in k_max >= 1, n >= 3, the distance data D and the number of steps.  Steps [inl a] with
   a = the action the sequential builder forms from some k draws in the current state, or [inr target] (step_to_solution)
   with a tour of the same size *)
Theorem C09_kopt_run_valid :
  forall (D : nat -> nat -> Z) (k : nat) (t0 : list nat) (acts : list (list nat + list nat)),
    1 <= k -> 3 <= length t0 -> is_tour t0 ->
    admitted_seq (list nat) (list nat + list nat) (step_op (k_opt k)) (adm_kopt k (length t0)) t0 acts ->
    let s := fst (bsf_run (list nat) (list nat + list nat) (step_op (k_opt k)) (get_costs D)
                          (bsf_reset (list nat) (get_costs D) t0) acts) in
    is_tour (rec_current s) /\ is_tour (rec_best s) /\
    cost_current s = tour_length D (walk (rec_current s) 0 (length (rec_current s))) /\
    cost_bsf s = tour_length D (walk (rec_best s) 0 (length (rec_best s))).
Proof. exact kopt_run_valid. Qed.
Print Assumptions C09_kopt_run_valid.

(* the boolean predicates used by the harness and in 8./9. are the specifications *)
Theorem C09_is_tourb_spec : forall rec, is_tourb rec = true <-> is_tour rec.
Proof. exact is_tourb_spec. Qed.
Print Assumptions C09_is_tourb_spec.

Theorem C09_pdp_validb_spec : forall rec, pdp_validb rec = true <-> pdp_valid rec.
Proof. exact pdp_validb_spec. Qed.
Print Assumptions C09_pdp_validb_spec.

(* non-vacuity *)
Example C09_ex_two_opt :
  is_tourb [3; 5; 4; 1; 0; 2] = true /\ two_opt_mask 6 1 2 = true /\
  two_opt [3; 5; 4; 1; 0; 2] 1 2 = [3; 4; 5; 2; 0; 1] /\ is_tourb [3; 4; 5; 2; 0; 1] = true.
Proof. exact two_opt_ex. Qed.
Example C09_ex_pdp :
  pdp_validb [2; 5; 1; 6; 3; 4; 0] = true /\ pdp_admissible [2; 5; 1; 6; 3; 4; 0] 0 2 5 = true /\
  pdp_op [2; 5; 1; 6; 3; 4; 0] 0 2 5 = [2; 5; 1; 6; 3; 4; 0] /\
  pdp_admissible [2; 5; 1; 6; 3; 4; 0] 0 0 3 = true /\
  pdp_validb (pdp_op [2; 5; 1; 6; 3; 4; 0] 0 0 3) = true /\
  pdp_admissible [2; 5; 1; 6; 3; 4; 0] 0 5 2 = false.
Proof. exact pdp_ex. Qed.
Example C09_ex_k_opt :
  is_tourb [3; 5; 4; 1; 0; 2] = true /\
  kopt_builder 3 [3; 5; 4; 1; 0; 2] [0; 1; 2] = Some [0; 1; 2; 0; 3; 5; 1; 2; 4] /\
  k_opt 3 [3; 5; 4; 1; 0; 2] [0; 1; 2; 0; 3; 5; 1; 2; 4] = [1; 3; 5; 2; 0; 4] /\
  kopt_builder 3 [3; 5; 4; 1; 0; 2] [2; 5; 1] = None.
Proof. exact k_opt_ex. Qed.
(* beyond the former bound: n = 9, a genuine 5-exchange (k_max = 5) and its S-move order *)
Example C09_ex_k_opt_unbounded :
  let rec := [3; 5; 4; 1; 6; 2; 8; 0; 7] in
  is_tourb rec = true /\
  walk rec 0 9 = [0; 3; 1; 5; 2; 4; 6; 8; 7] /\
  kopt_builder 5 rec [3; 5; 4; 8; 0] = Some [3; 5; 4; 8; 0; 3; 1; 2; 6; 7; 5; 4; 8; 0; 3] /\
  walk (k_opt 5 rec [3; 5; 4; 8; 0; 3; 1; 2; 6; 7; 5; 4; 8; 0; 3]) 3 9 = [3; 5; 1; 4; 2; 8; 6; 0; 7] /\
  is_tourb (k_opt 5 rec [3; 5; 4; 8; 0; 3; 1; 2; 6; 7; 5; 4; 8; 0; 3]) = true.
Proof. exact k_opt_unbounded_ex. Qed.
Example C09_ex_k_opt_smove :
  k_opt 3 [3; 5; 4; 1; 0; 2] [0; 1; 2; 0; 3; 5; 1; 2; 4] = [1; 3; 5; 2; 0; 4] /\
  walk [1; 3; 5; 2; 0; 4] 0 6 = 0 :: concat (map (@rev nat) [[3; 1]; [5; 2]]) ++ [4] /\
  pairs 0 [[3; 1]; [5; 2]] 4 = combine [0; 3; 5] [1; 2; 4].
Proof. exact k_opt_smove_ex. Qed.
Example C09_ex_run :
  let D := fun i j : nat => Z.of_nat (if Nat.leb i j then j - i else i - j) in
  let opx := step_op (fun t m => two_opt t (nth 0 m 0) (nth 1 m 0)) in
  let acts := [inl [1; 2]; inl [0; 3]; inr [1; 2; 3; 0]] in
  is_tourb [2; 3; 1; 0] = true /\
  two_opt_mask 4 1 2 = true /\ two_opt_mask 4 0 3 = true /\ is_tourb [1; 2; 3; 0] = true /\
  let r := bsf_run _ _ opx (get_costs D) (bsf_reset _ (get_costs D) [2; 3; 1; 0]) acts in
  map (get_costs D) (seen_from _ _ opx [2; 3; 1; 0] acts) = [8%Z; 6%Z; 6%Z] /\ snd r = [0%Z; 2%Z; 0%Z] /\
  cost_bsf (fst r) = 6%Z.
Proof. exact run_ex. Qed.
Example C09_ex_batch1 :
  kopt_sampler_indexing_ok 1 3 = true /\ kopt_sampler_indexing_ok 2 3 = true /\ kopt_sampler_indexing_ok 1 5 = true /\
  sampler_indexing_ok squeeze 1 3 = false /\
  shift_raises true 1 7 3 = false /\ shift_raises true 2 7 3 = false /\ shift_raises false 1 7 3 = true.
Proof. exact batch1_ex. Qed.
(* improve-then-worsen: costs 10, 7 (improves), 9 (worsens): rec_best stays at the improving tour *)
Example C09_ex_bsf :
  let cost := fun t : nat => match t with 0 => 10%Z | 1 => 7%Z | _ => 9%Z end in
  let r := bsf_run nat nat (fun _ a => a) cost (bsf_reset nat cost 0) [1; 2] in
  rec_best (fst r) = 1 /\ rec_current (fst r) = 2 /\ cost_bsf (fst r) = 7%Z /\ snd r = [3%Z; 0%Z].
Proof. vm_compute. repeat split; reflexivity. Qed.
