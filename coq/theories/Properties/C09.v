(* C09 -- improvement environments keep tours valid and best-so-far bookkeeping exact.
   This file contains only statements closed by [exact] and their Print Assumptions.
   Vocabulary (Env/Improve.v): [rec : list nat] is the successor array of the code (rec[i] = node after i);
   [is_tour rec] = iterating rec from node 0 visits all n nodes within n steps and is back at 0 after n steps;
   [pdp_valid rec] = is_tour and every pickup j in 1..h precedes its delivery j + h in the order from the depot;
   [two_opt], [k_opt], [pdp_op] = the three branches of _local_operator as coded; [two_opt_mask],
   [pdp_admissible], [kopt_builder] = the environments' move masks / sequential move sampler. *)
From Coq Require Import ZArith List Bool Arith Permutation.
From RL4CO Require Import Env.Improve Env.ImproveTwoOpt Env.ImprovePDP Env.ImproveKopt Env.ImproveKoptFinite.
Import ListNotations.

(* 1. best-so-far bookkeeping of _step: UNBOUNDED -- any tour type, any operator, any cost function, any move
   sequence of any length, starting from _reset.  [bsf_run] returns the final state and the rewards in order. *)
Theorem C09_bsf_exact :
  forall (tour act : Type) (op : tour -> act -> tour) (cost : tour -> Z) (t0 : tour) (acts : list act),
    let s := fst (bsf_run tour act op cost (bsf_reset tour cost t0) acts) in
    let rws := snd (bsf_run tour act op cost (bsf_reset tour cost t0) acts) in
    cost_current s = cost (rec_current s) /\
    cost_bsf s = cost (rec_best s) /\
    cost_bsf s = minl (cost t0) (map cost (seen_from tour act op t0 acts)) /\
    In (rec_best s) (t0 :: seen_from tour act op t0 acts) /\
    rec_current s = last (seen_from tour act op t0 acts) t0 /\
    Forall (fun r => (0 <= r)%Z) rws /\
    rws = map (fun p => (fst p - snd p)%Z)
              (combine (cost t0 :: bsf_trace tour act op cost (bsf_reset tour cost t0) acts)
                       (bsf_trace tour act op cost (bsf_reset tour cost t0) acts)) /\
    sumZ rws = (cost t0 - cost_bsf s)%Z.
Proof. exact bsf_exact. Qed.
Print Assumptions C09_bsf_exact.

(* 2. the best-so-far cost never increases from one step to the next (UNBOUNDED) *)
Theorem C09_bsf_never_increases :
  forall (tour act : Type) (op : tour -> act -> tour) (cost : tour -> Z) (acts : list act) (s : bstate tour),
    Forall (fun p => (snd p <= fst p)%Z)
           (combine (cost_bsf s :: bsf_trace tour act op cost s acts) (bsf_trace tour act op cost s acts)).
Proof. exact bsf_trace_mono. Qed.
Print Assumptions C09_bsf_never_increases.

(* 3. the same step with tensors as buffers and td entries as references (in-place write of rec_best under the
   index mask, rec_current rebound to the operator's fresh buffer): it refines the row model and the two
   references never alias (UNBOUNDED) *)
Theorem C09_bsf_store_model_refines_no_aliasing :
  forall (tour act : Type) (op : tour -> act -> tour) (cost : tour -> Z)
         (s : hstate tour) (b : bstate tour) (a : act),
    h_inv tour s -> h_abs tour s = Some b ->
    exists s' rw, h_step tour act op cost s a = Some (s', rw) /\ h_inv tour s' /\
                  h_abs tour s' = Some (fst (bsf_step tour act op cost b a)) /\
                  rw = snd (bsf_step tour act op cost b a).
Proof. exact h_step_refines. Qed.
Print Assumptions C09_bsf_store_model_refines_no_aliasing.

(* 4. get_costs (sum over array positions) is the length of the tour in visiting order, for any distance data
   (UNBOUNDED); with 1. this gives "reported cost = length of the current tour" *)
Theorem C09_get_costs_is_tour_length :
  forall (D : nat -> nat -> Z) (rec : list nat),
    is_tour rec -> get_costs D rec = tour_length D (walk rec 0 (length rec)).
Proof. exact get_costs_is_tour_length. Qed.
Print Assumptions C09_get_costs_is_tour_length.

(* 5. visited_time as computed by the loop in _reset/_step is the position in the visiting order (node 0: n) *)
Theorem C09_visited_time_is_position :
  forall (rec : list nat) (v : nat), is_tour rec -> v < length rec ->
    nth v (visited_time rec) 0 = (if Nat.eqb v 0 then length rec else index_of v (walk rec 0 (length rec))).
Proof. exact visited_time_tour. Qed.
Print Assumptions C09_visited_time_is_position.

(* 6. 2-opt (TSPkoptEnv, k_max = 2): UNBOUNDED in n.  Every move of get_mask (first <> second, both in range)
   -- hence every move of _random_action and of DACTPolicy, which draw from that mask -- maps a tour to a tour *)
Theorem C09_two_opt_valid :
  forall (sol : list nat) (first second : nat),
    is_tour sol -> two_opt_mask (length sol) first second = true -> is_tour (two_opt sol first second).
Proof. exact two_opt_valid. Qed.
Print Assumptions C09_two_opt_valid.

(* 6b. and it is the 2-opt move: if the visiting order seen from [first] is first :: A ++ B with first :: A ending
   in [second], the new array is the cycle rev (first :: A) ++ B (UNBOUNDED) *)
Theorem C09_two_opt_reverses_the_segment :
  forall (sol : list nat) (first : nat) (A B : list nat),
    is_tour sol -> cyc sol (first :: A ++ B) -> full (length sol) (first :: A ++ B) ->
    length (two_opt sol first (last A first)) = length sol /\
    cyc (two_opt sol first (last A first)) (rev (first :: A) ++ B).
Proof. exact two_opt_cyc. Qed.
Print Assumptions C09_two_opt_reverses_the_segment.

(* 7. PDP ruin-repair: UNBOUNDED in n = 2h+1.  Every move permitted by get_mask(a0 + 1) with a0 < h (the
   N2S removal head / _random_action range) maps a valid PDP tour to a valid PDP tour *)
Theorem C09_pdp_rr_valid :
  forall (sol : list nat) (h a0 first second : nat),
    length sol = 2 * h + 1 -> pdp_valid sol -> pdp_admissible sol a0 first second = true ->
    pdp_valid (pdp_op sol a0 first second).
Proof. exact pdp_rr_valid. Qed.
Print Assumptions C09_pdp_rr_valid.

(* 8. k-opt, k_max in {3, 4}: PARTIAL -- BOUNDED, exhaustive: k = 3 with 3 <= n <= 8, k = 4 with 3 <= n <= 7,
   every tour, every sequence of draws the sequential sampler (_random_action / NeuOptPolicy) can make.
   The unbounded statement is ImproveKopt.k_opt_valid_statement and is not proved. *)
Theorem C09_k_opt_valid_partial :
  forall (k : nat) (rec cs a : list nat),
    (k = 3 /\ 3 <= length rec <= 8) \/ (k = 4 /\ 3 <= length rec <= 7) ->
    is_tour rec -> length cs = k -> kopt_builder k rec cs = Some a ->
    is_tour (k_opt k rec a) /\
    scatter_consistent (firstn k (skipn k a)) (skipn (2 * k) a) = true.
Proof. exact k_opt_valid_partial. Qed.
Print Assumptions C09_k_opt_valid_partial.

(* 9. REFUTED for the degenerate two-node instance: the sampler's own move yields two self-loops *)
Theorem C09_k_opt_two_nodes_refuted :
  exists cs a, is_tourb [1; 0] = true /\ length cs = 3 /\ kopt_builder 3 [1; 0] cs = Some a /\
               is_tourb (k_opt 3 [1; 0] a) = false.
Proof. exact k_opt_two_nodes_refuted. Qed.
Print Assumptions C09_k_opt_two_nodes_refuted.

(* the boolean predicates used by the harness and in 8./9. are the specifications *)
Theorem C09_is_tourb_spec : forall rec, is_tourb rec = true <-> is_tour rec.
Proof. exact is_tourb_spec. Qed.
Print Assumptions C09_is_tourb_spec.

Theorem C09_pdp_validb_spec : forall rec, pdp_validb rec = true <-> pdp_valid rec.
Proof. exact pdp_validb_spec. Qed.
Print Assumptions C09_pdp_validb_spec.

(* non-vacuity *)
Example C09_ex_two_opt :
  is_tourb [3; 5; 4; 1; 0; 2] = true /\ two_opt_mask 6 1 2 = true /\
  two_opt [3; 5; 4; 1; 0; 2] 1 2 = [3; 4; 5; 2; 0; 1] /\ is_tourb [3; 4; 5; 2; 0; 1] = true.
Proof. exact two_opt_ex. Qed.
Example C09_ex_pdp :
  pdp_validb [2; 5; 1; 6; 3; 4; 0] = true /\ pdp_admissible [2; 5; 1; 6; 3; 4; 0] 0 2 5 = true /\
  pdp_op [2; 5; 1; 6; 3; 4; 0] 0 2 5 = [2; 5; 1; 6; 3; 4; 0] /\
  pdp_admissible [2; 5; 1; 6; 3; 4; 0] 0 0 3 = true /\
  pdp_validb (pdp_op [2; 5; 1; 6; 3; 4; 0] 0 0 3) = true /\
  pdp_admissible [2; 5; 1; 6; 3; 4; 0] 0 5 2 = false.
Proof. exact pdp_ex. Qed.
Example C09_ex_k_opt :
  is_tourb [3; 5; 4; 1; 0; 2] = true /\
  kopt_builder 3 [3; 5; 4; 1; 0; 2] [0; 1; 2] = Some [0; 1; 2; 0; 3; 5; 1; 2; 4] /\
  k_opt 3 [3; 5; 4; 1; 0; 2] [0; 1; 2; 0; 3; 5; 1; 2; 4] = [1; 3; 5; 2; 0; 4] /\
  kopt_builder 3 [3; 5; 4; 1; 0; 2] [2; 5; 1] = None.
Proof. exact k_opt_ex. Qed.
(* improve-then-worsen: costs 10, 7 (improves), 9 (worsens): rec_best stays at the improving tour *)
Example C09_ex_bsf :
  let cost := fun t : nat => match t with 0 => 10%Z | 1 => 7%Z | _ => 9%Z end in
  let r := bsf_run nat nat (fun _ a => a) cost (bsf_reset nat cost 0) [1; 2] in
  rec_best (fst r) = 1 /\ rec_current (fst r) = 2 /\ cost_bsf (fst r) = 7%Z /\ snd r = [3%Z; 0%Z].
Proof. vm_compute. repeat split; reflexivity. Qed.
