(* C04 for SDVRP -- post-finish padding is inert (the row-wise half of C04; the batched half is differential). *)
From Coq Require Import ZArith List Bool.
From RL4CO Require Import Base.Num Base.EnvSig Spec.Routes Env.CVRP Env.CVRPProofs Env.SDVRP Env.SDVRPProofs.
Import ListNotations.
Open Scope Z_scope.

Theorem C04_sdvrp_padding_inert :
  forall (i : cvrp_inst) (acts : list nat) (k : nat),
    cvrp_wf i -> adm (E:=SDVRP exact) i acts = true -> done (SDVRP exact) i (run (E:=SDVRP exact) i acts) = true ->
    let pad := repeat 0%nat k in
    adm (E:=SDVRP exact) i (acts ++ pad) = true /\
    done (SDVRP exact) i (run (E:=SDVRP exact) i (acts ++ pad)) = true /\
    mask (SDVRP exact) i (run (E:=SDVRP exact) i (acts ++ pad)) = true :: repeat false (n_of i) /\
    (dfun i 0%nat 0%nat = 0 -> cvrp_reward i (acts ++ pad) = cvrp_reward i acts).
Proof. exact sdvrp_padding_inert. Qed.
Print Assumptions C04_sdvrp_padding_inert.

Example C04_sdvrp_nonvacuous :
  let i := {| dem := [40; 40]; cap := 64; dist := [[0; 3; 4]; [3; 0; 5]; [4; 5; 0]]; tol := 0 |} in
  mask (SDVRP exact) i (run (E:=SDVRP exact) i [1; 2; 0; 2; 0; 0]%nat) = [true; false; false] /\
  cvrp_reward i [1; 2; 0; 2; 0; 0]%nat = -20.
Proof. vm_compute. auto. Qed.
