(* C03 (unit graph) -- the reward of FLPEnv is minus the summed nearest-chosen-facility distance, the reward of MCPEnv is the
   covered weight: both recomputed from the original instance data and the executed selections alone.
   Only statements closed by [exact] and their Print Assumptions.  Models: Env/FLP.v, Env/MCP.v.
   [flp_run_all I (flp_reset I) as_ = Some s] = the code accepted the selections [as_] (mask-confined or not) and reached
   [s]; Dat I a p = orig_distances[a][p]; item j (0-based position in the weight vector) has id j+1 in the 1-based,
   0-padded membership tensor.  (DPP/MDPP rewards come from the decap simulator, which the property does not name.) *)
From Coq Require Import ZArith List Bool Arith.
From RL4CO Require Import Env.Selection Env.FLP Env.MCP Env.DPP Env.GraphBatch.
Import ListNotations.
Open Scope Z_scope.

(* FLP: after any non-empty sequence of selections, distances[p] is the least D[a][p] over the selected a -- attained by
   one of them, below all of them -- and the reward is minus their sum *)
Theorem C03_flp_reward_is_minus_sum_of_nearest_facility_distances :
  forall (I : flp_inst) (as_ : list nat) (s : flp_st),
    flp_wf I -> flp_run_all I (flp_reset I) as_ = Some s -> as_ <> [] ->
    length (f_dist s) = f_n I /\
    (forall p, (p < f_n I)%nat ->
       (exists a, In a as_ /\ nth p (f_dist s) 0 = Dat I a p) /\
       (forall a, In a as_ -> nth p (f_dist s) 0 <= Dat I a p)) /\
    f_dist s = map (spec_mindist I as_) (seq 0 (f_n I)) /\
    flp_reward I s = Some (- sumZ (f_dist s)).
Proof. exact flp_bookkeeping. Qed.
Print Assumptions C03_flp_reward_is_minus_sum_of_nearest_facility_distances.

(* MCP: the reward is the total weight of the items listed by at least one selected set *)
Theorem C03_mcp_reward_is_covered_weight :
  forall (I : mcp_inst) (as_ : list nat) (s : mcp_st),
    mcp_wf I -> mcp_run_all I (mcp_reset I) as_ = Some s ->
    m_weights s = map (fun j => if coveredb (m_mem I) as_ j then 0 else nth j (m_w I) 0) (seq 0 (length (m_w I))) /\
    m_membership s = map (fun k => if memb k as_ then zero_row (nth k (m_mem I) []) else nth k (m_mem I) [])
                         (seq 0 (length (m_mem I))) /\
    (forall k, (k < length (m_mem I))%nat -> nth k (m_chosen s) false = memb k as_) /\
    mcp_reward I s =
      Some (sumZ (map (fun j => if coveredb (m_mem I) as_ j then nth j (m_w I) 0 else 0) (seq 0 (length (m_w I))))).
Proof. exact mcp_bookkeeping. Qed.
Print Assumptions C03_mcp_reward_is_covered_weight.

Theorem C03_mcp_covered_means_listed_by_a_selected_set :
  forall (mem : list (list Z)) (as_ : list nat) (j : nat),
    coveredb mem as_ j = true <-> exists a, In a as_ /\ In (Z.of_nat (S j)) (nth a mem []).
Proof. exact coveredb_iff. Qed.
Print Assumptions C03_mcp_covered_means_listed_by_a_selected_set.

(* mask-confined episodes are sequences the code accepts: the two theorems apply to every rollout *)
Theorem C03_flp_mask_confined_runs_are_accepted :
  forall (I : flp_inst) (s : flp_st) (as_ : list nat) (s' : flp_st),
    flp_run I s as_ = Some s' -> flp_run_all I s as_ = Some s'.
Proof. exact flp_run_is_run_all. Qed.
Print Assumptions C03_flp_mask_confined_runs_are_accepted.

Theorem C03_mcp_mask_confined_runs_are_accepted :
  forall (I : mcp_inst) (s : mcp_st) (as_ : list nat) (s' : mcp_st),
    mcp_run I s as_ = Some s' -> mcp_run_all I s as_ = Some s'.
Proof. exact mcp_run_is_run_all. Qed.
Print Assumptions C03_mcp_mask_confined_runs_are_accepted.

Example C03_graph_nonvacuous :
  flp_wf flp_ex /\ option_map (flp_reward flp_ex) (flp_run flp_ex (flp_reset flp_ex) [3%nat; 1%nat]) = Some (Some (-9)) /\
  mcp_wf mcp_ex /\ option_map (mcp_reward mcp_ex) (mcp_run mcp_ex (mcp_reset mcp_ex) [0%nat; 3%nat]) = Some (Some 120).
Proof. vm_compute. repeat split; reflexivity. Qed.
