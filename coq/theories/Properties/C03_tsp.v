(* C03 for TSP -- the reward formula (gather + roll + norm) equals minus the closed tour length. *)
From Coq Require Import ZArith List Bool.
From RL4CO Require Import Base.Num Base.EnvSig Spec.Tours Env.TourCore Env.TSP Env.TSPProofs.
Import ListNotations.
Open Scope Z_scope.

(* for ANY action list: what _get_reward computes -- minus the sum over t of the distance evaluated at
   (roll(actions,-1)_t, actions_t) -- equals minus [walk along the list + leg from the last city back to the first],
   whenever the distance data is symmetric (true of Euclidean distances; checked on every generated instance) *)
Theorem C03_tsp_reward_is_objective :
  forall (i : tsp_inst) (acts : list nat),
    (forall a b, tsp_d i a b = tsp_d i b a) ->
    tsp_reward i acts = - closed_len (tsp_d i) acts.
Proof. exact tsp_reward_is_objective. Qed.
Print Assumptions C03_tsp_reward_is_objective.

Example C03_tsp_nonvacuous :
  let i := {| tdist := [[0; 3; 4]; [3; 0; 5]; [4; 5; 0]] |} in
  tsp_wfb i = true /\ tsp_reward i [2; 0; 1]%nat = -12 /\ closed_len (tsp_d i) [2; 0; 1]%nat = 12 /\
  closed_len (tsp_d i) [2; 0]%nat = 8.
Proof. vm_compute. auto. Qed.
