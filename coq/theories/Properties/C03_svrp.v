(* C03 for SVRPEnv -- the value of _get_reward equals the objective of the problem definition. *)
From Coq Require Import ZArith List Bool.
From RL4CO Require Import Base.Num Base.EnvSig Spec.Routes Env.SVRP Env.SVRPProofs.
Import ListNotations.
Open Scope Z_scope.

(* for ANY action list whose non-empty routes belong to existing technicians: the leg-wise charging of _get_reward
   (each leg of depot :: actions, cyclically, times tech_costs[number of depot visits before it]) equals minus the sum
   over technicians of cost factor * closed length of the technician's route, whenever d(0,0) = 0 -- for the repaired
   behaviour always, for the code as it is when there are fewer depot visits than technicians (otherwise it raises) *)
Theorem C03_svrp_reward_is_objective :
  forall (fx : bool) (i : svrp_inst) (acts : list nat),
    svrp_wf i -> sdfun i 0%nat 0%nat = 0 -> routes_ok i 0 (routes acts) ->
    (fx = true \/ (occ 0 acts < sm_of i)%nat) ->
    svrp_reward fx i acts = Some (- wsum i 0 (routes acts)).
Proof. exact svrp_reward_is_objective_gen. Qed.
Print Assumptions C03_svrp_reward_is_objective.

Theorem C03_svrp_reward_is_objective_on_episodes :
  forall (fx : bool) (i : svrp_inst) (acts : list nat),
    svrp_wf i -> sdfun i 0%nat 0%nat = 0 ->
    adm (E:=SVRP fx) i acts = true -> done (SVRP fx) i (run (E:=SVRP fx) i acts) = true ->
    (fx = true \/ (occ 0 acts < sm_of i)%nat) ->
    svrp_reward fx i acts = Some (svrp_objective i acts).
Proof. exact svrp_reward_is_objective. Qed.
Print Assumptions C03_svrp_reward_is_objective_on_episodes.

(* the code as it is raises on a feasible, padded action list with as many depot visits as technicians *)
Theorem C03_svrp_reward_raises_refuted :
  exists i acts, svrp_wfb i = true /\ svrp_feasibleb i acts = true /\ svrp_reward false i acts = None.
Proof. exact svrp_reward_raises_refuted. Qed.
Print Assumptions C03_svrp_reward_raises_refuted.

Example C03_svrp_nonvacuous :
  let i := {| techs := [2; 5]; skills := [2; 5]; tcosts := [1; 2]; sdist := [[0; 3; 4]; [3; 0; 5]; [4; 5; 0]] |} in
  svrp_reward false i [1; 0; 2]%nat = Some (- (1 * 6 + 2 * 8)) /\ svrp_objective i [1; 0; 2]%nat = - (1 * 6 + 2 * 8).
Proof. vm_compute. repeat split; reflexivity. Qed.
