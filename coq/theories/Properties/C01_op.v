(* C01 for OP -- mask-confined episodes yield feasible orienteering tours. Statements only. *)
From Coq Require Import ZArith List Bool.
From RL4CO Require Import Base.Num Base.EnvSig Spec.Routes Env.OP Env.OPProofs.
Import ListNotations.
Open Scope Z_scope.

(* For every instance in the documented format (length limit >= 0; the env's constant eps >= 0; d(0,0) = 0) and
   EVERY action list whose actions each lie in the mask of the state they are taken in, once the row reports done:
   no customer occurs twice, only existing nodes are used, and the total length of the closed walk
   depot -> actions -> depot (route by route, Spec/Routes.total_len) is at most the ORIGINAL max_length -- not the
   per-node adjusted vector the env keeps in its state.  No metric fact (symmetry, triangle inequality,
   non-negativity) is used. *)
Theorem C01_op_mask_sound :
  forall (i : op_inst) (acts : list nat),
    0 <= maxlen i /\ 0 <= eps i /\ mget (odist i) 0 0 = 0 ->
    adm (E:=OP exact) i acts = true ->
    done (OP exact) i (run (E:=OP exact) i acts) = true ->
    (forall j, (1 <= j)%nat -> (occ j acts <= 1)%nat) /\
    (forall a, In a acts -> (a <= op_n i)%nat) /\
    sumZ (map (route_len (odfun i)) (routes acts)) <= maxlen i.
Proof. exact op_mask_sound. Qed.
Print Assumptions C01_op_mask_sound.

(* stronger: the same already holds for every admitted prefix (the walk can always be closed within the limit) *)
Theorem C01_op_prefix_feasible :
  forall (i : op_inst) (acts : list nat),
    op_wf i -> adm (E:=OP exact) i acts = true -> op_feasible i acts.
Proof. exact op_prefix_feasible. Qed.
Print Assumptions C01_op_prefix_feasible.

(* non-vacuity: the last customer is admitted with exactly eps = 1 to spare (3 + 5 + 4 + 1 = 13) *)
Example C01_op_nonvacuous :
  let i := {| prz := [10; 20]; maxlen := 13; eps := 1; odist := [[0; 3; 4]; [3; 0; 5]; [4; 5; 0]]; otol := 0 |} in
  op_wfb i = true /\ adm (E:=OP exact) i [1; 2; 0]%nat = true /\
  done (OP exact) i (run (E:=OP exact) i [1; 2; 0]%nat) = true /\
  mask (OP exact) i (run (E:=OP exact) i [1]%nat) = [true; false; true].
Proof. vm_compute. auto. Qed.
