(* C05 for mTSP -- the mask never hides a solution. Statements only. *)
From Coq Require Import ZArith List Bool.
From RL4CO Require Import Base.Num Base.EnvSig Spec.Routes Spec.MultiTour Env.MTSP Env.MTSPProofs.
Import ListNotations.
Open Scope Z_scope.

(* CANONICAL FORM imposed by the mask: no empty sub-tour anywhere (the depot is not offered at reset nor right after a
   depot visit), sub-tours separated by exactly one depot visit, no depot visit after the last city (the row is
   finished there).  EVERY canonical solution -- between 1 and num_agents non-empty sub-tours that partition the
   cities 1..n, each in ANY order -- is reachable through the mask in the encoding join0 (r1 ++ 0 :: r2 ++ 0 :: ...
   ++ rk), the row is finished at its end, and decoding the encoding gives the same sub-tours back *)
Theorem C05_mtsp_mask_complete :
  forall (C : mtsp_cfg) (i : mtsp_inst) (rs : list (list nat)),
    mtsp_wfb i = true ->
    rs <> [] -> Forall (fun r => r <> []) rs -> Z.of_nat (length rs) <= nag i ->
    NoDup (concat rs) -> (forall x, In x (concat rs) <-> (1 <= x <= n_of i)%nat) ->
    adm (E:=MTSP exact C) i (join0 rs) = true /\
    done (MTSP exact C) i (run (E:=MTSP exact C) i (join0 rs)) = true /\
    routes (join0 rs) = rs.
Proof. exact mtsp_mask_complete_b. Qed.
Print Assumptions C05_mtsp_mask_complete.

(* ANY solution of the problem -- at most num_agents sub-tours, EMPTY ones (unemployed agents) allowed anywhere, that
   partition the cities -- : dropping its empty sub-tours gives a reachable action list that finishes the row and has
   the same minmax objective and the same sum objective.  Hence the optimum of either objective is reachable. *)
Theorem C05_mtsp_optimum_reachable :
  forall (C : mtsp_cfg) (i : mtsp_inst) (rs : list (list nat)),
    mtsp_wfb i = true -> mtsp_solvableb i = true ->
    Z.of_nat (length rs) <= nag i -> NoDup (concat rs) -> (forall x, In x (concat rs) <-> (1 <= x <= n_of i)%nat) ->
    let acts := join0 (filter nonemptyb rs) in
    adm (E:=MTSP exact C) i acts = true /\ done (MTSP exact C) i (run (E:=MTSP exact C) i acts) = true /\
    maxl (map (route_len (dfun i)) (routes acts)) = maxl (map (route_len (dfun i)) rs) /\
    sumZ (map (route_len (dfun i)) (routes acts)) = sumZ (map (route_len (dfun i)) rs).
Proof. exact mtsp_optimum_reachable_b. Qed.
Print Assumptions C05_mtsp_optimum_reachable.

(* non-vacuity: one agent per city (m = n = 3: the comparison agent_idx < num_agents - 1 met with equality at the
   last depot visit), and a solution with an unemployed agent in the middle *)
Example C05_mtsp_nonvacuous :
  let i := {| nag := 3; dist := [[0;1;1;1];[1;0;1;1];[1;1;0;1];[1;1;1;0]] |} in
  adm (E:=MTSP exact cfg_faithful) i (join0 [[2]; [3]; [1]]%nat) = true /\
  done (MTSP exact cfg_faithful) i (run (E:=MTSP exact cfg_faithful) i (join0 [[2]; [3]; [1]]%nat)) = true /\
  join0 (filter nonemptyb [[2; 3]; []; [1]]%nat) = [2; 3; 0; 1]%nat /\
  offered (E:=MTSP exact cfg_faithful) i (run (E:=MTSP exact cfg_faithful) i [2; 0; 3; 0; 1]%nat) 0 = true /\
  offered (E:=MTSP exact cfg_faithful) {| nag := 2; dist := dist i |} (run (E:=MTSP exact cfg_faithful) {| nag := 2; dist := dist i |} [2; 0; 3]%nat) 0 = false.
Proof. vm_compute. auto 10. Qed.
