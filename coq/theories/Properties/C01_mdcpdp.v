(* C01 for MDCPDP -- mask-confined episodes yield feasible solutions. Statements only.
   MDCPDP (F) is the model of MDCPDPEnv under the set F of repairs: [as_is] = the code as it is (what the
   correspondence check compares with the running code), [repaired] = after the four proposed repairs
   (Env/MDCPDP.v).  [md_good F i]: the depot count the code uses is the true one and its current depot follows the
   vehicle -- true of [repaired] on every instance, of [as_is] exactly on single-depot instances. *)
From Coq Require Import ZArith List Bool.
From RL4CO Require Import Base.Num Base.EnvSig Spec.MultiDepotPD Env.MDCPDP Env.MDCPDPDefs Env.MDCPDPProofs Env.MDCPDPRefuted.
Import ListNotations.
Open Scope Z_scope.

(* For every instance in the documented format and EVERY action list whose actions each lie in the mask of the
   state they are taken in, up to the step at which the row first reports done: read as routes (Spec/MultiDepotPD.v:
   a vehicle leaves its depot, serves customers, comes home to the same depot; the last return is implied), every
   depot's vehicle drives exactly one route, every customer is served exactly once, every delivery has its pickup
   earlier on the same route, and the number of parcels on board never exceeds the capacity of that route's vehicle. *)
Theorem C01_mdcpdp_mask_sound :
  forall (F : mdfix) (i : md_inst) (acts : list nat),
    md_wfb i = true -> md_good F i = true ->
    adm (E:=MDCPDP exact F) i acts = true ->
    (forall p q, acts = p ++ q -> q <> [] -> done (MDCPDP exact F) i (run (E:=MDCPDP exact F) i p) = false) ->
    done (MDCPDP exact F) i (run (E:=MDCPDP exact F) i acts) = true ->
    md_feasibleb (ndep i) (nloc i / 2) (vcap i) acts = true.
Proof. intros F i acts Hwf Hg. exact (md_mask_sound F i Hwf Hg acts). Qed.
Print Assumptions C01_mdcpdp_mask_sound.

(* the code after the repairs: every instance *)
Theorem C01_mdcpdp_mask_sound_repaired :
  forall (i : md_inst) (acts : list nat),
    md_wfb i = true ->
    adm (E:=MDCPDP exact repaired) i acts = true ->
    (forall p q, acts = p ++ q -> q <> [] -> done (MDCPDP exact repaired) i (run (E:=MDCPDP exact repaired) i p) = false) ->
    done (MDCPDP exact repaired) i (run (E:=MDCPDP exact repaired) i acts) = true ->
    md_feasibleb (ndep i) (nloc i / 2) (vcap i) acts = true.
Proof. intros i acts Hwf. exact (md_mask_sound repaired i Hwf (repaired_good i) acts). Qed.
Print Assumptions C01_mdcpdp_mask_sound_repaired.

(* the code as it is: single-depot instances (one capacity column, start_mode = "order") *)
Theorem C01_mdcpdp_mask_sound_as_is_single_depot :
  forall (i : md_inst) (acts : list nat),
    md_wfb i = true -> ndep i = 1%nat -> length (caps i) = 1%nat -> start i = 0%nat ->
    adm (E:=MDCPDP exact as_is) i acts = true ->
    (forall p q, acts = p ++ q -> q <> [] -> done (MDCPDP exact as_is) i (run (E:=MDCPDP exact as_is) i p) = false) ->
    done (MDCPDP exact as_is) i (run (E:=MDCPDP exact as_is) i acts) = true ->
    md_feasibleb (ndep i) (nloc i / 2) (vcap i) acts = true.
Proof. intros i acts Hwf H1 H2 H3. apply (md_mask_sound as_is i Hwf). apply as_is_good. auto. Qed.
Print Assumptions C01_mdcpdp_mask_sound_as_is_single_depot.

(* the code as it is, generator format (capacity [B,1]) with two depots: an admitted, finished episode that drives
   through depot 1 in the middle of vehicle 0's route (pickup 4 before it, its delivery 7 after it) *)
Theorem C01_mdcpdp_refuted_depot_count_from_capacity_columns :
  exists i acts, md_wfb i = true /\ md_solvableb i = true /\ adm (E:=MDCPDP exact as_is) i acts = true /\ live as_is i acts /\
                 done (MDCPDP exact as_is) i (run (E:=MDCPDP exact as_is) i acts) = true /\ spec_feasibleb i acts = false.
Proof. exact md_mask_sound_refuted_depot_count. Qed.
Print Assumptions C01_mdcpdp_refuted_depot_count_from_capacity_columns.

(* the code as it is, one capacity column per depot: vehicle 1 loaded beyond its capacity (the start depot's is used) *)
Theorem C01_mdcpdp_refuted_capacity_of_start_depot :
  exists i acts, md_wfb i = true /\ md_solvableb i = true /\ length (caps i) = ndep i /\ adm (E:=MDCPDP exact as_is) i acts = true /\
                 live as_is i acts /\ done (MDCPDP exact as_is) i (run (E:=MDCPDP exact as_is) i acts) = true /\ spec_feasibleb i acts = false.
Proof. exact md_mask_sound_refuted_capacity_of_start_depot. Qed.
Print Assumptions C01_mdcpdp_refuted_capacity_of_start_depot.

(* ... and vehicle 1 sent "home" to depot 0: the action list is not a set of depot-to-same-depot routes at all *)
Theorem C01_mdcpdp_refuted_wrong_home_depot :
  exists i acts, md_wfb i = true /\ md_solvableb i = true /\ length (caps i) = ndep i /\ adm (E:=MDCPDP exact as_is) i acts = true /\
                 live as_is i acts /\ done (MDCPDP exact as_is) i (run (E:=MDCPDP exact as_is) i acts) = true /\ parse (ndep i) acts = None.
Proof. exact md_mask_sound_refuted_wrong_home_depot. Qed.
Print Assumptions C01_mdcpdp_refuted_wrong_home_depot.

(* start_mode = "random", one capacity column per depot: the first vehicle leaves depot 0 but is booked on depot r *)
Theorem C01_mdcpdp_refuted_random_start :
  exists i acts, md_wfb i = true /\ md_solvableb i = true /\ length (caps i) = ndep i /\ adm (E:=MDCPDP exact as_is) i acts = true /\
                 live as_is i acts /\ done (MDCPDP exact as_is) i (run (E:=MDCPDP exact as_is) i acts) = true /\ spec_feasibleb i acts = false.
Proof. exact md_mask_sound_refuted_random_start. Qed.
Print Assumptions C01_mdcpdp_refuted_random_start.

(* non-vacuity: two depots with capacities 2 and 1, two pairs; the repaired code admits this finished episode *)
Example C01_mdcpdp_nonvacuous :
  let i := inst 2 4 [2; 1] (unit_dist 6) 0 in
  let acts := [0; 2; 3; 4; 5; 0; 1]%nat in
  md_wfb i = true /\ adm (E:=MDCPDP exact repaired) i acts = true /\ liveb repaired i acts = true /\
  done (MDCPDP exact repaired) i (run (E:=MDCPDP exact repaired) i acts) = true /\ spec_feasibleb i acts = true.
Proof. vm_compute. repeat split; reflexivity. Qed.
Example C01_mdcpdp_nonvacuous_as_is :
  let i := inst 1 4 [1] (unit_dist 5) 0 in
  let acts := [0; 1; 3; 2; 4]%nat in
  md_wfb i = true /\ md_good as_is i = true /\ adm (E:=MDCPDP exact as_is) i acts = true /\ liveb as_is i acts = true /\
  done (MDCPDP exact as_is) i (run (E:=MDCPDP exact as_is) i acts) = true /\ spec_feasibleb i acts = true.
Proof. vm_compute. repeat split; reflexivity. Qed.
