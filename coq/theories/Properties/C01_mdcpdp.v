(* C01 for MDCPDP -- mask-confined episodes yield feasible solutions. Statements only.
   MDCPDP A F is the model of MDCPDPEnv under the set F of repairs (Env/MDCPDP.v).  The running code is
   [repaired]: the five defects found by this check were repaired in /repo on 2026-10-01 (commits 443a2ba, ca045f5,
   ad2c92d, 4acebdc, 3428867; recorded as fixed in known_findings.json), and Harness/HMDCPDP.v compares the running
   code with [repaired] on every run.  The theorems about [repaired] are THE theorems for the current code; the
   [as_is] statements at the end are the record of the old behaviour (their witnesses are still replayed every run). *)
From Coq Require Import ZArith List Bool.
From RL4CO Require Import Base.Num Base.EnvSig Spec.MultiDepotPD Env.MDCPDP Env.MDCPDPDefs Env.MDCPDPProofs Env.MDCPDPRefuted.
Import ListNotations.
Open Scope Z_scope.

(* For every instance in the documented format (capacity with one column, as the generator emits it, or one column per
   depot; any start depot, i.e. start_mode "order" or "random") and EVERY action list whose actions each lie in the
   mask of the state they are taken in, up to the step at which the row first reports done: read as routes
   (Spec/MultiDepotPD.v: a vehicle leaves its depot, serves customers, comes home to the same depot; the last return
   is implied), every depot's vehicle drives exactly one route, every customer is served exactly once, every delivery
   has its pickup earlier on the same route, and the number of parcels on board never exceeds the capacity of that
   route's vehicle. *)
Theorem C01_mdcpdp_mask_sound :
  forall (i : md_inst) (acts : list nat),
    md_wfb i = true ->
    adm (E:=MDCPDP exact repaired) i acts = true ->
    (forall p q, acts = p ++ q -> q <> [] -> done (MDCPDP exact repaired) i (run (E:=MDCPDP exact repaired) i p) = false) ->
    done (MDCPDP exact repaired) i (run (E:=MDCPDP exact repaired) i acts) = true ->
    md_feasibleb (ndep i) (nloc i / 2) (vcap i) acts = true.
Proof. intros i acts Hwf. exact (md_mask_sound repaired i Hwf (repaired_good i) acts). Qed.
Print Assumptions C01_mdcpdp_mask_sound.

(* start_mode = "random" has no effect beyond the value of current_depot before the first step: the forced first
   action 0 overwrites it, so admissibility is the same as with start depot 0 and from the first step on the state is
   the same state (hence masks, done and rewards are the same) *)
Theorem C01_mdcpdp_random_start_irrelevant :
  forall (A : arith) (i : md_inst) (acts : list nat),
    (0 < ndep i)%nat ->
    adm (E:=MDCPDP A repaired) i acts = adm (E:=MDCPDP A repaired) (with_start i 0) acts /\
    (acts <> [] -> adm (E:=MDCPDP A repaired) i acts = true ->
     run (E:=MDCPDP A repaired) i acts = run (E:=MDCPDP A repaired) (with_start i 0) acts).
Proof. intros A i acts H. apply md_random_start_irrelevant; [reflexivity | exact H]. Qed.
Print Assumptions C01_mdcpdp_random_start_irrelevant.

(* the same statement for ANY subset F of the repairs under the hypothesis that excludes the two mask-relevant defects
   ([md_good F i]: the depot count the code uses is the true one and its current depot follows the vehicle; for the
   unrepaired code this means: a single depot) *)
Theorem C01_mdcpdp_mask_sound_any_repair_set :
  forall (F : mdfix) (i : md_inst) (acts : list nat),
    md_wfb i = true -> md_good F i = true ->
    adm (E:=MDCPDP exact F) i acts = true ->
    (forall p q, acts = p ++ q -> q <> [] -> done (MDCPDP exact F) i (run (E:=MDCPDP exact F) i p) = false) ->
    done (MDCPDP exact F) i (run (E:=MDCPDP exact F) i acts) = true ->
    md_feasibleb (ndep i) (nloc i / 2) (vcap i) acts = true.
Proof. intros F i acts Hwf Hg. exact (md_mask_sound F i Hwf Hg acts). Qed.
Print Assumptions C01_mdcpdp_mask_sound_any_repair_set.

(* ---------------------------------------------------------------- HISTORY: the code before the repairs ([as_is]) *)
(* generator format (capacity [B,1]) with two depots: an admitted, finished episode drove through depot 1 in the middle
   of vehicle 0's route (pickup 4 before it, its delivery 7 after it) *)
Theorem C01_mdcpdp_refuted_depot_count_from_capacity_columns :
  exists i acts, md_wfb i = true /\ md_solvableb i = true /\ adm (E:=MDCPDP exact as_is) i acts = true /\ live as_is i acts /\
                 done (MDCPDP exact as_is) i (run (E:=MDCPDP exact as_is) i acts) = true /\ spec_feasibleb i acts = false.
Proof. exact md_mask_sound_refuted_depot_count. Qed.
Print Assumptions C01_mdcpdp_refuted_depot_count_from_capacity_columns.

(* one capacity column per depot: vehicle 1 loaded beyond its capacity (the start depot's was used) *)
Theorem C01_mdcpdp_refuted_capacity_of_start_depot :
  exists i acts, md_wfb i = true /\ md_solvableb i = true /\ length (caps i) = ndep i /\ adm (E:=MDCPDP exact as_is) i acts = true /\
                 live as_is i acts /\ done (MDCPDP exact as_is) i (run (E:=MDCPDP exact as_is) i acts) = true /\ spec_feasibleb i acts = false.
Proof. exact md_mask_sound_refuted_capacity_of_start_depot. Qed.
Print Assumptions C01_mdcpdp_refuted_capacity_of_start_depot.

(* ... and vehicle 1 sent "home" to depot 0: the action list was not a set of depot-to-same-depot routes at all *)
Theorem C01_mdcpdp_refuted_wrong_home_depot :
  exists i acts, md_wfb i = true /\ md_solvableb i = true /\ length (caps i) = ndep i /\ adm (E:=MDCPDP exact as_is) i acts = true /\
                 live as_is i acts /\ done (MDCPDP exact as_is) i (run (E:=MDCPDP exact as_is) i acts) = true /\ parse (ndep i) acts = None.
Proof. exact md_mask_sound_refuted_wrong_home_depot. Qed.
Print Assumptions C01_mdcpdp_refuted_wrong_home_depot.

(* start_mode = "random", one capacity column per depot: the first vehicle left depot 0 but was booked on depot r *)
Theorem C01_mdcpdp_refuted_random_start :
  exists i acts, md_wfb i = true /\ md_solvableb i = true /\ length (caps i) = ndep i /\ adm (E:=MDCPDP exact as_is) i acts = true /\
                 live as_is i acts /\ done (MDCPDP exact as_is) i (run (E:=MDCPDP exact as_is) i acts) = true /\ spec_feasibleb i acts = false.
Proof. exact md_mask_sound_refuted_random_start. Qed.
Print Assumptions C01_mdcpdp_refuted_random_start.

(* non-vacuity: generator format (ONE capacity column) with two depots, random start depot 1; the current code admits this
   finished episode, and it is feasible *)
Example C01_mdcpdp_nonvacuous :
  let i := with_start (inst 2 4 [2] (unit_dist 6) 0) 1 in
  let acts := [0; 2; 3; 4; 5; 0; 1]%nat in
  md_wfb i = true /\ adm (E:=MDCPDP exact repaired) i acts = true /\ liveb repaired i acts = true /\
  done (MDCPDP exact repaired) i (run (E:=MDCPDP exact repaired) i acts) = true /\ spec_feasibleb i acts = true.
Proof. vm_compute. repeat split; reflexivity. Qed.
(* the old witnesses are no longer admitted by the current code *)
Example C01_mdcpdp_old_witnesses_rejected :
  adm (E:=MDCPDP exact repaired) w_nd w_nd_acts = false /\ adm (E:=MDCPDP exact repaired) w_sw w_sw_acts = false /\
  adm (E:=MDCPDP exact repaired) w_sw3 w_sw3_acts = false.
Proof. vm_compute. repeat split; reflexivity. Qed.
