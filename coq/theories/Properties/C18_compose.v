(* C18 (unit compose) -- "every generated instance is solvable: a mask-confined episode started from it always completes".
   C18's generator theorems (Data/Gen*.v: what the post-processing of the raw samples guarantees) composed with C02's
   completion theorems (Env/*Proofs.v: no dead end, offered steps never raise, step bound, done is stable).
   Only statements closed by [exact], their Print Assumptions, and Examples.  Proofs: Compose/GenCompleteRouting.v (CVRP,
   CVRPTW, SVRP, OP, PDP), Compose/GenCompleteMTVRP.v, Compose/GenCompleteSched.v (FJSP, JSSP, FFSP, SMTWTP),
   Compose/GenCompleteGraph.v (FLP, MCP, ATSP), Compose/GenCompleteRouting2.v (PART 3 at the end of this file: TSP, mTSP,
   PCTSP, SPCTSP, MDCPDP, SDVRP).

   PART 1, routing.  Reading guide.
   [adm i acts = true] every action of [acts] lies inside the mask of the state it is taken in (started from reset);
   [run i acts] the state reached; [offered i s a] action a is inside the mask of s; [stepok] the step does not index out
   of range / raise (Base/EnvSig.v).  Every composed theorem says, for the instance the generator model emits from ANY raw
   samples inside the samplers' documented ranges and ANY mask-confined action list:
     (1) the state reached offers an action (PDP: while not done -- fixed-length env, empty mask once done);
     (2) every offered action can be stepped;
     (3) an action list none of whose proper prefixes is finished is no longer than the env's step bound, written in the
         generator's own parameters (PDP: every admitted list is within the bound, done exactly at the bound);
     (4) done is stable.
   Representation.  The generator models (Data/GenRouting.v) hold exact rationals, the env models scaled integers:
   [repr S z q] := inject_Z z == inject_Z S * q ("the integer z represents the rational q at scale S"; the harness uses a
   power of two for S so that float32 data are represented exactly).  Where the generator model does not emit the env's
   record itself, [<env>_of_gen] builds it from the generator's output and the integer tables that represent the data the
   generator model does not compute (the distance table of the sampled coordinates); the [.._tables_ok] hypothesis says
   that these tables represent the generator's rationals; both are spelled out by the [.._unfold] theorems below.
   CVRP:   the generator model emits a cvrp_inst directly ([gen_cvrp]).
   CVRPTW: [cvrptw_of_gen S b T cust dz]: base instance b (from gen_cvrp), windows = the integers of [gen_cvrptw T cust]
           times S, durations dz; cust = per customer (depot distance d, duration, the two uniform draws).
           The bridge needs max_time to be an INTEGER: see C18_cvrptw_noninteger_max_time_refuted (a finding).
   SVRP:   [svrp_of_gen tz sz tc sd]: technician skills tz / customer requirements sz represent [svrp_techs raw] (sorted)
           / [svrp_skills techs us]; fx = the switch of Env/SVRP.v (true = the repaired code the tree has).
   MTVRP:  [mtvrp_of_gen capz limz r tloz thiz svcz D TT] with r = [subsample keep (gen_mtvrp_row T speed lim ratio cust)]
           for ANY keep-mask (kO, kTW, kL, kB); INF = the integer standing for float("inf"); cust = per customer
           (d, r1, r2, r3, ul, ub, r) = depot distance and the six raw draws; R = the mask switch of Env/MTVRP.v.
   OP:     [op_of_gen prizes ml eps D tol], ml represents [op_max_length override num_loc].
   PDP:    [pdp_of_gen num_loc force D], generator size [pdp_num_loc num_loc] = num_loc rounded up to even. *)
From Coq Require Import ZArith QArith Qround List Bool Arith.
From RL4CO Require Import Base.Num Base.EnvSig Data.GenRouting.
From RL4CO Require Import Env.MTVRP Env.MTVRPProofs Env.OP Env.OPProofs Env.PDP Env.PDPProofs Env.SVRP Env.SVRPProofs.
From RL4CO Require Import Env.CVRPTW Env.CVRPTWProofs Env.CVRP Env.CVRPProofs.
From RL4CO Require Import Compose.GenCompleteRouting Compose.GenCompleteMTVRP.
Import ListNotations.
Open Scope Z_scope.

(* ================================================================ CVRP: gen_cvrp_wf x cvrp_no_dead_end, cvrp_step_ok,
   cvrp_bound, cvrp_done_stable.  min_demand = lo, max_demand = hi (the sampler is Uniform(lo - 1, hi - 1)), capacity
   from the table or an override that is at least hi - 1, ANY num_loc, any number >= 1 of customers *)
Theorem C18_cvrp_generated_instances_complete :
  forall (num_loc : Z) (override : option Z) (lo hi : Z) (us : list Q) (D : list (list Z)),
    1 <= lo <= hi - 1 ->
    (forall u, In u us -> (inject_Z (lo - 1) <= u)%Q /\ (u < inject_Z (hi - 1))%Q) ->
    hi - 1 <= cvrp_capacity override num_loc ->
    us <> [] ->
    let i := gen_cvrp (cvrp_capacity override num_loc) us D in
    forall acts : list nat, adm (E:=CVRP exact) i acts = true ->
      anyb (mask (CVRP exact) i (run (E:=CVRP exact) i acts)) = true /\
      (forall a, offered (E:=CVRP exact) i (run (E:=CVRP exact) i acts) a = true ->
                 stepok (CVRP exact) i (run (E:=CVRP exact) i acts) a = true) /\
      ((forall p q, acts = p ++ q -> q <> [] -> done (CVRP exact) i (run (E:=CVRP exact) i p) = false) ->
       (length acts <= 2 * length us + 1)%nat) /\
      (forall a, adm (E:=CVRP exact) i (acts ++ [a]) = true -> done (CVRP exact) i (run (E:=CVRP exact) i acts) = true ->
                 done (CVRP exact) i (run (E:=CVRP exact) i (acts ++ [a])) = true).
Proof. exact gen_cvrp_complete. Qed.
Print Assumptions C18_cvrp_generated_instances_complete.

(* the shipped configuration: min_demand 1, max_demand 10, capacity from the CAPACITIES table *)
Theorem C18_cvrp_default_generated_instances_complete :
  forall (num_loc : Z) (us : list Q) (D : list (list Z)),
    (forall u, In u us -> (0 <= u)%Q /\ (u < 9)%Q) -> us <> [] ->
    let i := gen_cvrp (cvrp_capacity None num_loc) us D in
    forall acts : list nat, adm (E:=CVRP exact) i acts = true ->
      anyb (mask (CVRP exact) i (run (E:=CVRP exact) i acts)) = true /\
      (forall a, offered (E:=CVRP exact) i (run (E:=CVRP exact) i acts) a = true ->
                 stepok (CVRP exact) i (run (E:=CVRP exact) i acts) a = true) /\
      ((forall p q, acts = p ++ q -> q <> [] -> done (CVRP exact) i (run (E:=CVRP exact) i p) = false) ->
       (length acts <= 2 * length us + 1)%nat) /\
      (forall a, adm (E:=CVRP exact) i (acts ++ [a]) = true -> done (CVRP exact) i (run (E:=CVRP exact) i acts) = true ->
                 done (CVRP exact) i (run (E:=CVRP exact) i (acts ++ [a])) = true).
Proof. exact gen_cvrp_default_complete. Qed.
Print Assumptions C18_cvrp_default_generated_instances_complete.

(* ================================================================ CVRPTW: gen_cvrp_wf + gen_cvrptw_wf x cvrptw_no_dead_end,
   cvrptw_step_ok, cvrptw_bound, cvrptw_done_stable, through the bridge [cvrptw_customer_okb => cvrptw_wfb, cvrptw_solvableb]
   for an INTEGER max_time Tz *)
Theorem C18_cvrptw_generated_instances_complete :
  forall (num_loc : Z) (override : option Z) (dlo dhi : Z) (us : list Q) (D : list (list Z))
         (S Tz : Z) (cust : list (Q * Q * Q * Q)) (dz : list Z),
    1 <= dlo <= dhi - 1 ->
    (forall u, In u us -> (inject_Z (dlo - 1) <= u)%Q /\ (u < inject_Z (dhi - 1))%Q) ->
    dhi - 1 <= cvrp_capacity override num_loc ->
    cvrptw_samples_ok (inject_Z Tz) cust -> cust <> [] -> length us = length cust ->
    0 < S -> cvrptw_tables_ok S D dz cust ->
    let i := cvrptw_of_gen S (gen_cvrp (cvrp_capacity override num_loc) us D) (inject_Z Tz) cust dz in
    cvrptw_wfb i = true /\ cvrptw_solvableb i = true /\
    forall acts : list nat, adm (E:=CVRPTW exact) i acts = true ->
      anyb (mask (CVRPTW exact) i (run (E:=CVRPTW exact) i acts)) = true /\
      (forall a, offered (E:=CVRPTW exact) i (run (E:=CVRPTW exact) i acts) a = true ->
                 stepok (CVRPTW exact) i (run (E:=CVRPTW exact) i acts) a = true) /\
      ((forall p q, acts = p ++ q -> q <> [] -> done (CVRPTW exact) i (run (E:=CVRPTW exact) i p) = false) ->
       (length acts <= 2 * length cust + 1)%nat) /\
      (forall a, adm (E:=CVRPTW exact) i (acts ++ [a]) = true -> done (CVRPTW exact) i (run (E:=CVRPTW exact) i acts) = true ->
                 done (CVRPTW exact) i (run (E:=CVRPTW exact) i (acts ++ [a])) = true).
Proof. exact gen_cvrptw_complete. Qed.
Print Assumptions C18_cvrptw_generated_instances_complete.

(* the hypotheses and the instance, spelled out *)
Theorem C18_repr_unfold : forall (S z : Z) (q : Q), repr S z q <-> (inject_Z z == inject_Z S * q)%Q.
Proof. exact repr_unfold. Qed.
Print Assumptions C18_repr_unfold.

(* per customer: samples in range, the customer can be served at all (2 d + dur <= max_time) and is not so far that the
   integer window collapses (floor d + 1 <= floor (max_time - d - dur): true of the shipped defaults) *)
Theorem C18_cvrptw_samples_ok_unfold : forall (T : Q) (cust : list (Q * Q * Q * Q)),
  cvrptw_samples_ok T cust <->
  (forall d dur t1 t2 : Q, In (d, dur, t1, t2) cust ->
     (0 <= d)%Q /\ (0 <= dur)%Q /\ (0 <= t1)%Q /\ (t1 < 1)%Q /\ (0 <= t2)%Q /\ (t2 < 1)%Q /\
     (d <= T - d - dur)%Q /\ Qfloor d + 1 <= Qfloor (T - d - dur)).
Proof. exact cvrptw_samples_ok_unfold. Qed.
Print Assumptions C18_cvrptw_samples_ok_unfold.

Theorem C18_cvrptw_tables_ok_unfold : forall (S : Z) (D : list (list Z)) (dz : list Z) (cust : list (Q * Q * Q * Q)),
  cvrptw_tables_ok S D dz cust <->
  ((forall a b : nat, (a <= length cust)%nat -> (b <= length cust)%nat -> 0 <= mget D a b) /\
   mget D 0 0 = 0 /\
   length dz = length cust /\
   forall j : nat, (j < length cust)%nat ->
     repr S (mget D 0 (Datatypes.S j)) (cust_d cust j) /\ repr S (mget D (Datatypes.S j) 0) (cust_d cust j) /\
     repr S (nth j dz 0) (cust_dur cust j)).
Proof. exact cvrptw_tables_ok_unfold. Qed.
Print Assumptions C18_cvrptw_tables_ok_unfold.

Theorem C18_cvrptw_of_gen_unfold : forall (S : Z) (b : cvrp_inst) (T : Q) (cust : list (Q * Q * Q * Q)) (dz : list Z),
  cvrptw_of_gen S b T cust dz =
  {| base := b;
     twlo := map (fun w => fst w * S) (gen_cvrptw T cust);
     twhi := map (fun w => snd w * S) (gen_cvrptw T cust);
     durs := 0 :: dz; tu := S; hz0 := Qtrunc T * S; tsl := 0 |}.
Proof. exact cvrptw_of_gen_unfold. Qed.
Print Assumptions C18_cvrptw_of_gen_unfold.

(* FINDING.  With a NON-integer max_time the bridge is false: `max_times[..., :, 0] = self.max_time` stores int(max_time)
   in the integer window tensor, while every customer's upper bound was computed from the un-truncated max_time.  The
   generator's guarantee (tw_hi + dur + d <= max_time) is then weaker than what the env needs (<= depot deadline).
   Witness: max_time 480.5, three customers at distance 1/4 (1 and 2 at the same place, 3 opposite), draws
   (0.998, 0.9999): all generator hypotheses hold, every customer passes [cvrptw_customer_okb], the instance is
   well-formed for the env -- and after the mask-confined moves 1, 3, 2 (clock 480, depot 1/4 away, depot closes at
   int(480.5) = 480) NO action is offered although the row is not finished.  Reproduced on the real CVRPTWEnv. *)
Theorem C18_cvrptw_noninteger_max_time_refuted :
  cvrptw_samples_ok (961 # 2) cvrptw_noninteger_cust /\
  cvrptw_tables_ok 4 (dist cvrptw_noninteger_base) [0; 0; 0] cvrptw_noninteger_cust /\
  cvrp_wfb cvrptw_noninteger_base = true /\ cvrp_solvableb cvrptw_noninteger_base = true /\
  (forall j, (j < 3)%nat ->
     cvrptw_customer_okb (961 # 2) (1 # 4) 0 (nth (Datatypes.S j) (gen_cvrptw (961 # 2) cvrptw_noninteger_cust) (0, 0)) = true) /\
  let i := cvrptw_noninteger_inst in
  cvrptw_wfb i = true /\ cvrptw_returnb i = false /\ cvrptw_solvableb i = false /\
  adm (E:=CVRPTW exact) i [1; 3; 2]%nat = true /\
  done (CVRPTW exact) i (run (E:=CVRPTW exact) i [1; 3; 2]%nat) = false /\
  anyb (mask (CVRPTW exact) i (run (E:=CVRPTW exact) i [1; 3; 2]%nat)) = false.
Proof. exact gen_cvrptw_noninteger_max_time_refuted. Qed.
Print Assumptions C18_cvrptw_noninteger_max_time_refuted.

(* ================================================================ SVRP: gen_svrp_wf x svrp_no_dead_end, svrp_step_ok,
   svrp_bound, svrp_done_stable, through the bridge [GenRouting.svrp_solvableb => SVRPProofs.svrp_wfb, svrp_solvableb];
   raw = the technician skill draws (>= 0), us = the uniform(0, 1) draws of the customers' requirements *)
Theorem C18_svrp_generated_instances_complete :
  forall (fx : bool) (raw us : list Q) (S : Z) (tz sz tc : list Z) (sd : list (list Z)),
    raw <> [] -> (forall t, In t raw -> (0 <= t)%Q) -> (forall u, In u us -> (0 <= u)%Q /\ (u <= 1)%Q) -> us <> [] ->
    0 < S ->
    Forall2 (repr S) tz (svrp_techs raw) -> Forall2 (repr S) sz (svrp_skills (svrp_techs raw) us) ->
    length tc = length raw ->
    let i := svrp_of_gen tz sz tc sd in
    forall acts : list nat, adm (E:=SVRP fx) i acts = true ->
      ((fx = true \/ ok_from (E:=SVRP fx) i (reset (SVRP fx) i) acts = true) ->
       anyb (mask (SVRP fx) i (run (E:=SVRP fx) i acts)) = true) /\
      (forall a, offered (E:=SVRP fx) i (run (E:=SVRP fx) i acts) a = true ->
                 (fx = true \/ (done (SVRP fx) i (run (E:=SVRP fx) i acts) = false /\ (2 <= length raw)%nat)) ->
                 stepok (SVRP fx) i (run (E:=SVRP fx) i acts) a = true) /\
      ((forall p q, acts = p ++ q -> q <> [] -> done (SVRP fx) i (run (E:=SVRP fx) i p) = false) ->
       (length acts <= length us + length raw)%nat) /\
      (forall a, adm (E:=SVRP fx) i (acts ++ [a]) = true -> done (SVRP fx) i (run (E:=SVRP fx) i acts) = true ->
                 done (SVRP fx) i (run (E:=SVRP fx) i (acts ++ [a])) = true).
Proof. exact gen_svrp_complete. Qed.
Print Assumptions C18_svrp_generated_instances_complete.

(* the bridge itself: the env unit's boolean predicates hold of the emitted instance (m technicians, n customers) *)
Theorem C18_svrp_generated_instances_wf_solvable :
  forall (raw us : list Q) (S : Z) (tz sz tc : list Z) (sd : list (list Z)),
    raw <> [] -> (forall t, In t raw -> (0 <= t)%Q) -> (forall u, In u us -> (0 <= u)%Q /\ (u <= 1)%Q) -> us <> [] ->
    0 < S ->
    Forall2 (repr S) tz (svrp_techs raw) -> Forall2 (repr S) sz (svrp_skills (svrp_techs raw) us) ->
    length tc = length raw ->
    let i := svrp_of_gen tz sz tc sd in
    svrp_wfb i = true /\ SVRPProofs.svrp_solvableb i = true /\ sm_of i = length raw /\ sn_of i = length us.
Proof. exact gen_svrp_env_ok. Qed.
Print Assumptions C18_svrp_generated_instances_wf_solvable.

(* ================================================================ MTVRP: mtvrp_customer_ok / mtvrp_demand_ok / mtvrp_tw_ok x
   mtvrp_no_dead_end, mtvrp_step_ok, mtvrp_bound, mtvrp_done_stable, through the bridge [generator row => mtvrp_wfb,
   mtvrp_solvableb R] for ANY keep-mask (all 16 variants), any capacity >= the largest demand, any positive speed *)
Theorem C18_mtvrp_generated_instances_complete :
  forall (R kO kTW kL kB : bool) (capz lo hi blo bhi : Z) (T speed lim ratio : Q) (cust : list cust7)
         (S INF limz : Z) (tloz thiz svcz : list Z) (D TT : list (list Z)),
    1 <= lo -> 1 <= blo -> hi - 1 <= capz -> bhi - 1 <= capz -> (0 < speed)%Q ->
    mtvrp_samples_ok T speed lim lo hi blo bhi cust -> cust <> [] ->
    0 < S ->
    let r := subsample (kO, kTW, kL, kB) (gen_mtvrp_row T speed lim ratio cust) in
    mtvrp_tables_ok S INF speed r (map c_d cust) limz tloz thiz svcz D TT ->
    let i := mtvrp_of_gen capz limz r tloz thiz svcz D TT in
    mtvrp_wfb i = true /\ mtvrp_solvableb R i = true /\
    forall acts : list nat, adm (E:=MTVRP exact R) i acts = true ->
      anyb (mask (MTVRP exact R) i (run (E:=MTVRP exact R) i acts)) = true /\
      (forall a, offered (E:=MTVRP exact R) i (run (E:=MTVRP exact R) i acts) a = true ->
                 stepok (MTVRP exact R) i (run (E:=MTVRP exact R) i acts) a = true) /\
      ((forall p q, acts = p ++ q -> q <> [] -> done (MTVRP exact R) i (run (E:=MTVRP exact R) i p) = false) ->
       (length acts <= 2 * length cust + 1)%nat) /\
      (forall a, done (MTVRP exact R) i (run (E:=MTVRP exact R) i acts) = true ->
                 done (MTVRP exact R) i (run (E:=MTVRP exact R) i (acts ++ [a])) = true).
Proof. exact gen_mtvrp_complete. Qed.
Print Assumptions C18_mtvrp_generated_instances_complete.

(* per customer: d > 0, the six draws in range (demand samplers Uniform(lo - 1, hi - 1) / Uniform(blo - 1, bhi - 1)), the
   assert of generate_distance_limit passed (2 d < limit), max_time leaves room for round trip + service + window *)
Theorem C18_mtvrp_samples_ok_unfold : forall (T speed lim : Q) (lo hi blo bhi : Z) (cust : list cust7),
  mtvrp_samples_ok T speed lim lo hi blo bhi cust <->
  (forall d r1 r2 r3 ul ub r : Q, In (d, r1, r2, r3, ul, ub, r) cust ->
    (0 < d)%Q /\ (0 <= r1)%Q /\ (r1 < 1)%Q /\ (0 <= r2)%Q /\ (r2 < 1)%Q /\ (0 <= r3)%Q /\ (r3 < 1)%Q /\
    (inject_Z (lo - 1) <= ul)%Q /\ (ul < inject_Z (hi - 1))%Q /\ (inject_Z (blo - 1) <= ub)%Q /\ (ub < inject_Z (bhi - 1))%Q /\
    (2 * d < lim)%Q /\ (2 * (d / speed) + (38 # 100) <= T)%Q).
Proof. exact mtvrp_samples_ok_unfold. Qed.
Print Assumptions C18_mtvrp_samples_ok_unfold.

Theorem C18_mtvrp_tables_ok_unfold :
  forall (S INF : Z) (speed : Q) (r : mtvrp_row) (ds : list Q) (limz : Z) (tloz thiz svcz : list Z) (D TT : list (list Z)),
  mtvrp_tables_ok S INF speed r ds limz tloz thiz svcz D TT <->
  (length tloz = Datatypes.S (length ds) /\ length thiz = Datatypes.S (length ds) /\ length svcz = Datatypes.S (length ds) /\
   repr_opt S INF limz (r_limit r) /\
   (forall j : nat, (j <= length ds)%nat ->
      repr S (nth j tloz 0) (fst (nth j (r_tw r) (0%Q, None))) /\
      repr_opt S INF (nth j thiz 0) (snd (nth j (r_tw r) (0%Q, None))) /\
      repr S (nth j svcz 0) (nth j (r_svc r) 0%Q)) /\
   (forall a b : nat, (a <= length ds)%nat -> (b <= length ds)%nat -> 0 <= mget D a b /\ 0 <= mget TT a b) /\
   (forall a : nat, (a <= length ds)%nat -> mget D a a = 0 /\ mget TT a a = 0) /\
   (forall j : nat, (j < length ds)%nat ->
      repr S (mget D 0 (Datatypes.S j)) (nth j ds 0%Q) /\ repr S (mget D (Datatypes.S j) 0) (nth j ds 0%Q) /\
      repr S (mget TT 0 (Datatypes.S j)) (nth j ds 0%Q / speed) /\ repr S (mget TT (Datatypes.S j) 0) (nth j ds 0%Q / speed)) /\
   0 < INF /\
   (forall j : nat, (j < length ds)%nat ->
      mget D 0 (Datatypes.S j) + mget D (Datatypes.S j) 0 < INF /\ mget TT 0 (Datatypes.S j) + mget TT (Datatypes.S j) 0 < INF)).
Proof. exact mtvrp_tables_ok_unfold. Qed.
Print Assumptions C18_mtvrp_tables_ok_unfold.

Theorem C18_repr_opt_unfold : forall (S INF z : Z) (o : option Q),
  repr_opt S INF z o <-> match o with Some q => repr S z q | None => z = INF end.
Proof. exact repr_opt_unfold. Qed.
Print Assumptions C18_repr_opt_unfold.

(* ================================================================ OP: op_max_length (MAX_LENGTHS table, closest key off the
   table, or a non-negative override) x op_no_dead_end, op_step_ok, op_bound, op_done_stable; no solvability condition *)
Theorem C18_op_generated_instances_complete :
  forall (override : option Q) (num_loc : Z) (S : Z) (pzs : list Z) (ml epsz : Z) (D : list (list Z)) (tolz : Z),
    (forall l, override = Some l -> (0 <= l)%Q) ->
    0 < S -> repr S ml (op_max_length override num_loc) -> 0 <= epsz -> mget D 0 0 = 0 ->
    let i := op_of_gen pzs ml epsz D tolz in
    op_wfb i = true /\
    forall acts : list nat, adm (E:=OP exact) i acts = true ->
      anyb (mask (OP exact) i (run (E:=OP exact) i acts)) = true /\
      (forall a, offered (E:=OP exact) i (run (E:=OP exact) i acts) a = true ->
                 stepok (OP exact) i (run (E:=OP exact) i acts) a = true) /\
      ((forall p q, acts = p ++ q -> q <> [] -> done (OP exact) i (run (E:=OP exact) i p) = false) ->
       (length acts <= Nat.max (length pzs + 1) 2)%nat) /\
      (forall a, adm (E:=OP exact) i (acts ++ [a]) = true -> done (OP exact) i (run (E:=OP exact) i acts) = true ->
                 done (OP exact) i (run (E:=OP exact) i (acts ++ [a])) = true).
Proof. exact gen_op_complete. Qed.
Print Assumptions C18_op_generated_instances_complete.

(* ================================================================ PDP: pdp_pairing (num_loc rounded up to even) x
   pdp_no_dead_end, pdp_step_ok, pdp_bound, pdp_done_iff, pdp_done_stable; D = the (symmetric) distance table of
   depot :: locs *)
Theorem C18_pdp_generated_instances_complete :
  forall (num_loc : Z) (force : bool) (D : list (list Z)),
    1 <= num_loc ->
    length D = Datatypes.S (Z.to_nat (pdp_num_loc num_loc)) ->
    (forall a b, mget D a b = mget D b a) -> mget D 0 0 = 0 ->
    let i := pdp_of_gen num_loc force D in
    let n := Z.to_nat (pdp_num_loc num_loc) in
    forall acts : list nat, adm (E:=PDP) i acts = true ->
      (done PDP i (run (E:=PDP) i acts) = false -> anyb (mask PDP i (run (E:=PDP) i acts)) = true) /\
      (forall a, offered (E:=PDP) i (run (E:=PDP) i acts) a = true -> stepok PDP i (run (E:=PDP) i acts) a = true) /\
      (length acts <= n + if force then 1 else 0)%nat /\
      (done PDP i (run (E:=PDP) i acts) = true <-> length (if force then acts else 0%nat :: acts) = (n + 1)%nat) /\
      (forall a, adm (E:=PDP) i (acts ++ [a]) = true -> done PDP i (run (E:=PDP) i acts) = true ->
                 done PDP i (run (E:=PDP) i (acts ++ [a])) = true).
Proof. exact gen_pdp_complete. Qed.
Print Assumptions C18_pdp_generated_instances_complete.

(* ================================================================ non-vacuity (routing): raw draws -> emitted instance ->
   a complete mask-confined episode on it *)
Example C18_compose_nonvacuous_cvrp :
  let us := [0 # 1; 35 # 4; 3 # 1; 8999 # 1000]%Q in
  let i := gen_cvrp (cvrp_capacity None 4) us [] in
  (forall u, In u us -> (0 <= u)%Q /\ (u < 9)%Q) /\
  CVRP.dem i = [1; 9; 4; 9] /\ CVRP.cap i = 20 /\
  adm (E:=CVRP exact) i [2; 1; 3; 0; 4; 0]%nat = true /\ done (CVRP exact) i (run (E:=CVRP exact) i [2; 1; 3; 0; 4; 0]%nat) = true /\
  done (CVRP exact) i (run (E:=CVRP exact) i [2; 1; 3; 0]%nat) = false.
Proof. exact gen_cvrp_complete_ex. Qed.
(* the capacity override C18 reports as silently accepted: the hypothesis hi - 1 <= capacity cannot be dropped *)
Example C18_compose_cvrp_small_override_never_completes :
  let i := gen_cvrp (cvrp_capacity (Some 5) 20) [8 # 1]%Q [] in
  cvrp_solvableb i = false /\
  mask (CVRP exact) i (run (E:=CVRP exact) i [0; 0; 0]%nat) = [true; false] /\
  done (CVRP exact) i (run (E:=CVRP exact) i [0; 0; 0]%nat) = false.
Proof. exact gen_cvrp_small_override_never_completes. Qed.
Example C18_compose_nonvacuous_cvrptw :
  cvrptw_samples_ok 480 cvrptw_ex_cust /\ cvrptw_tables_ok 2 cvrptw_ex_D [0; 0] cvrptw_ex_cust /\
  gen_cvrptw 480 cvrptw_ex_cust = [(0, 480); (145, 334); (239, 240)] /\
  adm (E:=CVRPTW exact) cvrptw_ex_inst [1; 2; 0]%nat = true /\
  done (CVRPTW exact) cvrptw_ex_inst (run (E:=CVRPTW exact) cvrptw_ex_inst [1; 2; 0]%nat) = true /\
  done (CVRPTW exact) cvrptw_ex_inst (run (E:=CVRPTW exact) cvrptw_ex_inst [1; 2]%nat) = false.
Proof. exact gen_cvrptw_complete_ex. Qed.
Example C18_compose_nonvacuous_svrp :
  let raw := [(7 # 2); 1; 9]%Q in let us := [(1 # 2); (99 # 100)]%Q in
  svrp_techs raw = [1; (7 # 2); 9]%Q /\
  Forall2 (repr 200) [200; 700; 1800] (svrp_techs raw) /\ Forall2 (repr 200) [900; 1782] (svrp_skills (svrp_techs raw) us) /\
  let i := svrp_of_gen [200; 700; 1800] [900; 1782] [1; 2; 3] [] in
  adm (E:=SVRP true) i [0; 0; 1; 2; 0]%nat = true /\ done (SVRP true) i (run (E:=SVRP true) i [0; 0; 1; 2; 0]%nat) = true /\
  mask (SVRP true) i (run (E:=SVRP true) i []) = [true; false; false].
Proof. exact gen_svrp_complete_ex. Qed.
Example C18_compose_nonvacuous_mtvrp :
  mtvrp_samples_ok (46 # 10) 1 3 1 10 1 10 mtvrp_ex_cust /\
  mtvrp_tables_ok 100000 1000000000 1 mtvrp_ex_row (map c_d mtvrp_ex_cust) 300000
                  [0; 131125; 282750] [460000; 150125; 300750] [0; 16500; 15000] mtvrp_ex_D mtvrp_ex_D /\
  MTVRP.dl mtvrp_ex_inst = [0; 0; 1] /\ MTVRP.db mtvrp_ex_inst = [0; 6; 0] /\
  mtvrp_wfb mtvrp_ex_inst = true /\ mtvrp_solvableb true mtvrp_ex_inst = true /\
  adm (E:=MTVRP exact true) mtvrp_ex_inst [1; 0; 2; 0]%nat = true /\
  done (MTVRP exact true) mtvrp_ex_inst (run (E:=MTVRP exact true) mtvrp_ex_inst [1; 0; 2; 0]%nat) = true.
Proof. exact gen_mtvrp_complete_ex. Qed.
Example C18_compose_nonvacuous_op :
  op_max_length None 20 = 2%Q /\ op_max_length None 37 = 3%Q /\ repr 100 200 (op_max_length None 20) /\
  let i := op_of_gen (op_prizes_unif [4; 99; 0]) 200 1 [[0; 50; 60; 90]; [50; 0; 30; 70]; [60; 30; 0; 80]; [90; 70; 80; 0]] 0 in
  prz i = [5; 100; 1] /\
  adm (E:=OP exact) i [1; 2; 0]%nat = true /\ done (OP exact) i (run (E:=OP exact) i [1; 2; 0]%nat) = true /\
  mask (OP exact) i (run (E:=OP exact) i [1; 2]%nat) = [true; false; false; false].
Proof. exact gen_op_complete_ex. Qed.
Example C18_compose_nonvacuous_pdp :
  pdp_num_loc 3 = 4 /\
  let D := [[0;1;2;3;4]; [1;0;1;2;3]; [2;1;0;1;2]; [3;2;1;0;1]; [4;3;2;1;0]] in
  let i := pdp_of_gen 3 false D in
  pdp_wfb i = true /\ adm (E:=PDP) i [2; 1; 4; 3]%nat = true /\ done PDP i (run (E:=PDP) i [2; 1; 4; 3]%nat) = true.
Proof. exact gen_pdp_complete_ex. Qed.

(* ================================================================================================================
   PART 2, scheduling (FJSP, JSSP, FFSP, SMTWTP), selection (FLP, MCP) and ATSP.
   Naming notes.  Env.FJSP is NOT wrapped in a module and defines inst / st / reset / step / run / mask / done / wfb / P /
   upd ..., which clash with Base.EnvSig and the routing envs: it is only Required here (not Imported) and every name of
   it is written FJSP.x.  FFSP and SMTWTP are wrapped in modules (FFSP.x, SMTWTP.x).  The EnvSig notions used for ATSP
   are written EnvSig.run / EnvSig.adm / EnvSig.done / EnvSig.mask / EnvSig.offered / EnvSig.stepok.  Env.ATSPProofs is
   not imported (it declares the notation E := ATSP at top level).

   Reading guide.  FJSP / JSSP: [cfg] = mask_no_ops; FJSP.admb / FJSP.jssp_admb cfg i (FJSP.reset i) acts = true = every action
   of [acts] lies inside the mask of the state it is taken in; FJSP.run / FJSP.jssp_run = Some s = no step raised and s is
   the state reached (None = the real code would raise or the transit loop would exceed its fuel).  Each theorem says, for
   the instance the generator emits from ANY raw draws inside the documented ranges and ANY mask-confined action list:
   (1) the list can be executed; (2) the state reached offers an action (FJSP / JSSP: every state, finished rows keep
   the inert no-op; FFSP: a real job while unfinished, the wait action once finished; SMTWTP / FLP / MCP / ATSP: while
   unfinished -- these envs have no inert action); (3) every offered action can be stepped; (4) the step bound in the
   form C02 proved it, with total_ops = list_sum ns (FJSP / JSSP), Dall <= max_time - 1 (FFSP), n (SMTWTP, ATSP), the
   quota q (FLP / MCP); (5) FJSP / JSSP / FFSP: an action list at least as long as the bound ends in a done state
   (derived from (2)-(4) and done-stability), FLP / MCP: every run not longer than q extends to a done run of length q. *)
From Coq Require Import ZArith QArith List Bool Arith Permutation.
From RL4CO Require Import Base.Num Base.EnvSig Env.FFSP Env.SMTWTP Env.FLP Env.MCP Env.ATSP.
From RL4CO Require Import Data.GenSched Data.GenGraph Data.GenATSP.
From RL4CO Require Env.FJSP Env.FFSPBound Env.ATSPProofs Compose.GenCompleteSched Compose.GenCompleteGraph.
Import ListNotations.


(* ================================================================ FJSP: gen_fjsp_wf x FJSP_no_crash, FJSP_no_dead_end,
   fjsp_step_total, FJSP_bound_prefix, fjsp_padding_inert_episode *)
Theorem C18_fjsp_generated_instances_complete :
  forall (ns : list nat) (maxops M : nat) (nelig : list nat) (idx : list (list nat)) (pt : list (list Z)),
    ns <> [] -> (forall k : nat, In k ns -> (1 <= k <= maxops)%nat) -> (1 <= M)%nat ->
    let nmax := (maxops * length ns)%nat in
    (forall o : nat, (o < list_sum ns)%nat -> (1 <= nth o nelig 0)%nat) ->
    (forall o : nat, (o < list_sum ns)%nat -> Permutation (seq 0 M) (nth o idx [])) ->
    (forall m o : nat, (m < M)%nat -> (o < nmax)%nat -> (1 <= nth o (nth m pt []) 0)%Z) ->
    let i := gen_fjsp ns nmax M nelig idx pt in
    forall (cfg : bool) (acts : list nat),
      FJSP.admb cfg i (FJSP.reset i) acts = true ->
      exists s : FJSP.st,
        FJSP.run cfg i (FJSP.reset i) acts = Some s /\
        existsb (fun b => b) (FJSP.mask cfg i s) = true /\
        (forall a : nat, FJSP.maskb cfg i s a = true -> exists s' : FJSP.st, FJSP.step cfg i s a = Some s') /\
        ((forall (p q : list nat) (sp : FJSP.st), acts = p ++ q -> q <> [] ->
            FJSP.run cfg i (FJSP.reset i) p = Some sp -> FJSP.done sp = false) ->
         (length acts <= (if cfg then list_sum ns else list_sum ns + list_sum ns))%nat) /\
        (((if cfg then list_sum ns else list_sum ns + list_sum ns) <= length acts)%nat -> FJSP.done s = true).
Proof. exact GenCompleteSched.fjsp_generated_instances_complete. Qed.
Print Assumptions C18_fjsp_generated_instances_complete.

(* ================================================================ JSSP: gen_jssp_wf x JSSP_embedding, JSSP_no_dead_end,
   jssp_bound_prefix *)
Theorem C18_jssp_generated_instances_complete :
  forall (ns : list nat) (maxops M : nat) (ids : list nat) (pt : list (list Z)),
    ns <> [] -> (forall k : nat, In k ns -> (1 <= k <= maxops)%nat) -> (1 <= M)%nat ->
    let nmax := (maxops * length ns)%nat in
    (forall o : nat, (o < nmax)%nat -> (nth o ids 0 < M)%nat) ->
    (forall m o : nat, (m < M)%nat -> (o < nmax)%nat -> (1 <= nth o (nth m pt []) 0)%Z) ->
    let i := gen_jssp ns nmax M ids pt in
    forall (cfg : bool) (acts : list nat),
      FJSP.jssp_admb cfg i (FJSP.reset i) acts = true ->
      exists s : FJSP.st,
        FJSP.jssp_run cfg i (FJSP.reset i) acts = Some s /\
        existsb (fun b => b) (FJSP.jssp_mask cfg i s) = true /\
        (forall a : nat, FJSP.jssp_maskb cfg i s a = true -> exists s' : FJSP.st, FJSP.jssp_step cfg i s a = Some s') /\
        ((forall (p q : list nat) (sp : FJSP.st), acts = p ++ q -> q <> [] ->
            FJSP.jssp_run cfg i (FJSP.reset i) p = Some sp -> FJSP.done sp = false) ->
         (length acts <= (if cfg then list_sum ns else list_sum ns + list_sum ns))%nat) /\
        (((if cfg then list_sum ns else list_sum ns + list_sum ns) <= length acts)%nat -> FJSP.done s = true).
Proof. exact GenCompleteSched.jssp_generated_instances_complete. Qed.
Print Assumptions C18_jssp_generated_instances_complete.

(* ================================================================ FFSP: gen_ffsp_wf x FFSP_no_dead_end, FFSP_step_total,
   ffsp_step_bound, ffsp_padding_frozen.  The machine table is the environment's own (IndexTables), hence the hypothesis
   ffsp_mtab_okb, exactly as in C18_ffsp_gen_wf.  FFSPBound.Dall i = the largest run time of the instance. *)
Theorem C18_ffsp_generated_instances_complete :
  forall (i : FFSP.inst) (lo hi : Z),
    (1 <= FFSP.nJ i)%nat -> (1 <= FFSP.nS i)%nat -> (1 <= FFSP.nM i)%nat ->
    length (FFSP.rt i) = FFSP.nJ i ->
    (forall row : list Z, In row (FFSP.rt i) -> length row = FFSP.nT i /\ forall d : Z, In d row -> (lo <= d < hi)%Z) ->
    (0 <= lo)%Z -> (hi <= 999999)%Z ->
    ffsp_mtab_okb i = true ->
    (FFSPBound.Dall i <= hi - 1)%Z /\
    forall acts : list nat,
      FFSP.adm i (FFSP.reset i) acts = true ->
      exists s : FFSP.st,
        FFSP.run i (FFSP.reset i) acts = Some s /\
        (FFSP.done s = false -> exists j : nat, (j < FFSP.nJ i)%nat /\ nth j (FFSP.mask s) false = true) /\
        (FFSP.done s = true -> nth (FFSP.nJ i) (FFSP.mask s) false = true) /\
        (forall a : nat, nth a (FFSP.mask s) false = true -> exists s' : FFSP.st, FFSP.step i s a = Some s') /\
        ((forall (p q : list nat) (sp : FFSP.st), acts = p ++ q -> q <> [] ->
            FFSP.run i (FFSP.reset i) p = Some sp -> FFSP.done sp = false) ->
         (Z.of_nat (length acts) <=
          (Z.of_nat (FFSP.nJ i * FFSP.nS i) * (FFSPBound.Dall i + 2) + 2) * Z.of_nat (FFSP.nS i * FFSP.nM i))%Z) /\
        (((Z.of_nat (FFSP.nJ i * FFSP.nS i) * (FFSPBound.Dall i + 2) + 2) * Z.of_nat (FFSP.nS i * FFSP.nM i) <=
          Z.of_nat (length acts))%Z -> FFSP.done s = true).
Proof. exact GenCompleteSched.ffsp_generated_instances_complete. Qed.
Print Assumptions C18_ffsp_generated_instances_complete.

(* ================================================================ SMTWTP: gen_smtwtp_wf x smtwtp_no_dead_end_before_done
   (the non-negativity hypothesis is the generator theorem's; completion does not use it) *)
Theorem C18_smtwtp_generated_instances_complete :
  forall (n : nat) (due wgt pt : list Z),
    (1 <= n)%nat -> length due = S n -> length wgt = S n -> length pt = S n ->
    (forall x : Z, In x due \/ In x wgt \/ In x pt -> (0 <= x)%Z) ->
    let i := gen_smtwtp n due wgt pt in
    forall acts : list nat,
      SMTWTP.adm i (SMTWTP.reset i) acts = true ->
      exists s : SMTWTP.st,
        SMTWTP.run i (SMTWTP.reset i) acts = Some s /\
        (SMTWTP.done s = false -> exists a : nat, nth a (SMTWTP.mask s) false = true) /\
        (forall a : nat, nth a (SMTWTP.mask s) false = true -> exists s' : SMTWTP.st, SMTWTP.step i s a = Some s') /\
        (length acts <= n)%nat /\
        (SMTWTP.done s = true <-> length acts = n).
Proof. exact GenCompleteSched.smtwtp_generated_instances_complete. Qed.
Print Assumptions C18_smtwtp_generated_instances_complete.

(* ================================================================ FLP: gen_flp_wf x flp_no_dead_end, flp_progress,
   flp_done_iff, flp_episode_completes.  flp_run I (flp_reset I) as_ = Some s = every action of as_ lay inside the mask of
   the state it was taken in, no step raised, s is the state reached. *)
Theorem C18_flp_generated_instances_complete :
  forall (n : nat) (D : list (list Z)) (maxdist q : Z),
    length D = n -> (forall row : list Z, In row D -> length row = n) -> (1 <= q <= Z.of_nat n)%Z ->
    let I := gen_flp n D maxdist q in
    forall (as_ : list nat) (s : flp_st),
      flp_run I (flp_reset I) as_ = Some s ->
      ((Z.of_nat (length as_) < q)%Z -> exists a : nat, nth a (f_mask s) false = true) /\
      (forall a : nat, nth a (f_mask s) false = true -> exists s' : flp_st, flp_step I s a = Some s') /\
      f_done s = negb (Nat.eqb (length as_) 0) && (q <=? Z.of_nat (length as_))%Z /\
      ((Z.of_nat (length as_) <= q)%Z ->
       exists (ext : list nat) (s' : flp_st),
         flp_run I (flp_reset I) (as_ ++ ext) = Some s' /\ Z.of_nat (length (as_ ++ ext)) = q /\ f_done s' = true).
Proof. exact GenCompleteGraph.flp_generated_instances_complete. Qed.
Print Assumptions C18_flp_generated_instances_complete.

(* ================================================================ MCP: gen_mcp_wf x mcp_no_dead_end, mcp_progress,
   mcp_done_iff, mcp_episode_completes *)
Theorem C18_mcp_generated_instances_complete :
  forall (n_items : nat) (minw maxw mins maxs : Z) (wu su : list Q) (raw : list (list Z)) (perms : list (list nat)) (q : Z),
    length wu = n_items -> (minw <= maxw)%Z ->
    (forall (row : list Z) (x : Z), In row raw -> In x row -> (1 <= x <= Z.of_nat n_items)%Z) ->
    (1 <= q <= Z.of_nat (length raw))%Z ->
    let I := gen_mcp minw maxw mins maxs wu su raw perms q in
    forall (as_ : list nat) (s : mcp_st),
      mcp_run I (mcp_reset I) as_ = Some s ->
      ((Z.of_nat (length as_) < q)%Z -> exists a : nat, nth a (m_mask s) false = true) /\
      (forall a : nat, nth a (m_mask s) false = true -> exists s' : mcp_st, mcp_step I s a = Some s') /\
      m_done s = negb (Nat.eqb (length as_) 0) && (q <=? Z.of_nat (length as_))%Z /\
      ((Z.of_nat (length as_) <= q)%Z ->
       exists (ext : list nat) (s' : mcp_st),
         mcp_run I (mcp_reset I) (as_ ++ ext) = Some s' /\ Z.of_nat (length (as_ ++ ext)) = q /\ m_done s' = true).
Proof. exact GenCompleteGraph.mcp_generated_instances_complete. Qed.
Print Assumptions C18_mcp_generated_instances_complete.

(* ================================================================ ATSP: the emitted matrix is n x n (with and without
   tmat_class; only the shape of the raw sample array matters) x atsp_no_dead_end, atsp_step_ok, atsp_bound,
   atsp_done_iff.  gen_atsp_inst tmat n S mn mx U = {| agen_n := n; acost := gen_atsp tmat n S mn mx U |}. *)
Theorem C18_atsp_generated_instances_complete :
  forall (tmat : bool) (n : nat) (S mn mx : Z) (U : list (list Z)),
    squareb n U = true -> (1 <= n)%nat ->
    let i := GenCompleteGraph.gen_atsp_inst tmat n S mn mx U in
    ATSPProofs.atsp_wf i /\
    forall acts : list nat,
      EnvSig.adm (E:=ATSP) i acts = true ->
      (EnvSig.done ATSP i (EnvSig.run (E:=ATSP) i acts) = false ->
       anyb (EnvSig.mask ATSP i (EnvSig.run (E:=ATSP) i acts)) = true) /\
      (forall a : nat, EnvSig.offered (E:=ATSP) i (EnvSig.run (E:=ATSP) i acts) a = true ->
                       EnvSig.stepok ATSP i (EnvSig.run (E:=ATSP) i acts) a = true) /\
      (length acts <= n)%nat /\
      (EnvSig.done ATSP i (EnvSig.run (E:=ATSP) i acts) = true <-> length acts = n).
Proof. exact GenCompleteGraph.atsp_generated_instances_complete. Qed.
Print Assumptions C18_atsp_generated_instances_complete.

(* 1 <= n is needed and is NOT among the hypotheses of C18_atsp_gen_wf: with n = 0 they all hold (and so does its
   conclusion), the instance is outside the environment's format and its reset state is a dead end *)
Theorem C18_atsp_generated_bridge_needs_nonempty_refuted :
  exists (n : nat) (S mn mx : Z) (U : list (list Z)),
    squareb n U = true /\ nonnegb U = true /\ (0 <= S)%Z /\ (0 <= mn <= mx)%Z /\
    (let R := gen_atsp true n S mn mx U in
     squareb n R = true /\ nonnegb R = true /\ zero_diagb R = true /\ triangleb R = true) /\
    let i := GenCompleteGraph.gen_atsp_inst true n S mn mx U in
    ATSPProofs.atsp_wfb i = false /\ EnvSig.adm (E:=ATSP) i [] = true /\
    EnvSig.done ATSP i (EnvSig.run (E:=ATSP) i []) = false /\
    anyb (EnvSig.mask ATSP i (EnvSig.run (E:=ATSP) i [])) = false.
Proof. exact GenCompleteGraph.atsp_bridge_needs_nonempty_refuted. Qed.
Print Assumptions C18_atsp_generated_bridge_needs_nonempty_refuted.

(* ================================================================ non-vacuity: raw draws -> emitted instance -> a complete
   mask-confined episode on it (done after the last action, not before) *)
Example C18_compose_nonvacuous_fjsp :
  let i := gen_fjsp [2; 1]%nat 4 2 [1; 2; 1; 2]%nat [[1; 0]; [0; 1]; [0; 1]; [1; 0]]%nat [[3; 4; 5; 6]; [7; 8; 9; 10]]%Z in
  FJSP.proc i = [[0; 4; 5; 0]; [7; 8; 0; 0]]%Z /\ FJSP.wfb i = true /\ FJSP.solvableb i = true /\
  FJSP.admb true i (FJSP.reset i) [2; 3; 1]%nat = true /\
  option_map FJSP.done (FJSP.run true i (FJSP.reset i) [2; 3; 1]%nat) = Some true /\
  option_map FJSP.done (FJSP.run true i (FJSP.reset i) [2; 3]%nat) = Some false.
Proof. vm_compute. repeat split. Qed.
Example C18_compose_nonvacuous_jssp :
  let i := gen_jssp [2; 2]%nat 4 2 [1; 0; 0; 1]%nat [[3; 4; 5; 6]; [7; 8; 9; 10]]%Z in
  FJSP.proc i = [[0; 4; 5; 0]; [7; 0; 0; 10]]%Z /\ FJSP.wfb i = true /\ FJSP.jssp_wfb i = true /\
  FJSP.jssp_admb true i (FJSP.reset i) [1; 2; 1; 2]%nat = true /\
  option_map FJSP.done (FJSP.jssp_run true i (FJSP.reset i) [1; 2; 1; 2]%nat) = Some true /\
  option_map FJSP.done (FJSP.jssp_run true i (FJSP.reset i) [1; 2; 1]%nat) = Some false.
Proof. vm_compute. repeat split. Qed.
(* FFSP: 3 jobs, 2 stages, 2 machines per stage, run times drawn in [1, 4) *)
Example C18_compose_nonvacuous_ffsp :
  let i := {| FFSP.nJ := 3; FFSP.nS := 2; FFSP.nM := 2; FFSP.rt := [[1; 3; 2; 3]; [2; 2; 3; 2]; [1; 2; 1; 3]]%Z;
              FFSP.mtab := [0; 1; 2; 3]%nat; FFSP.flat := true |} in
  let acts := [1; 0; 2; 3; 3; 2; 1; 0]%nat in
  forallb (fun row => (length row =? FFSP.nT i)%nat && forallb (fun d => (1 <=? d)%Z && (d <? 4)%Z) row) (FFSP.rt i) = true /\
  ffsp_mtab_okb i = true /\ FFSP.wfb i = true /\ FFSPBound.Dall i = 3%Z /\
  FFSP.adm i (FFSP.reset i) acts = true /\
  option_map FFSP.done (FFSP.run i (FFSP.reset i) acts) = Some true /\
  option_map FFSP.done (FFSP.run i (FFSP.reset i) (removelast acts)) = Some false.
Proof. vm_compute. repeat split. Qed.
Example C18_compose_nonvacuous_smtwtp :
  let i := gen_smtwtp 3 [5; 2; 3; 1]%Z [7; 1; 2; 3]%Z [9; 2; 1; 2]%Z in
  SMTWTP.wfb i = true /\ SMTWTP.ptime i = [0; 2; 1; 2]%Z /\
  SMTWTP.adm i (SMTWTP.reset i) [2; 3; 1]%nat = true /\
  option_map SMTWTP.done (SMTWTP.run i (SMTWTP.reset i) [2; 3; 1]%nat) = Some true /\
  option_map SMTWTP.done (SMTWTP.run i (SMTWTP.reset i) [2; 3]%nat) = Some false.
Proof. vm_compute. repeat split. Qed.
Example C18_compose_nonvacuous_flp :
  let I := gen_flp 4 [[0; 5; 9; 13]; [5; 0; 4; 8]; [9; 4; 0; 4]; [13; 8; 4; 0]]%Z 99%Z 2%Z in
  flp_wfb I = true /\
  option_map f_done (flp_run I (flp_reset I) [3%nat]) = Some false /\
  option_map f_done (flp_run I (flp_reset I) [3%nat; 1%nat]) = Some true.
Proof. vm_compute. repeat split. Qed.
Example C18_compose_nonvacuous_mcp :
  let I := gen_mcp 1 10 2 4 [(7 # 2); (25 # 2); 4; 5; 6; 7; 8; 9; 1]%Q [(7 # 2); 4; (5 # 2)]%Q
                   [[5; 2; 5; 9]; [1; 1; 3; 4]; [7; 8; 8; 2]]%Z [[3; 1; 0; 2]; [0; 1; 2; 3]; [2; 3; 0; 1]]%nat 2%Z in
  m_mem I = [[5; 2; 0; 0]; [1; 0; 3; 4]; [7; 8; 0; 0]]%Z /\ m_w I = [3; 10; 4; 5; 6; 7; 8; 9; 1]%Z /\
  mcp_wfb I = true /\
  option_map m_done (mcp_run I (mcp_reset I) [2%nat]) = Some false /\
  option_map m_done (mcp_run I (mcp_reset I) [2%nat; 0%nat]) = Some true.
Proof. vm_compute. repeat split. Qed.
Example C18_compose_nonvacuous_atsp :
  let U := [[7; 100; 3]; [50; 2; 60]; [64; 1; 9]]%Z in
  let i := GenCompleteGraph.gen_atsp_inst true 3 128 0 1 U in
  squareb 3 U = true /\ acost i = [[0; 4; 3]; [50; 0; 53]; [51; 1; 0]]%Z /\ ATSPProofs.atsp_wfb i = true /\
  EnvSig.adm (E:=ATSP) i [2; 0; 1]%nat = true /\
  EnvSig.done ATSP i (EnvSig.run (E:=ATSP) i [2; 0; 1]%nat) = true /\
  EnvSig.done ATSP i (EnvSig.run (E:=ATSP) i [2; 0]%nat) = false /\
  acost (GenCompleteGraph.gen_atsp_inst false 3 128 0 1 U) = [[0; 100; 3]; [50; 0; 60]; [64; 1; 0]]%Z /\
  ATSPProofs.atsp_wfb (GenCompleteGraph.gen_atsp_inst false 3 128 0 1 U) = true.
Proof. vm_compute. repeat split. Qed.

(* ================================================================================================================
   PART 3, routing, second batch: TSP, mTSP, PCTSP / SPCTSP, MDCPDP, SDVRP (generator models of Data/GenRouting2.v, which
   emit the env units' own records and state their guarantees in the env units' own predicates: the bridges are direct).
   Proofs: Compose/GenCompleteRouting2.v.  The env modules are only Required: names are written TSP.TSP, MTSP.MTSP, ...
   TSP:    [gen_tsp D], D the n x n symmetric distance table; fixed length: done exactly after n steps, mask empty then.
   mTSP:   [gen_mtsp k D], k = the randint draw of num_agents in [lo, hi], n nodes (depot included), n >= 2; C = any model
           configuration (the cost type min-max / sum does not enter C02).
   PCTSP / SPCTSP: [gen_pctsp S stochastic num_loc maxpen draws D thr], one draw triple (penalty, deterministic prize,
           stochastic factor) per customer; [stochastic] selects the prize vector in use (false = PCTSP, true = SPCTSP).
   MDCPDP: [with_start (gen_mdcpdp num_loc num_depot c D one lw opn mode) k]: num_loc rounded up to even, one capacity
           column c in [lo, hi] with lo >= 1, start depot k < num_depot (0 = start_mode "order", any k = "random");
           the model switch is [repaired] (the running code); C02's statements for this env are about LIVE action lists
           (no proper prefix finished) and say separately what happens after the row has finished (padding).
   SDVRP:  SDVRPEnv uses CVRPGenerator unchanged: [gen_cvrp]. *)
From RL4CO Require Import Data.GenRouting2 Compose.GenCompleteRouting2.
From RL4CO Require Env.TSP Env.TSPProofs Env.MTSP Env.MTSPProofs Env.PCTSP Env.PCTSPProofs Env.MDCPDP Env.MDCPDPDefs
                      Env.MDCPDPProofs Env.SDVRP Env.SDVRPProofs.

(* ================================================================ TSP: gen_tsp_wf x tsp_no_dead_end, tsp_step_ok, tsp_bound,
   tsp_done_iff, tsp_done_stable *)
Theorem C18_tsp_generated_instances_complete :
  forall (n : nat) (D : list (list Z)),
    (1 <= n)%nat -> length D = n -> (forall r, In r D -> length r = n) ->
    (forall a b, (a < n)%nat -> (b < n)%nat -> mget D a b = mget D b a) ->
    let i := gen_tsp D in
    forall acts : list nat, EnvSig.adm (E:=TSP.TSP) i acts = true ->
      (EnvSig.done TSP.TSP i (EnvSig.run (E:=TSP.TSP) i acts) = false ->
       anyb (EnvSig.mask TSP.TSP i (EnvSig.run (E:=TSP.TSP) i acts)) = true) /\
      (forall a, EnvSig.offered (E:=TSP.TSP) i (EnvSig.run (E:=TSP.TSP) i acts) a = true ->
                 EnvSig.stepok TSP.TSP i (EnvSig.run (E:=TSP.TSP) i acts) a = true) /\
      (length acts <= n)%nat /\
      (EnvSig.done TSP.TSP i (EnvSig.run (E:=TSP.TSP) i acts) = true <-> length acts = n) /\
      (forall a, EnvSig.adm (E:=TSP.TSP) i (acts ++ [a]) = true -> EnvSig.done TSP.TSP i (EnvSig.run (E:=TSP.TSP) i acts) = true ->
                 EnvSig.done TSP.TSP i (EnvSig.run (E:=TSP.TSP) i (acts ++ [a])) = true).
Proof. exact gen_tsp_complete. Qed.
Print Assumptions C18_tsp_generated_instances_complete.

(* ================================================================ mTSP: gen_mtsp_wf x mtsp_no_dead_end_b, mtsp_step_ok_b,
   mtsp_bound_b (n - 1 cities plus at most min(k - 1, n - 2) depot returns), mtsp_done_stable_b *)
Theorem C18_mtsp_generated_instances_complete :
  forall (C : MTSP.mtsp_cfg) (lo hi k : Z) (n : nat) (D : list (list Z)),
    1 <= lo -> lo <= k <= hi ->
    (2 <= n)%nat -> length D = n -> (forall r, In r D -> length r = n /\ forall x, In x r -> 0 <= x) ->
    (forall a, (a < n)%nat -> mget D a a = 0) ->
    let i := gen_mtsp k D in
    forall acts : list nat, EnvSig.adm (E:=MTSP.MTSP exact C) i acts = true ->
      anyb (EnvSig.mask (MTSP.MTSP exact C) i (EnvSig.run (E:=MTSP.MTSP exact C) i acts)) = true /\
      (forall a, EnvSig.offered (E:=MTSP.MTSP exact C) i (EnvSig.run (E:=MTSP.MTSP exact C) i acts) a = true ->
                 EnvSig.stepok (MTSP.MTSP exact C) i (EnvSig.run (E:=MTSP.MTSP exact C) i acts) a = true) /\
      ((forall p q, acts = p ++ q -> q <> [] ->
          EnvSig.done (MTSP.MTSP exact C) i (EnvSig.run (E:=MTSP.MTSP exact C) i p) = false) ->
       (length acts <= (n - 1) + Nat.min (Z.to_nat (k - 1)) (n - 2))%nat) /\
      (forall a, EnvSig.adm (E:=MTSP.MTSP exact C) i (acts ++ [a]) = true ->
                 EnvSig.done (MTSP.MTSP exact C) i (EnvSig.run (E:=MTSP.MTSP exact C) i acts) = true ->
                 EnvSig.done (MTSP.MTSP exact C) i (EnvSig.run (E:=MTSP.MTSP exact C) i (acts ++ [a])) = true).
Proof. exact gen_mtsp_complete. Qed.
Print Assumptions C18_mtsp_generated_instances_complete.

(* ================================================================ PCTSP and SPCTSP: gen_pctsp_wf x pctsp_no_dead_end,
   pctsp_step_ok, pctsp_bound, pctsp_done_stable (one model; stochastic = false is PCTSP, true is SPCTSP) *)
Theorem C18_pctsp_generated_instances_complete :
  forall (S : Z) (stochastic : bool) (num_loc : Z) (maxpen : Q) (draws : list (Q * Q * Q)) (D : list (list Z)) (thr : Z),
    0 < S -> 1 <= num_loc -> (0 <= maxpen)%Q -> draws <> [] ->
    (forall rp rd rs, In (rp, rd, rs) draws ->
       (0 <= rp)%Q /\ (rp < 1)%Q /\ (0 <= rd)%Q /\ (rd < 1)%Q /\ (0 <= rs)%Q /\ (rs < 1)%Q) ->
    let i := gen_pctsp S stochastic num_loc maxpen draws D thr in
    forall acts : list nat, EnvSig.adm (E:=PCTSP.PCTSP exact) i acts = true ->
      anyb (EnvSig.mask (PCTSP.PCTSP exact) i (EnvSig.run (E:=PCTSP.PCTSP exact) i acts)) = true /\
      (forall a, EnvSig.offered (E:=PCTSP.PCTSP exact) i (EnvSig.run (E:=PCTSP.PCTSP exact) i acts) a = true ->
                 EnvSig.stepok (PCTSP.PCTSP exact) i (EnvSig.run (E:=PCTSP.PCTSP exact) i acts) a = true) /\
      ((forall p q, acts = p ++ q -> q <> [] ->
          EnvSig.done (PCTSP.PCTSP exact) i (EnvSig.run (E:=PCTSP.PCTSP exact) i p) = false) ->
       (length acts <= length draws + 1)%nat) /\
      (forall a, EnvSig.adm (E:=PCTSP.PCTSP exact) i (acts ++ [a]) = true ->
                 EnvSig.done (PCTSP.PCTSP exact) i (EnvSig.run (E:=PCTSP.PCTSP exact) i acts) = true ->
                 EnvSig.done (PCTSP.PCTSP exact) i (EnvSig.run (E:=PCTSP.PCTSP exact) i (acts ++ [a])) = true).
Proof. exact gen_pctsp_complete. Qed.
Print Assumptions C18_pctsp_generated_instances_complete.

Theorem C18_spctsp_generated_instances_complete :
  forall (S : Z) (num_loc : Z) (maxpen : Q) (draws : list (Q * Q * Q)) (D : list (list Z)) (thr : Z),
    0 < S -> 1 <= num_loc -> (0 <= maxpen)%Q -> draws <> [] ->
    (forall rp rd rs, In (rp, rd, rs) draws ->
       (0 <= rp)%Q /\ (rp < 1)%Q /\ (0 <= rd)%Q /\ (rd < 1)%Q /\ (0 <= rs)%Q /\ (rs < 1)%Q) ->
    let i := gen_pctsp S true num_loc maxpen draws D thr in
    forall acts : list nat, EnvSig.adm (E:=PCTSP.PCTSP exact) i acts = true ->
      anyb (EnvSig.mask (PCTSP.PCTSP exact) i (EnvSig.run (E:=PCTSP.PCTSP exact) i acts)) = true /\
      (forall a, EnvSig.offered (E:=PCTSP.PCTSP exact) i (EnvSig.run (E:=PCTSP.PCTSP exact) i acts) a = true ->
                 EnvSig.stepok (PCTSP.PCTSP exact) i (EnvSig.run (E:=PCTSP.PCTSP exact) i acts) a = true) /\
      ((forall p q, acts = p ++ q -> q <> [] ->
          EnvSig.done (PCTSP.PCTSP exact) i (EnvSig.run (E:=PCTSP.PCTSP exact) i p) = false) ->
       (length acts <= length draws + 1)%nat) /\
      (forall a, EnvSig.adm (E:=PCTSP.PCTSP exact) i (acts ++ [a]) = true ->
                 EnvSig.done (PCTSP.PCTSP exact) i (EnvSig.run (E:=PCTSP.PCTSP exact) i acts) = true ->
                 EnvSig.done (PCTSP.PCTSP exact) i (EnvSig.run (E:=PCTSP.PCTSP exact) i (acts ++ [a])) = true).
Proof. exact gen_spctsp_complete. Qed.
Print Assumptions C18_spctsp_generated_instances_complete.

(* ================================================================ MDCPDP: gen_mdcpdp_wf x md_no_dead_end, md_step_ok,
   md_bound_ok, md_padding at the repaired code, any start depot *)
Theorem C18_mdcpdp_generated_instances_complete :
  forall (num_loc num_depot : nat) (lo hi c : Z) (D : list (list Z)) (one lw : Z) (opn : bool) (mode k : nat),
    (1 <= num_depot)%nat -> 1 <= lo -> lo <= c <= hi ->
    let N := (num_depot + even_num_loc num_loc)%nat in
    length D = N -> (forall r, In r D -> length r = N /\ forall x, In x r -> 0 <= x) -> (forall a, (a < N)%nat -> mget D a a = 0) ->
    0 < one -> 0 <= lw <= one ->
    (k < num_depot)%nat ->
    let i := MDCPDPProofs.with_start (gen_mdcpdp num_loc num_depot c D one lw opn mode) k in
    let E := MDCPDP.MDCPDP exact MDCPDP.repaired in
    MDCPDPDefs.md_wfb i = true /\ MDCPDPDefs.md_solvableb i = true /\
    forall acts : list nat, EnvSig.adm (E:=E) i acts = true ->
      (forall p q, acts = p ++ q -> q <> [] -> EnvSig.done E i (EnvSig.run (E:=E) i p) = false) ->
      anyb (EnvSig.mask E i (EnvSig.run (E:=E) i acts)) = true /\
      (forall p a, acts = p ++ [a] -> EnvSig.stepok E i (EnvSig.run (E:=E) i p) a = true) /\
      (length acts <= even_num_loc num_loc + 2 * num_depot - 1)%nat /\
      (EnvSig.done E i (EnvSig.run (E:=E) i acts) = true ->
       forall m : nat,
         let e := MDCPDP.depot (EnvSig.run (E:=E) i acts) in
         EnvSig.adm (E:=E) i (acts ++ repeat e m) = true /\
         EnvSig.done E i (EnvSig.run (E:=E) i (acts ++ repeat e m)) = true /\
         EnvSig.mask E i (EnvSig.run (E:=E) i (acts ++ repeat e m)) = map (fun j => Nat.eqb j e) (seq 0 N)).
Proof. exact gen_mdcpdp_complete. Qed.
Print Assumptions C18_mdcpdp_generated_instances_complete.

(* ================================================================ SDVRP: gen_sdvrp_wf x sdvrp_no_dead_end, sdvrp_step_ok,
   sdvrp_bound (n customers, ceil(total demand / capacity) vehicle loads), sdvrp_done_stable *)
Theorem C18_sdvrp_generated_instances_complete :
  forall (num_loc : Z) (override : option Z) (lo hi : Z) (us : list Q) (D : list (list Z)),
    1 <= lo <= hi - 1 ->
    (forall u, In u us -> (inject_Z (lo - 1) <= u)%Q /\ (u < inject_Z (hi - 1))%Q) ->
    hi - 1 <= cvrp_capacity override num_loc ->
    let capz := cvrp_capacity override num_loc in
    let i := gen_cvrp capz us D in
    forall acts : list nat, EnvSig.adm (E:=SDVRP.SDVRP exact) i acts = true ->
      anyb (EnvSig.mask (SDVRP.SDVRP exact) i (EnvSig.run (E:=SDVRP.SDVRP exact) i acts)) = true /\
      (forall a, EnvSig.offered (E:=SDVRP.SDVRP exact) i (EnvSig.run (E:=SDVRP.SDVRP exact) i acts) a = true ->
                 EnvSig.stepok (SDVRP.SDVRP exact) i (EnvSig.run (E:=SDVRP.SDVRP exact) i acts) a = true) /\
      ((forall p q, acts = p ++ q -> q <> [] ->
          EnvSig.done (SDVRP.SDVRP exact) i (EnvSig.run (E:=SDVRP.SDVRP exact) i p) = false) ->
       (length acts <= Nat.max 1 (2 * (length us + Z.to_nat ((sumZ (map demand_int us) + capz - 1) / capz)) - 3))%nat) /\
      (forall a, EnvSig.adm (E:=SDVRP.SDVRP exact) i (acts ++ [a]) = true ->
                 EnvSig.done (SDVRP.SDVRP exact) i (EnvSig.run (E:=SDVRP.SDVRP exact) i acts) = true ->
                 EnvSig.done (SDVRP.SDVRP exact) i (EnvSig.run (E:=SDVRP.SDVRP exact) i (acts ++ [a])) = true).
Proof. exact gen_sdvrp_complete. Qed.
Print Assumptions C18_sdvrp_generated_instances_complete.

(* ================================================================ non-vacuity (second batch) *)
Example C18_compose_nonvacuous_tsp :
  let D := [[0; 3; 4]; [3; 0; 5]; [4; 5; 0]]%Z in
  TSPProofs.tsp_wfb (gen_tsp D) = true /\ EnvSig.adm (E:=TSP.TSP) (gen_tsp D) [1; 2; 0]%nat = true /\
  EnvSig.done TSP.TSP (gen_tsp D) (EnvSig.run (E:=TSP.TSP) (gen_tsp D) [1; 2; 0]%nat) = true /\
  EnvSig.done TSP.TSP (gen_tsp D) (EnvSig.run (E:=TSP.TSP) (gen_tsp D) [1; 2]%nat) = false.
Proof. exact gen_tsp_complete_ex. Qed.
Example C18_compose_nonvacuous_mtsp :
  let i := gen_mtsp 2 [[0;1;1;1];[1;0;1;1];[1;1;0;1];[1;1;1;0]]%Z in
  MTSPProofs.mtsp_wfb i = true /\ MTSPProofs.mtsp_solvableb i = true /\
  EnvSig.adm (E:=MTSP.MTSP exact MTSP.cfg_code) i [1;0;2;3]%nat = true /\
  EnvSig.done (MTSP.MTSP exact MTSP.cfg_code) i (EnvSig.run (E:=MTSP.MTSP exact MTSP.cfg_code) i [1;0;2;3]%nat) = true /\
  EnvSig.done (MTSP.MTSP exact MTSP.cfg_code) i (EnvSig.run (E:=MTSP.MTSP exact MTSP.cfg_code) i [1;0;2]%nat) = false.
Proof. exact gen_mtsp_complete_ex. Qed.
Example C18_compose_nonvacuous_pctsp_spctsp :
  let draws := [((1 # 2), (1 # 2), (3 # 4)); ((1 # 4), (3 # 4), (1 # 4)); ((3 # 4), (1 # 4), (1 # 2))]%Q in
  let i := fun st => gen_pctsp 1024 st 16 (3 # 8) draws [] 1023 in
  PCTSP.dprize (i false) = [128; 192; 64]%Z /\ PCTSP.sprize (i true) = [192; 96; 64]%Z /\ PCTSP.pen (i false) = [192; 96; 288]%Z /\
  PCTSPProofs.pctsp_wfb (i false) = true /\
  EnvSig.adm (E:=PCTSP.PCTSP exact) (i false) [2; 3; 1; 0]%nat = true /\
  EnvSig.done (PCTSP.PCTSP exact) (i false) (EnvSig.run (E:=PCTSP.PCTSP exact) (i false) [2; 3; 1; 0]%nat) = true /\
  EnvSig.done (PCTSP.PCTSP exact) (i false) (EnvSig.run (E:=PCTSP.PCTSP exact) (i false) [2; 3; 1]%nat) = false /\
  EnvSig.adm (E:=PCTSP.PCTSP exact) (i true) [1; 3; 2; 0]%nat = true /\
  EnvSig.done (PCTSP.PCTSP exact) (i true) (EnvSig.run (E:=PCTSP.PCTSP exact) (i true) [1; 3; 2; 0]%nat) = true.
Proof. exact gen_pctsp_complete_ex. Qed.
Example C18_compose_nonvacuous_mdcpdp :
  let D := [[0;1;1;1;1;1]; [1;0;1;1;1;1]; [1;1;0;1;1;1]; [1;1;1;0;1;1]; [1;1;1;1;0;1]; [1;1;1;1;1;0]]%Z in
  let i := MDCPDPProofs.with_start (gen_mdcpdp 3 2 2 D 4 4 false 0) 1 in
  let E := MDCPDP.MDCPDP exact MDCPDP.repaired in
  let acts := [0; 2; 3; 4; 5; 0; 1]%nat in
  even_num_loc 3 = 4%nat /\ MDCPDPDefs.md_wfb i = true /\ MDCPDPDefs.md_solvableb i = true /\
  EnvSig.adm (E:=E) i acts = true /\ EnvSig.done E i (EnvSig.run (E:=E) i acts) = true /\
  EnvSig.done E i (EnvSig.run (E:=E) i (removelast acts)) = false /\
  length acts = (even_num_loc 3 + 2 * 2 - 1)%nat.
Proof. exact gen_mdcpdp_complete_ex. Qed.
Example C18_compose_nonvacuous_sdvrp :
  let i := gen_cvrp (cvrp_capacity (Some 12) 2) [(8 # 1); (17 # 2)]%Q [] in
  CVRP.dem i = [9; 9]%Z /\ CVRP.cap i = 12%Z /\
  EnvSig.adm (E:=SDVRP.SDVRP exact) i [1; 2; 0; 2]%nat = true /\
  EnvSig.done (SDVRP.SDVRP exact) i (EnvSig.run (E:=SDVRP.SDVRP exact) i [1; 2; 0; 2]%nat) = true /\
  EnvSig.done (SDVRP.SDVRP exact) i (EnvSig.run (E:=SDVRP.SDVRP exact) i [1; 2; 0]%nat) = false.
Proof. exact gen_sdvrp_complete_ex. Qed.
