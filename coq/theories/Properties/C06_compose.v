(* C06 (unit compose) -- C01 x C06: every complete episode made through the mask is accepted by the (model of the)
   shipped solution checker, for the routing envs whose own units state mask soundness (C01) and checker completeness
   (C06) but not this corollary: CVRP, CVRPTW, TSP, ATSP, PDP, MTVRP (OP, PCTSP, SPCTSP, SDVRP, SVRP state it in their
   own C06 files).  Only statements closed by [exact] and their Print Assumptions; proofs in
   Compose/CheckerAcceptsMaskMade.v: [<env>_mask_sound] followed by [<env>_checker_complete].

   Reading guide.  [adm (E:=Env) i acts = true] = every action of [acts] lies inside the mask of the state it is taken in
   (from reset); [done Env i (run (E:=Env) i acts) = true] = the row reports done after them; [<env>_checker ... i acts]
   = the model of check_solution_validity on the action list ([exact] = exact arithmetic).  Hypotheses are exactly the
   union of those of the C01 and C06 theorems of the env:
   CVRP    cvrp_wf (non-negative demands and capacity), checker tolerance >= 0;
   CVRPTW  cvrptw_wf, strict windows lo < hi and symmetric depot legs (generator format; the checker asserts lo < hi),
           the return bound hi j + dur j + d(j,0) <= hi 0, tolerance >= 0, and the depot deadline the checker reads is
           the row's own: always so for the repaired checker (fx = true); for the checker as coded (fx = false) this is
           hz0 i = hi i 0 (batch row 0 has the same depot deadline) -- otherwise it REJECTS mask-made episodes;
   TSP / ATSP / PDP  the env's format (PDP: both values of force_start_at_depot, inside [pdp_inst]);
   MTVRP   mtvrp_wfb, the checker's own instance asserts [data_ok], and for open routes
           hi x + service x + t(x,0) <= hi 0 -- otherwise the checker REJECTS mask-made episodes.  R = true the mask as it
           is, R = false the former strict one.
   Env.MTVRP is only Required (its names clash with CVRP / CVRPTW): MTVRP.x, MTVRPProofs.x. *)
From Coq Require Import ZArith List Bool.
From RL4CO Require Import Base.Num Base.EnvSig Spec.Routes Spec.Tours Spec.TimeWindows Env.TourCore.
From RL4CO Require Import Env.TSP Env.TSPProofs Env.ATSP Env.ATSPProofs Env.PDP Env.PDPProofs.
From RL4CO Require Import Env.CVRP Env.CVRPProofs Env.CVRPTW Env.CVRPTWProofs.
From RL4CO Require Env.MTVRP Env.MTVRPProofs Compose.CheckerAcceptsMaskMade.
Import ListNotations.
Open Scope Z_scope.

(* ================================================================ CVRP *)
Theorem C06_cvrp_checker_accepts_mask_made :
  forall (i : cvrp_inst) (acts : list nat),
    cvrp_wf i -> 0 <= tol i ->
    adm (E:=CVRP exact) i acts = true -> done (CVRP exact) i (run (E:=CVRP exact) i acts) = true ->
    cvrp_checker exact i acts = true.
Proof. exact CheckerAcceptsMaskMade.cvrp_checker_accepts_mask_made. Qed.
Print Assumptions C06_cvrp_checker_accepts_mask_made.

(* ================================================================ CVRPTW *)
(* both checkers (fx = false as coded, fx = true repaired), when the depot deadline the checker reads is the row's own *)
Theorem C06_cvrptw_checker_accepts_mask_made :
  forall (fx : bool) (i : cvrptw_inst) (acts : list nat),
    cvrptw_wf i ->
    ((forall j, (j <= tn_of i)%nat -> lo i j < hi i j) /\ (forall j, (j <= tn_of i)%nat -> dd i 0 j = dd i j 0)) ->
    (forall j, (j <= tn_of i)%nat -> hi i j + du i j + dd i j 0 <= hi i 0) ->
    (if fx then hi i 0 else hz0 i) = hi i 0 ->
    0 <= tol (base i) ->
    adm (E:=CVRPTW exact) i acts = true -> done (CVRPTW exact) i (run (E:=CVRPTW exact) i acts) = true ->
    cvrptw_checker exact fx i acts = true.
Proof. exact CheckerAcceptsMaskMade.cvrptw_checker_accepts_mask_made. Qed.
Print Assumptions C06_cvrptw_checker_accepts_mask_made.

(* the repaired checker: no hypothesis on the horizon *)
Theorem C06_cvrptw_fixed_checker_accepts_mask_made :
  forall (i : cvrptw_inst) (acts : list nat),
    cvrptw_wf i ->
    ((forall j, (j <= tn_of i)%nat -> lo i j < hi i j) /\ (forall j, (j <= tn_of i)%nat -> dd i 0 j = dd i j 0)) ->
    (forall j, (j <= tn_of i)%nat -> hi i j + du i j + dd i j 0 <= hi i 0) ->
    0 <= tol (base i) ->
    adm (E:=CVRPTW exact) i acts = true -> done (CVRPTW exact) i (run (E:=CVRPTW exact) i acts) = true ->
    cvrptw_checker exact true i acts = true.
Proof. exact CheckerAcceptsMaskMade.cvrptw_fixed_checker_accepts_mask_made. Qed.
Print Assumptions C06_cvrptw_fixed_checker_accepts_mask_made.

(* the checker as coded REJECTS a complete mask-made episode when batch row 0 has an earlier depot deadline (same
   mechanism as C06_cvrptw_checker_row0_horizon_refuted, here with the episode made through the mask) *)
Theorem C06_cvrptw_checker_rejects_mask_made_row0_refuted :
  exists (i : cvrptw_inst) (acts : list nat),
    cvrptw_wfb i = true /\ cvrptw_strictb i = true /\ cvrptw_returnb i = true /\ 0 <= tol (base i) /\ hz0 i <> hi i 0 /\
    adm (E:=CVRPTW exact) i acts = true /\ done (CVRPTW exact) i (run (E:=CVRPTW exact) i acts) = true /\
    cvrptw_checker exact false i acts = false /\ cvrptw_checker exact true i acts = true.
Proof. exact CheckerAcceptsMaskMade.cvrptw_checker_rejects_mask_made_row0_refuted. Qed.
Print Assumptions C06_cvrptw_checker_rejects_mask_made_row0_refuted.

(* strict windows are needed: with a window lo = hi (inside the env's format, outside the generator's) the mask serves
   the customer exactly on time, the episode is feasible, and both checkers fail their own assert lo < hi *)
Theorem C06_cvrptw_checker_rejects_mask_made_nonstrict_refuted :
  exists (i : cvrptw_inst) (acts : list nat),
    cvrptw_wfb i = true /\ cvrptw_strictb i = false /\ cvrptw_returnb i = true /\ 0 <= tol (base i) /\ hz0 i = hi i 0 /\
    adm (E:=CVRPTW exact) i acts = true /\ done (CVRPTW exact) i (run (E:=CVRPTW exact) i acts) = true /\
    cvrptw_feasibleb i 0 0 acts = true /\
    cvrptw_checker exact false i acts = false /\ cvrptw_checker exact true i acts = false.
Proof. exact CheckerAcceptsMaskMade.cvrptw_checker_rejects_mask_made_nonstrict_refuted. Qed.
Print Assumptions C06_cvrptw_checker_rejects_mask_made_nonstrict_refuted.

(* ================================================================ TSP / ATSP *)
Theorem C06_tsp_checker_accepts_mask_made :
  forall (i : tsp_inst) (acts : list nat),
    tsp_wf i -> adm (E:=TSP) i acts = true -> done TSP i (run (E:=TSP) i acts) = true -> tsp_checker i acts = true.
Proof. exact CheckerAcceptsMaskMade.tsp_checker_accepts_mask_made. Qed.
Print Assumptions C06_tsp_checker_accepts_mask_made.

Theorem C06_atsp_checker_accepts_mask_made :
  forall (i : atsp_inst) (acts : list nat),
    atsp_wf i -> adm (E:=ATSP) i acts = true -> done ATSP i (run (E:=ATSP) i acts) = true -> atsp_checker i acts = true.
Proof. exact CheckerAcceptsMaskMade.atsp_checker_accepts_mask_made. Qed.
Print Assumptions C06_atsp_checker_accepts_mask_made.

(* ================================================================ PDP (force_start_at_depot False and True) *)
Theorem C06_pdp_checker_accepts_mask_made :
  forall (i : pdp_inst) (acts : list nat),
    pdp_wf i -> adm (E:=PDP) i acts = true -> done PDP i (run (E:=PDP) i acts) = true -> pdp_checker i acts = true.
Proof. exact CheckerAcceptsMaskMade.pdp_checker_accepts_mask_made. Qed.
Print Assumptions C06_pdp_checker_accepts_mask_made.

(* ================================================================ MTVRP (all 16 variants = one model) *)
Theorem C06_mtvrp_checker_accepts_mask_made :
  forall (R : bool) (i : MTVRP.mtvrp_inst) (acts : list nat),
    MTVRPProofs.mtvrp_wfb i = true -> MTVRP.data_ok exact i = true ->
    (MTVRP.opn i = false \/
     forall x, (1 <= x <= MTVRP.n_of i)%nat -> MTVRP.hi i x + MTVRP.sv i x + MTVRP.tfun i x 0%nat <= MTVRP.hi i 0%nat) ->
    adm (E:=MTVRP.MTVRP exact R) i acts = true ->
    done (MTVRP.MTVRP exact R) i (run (E:=MTVRP.MTVRP exact R) i acts) = true ->
    MTVRP.mtvrp_checker exact i acts = true.
Proof. exact CheckerAcceptsMaskMade.mtvrp_checker_accepts_mask_made. Qed.
Print Assumptions C06_mtvrp_checker_accepts_mask_made.

(* open routes without the drive-home condition: a complete mask-made episode, feasible by the problem definition, on an
   instance that passes the data asserts, is REJECTED (= C06_mtvrp_checker_open_depot_deadline_refuted, open known finding) *)
Theorem C06_mtvrp_checker_rejects_mask_made_open_refuted :
  exists (i : MTVRP.mtvrp_inst) (acts : list nat),
    MTVRPProofs.mtvrp_wfb i = true /\ MTVRP.data_ok exact i = true /\ MTVRP.opn i = true /\
    adm (E:=MTVRP.MTVRP exact true) i acts = true /\
    done (MTVRP.MTVRP exact true) i (run (E:=MTVRP.MTVRP exact true) i acts) = true /\
    MTVRPProofs.mtvrp_feasibleb i 0 acts = true /\ MTVRP.mtvrp_checker exact i acts = false.
Proof. exact CheckerAcceptsMaskMade.mtvrp_checker_rejects_mask_made_open_refuted. Qed.
Print Assumptions C06_mtvrp_checker_rejects_mask_made_open_refuted.

(* [data_ok] is needed too (not implied by the format): closed routes, depot "service time" beyond the depot deadline
   (the generators emit 0): mask-made, feasible, rejected by the checker's instance-level assert *)
Theorem C06_mtvrp_checker_rejects_mask_made_data_assert_refuted :
  exists (i : MTVRP.mtvrp_inst) (acts : list nat),
    MTVRPProofs.mtvrp_wfb i = true /\ MTVRP.data_ok exact i = false /\ MTVRP.opn i = false /\
    adm (E:=MTVRP.MTVRP exact true) i acts = true /\
    done (MTVRP.MTVRP exact true) i (run (E:=MTVRP.MTVRP exact true) i acts) = true /\
    MTVRPProofs.mtvrp_feasibleb i 0 acts = true /\ MTVRP.mtvrp_checker exact i acts = false.
Proof. exact CheckerAcceptsMaskMade.mtvrp_checker_rejects_mask_made_data_assert_refuted. Qed.
Print Assumptions C06_mtvrp_checker_rejects_mask_made_data_assert_refuted.

(* ================================================================ non-vacuity: instance inside the hypotheses, an admitted
   finished episode, the checker accepts it *)
Example C06_compose_nonvacuous_cvrp :
  let i := {| dem := [3; 4; 5]; cap := 8; dist := []; tol := 0 |} in
  cvrp_wfb i = true /\ adm (E:=CVRP exact) i [1; 3; 0; 2]%nat = true /\
  done (CVRP exact) i (run (E:=CVRP exact) i [1; 3; 0; 2]%nat) = true /\ cvrp_checker exact i [1; 3; 0; 2]%nat = true.
Proof. vm_compute. auto. Qed.
Example C06_compose_nonvacuous_cvrptw :
  let i := {| base := {| dem := [3; 5]; cap := 8; dist := [[0; 3; 4]; [3; 0; 5]; [4; 5; 0]]; tol := 0 |};
              twlo := [0; 0; 8]; twhi := [14; 3; 9]; durs := [0; 1; 1]; tu := 1; hz0 := 14; tsl := 0 |} in
  cvrptw_wfb i = true /\ cvrptw_strictb i = true /\ cvrptw_returnb i = true /\ hz0 i = hi i 0 /\
  adm (E:=CVRPTW exact) i [1; 2; 0]%nat = true /\ done (CVRPTW exact) i (run (E:=CVRPTW exact) i [1; 2; 0]%nat) = true /\
  cvrptw_checker exact false i [1; 2; 0]%nat = true /\ cvrptw_checker exact true i [1; 2; 0]%nat = true.
Proof. vm_compute. repeat split; reflexivity. Qed.
Example C06_compose_nonvacuous_tsp_atsp :
  let i := {| tdist := [[0; 3; 4]; [3; 0; 5]; [4; 5; 0]] |} in
  let k := {| agen_n := 3; acost := [[0; 3; 4]; [7; 0; 5]; [1; 2; 0]] |} in
  tsp_wfb i = true /\ adm (E:=TSP) i [2; 0; 1]%nat = true /\ done TSP i (run (E:=TSP) i [2; 0; 1]%nat) = true /\
  tsp_checker i [2; 0; 1]%nat = true /\
  atsp_wfb k = true /\ adm (E:=ATSP) k [2; 0; 1]%nat = true /\ done ATSP k (run (E:=ATSP) k [2; 0; 1]%nat) = true /\
  atsp_checker k [2; 0; 1]%nat = true.
Proof. vm_compute. repeat split. Qed.
Example C06_compose_nonvacuous_pdp :
  let i := {| pgen_n := 4; pforce := false; pdist := [[0;1;2;3;4]; [1;0;1;2;3]; [2;1;0;1;2]; [3;2;1;0;1]; [4;3;2;1;0]] |} in
  let j := {| pgen_n := 4; pforce := true; pdist := [[0;1;2;3;4]; [1;0;1;2;3]; [2;1;0;1;2]; [3;2;1;0;1]; [4;3;2;1;0]] |} in
  pdp_wfb i = true /\ adm (E:=PDP) i [2; 1; 4; 3]%nat = true /\ done PDP i (run (E:=PDP) i [2; 1; 4; 3]%nat) = true /\
  pdp_checker i [2; 1; 4; 3]%nat = true /\
  pdp_wfb j = true /\ adm (E:=PDP) j [0; 2; 1; 4; 3]%nat = true /\ done PDP j (run (E:=PDP) j [0; 2; 1; 4; 3]%nat) = true /\
  pdp_checker j [0; 2; 1; 4; 3]%nat = true.
Proof. vm_compute. repeat split. Qed.
(* a VRPBLTW instance (backhaul customer 3, limit, windows, closed routes); the episode ends at a customer *)
Example C06_compose_nonvacuous_mtvrp :
  let i := {| MTVRP.dl := [0; 32; 32; 0]; MTVRP.db := [0; 0; 0; 40]; MTVRP.cap := 64; MTVRP.lim := 60; MTVRP.opn := false;
              MTVRP.tlo := [0; 0; 10; 0]; MTVRP.thi := [200; 50; 60; 90]; MTVRP.svc := [0; 2; 2; 2];
              MTVRP.dist := [[0; 5; 9; 16]; [5; 0; 4; 11]; [9; 4; 0; 7]; [16; 11; 7; 0]];
              MTVRP.tt := [[0; 5; 9; 16]; [5; 0; 4; 11]; [9; 4; 0; 7]; [16; 11; 7; 0]] |} in
  MTVRPProofs.mtvrp_wfb i = true /\ MTVRP.data_ok exact i = true /\
  adm (E:=MTVRP.MTVRP exact true) i [1; 2; 0; 3]%nat = true /\
  done (MTVRP.MTVRP exact true) i (run (E:=MTVRP.MTVRP exact true) i [1; 2; 0; 3]%nat) = true /\
  MTVRP.mtvrp_checker exact i [1; 2; 0; 3]%nat = true.
Proof. vm_compute. auto. Qed.
