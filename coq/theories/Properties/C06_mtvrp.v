(* C06 for MTVRP -- check_solution_validity against the problem definition: what it guarantees, what it accepts (for any
   speed since /repo ea27328), and the three places where it still deviates (each with a witness; open known findings).
   Statements only. *)
From Coq Require Import ZArith List Bool.
From RL4CO Require Import Base.Num Base.EnvSig Spec.Routes Spec.VRPFeatures Env.MTVRP Env.MTVRPProofs.
Import ListNotations.
Open Scope Z_scope.

(* COMPLETENESS (any speed: the clock runs on tt = distance / speed).  Every action list that is feasible by the problem definition
   (incl. ones that never return to the depot at the end) is accepted, provided the instance passes the checker's own
   data asserts ([data_ok]: limit, windows, service times >= 0; lo < hi; lo j + t(j,0) + service j <= hi 0 for every
   node, t = distance / speed) and -- for open routes only -- leaves time to drive home after any admissible service
   (hi x + service x + t(x,0) <= hi 0).  Without that last condition the statement is false, see below. *)
Theorem C06_mtvrp_checker_complete :
  forall (i : mtvrp_inst) (acts : list nat),
    mtvrp_wfb i = true -> data_ok exact i = true ->
    (opn i = false \/ forall x, (1 <= x <= n_of i)%nat -> hi i x + sv i x + tfun i x 0%nat <= hi i 0%nat) ->
    mtvrp_feasible i acts -> (n_of i <= length acts)%nat ->
    mtvrp_checker exact i acts = true.
Proof. exact mtvrp_checker_complete. Qed.
Print Assumptions C06_mtvrp_checker_complete.

(* SOUNDNESS (any speed), exact -- this checker uses no tolerance.  Accepted => every customer exactly once, nodes in
   range, delivery and pickup load of EVERY route within the capacity, and for every route that the action list closes
   with a depot visit: length within the limit and all time windows (incl. the depot's, unless open) met.
   Not guaranteed: linehauls before backhauls; the way back of an unclosed last route. *)
Theorem C06_mtvrp_checker_sound :
  forall (i : mtvrp_inst) (acts : list nat),
    mtvrp_wfb i = true -> mtvrp_checker exact i acts = true ->
    (forall j, (1 <= j <= n_of i)%nat -> occ j acts = 1%nat) /\
    (forall a, In a acts -> (a <= n_of i)%nat) /\
    Forall (fun r => load (dlf i) r <= cap i /\ load (dbf i) r <= cap i) (routes acts) /\
    Forall (fun r => route_cost (dfun i) (opn i) r <= lim i /\
                     tw_ok (tfun i) (opn i) (lo i) (hi i) (sv i) 0 0%nat 0 r = true) (removelast (routes acts)).
Proof. exact mtvrp_checker_sound. Qed.
Print Assumptions C06_mtvrp_checker_sound.

(* hence: without backhaul customers, an accepted action list that ends at the depot is a solution of the problem *)
Theorem C06_mtvrp_checker_sound_nobackhaul :
  forall (i : mtvrp_inst) (acts' : list nat),
    mtvrp_wfb i = true -> (forall x, dbf i x = 0) ->
    mtvrp_checker exact i (acts' ++ [0%nat]) = true -> mtvrp_feasible i (acts' ++ [0%nat]).
Proof. exact mtvrp_checker_sound_nobackhaul. Qed.
Print Assumptions C06_mtvrp_checker_sound_nobackhaul.

Theorem C06_mtvrp_checker_rejects_missing :
  forall (i : mtvrp_inst) (acts : list nat) (j : nat),
    (1 <= j <= n_of i)%nat -> ~ In j acts -> mtvrp_checker exact i acts = false.
Proof. exact mtvrp_checker_rejects_missing. Qed.
Print Assumptions C06_mtvrp_checker_rejects_missing.

Theorem C06_mtvrp_checker_rejects_duplicate :
  forall (i : mtvrp_inst) (acts : list nat) (j : nat),
    (1 <= j <= n_of i)%nat -> (2 <= occ j acts)%nat -> mtvrp_checker exact i acts = false.
Proof. exact mtvrp_checker_rejects_duplicate. Qed.
Print Assumptions C06_mtvrp_checker_rejects_duplicate.

Theorem C06_mtvrp_checker_rejects_overload :
  forall (i : mtvrp_inst) (acts : list nat) (r : list nat),
    mtvrp_wfb i = true -> In r (routes acts) ->
    (cap i < load (dlf i) r \/ cap i < load (dbf i) r) -> mtvrp_checker exact i acts = false.
Proof. exact mtvrp_checker_rejects_overload. Qed.
Print Assumptions C06_mtvrp_checker_rejects_overload.

Theorem C06_mtvrp_checker_rejects_overlength :
  forall (i : mtvrp_inst) (acts : list nat) (r : list nat),
    mtvrp_wfb i = true -> In r (removelast (routes acts)) ->
    lim i < route_cost (dfun i) (opn i) r -> mtvrp_checker exact i acts = false.
Proof. exact mtvrp_checker_rejects_overlength. Qed.
Print Assumptions C06_mtvrp_checker_rejects_overlength.

Theorem C06_mtvrp_checker_rejects_late :
  forall (i : mtvrp_inst) (acts : list nat) (r : list nat),
    mtvrp_wfb i = true -> In r (removelast (routes acts)) ->
    tw_ok (tfun i) (opn i) (lo i) (hi i) (sv i) 0 0%nat 0 r = false -> mtvrp_checker exact i acts = false.
Proof. exact mtvrp_checker_rejects_late. Qed.
Print Assumptions C06_mtvrp_checker_rejects_late.

(* ---- the remaining deviations of the checker (open known findings), each with a witness evaluated on the model and
   replayed on the code on every run *)

(* (1) a linehaul customer served after a backhaul customer is accepted *)
Theorem C06_mtvrp_checker_precedence_refuted :
  exists (i : mtvrp_inst) (acts : list nat),
    mtvrp_wfb i = true /\ mtvrp_checker exact i acts = true /\ mtvrp_feasibleb i 0 acts = false /\
    Forall (fun r => prec_ok (dlf i) (dbf i) r = false) (removelast (routes acts)).
Proof. exact mtvrp_checker_precedence_refuted. Qed.
Print Assumptions C06_mtvrp_checker_precedence_refuted.

(* (2) an action list that does not end at the depot is accepted although the way back of its last route breaks the
   distance limit; appending the depot visit makes the checker reject it *)
Theorem C06_mtvrp_checker_final_return_refuted :
  exists (i : mtvrp_inst) (acts : list nat),
    mtvrp_wfb i = true /\ mtvrp_checker exact i acts = true /\ mtvrp_feasibleb i 0 acts = false /\
    mtvrp_checker exact i (acts ++ [0%nat]) = false.
Proof. exact mtvrp_checker_final_return_refuted. Qed.
Print Assumptions C06_mtvrp_checker_final_return_refuted.

(* (3) open routes: a solution made through the mask, feasible by the problem definition, on an instance that passes
   the data asserts, is REJECTED (the depot deadline is tested on the way back that an open route does not drive) *)
Theorem C06_mtvrp_checker_open_depot_deadline_refuted :
  exists (i : mtvrp_inst) (acts : list nat),
    mtvrp_wfb i = true /\ data_ok exact i = true /\
    adm (E:=MTVRP exact true) i acts = true /\ done (MTVRP exact true) i (run (E:=MTVRP exact true) i acts) = true /\
    mtvrp_feasibleb i 0 acts = true /\ mtvrp_checker exact i acts = false.
Proof. exact mtvrp_checker_open_depot_deadline_refuted. Qed.
Print Assumptions C06_mtvrp_checker_open_depot_deadline_refuted.

(* (4) FIXED by /repo ea27328 (recorded as fixed in known_findings.json): the checker's clock used to ignore the speed.
   The two old witnesses now come out as the problem definition says -- instances of the theorems above, which no
   longer assume speed 1: the mask-made feasible solution at speed 2 is accepted, the late visit at speed 1/2 rejected *)
Example C06_mtvrp_checker_respects_speed :
  mtvrp_wfb fast_inst = true /\ adm (E:=MTVRP exact true) fast_inst [1; 0]%nat = true /\
  mtvrp_feasibleb fast_inst 0 [1; 0]%nat = true /\ mtvrp_checker exact fast_inst [1; 0]%nat = true /\
  mtvrp_wfb slow_inst = true /\ mtvrp_feasibleb slow_inst 0 [1; 0]%nat = false /\ mtvrp_checker exact slow_inst [1; 0]%nat = false.
Proof. exact mtvrp_checker_respects_speed. Qed.

Example C06_mtvrp_nonvacuous :
  let i := {| dl := [0; 32; 32; 0]; db := [0; 0; 0; 40]; cap := 64; lim := 60; opn := false;
              tlo := [0; 0; 10; 0]; thi := [200; 50; 60; 90]; svc := [0; 2; 2; 2];
              dist := [[0; 5; 9; 16]; [5; 0; 4; 11]; [9; 4; 0; 7]; [16; 11; 7; 0]];
              tt := [[0; 5; 9; 16]; [5; 0; 4; 11]; [9; 4; 0; 7]; [16; 11; 7; 0]] |} in
  mtvrp_wfb i = true /\ data_ok exact i = true /\ mtvrp_feasibleb i 0 [1; 2; 0; 3; 0]%nat = true /\
  mtvrp_checker exact i [1; 2; 0; 3; 0]%nat = true /\ mtvrp_checker exact i [1; 2; 0; 3]%nat = true /\
  mtvrp_checker exact i [1; 2; 0; 0]%nat = false /\ mtvrp_checker exact i [1; 2; 3; 3; 0]%nat = false.
Proof. vm_compute. repeat split. Qed.

(* FIXED by /repo 004c254 (recorded as fixed in known_findings.json): the instance-level assert used to add the plain
   distance d(j,0).  Speed 2, customer at distance 80 (travel time 40) whose window opens at 40, depot closing at 100: the
   vehicle is back at 80; the assert now computes 40 + 40 <= 100 (it used to compute 40 + 80 > 100 and reject) *)
Example C06_mtvrp_data_assert_respects_speed :
  let i := {| dl := [0; 32]; db := [0; 0]; cap := 64; lim := 100000; opn := false;
              tlo := [0; 40]; thi := [100; 128]; svc := [0; 0];
              dist := [[0; 80]; [80; 0]]; tt := [[0; 40]; [40; 0]] |} in
  mtvrp_wfb i = true /\ data_ok exact i = true /\ adm (E:=MTVRP exact true) i [1; 0]%nat = true /\
  mtvrp_feasibleb i 0 [1; 0]%nat = true /\ mtvrp_checker exact i [1; 0]%nat = true.
Proof. vm_compute. repeat split. Qed.
