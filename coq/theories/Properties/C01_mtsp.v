(* C01 for mTSP -- mask-confined episodes yield feasible solutions. Statements only. *)
From Coq Require Import ZArith List Bool.
From RL4CO Require Import Base.Num Base.EnvSig Spec.Routes Spec.MultiTour Env.MTSP Env.MTSPProofs.
Import ListNotations.
Open Scope Z_scope.

(* For the code as it is and for the repaired code (any configuration C), every instance in the documented format
   (square non-negative distance matrix with zero diagonal, num_agents >= 1) and EVERY action list whose actions each
   lie in the mask of the state they are taken in: once the row reports done, every city 1..n occurs exactly once,
   only existing nodes are used, and the number of NON-EMPTY sub-tours (maximal depot-free segments; each starts and
   ends at the depot by construction) is at most num_agents.  Post-finish padding is included. *)
Theorem C01_mtsp_mask_sound :
  forall (C : mtsp_cfg) (i : mtsp_inst) (acts : list nat),
    mtsp_wfb i = true ->
    adm (E:=MTSP exact C) i acts = true ->
    done (MTSP exact C) i (run (E:=MTSP exact C) i acts) = true ->
    (forall j, (1 <= j <= n_of i)%nat -> occ j acts = 1%nat) /\
    (forall a, In a acts -> (a <= n_of i)%nat) /\
    Z.of_nat (length (filter nonemptyb (routes acts))) <= nag i.
Proof. exact mtsp_mask_sound_b. Qed.
Print Assumptions C01_mtsp_mask_sound.

(* non-vacuity: 4 cities, 2 agents, both used, plus one padding step *)
Example C01_mtsp_nonvacuous :
  let i := {| nag := 2; dist := [[0;1;2;3;4];[1;0;1;2;3];[2;1;0;1;2];[3;2;1;0;1];[4;3;2;1;0]] |} in
  mtsp_wfb i = true /\ adm (E:=MTSP exact cfg_faithful) i [3; 1; 0; 2; 4; 0]%nat = true /\
  done (MTSP exact cfg_faithful) i (run (E:=MTSP exact cfg_faithful) i [3; 1; 0; 2; 4; 0]%nat) = true /\
  length (filter nonemptyb (routes [3; 1; 0; 2; 4; 0]%nat)) = 2%nat.
Proof. vm_compute. auto. Qed.

(* num_agents >= 1 is needed: with 0 agents the mask still walks one tour *)
Example C01_mtsp_needs_one_agent :
  let i := {| nag := 0; dist := [[0; 3]; [3; 0]] |} in
  mtsp_wfb i = false /\ adm (E:=MTSP exact cfg_faithful) i [1%nat] = true /\
  done (MTSP exact cfg_faithful) i (run (E:=MTSP exact cfg_faithful) i [1%nat]) = true /\
  mtsp_feasibleb (n_of i) (nag i) [1%nat] = false.
Proof. exact mtsp_zero_agents_infeasible. Qed.
