(* C07, unit ffsp -- FFSP and SMTWTP yield valid schedules with the reported objective.
   Only statements closed by [exact] and their Print Assumptions.  Models: Env/FFSP.v, Env/SMTWTP.v (one batch
   row, as coded); specification: Spec/FlowShop.v; proofs: Env/FFSPProofs.v.  All statements hold for any
   number of jobs / stages / machines and any mask-confined action list. *)
From Coq Require Import ZArith List Bool Arith Permutation.
From RL4CO Require Import Base.FFSPLists Spec.FlowShop Env.FFSP Env.SMTWTP Env.FFSPProofs Harness.HC07_ffsp.
Import ListNotations.
Open Scope Z_scope.

(* ---------------------------------------------------------------- SMTWTP *)

(* Every mask-confined action list can be executed; the dummy start node 0 is never offered and never scheduled;
   no job is scheduled twice; the episode is done exactly when n actions were taken; a done episode is a
   permutation of the jobs 1..n and its mask is empty. *)
Theorem C07_SMTWTP_perm :
  forall (i : SMTWTP.inst) (acts : list nat),
    SMTWTP.wfb i = true -> SMTWTP.adm i (SMTWTP.reset i) acts = true ->
    exists s, SMTWTP.run i (SMTWTP.reset i) acts = Some s /\
      nth 0 (SMTWTP.mask s) false = false /\
      ~ In 0%nat acts /\ NoDup acts /\
      (SMTWTP.done s = true <-> length acts = SMTWTP.n_job i) /\
      (SMTWTP.done s = true -> Permutation acts (seq 1 (SMTWTP.n_job i))) /\
      (SMTWTP.done s = true -> forall a, nth a (SMTWTP.mask s) false = false).
Proof. exact SMTWTP.SMTWTP_perm. Qed.
Print Assumptions C07_SMTWTP_perm.

Theorem C07_SMTWTP_dummy_never_admitted :
  forall (i : SMTWTP.inst) (acts : list nat),
    SMTWTP.wfb i = true -> SMTWTP.adm i (SMTWTP.reset i) (acts ++ [0%nat]) = false.
Proof. exact SMTWTP.SMTWTP_dummy_never_admitted. Qed.
Print Assumptions C07_SMTWTP_dummy_never_admitted.

(* _get_reward (gather / cumsum / clamp / weight / sum) is minus the total weighted tardiness
   sum_k w(a_k) * max(0, C_k - d(a_k)), C_k = completion time of the k-th processed job; for every action list *)
Theorem C07_SMTWTP_reward :
  forall (i : SMTWTP.inst) (acts : list nat),
    SMTWTP.reward i acts = - SMTWTP.weighted_tardiness i 0 acts.
Proof. exact SMTWTP.SMTWTP_reward. Qed.
Print Assumptions C07_SMTWTP_reward.

(* td["current_time"], the dynamic observation the SMTWTP policy context reads: after any executable action list it is the
   completion time of the scheduled prefix (the sum of the processing times of the jobs taken so far) *)
Theorem C07_SMTWTP_clock_is_completion_time :
  forall (i : SMTWTP.inst) (acts : list nat) (s s' : SMTWTP.st),
    SMTWTP.run i s acts = Some s' ->
    SMTWTP.cur_time s' = SMTWTP.cur_time s + sumZ (SMTWTP.gather (SMTWTP.ptime i) acts).
Proof. exact SMTWTP.run_time. Qed.
Print Assumptions C07_SMTWTP_clock_is_completion_time.

(* ---------------------------------------------------------------- FFSP *)

(* Any mask-confined episode (wait actions included) can be executed, and once the row is done its schedule table
   is a valid flexible-flow-shop schedule: every job is processed exactly once in every stage, on a machine of
   that stage, for its processing time on that machine (completion = start + pt), a later stage starts after
   the earlier one has finished, no machine processes two jobs at once; and minus the stored reward is the
   makespan (the latest completion time). *)
Theorem C07_FFSP_valid :
  forall (i : FFSP.inst) (acts : list nat),
    FFSP.wfb i = true -> FFSP.adm i (FFSP.reset i) acts = true ->
    exists s, FFSP.run i (FFSP.reset i) acts = Some s /\
      (FFSP.done s = true ->
         FlowShop.valid (FFSP.nJ i) (FFSP.nS i) (FFSP.nM i) (FFSP.pt i) (FFSP.schedule_of i s) /\
         FlowShop.is_makespan (FFSP.nJ i) (FFSP.nS i) (FFSP.nM i) (FFSP.pt i) (FFSP.schedule_of i s)
                              (- FFSP.reward_of i s)).
Proof. exact FFSPProofs.FFSP_valid. Qed.
Print Assumptions C07_FFSP_valid.

(* admitted steps never index out of range, and the _move_to_next_machine loop terminates within the fuel *)
Theorem C07_FFSP_step_total :
  forall (i : FFSP.inst) (acts : list nat) (a : nat),
    FFSP.wfb i = true -> FFSP.adm i (FFSP.reset i) acts = true ->
    exists s, FFSP.run i (FFSP.reset i) acts = Some s /\
      (nth a (FFSP.mask s) false = true -> exists s', FFSP.step i s a = Some s').
Proof. exact FFSPProofs.FFSP_step_total. Qed.
Print Assumptions C07_FFSP_step_total.

(* no dead ends: an unfinished row is always offered a real job, a finished row exactly the wait action *)
Theorem C07_FFSP_no_dead_end :
  forall (i : FFSP.inst) (acts : list nat),
    FFSP.wfb i = true -> FFSP.adm i (FFSP.reset i) acts = true ->
    exists s, FFSP.run i (FFSP.reset i) acts = Some s /\
      (FFSP.done s = false -> exists j, (j < FFSP.nJ i)%nat /\ nth j (FFSP.mask s) false = true) /\
      (FFSP.done s = true -> nth (FFSP.nJ i) (FFSP.mask s) false = true /\
                             forall j, (j < FFSP.nJ i)%nat -> nth j (FFSP.mask s) false = false).
Proof. exact FFSPProofs.FFSP_no_dead_end. Qed.
Print Assumptions C07_FFSP_no_dead_end.

(* a finished row padded with further (wait) actions stays finished and keeps its schedule and reward *)
Theorem C07_FFSP_done_frozen :
  forall (i : FFSP.inst) (acts : list nat) (a : nat),
    FFSP.wfb i = true -> FFSP.adm i (FFSP.reset i) (acts ++ [a]) = true ->
    forall s, FFSP.run i (FFSP.reset i) acts = Some s -> FFSP.done s = true ->
    a = FFSP.nJ i /\ exists s', FFSP.step i s a = Some s' /\ FFSP.done s' = true /\
       FFSP.schedule_of i s' = FFSP.schedule_of i s /\ FFSP.reward_of i s' = FFSP.reward_of i s.
Proof. exact FFSPProofs.done_frozen. Qed.
Print Assumptions C07_FFSP_done_frozen.

(* the duration bound in wfb is needed: a duration >= 999999 on a machine the job never visits beats the true
   makespan in the code's maximum (true makespan 1, stored reward -1000001) *)
Theorem C07_FFSP_reward_needs_duration_bound :
  FFSP.adm FFSPProofs.big_i (FFSP.reset FFSPProofs.big_i) [0%nat] = true /\
  exists s, FFSP.run FFSPProofs.big_i (FFSP.reset FFSPProofs.big_i) [0%nat] = Some s /\ FFSP.done s = true /\
    FFSP.schedule_of FFSPProofs.big_i s = [[Some 0]; [None]] /\ FFSP.reward_of FFSPProofs.big_i s = - 1000001 /\
    FlowShop.is_makespan 1 1 2 (FFSP.pt FFSPProofs.big_i) (FFSP.schedule_of FFSPProofs.big_i s) 1.
Proof. exact FFSPProofs.reward_needs_duration_bound. Qed.
Print Assumptions C07_FFSP_reward_needs_duration_bound.

(* ---------------------------------------------------------------- the evaluators used on implementation outputs *)
Theorem C07_flowshop_validb_sound :
  forall (J S M : nat) (pt : nat -> nat -> Z) (sch : FlowShop.sched),
    FlowShop.validb J S M pt sch = true -> FlowShop.valid J S M pt sch.
Proof. exact FlowShop.validb_sound. Qed.
Print Assumptions C07_flowshop_validb_sound.

Theorem C07_flowshop_makespanb_sound :
  forall (J S M : nat) (pt : nat -> nat -> Z) (sch : FlowShop.sched) (C : Z),
    FlowShop.is_makespanb J S M pt sch C = true -> FlowShop.is_makespan J S M pt sch C.
Proof. exact FlowShop.is_makespanb_sound. Qed.
Print Assumptions C07_flowshop_makespanb_sound.

Theorem C07_smtwtp_permb_sound :
  forall (n : nat) (acts : list nat), HC07F.permb n acts = true -> Permutation acts (seq 1 n).
Proof. exact HC07F.permb_sound. Qed.
Print Assumptions C07_smtwtp_permb_sound.

(* ---------------------------------------------------------------- non-vacuity *)
Example C07_FFSP_nonvacuous :
  FFSP.wfb FFSP.ex_i = true /\ FFSP.adm FFSP.ex_i (FFSP.reset FFSP.ex_i) FFSP.ex_acts = true /\
  exists s, FFSP.run FFSP.ex_i (FFSP.reset FFSP.ex_i) FFSP.ex_acts = Some s /\ FFSP.done s = true.
Proof. exact FFSPProofs.FFSP_valid_nonvacuous. Qed.

Example C07_SMTWTP_nonvacuous :
  SMTWTP.wfb SMTWTP.ex_i = true /\ SMTWTP.adm SMTWTP.ex_i (SMTWTP.reset SMTWTP.ex_i) [2%nat; 3%nat; 1%nat] = true /\
  SMTWTP.reward SMTWTP.ex_i [2%nat; 3%nat; 1%nat] = -9.
Proof. exact SMTWTP.ex_adm. Qed.
