(* C02 for ATSP -- no dead ends, step bound, done exactly at step n, all rows of a batch finish together.
   ATSP is a fixed-length environment: its mask is EMPTY once the row is done (there is no padding action), so
   "finished rows stay steppable" takes the batch-level form: all rows finish at the same step. Statements only. *)
From Coq Require Import ZArith List Bool.
From RL4CO Require Import Base.Num Base.EnvSig Spec.Tours Env.TourCore Env.FixedLenLoop Env.ATSP Env.ATSPProofs.
Import ListNotations.
Open Scope Z_scope.

(* an unfinished row reached through offered actions is offered at least one action *)
Theorem C02_atsp_no_dead_end :
  forall (i : atsp_inst) (acts : list nat),
    atsp_wf i -> adm (E:=ATSP) i acts = true -> done ATSP i (run (E:=ATSP) i acts) = false ->
    anyb (mask ATSP i (run (E:=ATSP) i acts)) = true.
Proof. exact atsp_no_dead_end. Qed.
Print Assumptions C02_atsp_no_dead_end.

(* every admitted action list has at most n actions *)
Theorem C02_atsp_bound :
  forall (i : atsp_inst) (acts : list nat), adm (E:=ATSP) i acts = true -> (length acts <= atsp_n i)%nat.
Proof. exact atsp_bound. Qed.
Print Assumptions C02_atsp_bound.

(* the row is done exactly when n admitted actions have been taken *)
Theorem C02_atsp_done_exactly_at_n :
  forall (i : atsp_inst) (acts : list nat),
    (1 <= atsp_n i)%nat -> adm (E:=ATSP) i acts = true ->
    (done ATSP i (run (E:=ATSP) i acts) = true <-> length acts = atsp_n i).
Proof. exact atsp_done_iff. Qed.
Print Assumptions C02_atsp_done_exactly_at_n.

(* offered actions never index outside the tensors *)
Theorem C02_atsp_step_ok :
  forall (i : atsp_inst) (acts : list nat) (a : nat),
    adm (E:=ATSP) i acts = true -> offered (E:=ATSP) i (run (E:=ATSP) i acts) a = true ->
    stepok ATSP i (run (E:=ATSP) i acts) a = true.
Proof. exact atsp_step_ok. Qed.
Print Assumptions C02_atsp_step_ok.

(* a finished row offers nothing ... *)
Theorem C02_atsp_done_mask_empty :
  forall (i : atsp_inst) (acts : list nat) (a : nat),
    atsp_wf i -> adm (E:=ATSP) i acts = true -> done ATSP i (run (E:=ATSP) i acts) = true ->
    offered (E:=ATSP) i (run (E:=ATSP) i acts) a = false.
Proof. exact atsp_done_mask_empty. Qed.
Print Assumptions C02_atsp_done_mask_empty.

(* ... so "finished stays finished" holds vacuously ... *)
Theorem C02_atsp_done_stable :
  forall (i : atsp_inst) (acts : list nat) (a : nat),
    atsp_wf i -> adm (E:=ATSP) i (acts ++ [a]) = true -> done ATSP i (run (E:=ATSP) i acts) = true ->
    done ATSP i (run (E:=ATSP) i (acts ++ [a])) = true.
Proof. exact atsp_done_stable. Qed.
Print Assumptions C02_atsp_done_stable.

(* ... and what the decoding loop relies on is the batch-level fact: the rows of a batch have the same number n of
   cities and after t loop iterations each has taken t admitted actions; then t <= n, while t < n NO row is done and
   every row has a non-empty mask, and at t = n EVERY row is done (no row idles while another one runs) *)
Theorem C02_atsp_batch_lockstep :
  forall (n t : nat) (rows : list (atsp_inst * list nat)),
    (forall r, In r rows -> atsp_wf (fst r) /\ atsp_n (fst r) = n /\ length (snd r) = t /\ adm (E:=ATSP) (fst r) (snd r) = true) ->
    rows <> [] ->
    (t <= n)%nat /\
    ((t < n)%nat -> forall r, In r rows -> done ATSP (fst r) (run (E:=ATSP) (fst r) (snd r)) = false /\
                                           anyb (mask ATSP (fst r) (run (E:=ATSP) (fst r) (snd r))) = true) /\
    (t = n -> forall r, In r rows -> done ATSP (fst r) (run (E:=ATSP) (fst r) (snd r)) = true).
Proof. exact atsp_batch_lockstep. Qed.
Print Assumptions C02_atsp_batch_lockstep.

(* the batched decoding loop `while not done.all(): act; step` (Env/FixedLenLoop.v: [loop] returns Some t when it leaves
   normally after t iterations, None when the fuel -- the safety cap -- runs out or a row with an all-False mask is
   met while the loop is running): from reset, for ANY non-empty batch of well-formed instances with the same step
   bound B and ANY policy that picks an offered action whenever one is offered, the loop ends after exactly B
   iterations, for every cap >= B *)
Theorem C02_atsp_rollout_terminates :
  forall (choose : nat -> atsp_inst * atsp_st -> nat),
    (forall t i s, anyb (mask ATSP i s) = true -> offered (E:=ATSP) i s (choose t (i, s)) = true) ->
    forall (insts : list atsp_inst) (B extra : nat),
      insts <> [] -> (forall i, In i insts -> atsp_wf i /\ atsp_n i = B) ->
      loop ATSP choose (B + extra) (map (fun i => (i, reset ATSP i)) insts) 0 = Some B.
Proof. exact atsp_rollout_terminates. Qed.
Print Assumptions C02_atsp_rollout_terminates.

Example C02_atsp_nonvacuous :
  let i := {| agen_n := 3; acost := [[0; 3; 4]; [7; 0; 5]; [1; 2; 0]] |} in
  atsp_wfb i = true /\ adm (E:=ATSP) i [2; 0]%nat = true /\ done ATSP i (run (E:=ATSP) i [2; 0]%nat) = false /\
  mask ATSP i (run (E:=ATSP) i [2; 0]%nat) = [false; true; false] /\
  mask ATSP i (run (E:=ATSP) i [2; 0; 1]%nat) = [false; false; false].
Proof. vm_compute. auto. Qed.
