(* C04 for SVRPEnv -- post-finish padding (the row-wise half of C04; the batched half is differential).
   For the code as it is padding is inert only while the total number of depot visits stays below the number of
   technicians; beyond that the step raises (refutation below).  Full strength for the repaired behaviour. *)
From Coq Require Import ZArith List Bool.
From RL4CO Require Import Base.Num Base.EnvSig Spec.Routes Env.SVRP Env.SVRPProofs.
Import ListNotations.
Open Scope Z_scope.

Theorem C04_svrp_padding_inert :
  forall (fx : bool) (i : svrp_inst) (acts : list nat) (k : nat),
    svrp_wf i -> adm (E:=SVRP fx) i acts = true -> done (SVRP fx) i (run (E:=SVRP fx) i acts) = true ->
    (fx = true \/ (occ 0 acts + k < sm_of i)%nat) ->
    let pad := repeat 0%nat k in
    adm (E:=SVRP fx) i (acts ++ pad) = true /\
    done (SVRP fx) i (run (E:=SVRP fx) i (acts ++ pad)) = true /\
    mask (SVRP fx) i (run (E:=SVRP fx) i (acts ++ pad)) = true :: repeat false (sn_of i) /\
    (sdfun i 0%nat 0%nat = 0 -> svrp_reward fx i (acts ++ pad) = svrp_reward fx i acts).
Proof. exact svrp_padding_inert. Qed.
Print Assumptions C04_svrp_padding_inert.

(* the code as it is: the padding step offered to a finished row raises *)
Theorem C04_svrp_padding_raises_refuted :
  exists i acts a, svrp_wfb i = true /\ svrp_solvableb i = true /\
    adm (E:=SVRP false) i acts = true /\ done (SVRP false) i (run (E:=SVRP false) i acts) = true /\
    offered (E:=SVRP false) i (run (E:=SVRP false) i acts) a = true /\
    stepok (SVRP false) i (run (E:=SVRP false) i acts) a = false.
Proof. exact svrp_step_ok_refuted. Qed.
Print Assumptions C04_svrp_padding_raises_refuted.

Example C04_svrp_nonvacuous :
  let i := {| techs := [2; 5; 9]; skills := [2; 2]; tcosts := [1; 2; 3]; sdist := [[0; 3; 4]; [3; 0; 5]; [4; 5; 0]] |} in
  adm (E:=SVRP false) i [1; 2; 0; 0]%nat = true /\ svrp_reward false i [1; 2; 0; 0]%nat = svrp_reward false i [1; 2; 0]%nat /\
  adm (E:=SVRP true) i [1; 2; 0; 0; 0; 0; 0]%nat = true /\ svrp_reward true i [1; 2; 0; 0; 0; 0; 0]%nat = svrp_reward true i [1; 2; 0]%nat.
Proof. vm_compute. repeat split; reflexivity. Qed.
