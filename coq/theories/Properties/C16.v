(* C16 -- training losses are the stated policy-gradient surrogates, with their gradients.
   Only statements closed by [exact] and their Print Assumptions.

   Vocabulary (Train/Dual.v, Train/Loss*.v).  K : any ordered field.  TM : any tangent space over K (K itself = one
   formal network param; lists over K = any finite number of them).  A dual number [mkD v t] is a value v with
   the tangent t = vector of its partial derivatives w.r.t. the formal params; [dv]/[dt] project; [is_const x]
   means dt x = 0; [detach] zeroes the tangent.  Tensors are lists of dual numbers, one entry per batch row.
   [calculate_loss], [ema_eval_d], [critic_eval], [warmup_eval_d], [pomo_step], [symnco_step], [ppo_loss] mirror
   the rl4co code line by line (gen16_* = the same code as translated from /repo on this run).
   Reference surrogate:  ref_surrogate r b l c = - mean_j ((r_j - b_j) * l_j) + c
   Reference gradient :  ref_grad r b tl tc    = - mean_j ((r_j - b_j) * tl_j) + tc      (tl_j = d ll_j / d params). *)
From Coq Require Import List Arith QArith Qcanon Reals.
From RL4CO Require Import Base.OField Base.OFieldQc Base.OFieldR Base.OFieldExtraC16 Train.Baselines Train.Dual
  Train.Loss Train.LossShared Train.LossPPO Train.LossShapes Train.LossInst Train.InvLoss Train.GenEqC16 Gen.GenC16.
Import ListNotations.
Close Scope Qc_scope. Close Scope Q_scope.
Open Scope of_scope.

(* ------------------------------------------------------------------ REINFORCE: value *)
(* for every batch (any number of rows), every baseline result [ble] = (value, loss) and optional dataset values
   [extra], the loss computed by REINFORCE.calculate_loss is the reference surrogate *)
Theorem C16_reinforce_value :
  forall (K : ofield) (TM : tmod K) (reward ll : list (dual K TM)) (extra : option (list (dual K TM)))
         (ble : blval K TM * dual K TM),
    let bl := the_bl extra ble in
    dv (lo_loss (calculate_loss SNone reward ll extra ble)) =
      ref_surrogate (map dv reward) (map dv (bl_rows (length reward) (fst bl))) (map dv ll) (dv (snd bl)).
Proof. exact calculate_loss_value. Qed.
Print Assumptions C16_reinforce_value.

(* the same about the code as translated from /repo on this run *)
Theorem C16_reinforce_value_translated_code :
  forall (K : ofield) (TM : tmod K) (bl : blval K TM) (bll : dual K TM) (extra : option (list (dual K TM)))
         (reward ll : list (dual K TM)),
    let b := the_bl extra (bl, bll) in
    dv (fst (fst (fst (gen16_calculate_loss K TM SNone bl bll extra reward ll)))) =
      ref_surrogate (map dv reward) (map dv (bl_rows (length reward) (fst b))) (map dv ll) (dv (snd b)).
Proof. exact gen_calculate_loss_value. Qed.
Print Assumptions C16_reinforce_value_translated_code.

Theorem C16_reinforce_value_int_reward_scale :
  forall (K : ofield) (TM : tmod K) (c : K) (reward ll : list (dual K TM)) (extra : option (list (dual K TM)))
         (ble : blval K TM * dual K TM),
    let bl := the_bl extra ble in
    dv (lo_loss (calculate_loss (SInt c) reward ll extra ble)) =
      ref_pg (map (fun a => a / c) (map2 fsub (map dv reward) (map dv (bl_rows (length reward) (fst bl))))) (map dv ll)
      + dv (snd bl).
Proof. exact calculate_loss_value_scaled. Qed.
Print Assumptions C16_reinforce_value_int_reward_scale.

(* ------------------------------------------------------------------ REINFORCE: gradient *)
(* rewards constant (they come out of the environment) and a baseline value without tangent: the gradient of the
   loss w.r.t. the formal params is - mean_j (r_j - b_j) d ll_j  +  d bl_loss; r and b contribute nothing *)
Theorem C16_reinforce_grad :
  forall (K : ofield) (TM : tmod K) (reward ll : list (dual K TM)) (extra : option (list (dual K TM)))
         (ble : blval K TM * dual K TM),
    let bl := the_bl extra ble in
    Forall is_const reward -> bl_const (fst bl) ->
    dt (lo_loss (calculate_loss SNone reward ll extra ble)) =
      ref_grad (map dv reward) (map dv (bl_rows (length reward) (fst bl))) (map dt ll) (dt (snd bl)).
Proof. exact calculate_loss_grad. Qed.
Print Assumptions C16_reinforce_grad.

Theorem C16_reinforce_grad_translated_code :
  forall (K : ofield) (TM : tmod K) (bl : blval K TM) (bll : dual K TM) (extra : option (list (dual K TM)))
         (reward ll : list (dual K TM)),
    let b := the_bl extra (bl, bll) in
    Forall is_const reward -> bl_const (fst b) ->
    dt (fst (fst (fst (gen16_calculate_loss K TM SNone bl bll extra reward ll)))) =
      ref_grad (map dv reward) (map dv (bl_rows (length reward) (fst b))) (map dt ll) (dt (snd b)).
Proof. exact gen_calculate_loss_grad. Qed.
Print Assumptions C16_reinforce_grad_translated_code.

(* what the code computes when nothing is assumed constant: calculate_loss itself detaches nothing *)
Theorem C16_reinforce_tangent_as_coded :
  forall (K : ofield) (TM : tmod K) (sc : scaler K) (reward ll : list (dual K TM)) (extra : option (list (dual K TM)))
         (ble : blval K TM * dual K TM),
    let o := calculate_loss sc reward ll extra ble in
    dt (lo_loss o) =
      tadd (topp (tmean (map2 (fun a l => tadd (tscale (dv a) (dt l)) (tscale (dv l) (dt a))) (lo_adv o) ll)))
           (dt (lo_bl_loss o)).
Proof. exact calculate_loss_tangent_as_coded. Qed.
Print Assumptions C16_reinforce_tangent_as_coded.

(* ... hence the constness of the rewards is a genuine hypothesis of C16_reinforce_grad (witness at Qc) *)
Theorem C16_reinforce_grad_needs_const_reward :
  exists (reward ll : list (dual QcF (tmod_self QcF))),
    dt (lo_loss (calculate_loss SNone reward ll None no_eval)) <>
    ref_grad (map dv reward) (map dv (bl_rows (length reward) (fst (@no_eval QcF (tmod_self QcF))))) (map dt ll) t0.
Proof. exact reinforce_grad_needs_const_reward. Qed.
Print Assumptions C16_reinforce_grad_needs_const_reward.

(* ------------------------------------------------------------------ the bundled baselines *)
(* none, exponential/mean, rollout, critic, warm-up mixture: the value handed to calculate_loss has no tangent *)
Theorem C16_baseline_values_carry_no_gradient :
  forall (K : ofield) (TM : tmod K),
    bl_const (fst (@no_eval K TM)) /\
    (forall beta st (reward : list (dual K TM)), bl_const (fst (snd (ema_eval_d beta st reward)))) /\
    (forall vals, bl_const (fst (@rollout_eval K TM vals))) /\
    (forall (v reward : list (dual K TM)), bl_const (fst (critic_eval v reward))) /\
    (forall alpha beta st (inner : blval K TM * dual K TM) reward, bl_const (fst inner) ->
        bl_const (fst (snd (warmup_eval_d alpha beta st inner reward)))).
Proof. exact bundled_baselines_const. Qed.
Print Assumptions C16_baseline_values_carry_no_gradient.

(* the translated baseline code is the model (detach placement included) *)
Theorem C16_baselines_translated_are_models :
  forall (K : ofield) (TM : tmod K),
    (forall beta st (reward : list (dual K TM)),
        (let '(st', v, l) := gen16_ema_eval K TM beta st reward in (st', (BScalar v, l))) = ema_eval_d beta st reward) /\
    (forall (v c : list (dual K TM)),
        (let '(b, l) := gen16_critic_eval K TM v c in (BRows b, l)) = critic_eval v c) /\
    (forall (R : list (list (dual K TM))), gen16_shared_eval K TM R = shared_eval R) /\
    (BScalar (fst (gen16_no_eval K TM)), snd (gen16_no_eval K TM)) = no_eval.
Proof.
  exact (fun K TM => conj (ema_eval_d_gen_eq K TM) (conj (critic_eval_gen_eq K TM)
           (conj (shared_eval_gen_eq K TM) (no_eval_gen_eq K TM)))).
Qed.
Print Assumptions C16_baselines_translated_are_models.

(* exponential / mean baseline: state and value are those of C20's model run on the reward values *)
Theorem C16_exponential_baseline_is_C20_model :
  forall (K : ofield) (TM : tmod K) (beta : K) (st : option K) (reward : list (dual K TM)),
    let o := ema_eval beta st (map dv reward) in
    fst (ema_eval_d beta st reward) = ema_state o /\
    fst (snd (ema_eval_d beta st reward)) = BScalar (dconst (ema_value o)) /\
    snd (snd (ema_eval_d beta st reward)) = dconst f0.
Proof. exact ema_eval_d_model. Qed.
Print Assumptions C16_exponential_baseline_is_C20_model.

(* successive training steps with the stateful exponential baseline: for every history of batches, the k-th loss
   is the reference surrogate (and, rewards constant, has the reference gradient) with the scalar baseline that
   C20's EMA recurrence hands out at step k *)
Theorem C16_stateful_baseline_over_training_steps :
  forall (K : ofield) (TM : tmod K) (beta : K) (hist : list (list (dual K TM) * list (dual K TM))) (st : option K),
    Forall2 (fun loss sb => step_ok loss (fst sb) (snd sb))
            (ema_train_run beta st hist)
            (combine hist (ema_run beta st (map (fun s => map dv (fst s)) hist))).
Proof. exact reinforce_ema_history. Qed.
Print Assumptions C16_stateful_baseline_over_training_steps.

(* warm-up: for EVERY alpha the per-row baseline is alpha * wrapped + (1 - alpha) * EMA and the loss alpha * wrapped loss *)
Theorem C16_warmup_mixture :
  forall (K : ofield) (TM : tmod K) (alpha beta : K) (st : option K) (vb : list (dual K TM)) (lb : dual K TM)
         (reward : list (dual K TM)),
    let o := ema_eval beta st (map dv reward) in
    let w := warmup_eval_d alpha beta st (BRows vb, lb) reward in
    length vb = length reward ->
    map dv (bl_rows (length reward) (fst (snd w))) = map (fun b => alpha * dv b + (f1 - alpha) * ema_value o) vb /\
    dv (snd (snd w)) = alpha * dv lb + (f1 - alpha) * f0.
Proof. exact warmup_rows_convex. Qed.
Print Assumptions C16_warmup_mixture.

(* ------------------------------------------------------------------ critic baseline / A2C *)
Theorem C16_a2c_value :
  forall (K : ofield) (TM : tmod K) (reward ll v : list (dual K TM)),
    length v = length reward ->
    dv (lo_loss (calculate_loss SNone reward ll None (critic_eval v reward))) =
      ref_surrogate (map dv reward) (map dv v) (map dv ll)
        (fmean (map2 (fun a c => (a - c) * (a - c)) (map dv v) (map dv reward))).
Proof. exact a2c_value. Qed.
Print Assumptions C16_a2c_value.

Theorem C16_a2c_grad :
  forall (K : ofield) (TM : tmod K) (reward ll v : list (dual K TM)),
    Forall is_const reward ->
    dt (lo_loss (calculate_loss SNone reward ll None (critic_eval v reward))) =
      tadd (ref_pg_grad (map2 fsub (map dv reward) (map dv v)) (map dt ll))
           (tmean (map2 (fun a c => tscale ((dv a - dv c) + (dv a - dv c)) (dt a)) v reward)).
Proof. exact a2c_grad. Qed.
Print Assumptions C16_a2c_grad.

(* the policy-gradient term is blind to the critic's tangents: same critic VALUES, any tangents, same dual number *)
Theorem C16_critic_grad_only_through_bl_loss :
  forall (K : ofield) (TM : tmod K) (sc : scaler K) (reward ll v v' : list (dual K TM)),
    map dv v = map dv v' ->
    lo_reinforce (calculate_loss sc reward ll None (critic_eval v reward)) =
    lo_reinforce (calculate_loss sc reward ll None (critic_eval v' reward)).
Proof. exact critic_grad_only_through_bl_loss. Qed.
Print Assumptions C16_critic_grad_only_through_bl_loss.

(* ------------------------------------------------------------------ shared baseline: POMO *)
(* reward / ll are indexed by ROW of the replicated batch; unbatch1 regroups them to [B][n_start] *)
Theorem C16_pomo_value :
  forall (K : ofield) (TM : tmod K) (n_start : nat) (reward ll : list (dual K TM)),
    length reward = length ll ->
    let R := map (map dv) (unbatch1 d0 reward n_start) in
    let L := map (map dv) (unbatch1 d0 ll n_start) in
    dv (lo2_loss (pomo_step SNone n_start reward ll)) = ref_surrogate (concat R) (shared_bl_vals R) (concat L) f0.
Proof. exact pomo_value. Qed.
Print Assumptions C16_pomo_value.

Theorem C16_pomo_grad :
  forall (K : ofield) (TM : tmod K) (n_start : nat) (reward ll : list (dual K TM)),
    length reward = length ll -> Forall is_const reward ->
    let R := map (map dv) (unbatch1 d0 reward n_start) in
    let TL := map (map dt) (unbatch1 d0 ll n_start) in
    dt (lo2_loss (pomo_step SNone n_start reward ll)) = ref_grad (concat R) (shared_bl_vals R) (concat TL) t0.
Proof. exact pomo_grad. Qed.
Print Assumptions C16_pomo_grad.

(* shared_adv_zero_mean: for every grouping into non-empty groups (equal-sized or not) every group of advantages
   sums and averages to zero ... *)
Theorem C16_shared_adv_zero_mean :
  forall (K : ofield) (TM : tmod K) (R L : list (list (dual K TM))),
    Forall (fun g => g <> []) R ->
    Forall (fun a => fsum (map dv a) = f0 /\ fmean (map dv a) = f0)
           (lo2_adv (calculate_loss2 SNone R L (shared_eval R))).
Proof. exact shared_adv_zero_mean. Qed.
Print Assumptions C16_shared_adv_zero_mean.

Theorem C16_pomo_adv_zero_mean :
  forall (K : ofield) (TM : tmod K) (n_start : nat) (reward ll : list (dual K TM)),
    0 < n_start ->
    Forall (fun a => fsum (map dv a) = f0 /\ fmean (map dv a) = f0) (lo2_adv (pomo_step SNone n_start reward ll)).
Proof. exact pomo_adv_zero_mean. Qed.
Print Assumptions C16_pomo_adv_zero_mean.

(* ... and a group is one INSTANCE: row k of the replicated batch holds instance k mod B; every row regrouped
   under [b] -- by POMO's (n_start) and by SymNCO's (n_start, n_aug) regrouping -- is a row of instance b *)
Theorem C16_regroup_rows_of_one_instance_pomo :
  forall B s b j : nat, 0 < s -> b < B -> j < s ->
    (nth j (nth b (unbatch1 0 (seq 0 (B * s)) s) []) 0) mod B = b.
Proof. exact unbatch1_same_instance. Qed.
Print Assumptions C16_regroup_rows_of_one_instance_pomo.

Theorem C16_regroup_rows_of_one_instance_symnco :
  forall B s a b i j : nat, 0 < s -> 0 < a -> b < B -> i < s -> j < a ->
    (nth j (nth i (nth b (unbatch2 0 (seq 0 (B * s * a)) s a) []) []) 0) mod B = b.
Proof. exact unbatch2_same_instance. Qed.
Print Assumptions C16_regroup_rows_of_one_instance_symnco.

(* ------------------------------------------------------------------ SymNCO *)
(* each symnco loss on its groups is the reference surrogate with the group mean as baseline (value, gradient) *)
Theorem C16_symnco_loss_value :
  forall (K : ofield) (TM : tmod K) (R L : list (list (dual K TM))),
    wf2 R L ->
    dv (sym_loss2 R L) =
      ref_surrogate (concat (map (map dv) R)) (shared_bl_vals (map (map dv) R)) (concat (map (map dv) L)) f0.
Proof. exact sym_loss2_value. Qed.
Print Assumptions C16_symnco_loss_value.

Theorem C16_symnco_loss_grad :
  forall (K : ofield) (TM : tmod K) (R L : list (list (dual K TM))),
    wf2 R L -> Forall (Forall is_const) R ->
    dt (sym_loss2 R L) =
      ref_grad (concat (map (map dv) R)) (shared_bl_vals (map (map dv) R)) (concat (map (map dt) L)) t0.
Proof. exact sym_loss2_grad. Qed.
Print Assumptions C16_symnco_loss_grad.

Theorem C16_symnco_losses_translated_code :
  forall (K : ofield) (TM : tmod K) (R L : list (list (dual K TM))),
    wf2 R L -> 2 <= length (hd [] R) ->
    dv (gen16_ps_loss K TM R L) =
      ref_surrogate (concat (map (map dv) R)) (shared_bl_vals (map (map dv) R)) (concat (map (map dv) L)) f0 /\
    gen16_ss_loss K TM R L = gen16_ps_loss K TM R L.
Proof. exact gen_sym_loss_value. Qed.
Print Assumptions C16_symnco_losses_translated_code.

(* SymNCO.shared_step total, multi-start and augmentation on: ps-surrogate + beta * ss-surrogate + alpha * invariance *)
Theorem C16_symnco_total_value :
  forall (K : ofield) (TM : tmod K) (n_start n_aug : nat) (beta alpha : K) (reward ll : list (dual K TM)) (inv : dual K TM),
    2 <= n_start -> 2 <= n_aug -> length reward = length ll ->
    let R := unbatch2 d0 reward n_start n_aug in
    let L := unbatch2 d0 ll n_start n_aug in
    let Rps := map (map dv) (concat (map (cols d0 n_aug) R)) in
    let Lps := map (map dv) (concat (map (cols d0 n_aug) L)) in
    let Rss := map (map dv) (concat R) in
    let Lss := map (map dv) (concat L) in
    dv (so_loss (symnco_step n_start n_aug beta alpha reward ll inv)) =
      ref_surrogate (concat Rps) (shared_bl_vals Rps) (concat Lps) f0
      + beta * ref_surrogate (concat Rss) (shared_bl_vals Rss) (concat Lss) f0
      + alpha * dv inv.
Proof. exact symnco_total_value. Qed.
Print Assumptions C16_symnco_total_value.

(* ------------------------------------------------------------------ SymNCO invariance loss: the VALUE *)
(* Train/InvLoss.v.  An embedding travels with its Euclidean norm ([nvec] = (vector, norm); nv_ok: norm >= 0 and
   norm^2 = <u,u>), so no square root is needed.  cos_sim eps u v = <u,v> / (max(|u|,eps) * max(|v|,eps)) is
   torch's cosine_similarity; inv_loss eps A rows = invariance_loss(proj_embed, A) with proj_embed given as its rows
   [(b a)][node] (None = the code raises). *)
Theorem C16_invariance_loss_value :
  forall (K : ofield) (eps : K) (A : nat) (rows : list (list (nvec K))),
    (2 <= A)%nat -> (length rows mod A)%nat = 0%nat ->
    (forall r j, (r < length rows)%nat -> (j < length (inv_row rows 0))%nat -> fle eps (snd (inv_node rows r j))) ->
    let B := (length rows / A)%nat in
    let n := length (inv_row rows 0) in
    inv_loss eps A rows =
      Some (fsum (flat_map (fun b => map (fun j =>
                    fsum (map (fun i => cos_ref (inv_node rows (b * A)%nat j) (inv_node rows (b * A + i)%nat j))
                              (seq 1 (A - 1)%nat)))
                    (seq 0 n)) (seq 0 B))
            / of_nat (B * n)%nat).
Proof. exact inv_loss_value. Qed.
Print Assumptions C16_invariance_loss_value.

(* the rows it compares are those of the pairing finding below (inv_pair_coded) *)
Theorem C16_invariance_loss_uses_the_coded_pairing :
  forall (K : ofield) (eps : K) (A : nat) (rows : list (list (nvec K))) (b j : nat),
    inv_similarity eps A rows b j =
      fsum (map (fun i => cos_sim eps (inv_node rows (fst (inv_pair_coded A b i)) j)
                                      (inv_node rows (snd (inv_pair_coded A b i)) j)) (seq 1 (A - 1)%nat)).
Proof. exact inv_similarity_pairs. Qed.
Print Assumptions C16_invariance_loss_uses_the_coded_pairing.

Theorem C16_invariance_loss_raises_for_fewer_than_two_views :
  forall (K : ofield) (eps : K) (A : nat) (rows : list (list (nvec K))), (A < 2)%nat -> inv_loss eps A rows = None.
Proof. exact inv_loss_raises_lt2. Qed.
Print Assumptions C16_invariance_loss_raises_for_fewer_than_two_views.

Theorem C16_cosine_similarity_symmetric :
  forall (K : ofield) (eps : K) (u v : nvec K), cos_sim eps u v = cos_sim eps v u.
Proof. exact cos_sim_sym. Qed.
Print Assumptions C16_cosine_similarity_symmetric.

Theorem C16_cosine_similarity_invariant_under_positive_scaling :
  forall (K : ofield) (eps c : K) (u v : nvec K),
    flt f0 eps -> flt f0 c -> fle eps (snd u) -> fle eps (c * snd u) ->
    cos_sim eps (nv_scale c u) v = cos_sim eps u v /\ (nv_ok u -> nv_ok (nv_scale c u)).
Proof. exact cos_sim_scale_ok. Qed.
Print Assumptions C16_cosine_similarity_invariant_under_positive_scaling.

Theorem C16_cosine_similarity_of_a_view_with_itself_is_one :
  forall (K : ofield) (eps : K) (u : nvec K), nv_ok u -> flt f0 eps -> fle eps (snd u) -> cos_sim eps u u = f1.
Proof. exact cos_sim_self. Qed.
Print Assumptions C16_cosine_similarity_of_a_view_with_itself_is_one.

(* |cos| <= 1 under the Cauchy-Schwarz inequality stated for the supplied norms ... *)
Theorem C16_cosine_similarity_bounded_under_cauchy_schwarz :
  forall (K : ofield) (eps : K) (u v : nvec K),
    flt f0 eps -> fle eps (snd u) -> fle eps (snd v) ->
    fle (dot (fst u) (fst v) * dot (fst u) (fst v)) ((snd u * snd u) * (snd v * snd v)) ->
    fle (- f1) (cos_sim eps u v) /\ fle (cos_sim eps u v) f1.
Proof. exact cos_sim_bound_under_cs. Qed.
Print Assumptions C16_cosine_similarity_bounded_under_cauchy_schwarz.

(* ... and Cauchy-Schwarz itself holds in every ordered field, so the bound needs correct norms only *)
Theorem C16_cauchy_schwarz :
  forall (K : ofield) (u v : list K), length u = length v -> fle (dot u v * dot u v) (dot u u * dot v v).
Proof. exact cauchy_schwarz. Qed.
Print Assumptions C16_cauchy_schwarz.

Theorem C16_cosine_similarity_bounded :
  forall (K : ofield) (eps : K) (u v : nvec K),
    nv_ok u -> nv_ok v -> length (fst u) = length (fst v) ->
    flt f0 eps -> fle eps (snd u) -> fle eps (snd v) ->
    fle (- f1) (cos_sim eps u v) /\ fle (cos_sim eps u v) f1.
Proof. exact cos_sim_bound. Qed.
Print Assumptions C16_cosine_similarity_bounded.

(* FINDING (code as it is): invariance_loss regroups "(b a)" against the augmentation-major row layout and so
   compares embeddings of different instances -- for every batch of >= 2 instances and >= 2 augmentations *)
Theorem C16_invariance_pairing_refuted :
  exists B A b' i, b' < B /\ 0 < i < A /\
    row_instance B (fst (inv_pair_coded A b' i)) <> row_instance B (snd (inv_pair_coded A b' i)).
Proof. exact inv_pair_coded_refuted. Qed.
Print Assumptions C16_invariance_pairing_refuted.

Theorem C16_invariance_pairing_wrong_for_every_batch :
  forall B A : nat, 2 <= B -> 2 <= A ->
    row_instance B (fst (inv_pair_coded A 0 1)) <> row_instance B (snd (inv_pair_coded A 0 1)).
Proof. exact inv_pair_coded_wrong_for_all. Qed.
Print Assumptions C16_invariance_pairing_wrong_for_every_batch.

Theorem C16_invariance_reference_pairing_same_instance :
  forall B b i : nat, b < B ->
    row_instance B (fst (inv_pair_ref B b i)) = b /\ row_instance B (snd (inv_pair_ref B b i)) = b.
Proof. exact inv_pair_ref_same_instance. Qed.
Print Assumptions C16_invariance_reference_pairing_same_instance.

(* ------------------------------------------------------------------ no B x B broadcast *)
Theorem C16_no_bxb_broadcast_reinforce :
  forall n : nat,
    shape_reinforce n [] = Some [n] /\ shape_reinforce n [n] = Some [n] /\ shape_critic_mse n = Some [n].
Proof. exact no_bxb_reinforce. Qed.
Print Assumptions C16_no_bxb_broadcast_reinforce.

Theorem C16_no_bxb_broadcast_shared :
  forall B S A : nat,
    shape_shared B S = Some [B; S] /\ shape_sym_ps B S A = Some [B; S; A] /\ shape_sym_ss B S A = Some [B; S; A].
Proof. exact no_bxb_shared. Qed.
Print Assumptions C16_no_bxb_broadcast_shared.

Theorem C16_no_bxb_broadcast_ppo :
  forall n : nat, shape_ppo n = (Some [n], Some [n; 1], Some [n; 1]).
Proof. exact no_bxb_ppo. Qed.
Print Assumptions C16_no_bxb_broadcast_ppo.

(* the shape calculus is not blind: an un-squeezed critic output against a [n] reward IS an n x n matrix *)
Theorem C16_shape_calculus_detects_bxb :
  forall n : nat, 1 < n -> bcast [n] [n; 1] = Some [n; n].
Proof. exact unsqueezed_critic_would_be_bxb. Qed.
Print Assumptions C16_shape_calculus_detects_bxb.

(* ------------------------------------------------------------------ PPO *)
(* e : the exponential (abstract), sq : the square root inside the optional advantage normalisation (abstract) *)
Theorem C16_ppo_value :
  forall (K : ofield) (TM : tmod K) (e sq : K -> K) (cfg : ppo_cfg K) (lls : list (list (dual K TM)))
         (old rew : list K) (vpred ent : list (dual K TM)),
    dv (po_loss (ppo_loss e sq cfg lls old rew vpred ent)) =
      ref_ppo e sq cfg (map (map dv) lls) old rew (map dv vpred) (map dv ent).
Proof. exact ppo_value. Qed.
Print Assumptions C16_ppo_value.

(* first inner step: the re-evaluated log-likelihood equals the stored one, ratio = e 0 = 1: the clipped surrogate's
   gradient is the REINFORCE gradient  - mean_j A_j d(sum_t ll_jt)  with the (constant) PPO advantage A *)
Theorem C16_ppo_grad_at_ratio_one :
  forall (K : ofield) (TM : tmod K) (e sq : K -> K), e f0 = f1 ->
  forall (cfg : ppo_cfg K) (lls : list (list (dual K TM))) (old rew : list K) (vpred ent : list (dual K TM)),
    flt f0 (clip_range cfg) ->
    Forall2 (fun l o => fsum (map dv l) = o) lls old ->
    let o := ppo_loss e sq cfg lls old rew vpred ent in
    dt (po_surrogate o) = ref_pg_grad (map dv (po_adv o)) (map (fun l => dt (dsum l)) lls) /\
    dv (po_surrogate o) = ref_pg (map dv (po_adv o)) (map (fun _ => f1) lls).
Proof. exact ppo_grad_at_ratio_one. Qed.
Print Assumptions C16_ppo_grad_at_ratio_one.

Theorem C16_ppo_advantage_is_constant :
  forall (K : ofield) (TM : tmod K) (sq : K -> K) (cfg : ppo_cfg K) (rew : list K) (vpred : list (dual K TM)),
    Forall is_const (ppo_normalize sq cfg (map2 ppo_adv_raw rew vpred)).
Proof. exact ppo_adv_const. Qed.
Print Assumptions C16_ppo_advantage_is_constant.

(* ------------------------------------------------------------------ the statements over the reals *)
Theorem C16_ppo_grad_at_ratio_one_over_R_with_exp :
  forall (sq : R -> R) (cfg : ppo_cfg RF) (lls : list (list (dual RF (tmod_list RF)))) (old rew : list R)
         (vpred ent : list (dual RF (tmod_list RF))),
    (0 < clip_range cfg)%R ->
    Forall2 (fun l o => @fsum RF (map dv l) = o) lls old ->
    let o := @ppo_loss RF (tmod_list RF) exp sq cfg lls old rew vpred ent in
    dt (po_surrogate o) = ref_pg_grad (map dv (po_adv o)) (map (fun l => dt (dsum l)) lls) /\
    dv (po_surrogate o) = ref_pg (map dv (po_adv o)) (map (fun _ => 1%R) lls).
Proof. exact ppo_grad_at_ratio_one_R. Qed.
Print Assumptions C16_ppo_grad_at_ratio_one_over_R_with_exp.

Theorem C16_reinforce_grad_over_R :
  forall (reward ll : list (dual RF (tmod_list RF))) (b : list RF),
    Forall is_const reward ->
    dt (lo_loss (calculate_loss SNone reward ll None (@rollout_eval RF (tmod_list RF) b))) =
      ref_grad (map dv reward) b (map dt ll) t0.
Proof. exact reinforce_grad_R. Qed.
Print Assumptions C16_reinforce_grad_over_R.

(* ------------------------------------------------------------------ non-vacuity at the executable instance *)
Example C16_nonvacuous_reinforce_mean_baseline :
  let reward := [cst (q (-1) 1); cst (q (-2) 1); cst (q (-6) 1)] in
  let ll := [lf (q (-1) 2) 0; lf (q (-1) 4) 1; lf (q (-1) 1) 2] in
  let o := calculate_loss SNone reward ll None (snd (ema_eval_d (q 0 1) None reward)) in
  Qcanon.this (dv (lo_loss o)) = (-7 # 12)%Q /\ vals (dt (lo_loss o)) = [(-2 # 3); (-1 # 3); 1]%Q.
Proof. exact ex_reinforce_mean. Qed.

Example C16_nonvacuous_ppo_ratio_one :
  let cfg := {| clip_range := q 1 5; vf_lambda := q 1 2; entropy_lambda := q 0 1; normalize_adv := false; adv_eps := q 0 1 |} in
  let lls := [[lf (q (-1) 2) 0; lf (q (-1) 4) 1]; [lf (q (-1) 1) 2; lf (q (-1) 1) 3]] in
  let o := @ppo_loss QcF TLq e_tab (fun x => x) cfg lls [q (-3) 4; q (-2) 1] [q (-1) 1; q (-4) 1]
                     [lf (q (-2) 1) 4; lf (q (-2) 1) 5] [cst (q 1 1); cst (q 1 1)] in
  vals (dt (po_surrogate o)) = [(-1 # 2); (-1 # 2); 1; 1]%Q /\ e_tab (q 0 1) = q 1 1.
Proof. exact ex_ppo_ratio_one. Qed.

Example C16_nonvacuous_invariance_loss :    (* views [[3,4],[1,0]] / [[4,3],[0,1]], B = 1, A = 2: (24/25 + 0) / 2 = 12/25 = 0.48 *)
  let rows := [[nv2 3 4 5; nv2 1 0 1]; [nv2 4 3 5; nv2 0 1 1]] in
  inv_wfb rows = true /\ inv_loss (K:=QcF) (qc 1 100000000) 2 rows = Some (qc 12 25).
Proof. exact inv_loss_example. Qed.
