(* C04 for CVRP -- post-finish padding is inert (the row-wise half of C04; the batched half is differential). *)
From Coq Require Import ZArith List Bool.
From RL4CO Require Import Base.Num Base.EnvSig Spec.Routes Env.CVRP Env.CVRPProofs.
Import ListNotations.
Open Scope Z_scope.

(* after a row has finished, any number k of further steps: the depot is offered (and only it), the row stays
   finished, the mask does not change, and the reward of the padded action list equals that of the unpadded one *)
Theorem C04_cvrp_padding_inert :
  forall (i : cvrp_inst) (acts : list nat) (k : nat),
    cvrp_wf i -> adm (E:=CVRP exact) i acts = true -> done (CVRP exact) i (run (E:=CVRP exact) i acts) = true ->
    let pad := repeat 0%nat k in
    adm (E:=CVRP exact) i (acts ++ pad) = true /\
    done (CVRP exact) i (run (E:=CVRP exact) i (acts ++ pad)) = true /\
    mask (CVRP exact) i (run (E:=CVRP exact) i (acts ++ pad)) = true :: repeat false (n_of i) /\
    (dfun i 0%nat 0%nat = 0 -> cvrp_reward i (acts ++ pad) = cvrp_reward i acts).
Proof. exact cvrp_padding_inert. Qed.
Print Assumptions C04_cvrp_padding_inert.
