(* C01 for CVRPTW -- mask-confined episodes yield feasible solutions. Statements only. *)
From Coq Require Import ZArith List Bool.
From RL4CO Require Import Base.Num Base.EnvSig Spec.Routes Spec.TimeWindows Env.CVRP Env.CVRPProofs Env.CVRPTW Env.CVRPTWProofs.
Import ListNotations.
Open Scope Z_scope.

(* For every instance in the documented format ([cvrptw_wf]: CVRP format, per-node vectors of length n+1, windows
   ordered, non-negative data, depot window opening at 0, depot duration 0) in which a vehicle that starts service at a
   deadline can still return to the depot in time (the bound the generator docstring states:
   tw_hi j + dur j + D j 0 <= tw_hi 0), and EVERY action list whose actions each lie in the mask of the state they are
   taken in: once the row reports done, every customer is visited exactly once, only existing nodes are used, no route
   carries more than the capacity, and on every route -- driven from time 0 at the depot, waiting allowed -- every
   service STARTS no later than the customer's deadline and the vehicle is back at the depot no later than the depot's
   deadline (the last route included, whether or not the action list ends with a depot visit). *)
Theorem C01_cvrptw_mask_sound :
  forall (i : cvrptw_inst) (acts : list nat),
    cvrptw_wf i ->
    (forall j, (j <= tn_of i)%nat -> hi i j + du i j + dd i j 0 <= hi i 0) ->
    adm (E:=CVRPTW exact) i acts = true ->
    done (CVRPTW exact) i (run (E:=CVRPTW exact) i acts) = true ->
    ((forall j, (1 <= j <= n_of (base i))%nat -> occ j acts = 1%nat) /\
     (forall a, In a acts -> (a <= n_of (base i))%nat) /\
     Forall (fun r => sumZ (map (demand (base i)) r) <= cap (base i)) (routes acts)) /\
    Forall (fun r => route_times_ok (dd i) (lo i) (hi i) (du i) 0 0%nat 0 r) (routes acts).
Proof. exact cvrptw_mask_sound. Qed.
Print Assumptions C01_cvrptw_mask_sound.

(* Without the return bound: everything except the return leg of the LAST route (every route closed by a depot visit
   is fully time-feasible; on the open last route all services start in time). *)
Theorem C01_cvrptw_mask_sound_core :
  forall (i : cvrptw_inst) (acts : list nat),
    cvrptw_wf i ->
    adm (E:=CVRPTW exact) i acts = true ->
    done (CVRPTW exact) i (run (E:=CVRPTW exact) i acts) = true ->
    ((forall j, (1 <= j <= n_of (base i))%nat -> occ j acts = 1%nat) /\
     (forall a, In a acts -> (a <= n_of (base i))%nat) /\
     Forall (fun r => sumZ (map (demand (base i)) r) <= cap (base i)) (routes acts)) /\
    sat_last (fun r => route_times_ok (dd i) (lo i) (hi i) (du i) 0 0%nat 0 r)
             (fun r => starts_ok (dd i) (lo i) (hi i) (du i) 0 0%nat 0 r) (routes acts).
Proof. exact cvrptw_mask_sound_core. Qed.
Print Assumptions C01_cvrptw_mask_sound_core.

(* the boolean format predicate evaluated by the harness on every generated instance implies the hypothesis *)
Theorem C01_cvrptw_wfb_sound : forall i, cvrptw_wfb i = true -> cvrptw_wf i.
Proof. exact cvrptw_wfb_ok. Qed.
Print Assumptions C01_cvrptw_wfb_sound.

(* non-vacuity: customer 1 is reached exactly at its deadline (3 = 3), customer 2 exactly fills the horizon *)
Example C01_cvrptw_nonvacuous :
  let i := {| base := {| dem := [3; 5]; cap := 8; dist := [[0; 3; 4]; [3; 0; 5]; [4; 5; 0]]; tol := 0 |};
              twlo := [0; 0; 9]; twhi := [14; 3; 9]; durs := [0; 1; 1]; tu := 1; hz0 := 14; tsl := 0 |} in
  cvrptw_wfb i = true /\ cvrptw_returnb i = true /\ adm (E:=CVRPTW exact) i [1; 2]%nat = true /\
  done (CVRPTW exact) i (run (E:=CVRPTW exact) i [1; 2; 0]%nat) = true /\
  adm (E:=CVRPTW exact) i [1; 2; 0]%nat = true /\ adm (E:=CVRPTW exact) i [2; 1]%nat = false.
Proof. vm_compute. repeat split; reflexivity. Qed.

(* the return bound is needed for the last route's return leg *)
Example C01_cvrptw_return_bound_needed :
  cvrptw_wfb witness_noreturn = true /\ cvrptw_returnb witness_noreturn = false /\
  adm (E:=CVRPTW exact) witness_noreturn [1; 0; 2]%nat = true /\
  done (CVRPTW exact) witness_noreturn (run (E:=CVRPTW exact) witness_noreturn [1; 0; 2]%nat) = true /\
  cvrptw_feasibleb witness_noreturn 0 0 [1; 0; 2]%nat = false.
Proof. vm_compute. repeat split; reflexivity. Qed.
