(* C02 for CVRPTW -- no dead ends, finished stays finished, step bound, no crash. Statements only. *)
From Coq Require Import ZArith List Bool.
From RL4CO Require Import Base.Num Base.EnvSig Spec.Routes Spec.TimeWindows Env.CVRP Env.CVRPProofs Env.CVRPTW Env.CVRPTWProofs.
Import ListNotations.
Open Scope Z_scope.

(* [cvrptw_solvable i]: no demand above the capacity; every customer can be reached from the depot by its deadline
   (D 0 j <= tw_hi j); a vehicle that starts service at a deadline can still return (tw_hi j + dur j + D j 0 <= tw_hi 0).
   Every state reached through offered actions (finished or not) then offers at least one action. *)
Theorem C02_cvrptw_no_dead_end :
  forall (i : cvrptw_inst) (acts : list nat),
    cvrptw_wf i -> cvrptw_solvable i -> adm (E:=CVRPTW exact) i acts = true ->
    anyb (mask (CVRPTW exact) i (run (E:=CVRPTW exact) i acts)) = true.
Proof. exact cvrptw_no_dead_end. Qed.
Print Assumptions C02_cvrptw_no_dead_end.

Theorem C02_cvrptw_done_stable :
  forall (i : cvrptw_inst) (acts : list nat) (a : nat),
    cvrptw_wf i -> adm (E:=CVRPTW exact) i (acts ++ [a]) = true ->
    done (CVRPTW exact) i (run (E:=CVRPTW exact) i acts) = true ->
    done (CVRPTW exact) i (run (E:=CVRPTW exact) i (acts ++ [a])) = true.
Proof. exact cvrptw_done_stable. Qed.
Print Assumptions C02_cvrptw_done_stable.

(* an admitted action list none of whose proper prefixes is finished has at most 2n+1 actions *)
Theorem C02_cvrptw_bound :
  forall (i : cvrptw_inst) (acts : list nat),
    cvrptw_wf i -> cvrptw_solvable i -> adm (E:=CVRPTW exact) i acts = true ->
    (forall p q, acts = p ++ q -> q <> [] -> done (CVRPTW exact) i (run (E:=CVRPTW exact) i p) = false) ->
    (length acts <= 2 * tn_of i + 1)%nat.
Proof. exact cvrptw_bound. Qed.
Print Assumptions C02_cvrptw_bound.

(* offered actions never index outside the tensors (demand, visited, durations, time_windows, distances) *)
Theorem C02_cvrptw_step_ok :
  forall (i : cvrptw_inst) (acts : list nat) (a : nat),
    (0 < tn_of i)%nat -> cvrptw_wf i -> adm (E:=CVRPTW exact) i acts = true ->
    offered (E:=CVRPTW exact) i (run (E:=CVRPTW exact) i acts) a = true ->
    stepok (CVRPTW exact) i (run (E:=CVRPTW exact) i acts) a = true.
Proof. exact cvrptw_step_ok. Qed.
Print Assumptions C02_cvrptw_step_ok.

(* the boolean predicate evaluated by the harness implies the hypothesis *)
Theorem C02_cvrptw_solvableb_sound : forall i, cvrptw_solvableb i = true -> cvrptw_solvable i.
Proof. exact cvrptw_solvableb_ok. Qed.
Print Assumptions C02_cvrptw_solvableb_sound.

(* both extra conditions are needed: an unreachable customer gives a dead end at reset (the CVRP rule masks the depot
   because the customer still fits, the clock masks the customer) ... *)
Example C02_cvrptw_dead_end_without_reachability :
  cvrptw_wfb witness_trunc = true /\ cvrptw_solvableb witness_trunc = false /\
  anyb (mask (CVRPTW exact) witness_trunc (run (E:=CVRPTW exact) witness_trunc [])) = false.
Proof. exact cvrptw_dead_end_without_solvable. Qed.
(* ... and a customer from whose deadline the vehicle cannot return leaves the FINISHED row with an empty mask *)
Example C02_cvrptw_dead_end_without_return_bound :
  cvrptw_wfb witness_noreturn = true /\ cvrptw_returnb witness_noreturn = false /\
  adm (E:=CVRPTW exact) witness_noreturn [1; 0; 2]%nat = true /\
  done (CVRPTW exact) witness_noreturn (run (E:=CVRPTW exact) witness_noreturn [1; 0; 2]%nat) = true /\
  anyb (mask (CVRPTW exact) witness_noreturn (run (E:=CVRPTW exact) witness_noreturn [1; 0; 2]%nat)) = false.
Proof. vm_compute. repeat split; reflexivity. Qed.

Example C02_cvrptw_nonvacuous :
  let i := {| base := {| dem := [3; 5]; cap := 8; dist := [[0; 3; 4]; [3; 0; 5]; [4; 5; 0]]; tol := 0 |};
              twlo := [0; 0; 9]; twhi := [14; 3; 9]; durs := [0; 1; 1]; tu := 1; hz0 := 14; tsl := 0 |} in
  cvrptw_wfb i = true /\ cvrptw_solvableb i = true /\ adm (E:=CVRPTW exact) i [1; 2; 0; 0]%nat = true.
Proof. vm_compute. repeat split; reflexivity. Qed.
