(* C03 for CVRPTW -- the reward (inherited from CVRPEnv: cyclic gather+roll length, time windows play no role)
   equals the route-wise objective. *)
From Coq Require Import ZArith List Bool.
From RL4CO Require Import Base.Num Base.EnvSig Spec.Routes Env.CVRP Env.CVRPProofs Env.CVRPTW Env.CVRPTWProofs.
Import ListNotations.
Open Scope Z_scope.

(* for ANY action list: minus the sum of consecutive distances along depot :: actions (cyclically) equals minus the sum
   over routes of depot -> customers -> depot, whenever d(0,0) = 0 *)
Theorem C03_cvrptw_reward_is_objective :
  forall (i : cvrptw_inst) (acts : list nat),
    mget (dist (base i)) 0 0 = 0 ->
    - walk_len (dfun (base i)) 0%nat acts = - sumZ (map (route_len (dfun (base i))) (routes acts)).
Proof. exact cvrptw_reward_is_objective. Qed.
Print Assumptions C03_cvrptw_reward_is_objective.

Example C03_cvrptw_nonvacuous :
  let i := {| base := {| dem := [1; 1]; cap := 2; dist := [[0; 3; 4]; [3; 0; 5]; [4; 5; 0]]; tol := 0 |};
              twlo := [0; 0; 0]; twhi := [20; 20; 20]; durs := [0; 0; 0]; tu := 1; hz0 := 20; tsl := 0 |} in
  cvrptw_reward i [1; 0; 2]%nat = -14 /\ cvrptw_objective i [1; 0; 2]%nat = -14.
Proof. vm_compute. auto. Qed.
