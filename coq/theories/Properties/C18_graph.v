(* C18 (unit graph) -- MCP and FLP generators emit instances inside the input format the selection environments
   (C08) assume, with a quota that can be met.  Only statements closed by [exact] + Print Assumptions.

   Reading guide.  [gen_mcp minw maxw mins maxs wu su raw perms q] (Data/GenGraph.v) is MCPGenerator._generate on one
   batch row: wu / su = the weight / set-size sampler outputs, raw = the randint(1, num_items + 1) membership draws (one
   row per set), perms = the permutations `x.sort(-1)` returns inside remove_repeat (any lists: the theorem does not
   need them to be sorting permutations), q = n_sets_to_choose.  [mcp_wfb] / [flp_wfb] are the hypotheses of the C08
   theorems: quota >= 1, item ids in 0 .. n_items (0 = padding) / n x n distance matrix. *)
From Coq Require Import ZArith QArith List Bool Arith.
From RL4CO Require Import Base.Num Env.Selection Env.MCP Env.FLP Data.GenGraph.
Import ListNotations.
Open Scope Z_scope.

Theorem C18_mcp_gen_wf :
  forall (n_items : nat) (minw maxw mins maxs : Z) (wu su : list Q) (raw : list (list Z)) (perms : list (list nat)) (q : Z),
    length wu = n_items -> minw <= maxw ->
    (forall (row : list Z) (x : Z), In row raw -> In x row -> 1 <= x <= Z.of_nat n_items) ->
    1 <= q <= Z.of_nat (length raw) ->
    let I := gen_mcp minw maxw mins maxs wu su raw perms q in
    mcp_wfb I = true /\ m_q I <= Z.of_nat (length (m_mem I)) /\ length (m_w I) = n_items /\
    (forall w : Z, In w (m_w I) -> minw <= w <= maxw) /\
    (forall k : nat, (k < length raw)%nat -> length (nth k (m_mem I) []) = length (nth k raw [])).
Proof. exact gen_mcp_wf. Qed.
Print Assumptions C18_mcp_gen_wf.

(* The membership tensor always has one row per set and the width of the raw draw, i.e. the documented max_size,
   whatever set sizes were drawn in the batch (repaired code; the crash of the old code cannot recur in the model). *)
Theorem C18_mcp_width :
  forall (minw maxw mins maxs : Z) (wu su : list Q) (raw : list (list Z)) (perms : list (list nat)) (q : Z) (W : nat),
    (forall row : list Z, In row raw -> length row = W) ->
    length (m_mem (gen_mcp minw maxw mins maxs wu su raw perms q)) = length raw /\
    forall row : list Z, In row (m_mem (gen_mcp minw maxw mins maxs wu su raw perms q)) -> length row = W.
Proof. exact gen_mcp_width. Qed.
Print Assumptions C18_mcp_width.

(* remove_repeat never invents an item: every entry of its result is 0 or an entry of its argument. *)
Theorem C18_mcp_remove_repeat_sound :
  forall (perm : list nat) (x : list Z) (v : Z), In v (remove_repeat perm x) -> v = 0 \/ In v x.
Proof. exact remove_repeat_In. Qed.
Print Assumptions C18_mcp_remove_repeat_sound.

Theorem C18_flp_gen_wf :
  forall (n : nat) (D : list (list Z)) (maxdist q : Z),
    length D = n -> (forall row : list Z, In row D -> length row = n) -> 1 <= q <= Z.of_nat n ->
    let I := gen_flp n D maxdist q in
    flp_wfb I = true /\ f_q I <= Z.of_nat (f_n I).
Proof. exact gen_flp_wf. Qed.
Print Assumptions C18_flp_gen_wf.

Example C18_graph_nonvacuous :
  let I := gen_mcp 1 10 2 4 [(7 # 2); (25 # 2)]%Q [(7 # 2)]%Q [[5; 2; 5; 9]] [[3; 1; 0; 2]%nat] 1 in
  m_mem I = [[5; 2; 0; 0]] /\ m_w I = [3; 10] /\ mcp_row_okb 2 4 [5; 2; 0; 0] = true.
Proof. vm_compute. repeat split. Qed.
