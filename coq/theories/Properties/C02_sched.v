(* C02 (unit sched) -- FJSPEnv, JSSPEnv, FFSPEnv, SMTWTPEnv: no dead ends, finished rows stay finished and steppable,
   offered actions never crash (the internal time-transit loops terminate), episodes end within the step bound.
   Only statements closed by [exact] and their Print Assumptions.

   Reading guide.  FJSP/JSSP (Env/FJSP.v): [i : inst] = one batch row's instance tensors of ANY size, [cfg] = mask_no_ops,
   action 0 = no-op/wait, action 1 + j*M + m = (job j, machine m) (JSSP: action 1 + j = job j);
   [admb cfg i (reset i) acts = true] = every action of [acts] lies inside the mask of the state it is taken in;
   [step] = None where the real code would raise or where `while step_complete.any()` would need more than num_machines
   transits.  wfb = the generators'/parsers' format, solvableb = every real operation has an eligible machine,
   jssp_wfb = exactly one.  FFSP (Env/FFSP.v, module FFSP): action j < J = job j on the current machine, action J = wait;
   [FFSP.step] = None where the code would index out of range or `_move_to_next_machine` would not return within
   (largest wait counter + 2) sweeps.  SMTWTP (Env/SMTWTP.v): action = job index, 0 = the dummy start node. *)
From Coq Require Import ZArith List Bool Arith Permutation.
From RL4CO Require Import Base.FFSPLists Spec.Schedule Spec.FlowShop Env.FFSP Env.FFSPProofs Env.SMTWTP Env.SchedBatch2 Env.FFSPBound.
From RL4CO Require Import Env.FJSP Env.FJSPProofs Env.SchedBatch.
Import ListNotations.
Open Scope nat_scope.

(* ================================================================ FJSP *)
(* every state a mask-confined episode reaches -- finished rows, waits and post-finish padding included -- offers an action *)
Theorem C02_fjsp_no_dead_end :
  forall (cfg : bool) (i : inst) (acts : list nat) (s : st),
    wfb i = true -> solvableb i = true -> admb cfg i (reset i) acts = true ->
    run cfg i (reset i) acts = Some s ->
    existsb (fun b => b) (mask cfg i s) = true.
Proof. exact FJSP_no_dead_end. Qed.
Print Assumptions C02_fjsp_no_dead_end.

(* a finished row keeps the inert no-op (for both values of mask_no_ops), and ANY action leaves it exactly as it is *)
Theorem C02_fjsp_finished_row_keeps_inert_noop :
  forall (cfg : bool) (i : inst) (s : st), done s = true ->
    maskb cfg i s 0 = true /\ forall a : nat, step cfg i s a = Some s.
Proof. exact fjsp_finished_row_inert. Qed.
Print Assumptions C02_fjsp_finished_row_keeps_inert_noop.

(* done is stable: whatever is appended to an episode that has finished, the row stays in the very same (done) state *)
Theorem C02_fjsp_done_stable :
  forall (cfg : bool) (i : inst) (acts pad : list nat) (s : st),
    run cfg i (reset i) acts = Some s -> done s = true ->
    run cfg i (reset i) (acts ++ pad) = Some s /\
    (admb cfg i (reset i) acts = true -> admb cfg i (reset i) (acts ++ repeat 0 (length pad)) = true).
Proof. exact fjsp_padding_inert_episode. Qed.
Print Assumptions C02_fjsp_done_stable.

(* an offered action never raises (no failed assert, no index error), the `while step_complete.any()` loop ends within
   num_machines transits, and the state reached is again one a mask-confined episode reaches *)
Theorem C02_fjsp_offered_step_total_loop_terminates :
  forall (cfg : bool) (i : inst) (s : st) (a : nat),
    wfb i = true -> solvableb i = true ->
    (exists acts, admb cfg i (reset i) acts = true /\ run cfg i (reset i) acts = Some s) ->
    maskb cfg i s a = true ->
    exists s', step cfg i s a = Some s' /\
               exists acts', admb cfg i (reset i) acts' = true /\ run cfg i (reset i) acts' = Some s'.
Proof. exact fjsp_step_total. Qed.
Print Assumptions C02_fjsp_offered_step_total_loop_terminates.

Theorem C02_fjsp_no_crash :
  forall (cfg : bool) (i : inst) (acts : list nat),
    wfb i = true -> solvableb i = true -> admb cfg i (reset i) acts = true -> run cfg i (reset i) acts <> None.
Proof. exact FJSP_no_crash. Qed.
Print Assumptions C02_fjsp_no_crash.

(* step bound: the steps taken while the row is unfinished number at most ops (mask_no_ops) / ops + ops (one step per
   operation plus one per wait: every wait releases at least one operation) *)
Theorem C02_fjsp_bound :
  forall (cfg : bool) (i : inst) (acts : list nat),
    wfb i = true -> solvableb i = true -> admb cfg i (reset i) acts = true ->
    active_steps cfg i (reset i) acts <= (if cfg then total_ops i else total_ops i + total_ops i).
Proof. exact FJSP_bound. Qed.
Print Assumptions C02_fjsp_bound.

Theorem C02_fjsp_bound_unfinished_prefixes :
  forall (cfg : bool) (i : inst) (acts : list nat),
    wfb i = true -> solvableb i = true -> admb cfg i (reset i) acts = true ->
    (forall p q sp, acts = p ++ q -> q <> [] -> run cfg i (reset i) p = Some sp -> done sp = false) ->
    length acts <= (if cfg then total_ops i else total_ops i + total_ops i).
Proof. exact FJSP_bound_prefix. Qed.
Print Assumptions C02_fjsp_bound_unfinished_prefixes.

(* ================================================================ JSSP *)
Theorem C02_jssp_no_dead_end :
  forall (cfg : bool) (i : inst) (acts : list nat) (s : st),
    wfb i = true -> jssp_wfb i = true -> jssp_admb cfg i (reset i) acts = true ->
    jssp_run cfg i (reset i) acts = Some s ->
    existsb (fun b => b) (jssp_mask cfg i s) = true.
Proof. exact JSSP_no_dead_end. Qed.
Print Assumptions C02_jssp_no_dead_end.

(* no crash (the job -> machine translation always finds its machine), and the same states as an FJSP episode *)
Theorem C02_jssp_no_crash_is_fjsp_episode :
  forall (cfg : bool) (i : inst) (acts : list nat),
    wfb i = true -> jssp_wfb i = true -> jssp_admb cfg i (reset i) acts = true ->
    exists (s : st) (acts' : list nat),
      jssp_run cfg i (reset i) acts = Some s /\ length acts' = length acts /\
      admb cfg i (reset i) acts' = true /\ run cfg i (reset i) acts' = Some s.
Proof. exact JSSP_embedding. Qed.
Print Assumptions C02_jssp_no_crash_is_fjsp_episode.

Theorem C02_jssp_bound_unfinished_prefixes :
  forall (cfg : bool) (i : inst) (acts : list nat),
    wfb i = true -> jssp_wfb i = true -> jssp_admb cfg i (reset i) acts = true ->
    (forall p q sp, acts = p ++ q -> q <> [] -> jssp_run cfg i (reset i) p = Some sp -> done sp = false) ->
    length acts <= (if cfg then total_ops i else total_ops i + total_ops i).
Proof. exact jssp_bound_prefix. Qed.
Print Assumptions C02_jssp_bound_unfinished_prefixes.

(* ================================================================ FFSP *)
(* an unfinished row is always offered a real job; a finished row exactly the wait action (its inert action) *)
Theorem C02_ffsp_no_dead_end :
  forall (i : FFSP.inst) (acts : list nat),
    FFSP.wfb i = true -> FFSP.adm i (FFSP.reset i) acts = true ->
    exists s, FFSP.run i (FFSP.reset i) acts = Some s /\
      (FFSP.done s = false -> exists j, (j < FFSP.nJ i)%nat /\ nth j (FFSP.mask s) false = true) /\
      (FFSP.done s = true -> nth (FFSP.nJ i) (FFSP.mask s) false = true /\
                             forall j, (j < FFSP.nJ i)%nat -> nth j (FFSP.mask s) false = false).
Proof. exact FFSPProofs.FFSP_no_dead_end. Qed.
Print Assumptions C02_ffsp_no_dead_end.

(* offered actions never index out of range and the do-while loop of _move_to_next_machine returns within its fuel *)
Theorem C02_ffsp_offered_step_total_loop_terminates :
  forall (i : FFSP.inst) (acts : list nat) (a : nat),
    FFSP.wfb i = true -> FFSP.adm i (FFSP.reset i) acts = true ->
    exists s, FFSP.run i (FFSP.reset i) acts = Some s /\
      (nth a (FFSP.mask s) false = true -> exists s', FFSP.step i s a = Some s').
Proof. exact FFSPProofs.FFSP_step_total. Qed.
Print Assumptions C02_ffsp_offered_step_total_loop_terminates.

(* done is stable under any amount of padding, every padding action is the wait action, and it can always be taken *)
Theorem C02_ffsp_done_stable_under_padding :
  forall (i : FFSP.inst), FFSP.wfb i = true -> forall (pad acts : list nat) (s : FFSP.st),
    FFSP.adm i (FFSP.reset i) (acts ++ pad) = true -> FFSP.run i (FFSP.reset i) acts = Some s -> FFSP.done s = true ->
    pad = repeat (FFSP.nJ i) (length pad) /\
    exists s', FFSP.run i (FFSP.reset i) (acts ++ pad) = Some s' /\ FFSP.done s' = true /\
      FFSP.schedule_of i s' = FFSP.schedule_of i s /\ FFSP.reward_of i s' = FFSP.reward_of i s.
Proof. exact ffsp_padding_frozen. Qed.
Print Assumptions C02_ffsp_done_stable_under_padding.

Theorem C02_ffsp_finished_row_can_always_wait :
  forall (i : FFSP.inst), FFSP.wfb i = true -> forall (k : nat) (acts : list nat) (s : FFSP.st),
    FFSP.adm i (FFSP.reset i) acts = true -> FFSP.run i (FFSP.reset i) acts = Some s -> FFSP.done s = true ->
    FFSP.adm i (FFSP.reset i) (acts ++ repeat (FFSP.nJ i) k) = true.
Proof. exact ffsp_padding_admitted. Qed.
Print Assumptions C02_ffsp_finished_row_can_always_wait.

(* step bound, part 1: one step per operation -- at most J*S real-job actions, exactly J*S when the row is done; every
   other step is a wait *)
Theorem C02_ffsp_one_step_per_operation :
  forall (i : FFSP.inst) (acts : list nat) (s : FFSP.st),
    FFSP.wfb i = true -> FFSP.adm i (FFSP.reset i) acts = true -> FFSP.run i (FFSP.reset i) acts = Some s ->
    (job_actions i acts <= FFSP.nJ i * FFSP.nS i)%nat /\
    (FFSP.done s = true -> job_actions i acts = (FFSP.nJ i * FFSP.nS i)%nat) /\
    length acts = (job_actions i acts + (length acts - job_actions i acts))%nat.
Proof. exact ffsp_job_actions. Qed.
Print Assumptions C02_ffsp_one_step_per_operation.

(* step bound, part 2: every step of an unfinished row (wait or not) moves the clock time_idx * (S*M) + sub_time_idx strictly
   forward, so an episode is no longer than the clock reading of its last state plus one: waiting cannot go on for ever
   without time passing *)
Theorem C02_ffsp_every_step_advances_the_clock :
  forall (i : FFSP.inst) (acts : list nat) (s' : FFSP.st),
    FFSP.wfb i = true -> FFSP.adm i (FFSP.reset i) acts = true -> FFSP.run i (FFSP.reset i) acts = Some s' ->
    (forall p q sp, acts = p ++ q -> q <> [] -> FFSP.run i (FFSP.reset i) p = Some sp -> FFSP.done sp = false) ->
    (Z.of_nat (length acts) <= FFSP.time s' * Z.of_nat (FFSP.nS i * FFSP.nM i) + Z.of_nat (FFSP.sub s')
                               + (if FFSP.done s' then 1 else 0))%Z.
Proof. exact ffsp_length_le_clock. Qed.
Print Assumptions C02_ffsp_every_step_advances_the_clock.

(* step bound, part 3: time itself is bounded by the instance, whatever the policy does with the wait action.  Dall i = the
   largest duration of the instance.  (time_idx + largest job wait counter + (J*S - real-job steps so far)*(Dall+2) grows only
   in an idle sweep of the stage x machine table; at most one idle sweep fits into one _move_to_next_machine, and it ends
   where the mask does not offer the wait action, so the next step is a real-job step that pays for it.) *)
Theorem C02_ffsp_time_bounded_by_the_instance :
  forall (i : FFSP.inst) (acts : list nat) (s : FFSP.st),
    FFSP.wfb i = true -> FFSP.adm i (FFSP.reset i) acts = true -> FFSP.run i (FFSP.reset i) acts = Some s ->
    (0 <= FFSP.time s <= Z.of_nat (FFSP.nJ i * FFSP.nS i) * (Dall i + 2) + 1)%Z.
Proof. exact ffsp_time_bound. Qed.
Print Assumptions C02_ffsp_time_bounded_by_the_instance.

(* hence THE step bound of FFSP: a mask-confined episode (waits included, any policy) whose proper prefixes are unfinished
   has at most (J*S*(Dall+2) + 2) * S*M steps *)
Theorem C02_ffsp_step_bound :
  forall (i : FFSP.inst) (acts : list nat) (s : FFSP.st),
    FFSP.wfb i = true -> FFSP.adm i (FFSP.reset i) acts = true -> FFSP.run i (FFSP.reset i) acts = Some s ->
    (forall p q sp, acts = p ++ q -> q <> [] -> FFSP.run i (FFSP.reset i) p = Some sp -> FFSP.done sp = false) ->
    (Z.of_nat (length acts) <= (Z.of_nat (FFSP.nJ i * FFSP.nS i) * (Dall i + 2) + 2) * Z.of_nat (FFSP.nS i * FFSP.nM i))%Z.
Proof. exact ffsp_step_bound. Qed.
Print Assumptions C02_ffsp_step_bound.

(* ... but the number of waits is NOT bounded by the instance SIZE: J*S*(1+M) is exceeded on a 2-job, 2-stage, 1-machine
   instance with one long operation (13 admitted steps, bound 8) -- the wait count depends on the durations *)
Theorem C02_ffsp_ops_times_machines_bound_refuted :
  FFSP.wfb wait_i = true /\ FFSP.adm wait_i (FFSP.reset wait_i) wait_acts = true /\
  (exists s, FFSP.run wait_i (FFSP.reset wait_i) wait_acts = Some s /\ FFSP.done s = true) /\
  (forall p q sp, wait_acts = p ++ q -> q <> [] -> FFSP.run wait_i (FFSP.reset wait_i) p = Some sp -> FFSP.done sp = false) /\
  (FFSP.nJ wait_i * FFSP.nS wait_i * (1 + FFSP.nM wait_i) < length wait_acts)%nat.
Proof. exact ffsp_ops_times_machines_bound_refuted. Qed.
Print Assumptions C02_ffsp_ops_times_machines_bound_refuted.

(* ================================================================ SMTWTP *)
(* no inert action exists (the mask of a finished row is empty).  What holds instead: every mask-confined prefix can be
   executed, has at most n jobs, is done exactly at n, and offers a job before that ... *)
Theorem C02_smtwtp_no_dead_end_exact_length :
  forall (i : SMTWTP.inst) (acts : list nat),
    SMTWTP.wfb i = true -> SMTWTP.adm i (SMTWTP.reset i) acts = true ->
    exists s, SMTWTP.run i (SMTWTP.reset i) acts = Some s /\
      (length acts <= SMTWTP.n_job i)%nat /\
      (SMTWTP.done s = true <-> length acts = SMTWTP.n_job i) /\
      (SMTWTP.done s = false -> exists a, nth a (SMTWTP.mask s) false = true) /\
      (forall a, nth a (SMTWTP.mask s) false = true -> exists s', SMTWTP.step i s a = Some s').
Proof. exact smtwtp_no_dead_end_before_done. Qed.
Print Assumptions C02_smtwtp_no_dead_end_exact_length.

(* ... and all rows of a batch (one tensor width n+1) finish at the same step: no row is done while another runs *)
Theorem C02_smtwtp_batch_finishes_together :
  forall (i1 i2 : SMTWTP.inst) (acts1 acts2 : list nat) (s1 s2 : SMTWTP.st),
    SMTWTP.wfb i1 = true -> SMTWTP.wfb i2 = true -> SMTWTP.n_job i1 = SMTWTP.n_job i2 -> length acts1 = length acts2 ->
    SMTWTP.adm i1 (SMTWTP.reset i1) acts1 = true -> SMTWTP.adm i2 (SMTWTP.reset i2) acts2 = true ->
    SMTWTP.run i1 (SMTWTP.reset i1) acts1 = Some s1 -> SMTWTP.run i2 (SMTWTP.reset i2) acts2 = Some s2 ->
    SMTWTP.done s1 = SMTWTP.done s2.
Proof. exact smtwtp_batch_finishes_together. Qed.
Print Assumptions C02_smtwtp_batch_finishes_together.

(* ================================================================ non-vacuity *)
Example C02_sched_nonvacuous_fjsp :
  wfb ex_i = true /\ solvableb ex_i = true /\ jssp_wfb ex_i = true /\
  admb true ex_i (reset ex_i) [1; 4; 2; 0] = true /\ admb false ex_i (reset ex_i) [1; 4; 0; 0; 2; 0; 0] = true /\
  jssp_admb true ex_i (reset ex_i) [1; 2; 1] = true /\
  active_steps true ex_i (reset ex_i) [1; 4; 2; 0] = 3 /\ active_steps false ex_i (reset ex_i) [1; 4; 0; 0; 2; 0; 0] = 6 /\
  total_ops ex_i = 3.
Proof. vm_compute. repeat split. Qed.
Example C02_sched_dead_end_without_solvable :
  wfb ex_unsolvable = true /\ solvableb ex_unsolvable = false /\
  existsb (fun b => b) (mask true ex_unsolvable (reset ex_unsolvable)) = false.
Proof. vm_compute. repeat split. Qed.
Example C02_sched_nonvacuous_ffsp_smtwtp :
  FFSP.wfb FFSP.ex_i = true /\ FFSP.adm FFSP.ex_i (FFSP.reset FFSP.ex_i) (FFSP.ex_acts ++ [3%nat; 3%nat]) = true /\
  job_actions FFSP.ex_i FFSP.ex_acts = 6%nat /\ Dall FFSP.ex_i = 3%Z /\ Dall wait_i = 9%Z /\
  SMTWTP.wfb SMTWTP.ex_i = true /\ SMTWTP.adm SMTWTP.ex_i (SMTWTP.reset SMTWTP.ex_i) [2%nat; 3%nat; 1%nat] = true.
Proof. vm_compute. repeat split. Qed.
