(* C05 for OP -- the mask never hides a tour with slack >= eps. Statements only. *)
From Coq Require Import ZArith List Bool.
From RL4CO Require Import Base.Num Base.EnvSig Spec.Routes Env.OP Env.OPProofs.
Import ListNotations.
Open Scope Z_scope.

(* The env is deliberately tighter than the problem by its constant eps (1e-6, instance data here so that the
   statement is scale-agnostic).  EVERY solution of the problem -- a sequence cs of distinct customers -- whose closed
   length depot -> cs -> depot leaves slack >= eps below the original max_length is reachable through the mask in its
   encoding cs ++ [0] ([0;0] for the empty tour), the row is finished at its end, and its objective is the sum of
   the prizes of cs.  Metric hypothesis (explicit, evaluated on every generated instance): returning to the depot
   obeys the triangle inequality d(a,0) <= d(a,b) + d(b,0). *)
Theorem C05_op_mask_complete :
  forall (i : op_inst) (cs : list nat),
    op_wf i ->
    (forall a b, odfun i a 0%nat <= odfun i a b + odfun i b 0%nat) ->
    NoDup cs -> (forall x, In x cs -> (1 <= x <= op_n i)%nat) ->
    route_len (odfun i) cs + eps i <= maxlen i ->
    adm (E:=OP exact) i (op_encode cs) = true /\
    done (OP exact) i (run (E:=OP exact) i (op_encode cs)) = true /\
    op_objective i (op_encode cs) = sumZ (map (prize i) cs).
Proof. exact op_mask_complete. Qed.
Print Assumptions C05_op_mask_complete.

(* the metric-free core: tours all of whose non-empty prefixes can be closed with eps to spare *)
Theorem C05_op_mask_complete_prefix :
  forall (i : op_inst) (cs : list nat),
    op_wf i -> NoDup cs -> (forall x, In x cs -> (1 <= x <= op_n i)%nat) ->
    (forall pre suf, cs = pre ++ suf -> pre <> [] -> route_len (odfun i) pre + eps i <= maxlen i) ->
    adm (E:=OP exact) i (op_encode cs) = true /\
    done (OP exact) i (run (E:=OP exact) i (op_encode cs)) = true /\
    op_objective i (op_encode cs) = sumZ (map (prize i) cs).
Proof. exact op_mask_complete_prefix. Qed.
Print Assumptions C05_op_mask_complete_prefix.

(* non-vacuity and sharpness: with eps = 1 the tour 1,2 of length 12 is offered under limit 13 and hidden under
   limit 12 although it is feasible for the problem (the documented tightness, no more: slack 0 < eps) *)
Example C05_op_sharp :
  let d := [[0; 3; 4]; [3; 0; 5]; [4; 5; 0]] in
  let i13 := {| prz := [10; 20]; maxlen := 13; eps := 1; odist := d; otol := 0 |} in
  let i12 := {| prz := [10; 20]; maxlen := 12; eps := 1; odist := d; otol := 0 |} in
  op_tri0b i13 = true /\ route_len (odfun i13) [1; 2]%nat = 12 /\
  adm (E:=OP exact) i13 (op_encode [1; 2]%nat) = true /\
  adm (E:=OP exact) i12 (op_encode [1; 2]%nat) = false /\ op_feasibleb i12 0 [1; 2; 0]%nat = true.
Proof. vm_compute. auto. Qed.
