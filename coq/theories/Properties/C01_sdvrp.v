(* C01 for SDVRP -- mask-confined episodes yield feasible split-delivery solutions. Statements only. *)
From Coq Require Import ZArith List Bool.
From RL4CO Require Import Base.Num Base.EnvSig Spec.Routes Spec.SplitDelivery Env.CVRP Env.CVRPProofs Env.SDVRP Env.SDVRPProofs.
Import ListNotations.
Open Scope Z_scope.

(* A solution is a visit sequence; it stands for the PLAN obtained by delivering greedily,
   min(remaining demand, remaining capacity), at every customer visit (the encoding the library and its checker
   define; Spec/SplitDelivery.greedy).  For every instance in the documented format (non-negative demands and
   capacity) and EVERY action list whose actions each lie in the mask of the state they are taken in, once the row
   reports done, that plan solves the split-delivery problem: only existing nodes are visited, no route (maximal
   depot-free segment) delivers more than the capacity, every customer receives exactly its demand over all visits --
   and no visit is pointless: every customer visit delivers a positive quantity. *)
Theorem C01_sdvrp_mask_sound :
  forall (i : cvrp_inst) (acts : list nat),
    cvrp_wf i ->
    adm (E:=SDVRP exact) i acts = true ->
    done (SDVRP exact) i (run (E:=SDVRP exact) i acts) = true ->
    let p := greedy (0 :: dem i) (cap i) 0 acts in
    ((forall v, In v p -> (fst v <= n_of i)%nat) /\
     Forall (fun r => sumZ (map snd r) <= cap i) (plan_routes p) /\
     (forall j, (1 <= j <= n_of i)%nat -> delivered_to j p = demand i j)) /\
    (forall v, In v p -> fst v <> 0%nat -> 0 < snd v).
Proof. exact sdvrp_mask_sound. Qed.
Print Assumptions C01_sdvrp_mask_sound.

(* non-vacuity: 40 + 40 > 64: customer 2 is split over two routes (24 + 16), the vehicle is filled exactly *)
Example C01_sdvrp_nonvacuous :
  let i := {| dem := [40; 40]; cap := 64; dist := []; tol := 0 |} in
  cvrp_wfb i = true /\ adm (E:=SDVRP exact) i [1; 2; 0; 2]%nat = true /\
  done (SDVRP exact) i (run (E:=SDVRP exact) i [1; 2; 0; 2]%nat) = true /\
  greedy (0 :: dem i) (cap i) 0 [1; 2; 0; 2]%nat = [(1%nat, 40); (2%nat, 24); (0%nat, 0); (2%nat, 16)] /\
  mask (SDVRP exact) i (run (E:=SDVRP exact) i [1; 2]%nat) = [true; false; false].
Proof. vm_compute. auto. Qed.
