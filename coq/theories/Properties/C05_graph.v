(* C05 (unit graph) -- FLPEnv, MCPEnv: the mask never hides a feasible selection; the optimum over all subsets of size k
   stays reachable.  Only statements closed by [exact] and their Print Assumptions.
   Models: Env/FLP.v, Env/MCP.v (C08's; one batch row, variable by variable).  [*_run I (reset I) as_ = Some s] = every
   action of [as_] lay inside the mask of the state it was taken in, no step raised, [s] is the state reached.
   Problem definition (no env bookkeeping): a solution is a list of exactly quota distinct items in range;
     FLP objective  = - sum over the points p of  min over the chosen locations a of D[a][p]   ([spec_mindist]);
     MCP objective  = sum of w[j] over the items j+1 listed by at least one chosen set         ([coveredb]).
   All statements hold for every number of items and every quota. *)
From Coq Require Import ZArith List Bool Arith Permutation.
From RL4CO Require Import Env.Selection Env.FLP Env.MCP Env.GraphComplete.
Import ListNotations.
Open Scope Z_scope.

(* ================================================================ FLP *)
(* every selection of exactly to_choose distinct locations, in ANY order, is admitted step by step, the row is done
   exactly at its end (at no proper non-empty prefix), and its reward is the objective of the set *)
Theorem C05_flp_mask_complete :
  forall (I : flp_inst) (as_ : list nat),
    flp_wf I ->
    NoDup as_ -> Forall (fun a => (a < f_n I)%nat) as_ -> Z.of_nat (length as_) = f_q I ->
    exists s : flp_st,
      flp_run I (flp_reset I) as_ = Some s /\ f_done s = true /\
      (forall k s', (0 < k < length as_)%nat -> flp_run I (flp_reset I) (firstn k as_) = Some s' -> f_done s' = false) /\
      flp_reward I s = Some (- sumZ (map (spec_mindist I as_) (seq 0 (f_n I)))).
Proof. exact flp_mask_complete_unfolded. Qed.
Print Assumptions C05_flp_mask_complete.

(* the objective depends on the set only, not on the order of selection *)
Theorem C05_flp_order_irrelevant :
  forall (I : flp_inst) (as_ bs : list nat), Permutation as_ bs -> flp_objective I as_ = flp_objective I bs.
Proof. exact flp_order_irrelevant. Qed.
Print Assumptions C05_flp_order_irrelevant.

(* spec_mindist really is "distance to the nearest chosen location" *)
Theorem C05_flp_objective_is_nearest_facility :
  forall (I : flp_inst) (a : nat) (r : list nat) (p : nat),
    (exists c, In c (a :: r) /\ spec_mindist I (a :: r) p = Dat I c p) /\
    (forall c, In c (a :: r) -> spec_mindist I (a :: r) p <= Dat I c p).
Proof. exact spec_mindist_is_min. Qed.
Print Assumptions C05_flp_objective_is_nearest_facility.

(* the complete mask-confined episodes are EXACTLY the orderings of the feasible sets *)
Theorem C05_flp_reachable_iff_feasible :
  forall (I : flp_inst) (as_ : list nat), flp_wf I ->
    ((exists s, flp_complete_episode I as_ s) <-> flp_feasible I as_).
Proof. exact flp_reachable_iff_feasible. Qed.
Print Assumptions C05_flp_reachable_iff_feasible.

(* for every feasible set X the env reaches, along every ordering of X, a finished episode whose reward is the
   objective of X: in particular the optimum over all k-subsets is a reachable reward ... *)
Theorem C05_flp_optimum_reachable :
  forall (I : flp_inst) (X : list nat), flp_wf I -> flp_feasible I X ->
    forall as_, Permutation X as_ ->
    exists s, flp_complete_episode I as_ s /\ flp_reward I s = Some (flp_objective I X).
Proof. exact flp_optimum_reachable. Qed.
Print Assumptions C05_flp_optimum_reachable.

(* ... and every reachable reward is the objective of a feasible set (so best reachable = optimum) *)
Theorem C05_flp_reachable_reward_is_objective :
  forall (I : flp_inst) (as_ : list nat) (s : flp_st), flp_wf I -> flp_complete_episode I as_ s ->
    flp_feasible I as_ /\ flp_reward I s = Some (flp_objective I as_).
Proof. exact flp_reachable_reward_is_objective. Qed.
Print Assumptions C05_flp_reachable_reward_is_objective.

(* ================================================================ MCP *)
Theorem C05_mcp_mask_complete :
  forall (I : mcp_inst) (as_ : list nat),
    mcp_wf I ->
    NoDup as_ -> Forall (fun a => (a < length (m_mem I))%nat) as_ -> Z.of_nat (length as_) = m_q I ->
    exists s : mcp_st,
      mcp_run I (mcp_reset I) as_ = Some s /\ m_done s = true /\
      (forall k s', (0 < k < length as_)%nat -> mcp_run I (mcp_reset I) (firstn k as_) = Some s' -> m_done s' = false) /\
      mcp_reward I s =
        Some (sumZ (map (fun j => if coveredb (m_mem I) as_ j then nth j (m_w I) 0 else 0) (seq 0 (length (m_w I))))).
Proof. exact mcp_mask_complete_unfolded. Qed.
Print Assumptions C05_mcp_mask_complete.

Theorem C05_mcp_order_irrelevant :
  forall (I : mcp_inst) (as_ bs : list nat), Permutation as_ bs -> mcp_objective I as_ = mcp_objective I bs.
Proof. exact mcp_order_irrelevant. Qed.
Print Assumptions C05_mcp_order_irrelevant.

(* coveredb really is "listed by at least one chosen set" *)
Theorem C05_mcp_objective_is_coverage :
  forall (mem : list (list Z)) (as_ : list nat) (j : nat),
    coveredb mem as_ j = true <-> exists a, In a as_ /\ In (Z.of_nat (S j)) (nth a mem []).
Proof. exact coveredb_iff. Qed.
Print Assumptions C05_mcp_objective_is_coverage.

Theorem C05_mcp_reachable_iff_feasible :
  forall (I : mcp_inst) (as_ : list nat), mcp_wf I ->
    ((exists s, mcp_complete_episode I as_ s) <-> mcp_feasible I as_).
Proof. exact mcp_reachable_iff_feasible. Qed.
Print Assumptions C05_mcp_reachable_iff_feasible.

Theorem C05_mcp_optimum_reachable :
  forall (I : mcp_inst) (X : list nat), mcp_wf I -> mcp_feasible I X ->
    forall as_, Permutation X as_ ->
    exists s, mcp_complete_episode I as_ s /\ mcp_reward I s = Some (mcp_objective I X).
Proof. exact mcp_optimum_reachable. Qed.
Print Assumptions C05_mcp_optimum_reachable.

Theorem C05_mcp_reachable_reward_is_objective :
  forall (I : mcp_inst) (as_ : list nat) (s : mcp_st), mcp_wf I -> mcp_complete_episode I as_ s ->
    mcp_feasible I as_ /\ mcp_reward I s = Some (mcp_objective I as_).
Proof. exact mcp_reachable_reward_is_objective. Qed.
Print Assumptions C05_mcp_reachable_reward_is_objective.

(* ================================================================ non-vacuity *)
Example C05_graph_nonvacuous :
  flp_wf flp_ex /\ flp_feasible flp_ex [3; 1]%nat /\ flp_objective flp_ex [3; 1]%nat = -9 /\
  option_map (flp_reward flp_ex) (flp_run flp_ex (flp_reset flp_ex) [1; 3]%nat) = Some (Some (-9)) /\
  mcp_wf mcp_ex /\ mcp_feasible mcp_ex [3; 0]%nat /\ mcp_objective mcp_ex [0; 3]%nat = 120 /\
  option_map (mcp_reward mcp_ex) (mcp_run mcp_ex (mcp_reset mcp_ex) [3; 0]%nat) = Some (Some 120).
Proof.
  destruct flp_complete_ex as [A [B [_ [C [_ D]]]]]. destruct mcp_complete_ex as [E [F [_ [G H]]]].
  exact (conj A (conj B (conj C (conj D (conj E (conj F (conj G H))))))).
Qed.
