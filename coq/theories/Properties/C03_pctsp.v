(* C03 for PCTSPEnv -- the value of _get_reward equals the objective of the problem definition. *)
From Coq Require Import ZArith List Bool.
From RL4CO Require Import Base.Num Base.EnvSig Spec.Routes Env.PCTSP Env.PCTSPProofs.
Import ListNotations.
Open Scope Z_scope.

(* for ANY action list with more than one entry in which no customer occurs twice and only existing nodes occur:
   saved penalties - (cyclic gather+roll length + all penalties), which is what _get_reward computes, equals
   minus (sum over routes of depot -> customers -> depot + penalties of the customers that are NOT visited),
   whenever d(0,0) = 0 *)
Theorem C03_pctsp_reward_is_objective :
  forall (i : pctsp_inst) (acts : list nat),
    mget (pdist i) 0 0 = 0 ->
    NoDup (customers acts) -> (forall a, In a acts -> (a <= pn_of i)%nat) -> length acts <> 1%nat ->
    pctsp_reward i acts =
    - (sumZ (map (route_len (pdfun i)) (routes acts))
       + sumZ (map (penalty i) (filter (fun j => negb (existsb (Nat.eqb j) acts)) (seq 1 (pn_of i))))).
Proof. exact pctsp_reward_is_objective_gen. Qed.
Print Assumptions C03_pctsp_reward_is_objective.

(* in particular for every completed mask-confined episode *)
Theorem C03_pctsp_reward_is_objective_on_episodes :
  forall (i : pctsp_inst) (acts : list nat),
    pctsp_wf i -> mget (pdist i) 0 0 = 0 ->
    adm (E:=PCTSP exact) i acts = true -> done (PCTSP exact) i (run (E:=PCTSP exact) i acts) = true ->
    pctsp_reward i acts = pctsp_objective i acts.
Proof. exact pctsp_reward_is_objective. Qed.
Print Assumptions C03_pctsp_reward_is_objective_on_episodes.

Example C03_pctsp_nonvacuous :
  let i := {| dprize := [32; 32; 10]; sprize := [1; 1; 1]; stoch := false; pen := [3; 4; 5]; pdist := [[0; 3; 4; 5]; [3; 0; 5; 4]; [4; 5; 0; 3]; [5; 4; 3; 0]]; preq := 64; pthr := 63 |} in
  pctsp_reward i [1; 2; 0]%nat = - (3 + 5 + 4 + 5) /\ pctsp_objective i [1; 2; 0]%nat = - (3 + 5 + 4 + 5).
Proof. vm_compute. auto. Qed.
