(* C07 (unit fjsp) -- FJSPEnv / JSSPEnv always yield valid schedules with the reported makespan.
   Only statements closed by [exact] and their Print Assumptions.

   Reading guide.  [i : inst] is one batch row's instance exactly as the TensorDict holds it (start_op_per_job,
   end_op_per_job, proc_times, pad_mask), of ANY size.  [cfg] is the constructor flag mask_no_ops.
   [reset / maskb / step / run] are the per-row model of FJSPEnv (Env/FJSP.v); action 0 is the no-op / wait,
   action 1 + j*M + m is (job j, machine m); [step] returns None where the real code would raise (index out of
   range, a failed assert) or where the modelled `while step_complete.any()` loop would need more than
   num_machines time transits.  [admb cfg i (reset i) acts = true]: every action of [acts] (waits and
   post-finish padding included) lies inside the mask of the state it is taken in.
   [valid_schedule] is the independent definition of Spec/Schedule.v; [sinst_of i] is the instance as the
   specification sees it (jobs = the index ranges start_j..end_j, i.e. exactly the non-padded operations);
   [schedule_of s] lists one interval (op, machine, start_times[op], finish_times[op]) per 1 in ma_assignment.
   wfb = the input format the generators and parsers produce; solvableb = every real operation has at least
   one machine with positive processing time; jssp_wfb = exactly one such machine (JSSP). *)
From Coq Require Import ZArith List Bool Arith.
From RL4CO Require Import Spec.Schedule Env.FJSP Env.FJSPProofs Env.SchedStepwise.
Import ListNotations.

(* For every instance, both values of mask_no_ops and every mask-confined action list: the episode never
   crashes, and if it ends in a done state the observable schedule is valid -- every real operation exactly once,
   on an eligible machine, for exactly its processing time there, job order without overlap, no machine doing two
   things at once -- and the reward is minus its latest completion time. *)
Theorem C07_fjsp_valid :
  forall (cfg : bool) (i : inst) (acts : list nat),
    wfb i = true -> solvableb i = true -> admb cfg i (reset i) acts = true ->
    exists s : st, run cfg i (reset i) acts = Some s /\
      (done s = true ->
       exists mk : Z, reward i s = Some (- mk)%Z /\ valid_schedule (sinst_of i) (schedule_of s) mk).
Proof. exact FJSP_valid. Qed.
Print Assumptions C07_fjsp_valid.

(* No failed assert / index error on mask-allowed actions, and the while loop of _step terminates within
   num_machines transits (the fuel of [advance]) -- termination is part of "run <> None". *)
Theorem C07_fjsp_no_crash_and_loop_terminates :
  forall (cfg : bool) (i : inst) (acts : list nat),
    wfb i = true -> solvableb i = true -> admb cfg i (reset i) acts = true ->
    run cfg i (reset i) acts <> None.
Proof. exact FJSP_no_crash. Qed.
Print Assumptions C07_fjsp_no_crash_and_loop_terminates.

(* The mask of every reachable state offers at least one action (serves C02). *)
Theorem C07_fjsp_no_dead_end :
  forall (cfg : bool) (i : inst) (acts : list nat) (s : st),
    wfb i = true -> solvableb i = true -> admb cfg i (reset i) acts = true ->
    run cfg i (reset i) acts = Some s ->
    existsb (fun b => b) (mask cfg i s) = true.
Proof. exact FJSP_no_dead_end. Qed.
Print Assumptions C07_fjsp_no_dead_end.

(* A finished row is not changed by any further (padding) step. *)
Theorem C07_fjsp_done_stable :
  forall (cfg : bool) (i : inst) (s : st) (a : nat), done s = true -> step cfg i s a = Some s.
Proof. exact FJSP_done_stable. Qed.
Print Assumptions C07_fjsp_done_stable.

(* Time is non-negative and never runs backwards. *)
Theorem C07_fjsp_time_monotone :
  forall (cfg : bool) (i : inst) (acts more : list nat) (s s' : st),
    wfb i = true -> solvableb i = true -> admb cfg i (reset i) (acts ++ more) = true ->
    run cfg i (reset i) acts = Some s -> run cfg i (reset i) (acts ++ more) = Some s' ->
    (0 <= time s <= time s')%Z.
Proof. exact FJSP_time_monotone. Qed.
Print Assumptions C07_fjsp_time_monotone.

(* Intermediate states: padded operations are never scheduled, and operation o+1 of a job is scheduled only
   after operation o has been scheduled and has finished. *)
Theorem C07_fjsp_partial_schedule_sound :
  forall (cfg : bool) (i : inst) (acts : list nat) (s : st),
    wfb i = true -> solvableb i = true -> admb cfg i (reset i) acts = true ->
    run cfg i (reset i) acts = Some s ->
    (forall o, total_ops i <= o -> sched s o = false /\ forall m, asg s m o = false) /\
    (forall j o, j < nJ i -> sj i j <= o -> S o <= ej i j -> sched s (S o) = true ->
       sched s o = true /\ (fin s o <= stt s (S o))%Z).
Proof. exact FJSP_partial_schedule_sound. Qed.
Print Assumptions C07_fjsp_partial_schedule_sound.

(* A machine is idle in the env (busy_until <= time) iff no scheduled operation covers [time] on it. *)
Theorem C07_fjsp_machine_idle_iff :
  forall (cfg : bool) (i : inst) (acts : list nat) (s : st) (m : nat),
    wfb i = true -> solvableb i = true -> admb cfg i (reset i) acts = true ->
    run cfg i (reset i) acts = Some s -> m < nM i ->
    ((bu s m <= time s)%Z <-> ~ exists o, asg s m o = true /\ (stt s o <= time s < fin s o)%Z).
Proof. exact FJSP_machine_idle_iff. Qed.
Print Assumptions C07_fjsp_machine_idle_iff.

(* A job whose current operation is scheduled is released (not in process) iff that operation has finished. *)
Theorem C07_fjsp_job_released_iff :
  forall (cfg : bool) (i : inst) (acts : list nat) (s : st) (j : nat),
    wfb i = true -> solvableb i = true -> admb cfg i (reset i) acts = true ->
    run cfg i (reset i) acts = Some s -> j < nJ i -> sched s (nxt s j) = true ->
    (inp s j = false <-> (fin s (nxt s j) <= time s)%Z).
Proof. exact FJSP_job_released_iff. Qed.
Print Assumptions C07_fjsp_job_released_iff.

(* The release phase of _transit_to_next_time, which the batched code applies to ALL rows whenever any row
   transits, leaves every reachable row unchanged: the per-row model is what the batched code does to a row. *)
Theorem C07_fjsp_release_phase_inert :
  forall (cfg : bool) (i : inst) (acts : list nat) (s : st),
    wfb i = true -> solvableb i = true -> admb cfg i (reset i) acts = true ->
    run cfg i (reset i) acts = Some s -> release i s = s.
Proof. exact FJSP_release_inert_reachable. Qed.
Print Assumptions C07_fjsp_release_phase_inert.

(* Episode length (serves C02).  [active_steps] counts the steps taken while the row is not yet done (all later
   steps are inert padding by C07_fjsp_done_stable); [step_bound cfg i] = ops if mask_no_ops else ops + ops
   (every wait releases at least one operation). *)
Theorem C07_fjsp_bound :
  forall (cfg : bool) (i : inst) (acts : list nat),
    wfb i = true -> solvableb i = true -> admb cfg i (reset i) acts = true ->
    active_steps cfg i (reset i) acts <= step_bound cfg i.
Proof. exact FJSP_bound. Qed.
Print Assumptions C07_fjsp_bound.

Theorem C07_fjsp_bound_unfinished_prefixes :
  forall (cfg : bool) (i : inst) (acts : list nat),
    wfb i = true -> solvableb i = true -> admb cfg i (reset i) acts = true ->
    (forall p q sp, acts = p ++ q -> q <> [] -> run cfg i (reset i) p = Some sp -> done sp = false) ->
    length acts <= (if cfg then total_ops i else total_ops i + total_ops i).
Proof. exact FJSP_bound_prefix. Qed.
Print Assumptions C07_fjsp_bound_unfinished_prefixes.

(* FJSPEnv(stepwise_reward=True): the reward is handed out step by step as minus the change of the largest lower bound on an
   operation's finish time (a potential LB of the state; the real one, calc_lower_bound, is not modelled -- ANY potential
   will do).  The schedule is the same valid schedule, and "the reported makespan" in this mode is  LB(reset) - sum of the
   step rewards : it equals LB of the final state, hence the makespan whenever LB(final) is the makespan (calc_lower_bound's
   own assert; checked by the correspondence on every run). *)
Theorem C07_fjsp_stepwise_reported_makespan :
  forall (LB : st -> Z) (cfg : bool) (i : inst) (acts : list nat),
    wfb i = true -> solvableb i = true -> admb cfg i (reset i) acts = true ->
    exists (tr : list st) (s : st),
      trace cfg i (reset i) acts = Some tr /\ length tr = length acts /\ last tr (reset i) = s /\
      run cfg i (reset i) acts = Some s /\
      (LB (reset i) - zsum (sw_rewards st LB (reset i) tr))%Z = LB s /\
      (done s = true ->
       exists mk : Z, reward i s = Some (- mk)%Z /\ valid_schedule (sinst_of i) (schedule_of s) mk /\
         (LB s = mk -> (LB (reset i) - zsum (sw_rewards st LB (reset i) tr))%Z = mk)).
Proof. exact fjsp_stepwise_telescopes. Qed.
Print Assumptions C07_fjsp_stepwise_reported_makespan.

(* JSSPEnv (own mask over jobs, own action translation job -> its one eligible machine). *)
Theorem C07_jssp_valid :
  forall (cfg : bool) (i : inst) (acts : list nat),
    wfb i = true -> jssp_wfb i = true -> jssp_admb cfg i (reset i) acts = true ->
    exists s : st, jssp_run cfg i (reset i) acts = Some s /\
      (done s = true ->
       exists mk : Z, reward i s = Some (- mk)%Z /\ valid_schedule (sinst_of i) (schedule_of s) mk).
Proof. exact JSSP_valid. Qed.
Print Assumptions C07_jssp_valid.

(* Every mask-confined JSSP episode is a mask-confined FJSP episode of the same length with the same final state. *)
Theorem C07_jssp_is_fjsp_episode :
  forall (cfg : bool) (i : inst) (acts : list nat),
    wfb i = true -> jssp_wfb i = true -> jssp_admb cfg i (reset i) acts = true ->
    exists (s : st) (acts' : list nat),
      jssp_run cfg i (reset i) acts = Some s /\ length acts' = length acts /\
      admb cfg i (reset i) acts' = true /\ run cfg i (reset i) acts' = Some s.
Proof. exact JSSP_embedding. Qed.
Print Assumptions C07_jssp_is_fjsp_episode.

Theorem C07_jssp_no_dead_end :
  forall (cfg : bool) (i : inst) (acts : list nat) (s : st),
    wfb i = true -> jssp_wfb i = true -> jssp_admb cfg i (reset i) acts = true ->
    jssp_run cfg i (reset i) acts = Some s ->
    existsb (fun b => b) (jssp_mask cfg i s) = true.
Proof. exact JSSP_no_dead_end. Qed.
Print Assumptions C07_jssp_no_dead_end.

(* The boolean twin evaluated on every implementation schedule decides the specification. *)
Theorem C07_valid_scheduleb_decides :
  forall (I : sinst) (es : list entry) (mk : Z), valid_scheduleb I es mk = true <-> valid_schedule I es mk.
Proof. exact valid_scheduleb_iff. Qed.
Print Assumptions C07_valid_scheduleb_decides.

(* ---- non-vacuity: a concrete instance (2 jobs, 2 machines, one padded column) and episodes satisfying the
   hypotheses, ending done, for both flag values (with waits when they are allowed) and for JSSP *)
Example C07_fjsp_nonvacuous :
  wfb ex_i = true /\ solvableb ex_i = true /\ jssp_wfb ex_i = true /\
  admb true ex_i (reset ex_i) [1; 4; 2; 0] = true /\
  admb false ex_i (reset ex_i) [1; 4; 0; 0; 2; 0; 0] = true /\
  jssp_admb true ex_i (reset ex_i) [1; 2; 1] = true /\
  match run true ex_i (reset ex_i) [1; 4; 2; 0], run false ex_i (reset ex_i) [1; 4; 0; 0; 2; 0; 0],
        jssp_run true ex_i (reset ex_i) [1; 2; 1] with
  | Some s1, Some s2, Some s3 =>
      done s1 = true /\ done s2 = true /\ done s3 = true /\ reward ex_i s1 = Some (-5)%Z /\
      valid_scheduleb (sinst_of ex_i) (schedule_of s2) 5%Z = true /\ schedule_of s3 = schedule_of s1
  | _, _, _ => False
  end.
Proof. vm_compute. repeat split. Qed.
(* the step bound is attained for both flag values on the same instance (3 operations) *)
Example C07_fjsp_bound_tight :
  active_steps true ex_i (reset ex_i) [1; 4; 2; 0] = 3 /\ step_bound true ex_i = 3 /\
  active_steps false ex_i (reset ex_i) [1; 4; 0; 0; 2; 0; 0] = 6 /\ step_bound false ex_i = 6.
Proof. vm_compute. repeat split. Qed.
(* solvableb cannot be dropped *)
Example C07_fjsp_dead_end_without_solvable :
  wfb ex_unsolvable = true /\ solvableb ex_unsolvable = false /\
  existsb (fun b => b) (mask true ex_unsolvable (reset ex_unsolvable)) = false /\
  existsb (fun b => b) (mask false ex_unsolvable (reset ex_unsolvable)) = false.
Proof. exact FJSP_dead_end_without_solvable. Qed.
